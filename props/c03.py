"""C03 - concentrated swaps follow the curve, round in the pool's favour, match quotes: generator, oracle, correspondence."""
import copy
import json
from fractions import Fraction

from lib import common
from lib.common import Rng, Outcome
from props import _cl

PROP = "C03"
GO_PKGS = [("cldrv", True)]
MODEL_VO = ["theories/C03/Corr.vo"]
ALLOWED_AXIOMS = []
translate = _cl.translate

E36 = 10**36
E18 = 10**18


# ---------------------------------------------------------------------------------------------
# the ideal: the exact piecewise constant-liquidity curve, walked through the same initialised ticks (with the implementation's own
# TickToSqrtPrice values as bucket edges) with the same spread factor, in exact rational arithmetic
# ---------------------------------------------------------------------------------------------
def walk_ticks(pre, zfo):
    """(index, net liquidity, sqrt price) of the initialised ticks ahead of the price, in traversal order"""
    ts = [(int(t[0]), Fraction(int(t[2]), E18), Fraction(int(t[3]), E36)) for t in pre["ticks"]]
    if zfo:
        return sorted([t for t in ts if t[0] <= pre["tick"]], key=lambda t: -t[0])
    return sorted([t for t in ts if t[0] > pre["tick"]], key=lambda t: t[0])


def ideal_exact_in(pre, zfo, amount, f):
    """-> (ideal amount out, number of buckets visited, input left when the ticks ran out)"""
    s = Fraction(int(pre["sqrtp"]), E36)
    L = Fraction(int(pre["liq"]), E18)
    R = Fraction(amount)
    out = Fraction(0)
    steps = 0
    for (idx, net, target) in walk_ticks(pre, zfo):
        if R <= 0:
            break
        steps += 1
        if zfo:
            need = L * (1 / target - 1 / s) if target < s else Fraction(0)
        else:
            need = L * (target - s) if target > s else Fraction(0)
        avail = R * (1 - f)
        if avail >= need:
            R -= need / (1 - f)
            if zfo:
                out += L * (s - target) if target < s else 0
            else:
                out += L * (1 / s - 1 / target) if target > s else 0
            s = target
            L += -net if zfo else net
        else:
            if zfo:
                new = L * s / (L + avail * s)
                out += L * (s - new)
            else:
                new = s + avail / L
                out += L * (1 / s - 1 / new)
            s = new
            R = Fraction(0)
    return out, steps, R


def ideal_exact_out(pre, zfo, amount, f):
    """-> (ideal amount in incl. spread charge, buckets visited, output still missing when the ticks ran out)"""
    s = Fraction(int(pre["sqrtp"]), E36)
    L = Fraction(int(pre["liq"]), E18)
    B = Fraction(amount)
    tin = Fraction(0)
    steps = 0
    for (idx, net, target) in walk_ticks(pre, zfo):
        if B <= 0:
            break
        steps += 1
        if zfo:
            avail = L * (s - target) if target < s else Fraction(0)
        else:
            avail = L * (1 / s - 1 / target) if target > s else Fraction(0)
        if B >= avail:
            if zfo:
                need = L * (1 / target - 1 / s) if target < s else Fraction(0)
            else:
                need = L * (target - s) if target > s else Fraction(0)
            tin += need / (1 - f)
            B -= avail
            s = target
            L += -net if zfo else net
        else:
            if zfo:
                new = s - B / L
                need = L * (1 / new - 1 / s)
            else:
                new = L * s / (L - B * s)
                need = L * (new - s)
            tin += need / (1 - f)
            s = new
            B = Fraction(0)
    return tin, steps, B



# ---------------------------------------------------------------------------------------------
# the exact curve as potentials (sums over the positions of the exact amounts each holds at a price), and the proved other half of
# the rounding sandwich (exact_out_upper below is the mirror image, theorem C03_exact_out_upper); for exact-in swaps, theorem C03_exact_in_lower,
#   (A)  (in - 1) (1 - f) - in 10^-18 - k (1 + 10^-18 + 2 10^-24) - U  <  I(c1)      I(c) = exact cost of moving the price c0 -> c
#   (B)  O(c1)  <  out + 1 + k (10^-18 + 10^-36 + 2 10^-24)                          O(c) = exact proceeds of that move
# k = number of iterations of the swap loop, U = sum over the iterations of the input-token value of one unit (10^-36) of the sqrt
# price at the iteration's liquidity and prices.  The oracle does not see the iterations: it uses the number of initialised ticks
# between the two prices + 2 (each iteration but the last one or two crosses one) and for U that k times the largest per-iteration
# value on the way; when that value reaches half a unit the loop can iterate without consuming (up to the no-progress limit of
# 100), which is then added to k.
# ---------------------------------------------------------------------------------------------
TAU = Fraction(2, 10**24)
CONSUME_ERR = 1 + TAU + Fraction(1, E18)
PAY_ERR = Fraction(1, E18) + Fraction(1, E36) + TAU


def potentials(st):
    """(V0, V1): exact token0 / token1 held by all positions at raw sqrt price c"""
    S = {int(t[0]): int(t[3]) for t in st["ticks"]}
    ps = [(int(p[4]), S[int(p[2])], S[int(p[3])]) for p in st["pos"]]

    def v0(c):
        return sum(Fraction(L * E18, min(max(c, lo), hi)) - Fraction(L * E18, hi) for (L, lo, hi) in ps)

    def v1(c):
        return sum(Fraction(L * (min(max(c, lo), hi) - lo), E18 * E36) for (L, lo, hi) in ps)
    return v0, v1


def active_liq(st, t):
    return sum(int(p[4]) for p in st["pos"] if int(p[2]) <= t < int(p[3]))


def loop_bounds(prev, st):
    """(k, U0, U1): bound on the loop iterations and on k * (value of one price unit in token0 / token1), from the two states only"""
    lo, hi = sorted((int(prev["tick"]), int(st["tick"])))
    between = [int(t[0]) for t in prev["ticks"] if lo - 1 <= int(t[0]) <= hi + 1]
    k = len(between) + 2
    pts = {lo, hi, lo - 1, hi + 1} | set(between) | {t - 1 for t in between}
    lmax = max(active_liq(prev, t) for t in pts)
    cmin = min(int(prev["sqrtp"]), int(st["sqrtp"]))
    u0, u1 = Fraction(lmax * E18, cmin * cmin), Fraction(lmax, E18 * E36)
    if 2 * max(u0, u1) >= 1:
        k += 101
    return k, k * u0, k * u1


def exact_in_lower(prev, st, zfo, tin, tout, f):
    v0, v1 = potentials(prev)
    vin, vout = (v0, v1) if zfo else (v1, v0)
    c0, c1 = int(prev["sqrtp"]), int(st["sqrtp"])
    cost = vin(c1) - vin(c0)
    proceeds = vout(c0) - vout(c1)
    k, U0, U1 = loop_bounds(prev, st)
    U = U0 if zfo else U1
    out = []
    paid_for = (tin - 1) * (1 - f) - Fraction(tin, E18) - k * CONSUME_ERR - U
    if not paid_for < cost:
        out.append(("out_below_bound", "the price moved less far than was paid for: (in-1)(1-f) - in*1e-18 - k(1+1e-18+2e-24) - U = %s >= exact cost "
                    "of the move %s (in=%d, k<=%d, U<=%s)" % (float(paid_for), float(cost), tin, k, float(U))))
    if not proceeds < tout + 1 + k * PAY_ERR:
        out.append(("out_below_bound", "paid out %d, but the exact proceeds of the price move are %s (> out + 1 + k(1e-18+1e-36+2e-24), k<=%d)"
                    % (tout, float(proceeds), k)))
    return out


def exact_out_upper(prev, st, zfo, tin, tout, f):
    """theorem C03_exact_out_upper:  O(c1) < out + 1 + k (1e-18 + 1e-36 + 2e-24) + U_out   and
       (in - 1)(1 - f) - in 1e-18 - k (1 + 1e-18 + 2e-24) < I(c1)"""
    v0, v1 = potentials(prev)
    vin, vout = (v0, v1) if zfo else (v1, v0)
    c0, c1 = int(prev["sqrtp"]), int(st["sqrtp"])
    cost = vin(c1) - vin(c0)
    proceeds = vout(c0) - vout(c1)
    k, U0, U1 = loop_bounds(prev, st)
    Uout = U1 if zfo else U0
    out = []
    if not proceeds < tout + 1 + k * PAY_ERR + Uout:
        out.append(("in_above_bound", "the price moved further than delivering %d needs: exact proceeds of the move %s >= out + 1 + k(1e-18+1e-36+2e-24) + U "
                    "(k<=%d, U<=%s)" % (tout, float(proceeds), k, float(Uout))))
    charged_for = (tin - 1) * (1 - f) - Fraction(tin, E18) - k * CONSUME_ERR
    if not charged_for < cost:
        out.append(("in_above_bound", "charged %d, but the exact cost of the price move is %s (< (in-1)(1-f) - in*1e-18 - k(1+1e-18+2e-24), k<=%d)"
                    % (tin, float(cost), k)))
    return out


def oracle(c, obs):
    out = []
    f = Fraction(int(c["spread"]), E18)
    prev = obs["init"]
    for n, st in enumerate(obs["steps"]):
        rop = st["rop"]
        if rop["k"] in ("swap_in", "swap_out"):
            zfo = bool(rop.get("zfo"))
            amt = int(rop["amt"])
            est = st.get("est")

            def bad(kind, what):
                out.append({"what": "op %d %s zfo=%s amount %d: %s" % (n, rop["k"], zfo, amt, what),
                            "rec": {"kind": kind, "op": rop["k"], "zfo": zfo}, "step": n})
            if est is not None and est["touched"]:
                bad("estimate_touches_state", "the estimate query changed the concentrated-liquidity or bank store")
            if st["err"] == 0:
                res = int(st["res"][0])
                # what really moved: the swapper's and the pool's balance deltas
                a = rop["a"]
                i_in, i_out = (0, 1) if zfo else (1, 0)
                tin = int(prev["bal"][3 + a][i_in]) - int(st["bal"][3 + a][i_in])
                tout = int(st["bal"][3 + a][i_out]) - int(prev["bal"][3 + a][i_out])
                dp_in = int(st["bal"][0][i_in]) - int(prev["bal"][0][i_in])
                dp_out = int(prev["bal"][0][i_out]) - int(st["bal"][0][i_out])
                dfee = int(st["bal"][1][i_in]) - int(prev["bal"][1][i_in])
                # the response reports the computed side; the specified side may be consumed / delivered only in part when the
                # price limit of the pool is reached
                if rop["k"] == "swap_in":
                    resp_ok = (res == tout and 0 < tin <= amt)
                else:
                    resp_ok = (res == tin and 0 < tout <= amt)
                if not resp_ok or dp_out != tout or dp_in + dfee != tin or dfee < 0 or dp_in <= 0 or tout <= 0:
                    bad("balances", "user paid %d got %d, pool got %d paid %d, spread account got %d; response %d"
                        % (tin, tout, dp_in, dp_out, dfee, res))
                if f == 0 and dfee != 0:
                    bad("balances", "spread factor 0 but the spread account received %d" % dfee)
                # never more out / never less in than the exact curve prescribes for what was actually charged / delivered,
                # and not further away from it than the rounding of k bucket steps explains
                if rop["k"] == "swap_in":
                    ideal, k, left = ideal_exact_in(prev, zfo, tin, f)
                    if left == 0:
                        if not tout <= ideal:
                            bad("out_gt_ideal", "paid out %d > ideal %s for %d in" % (tout, float(ideal), tin))
                    # ... and not below it by more than the rounding explains: the two PROVED inequalities of C03_exact_in_lower
                    # (coq/theories/C03/Sandwich.v), with exactly the proved constants
                    for kind, what in exact_in_lower(prev, st, zfo, tin, tout, f):
                        bad(kind, what)
                else:
                    ideal, k, left = ideal_exact_out(prev, zfo, tout, f)
                    if left == 0:
                        if not tin >= ideal:
                            bad("in_lt_ideal", "charged %d < ideal %s for %d out" % (tin, float(ideal), tout))
                    # ... and not above it by more than the rounding explains: the two PROVED inequalities of C03_exact_out_upper
                    for kind, what in exact_out_upper(prev, st, zfo, tin, tout, f):
                        bad(kind, what)
                # whenever a swap executes, its result equals the estimate for the same state
                if est is not None:
                    if est["err"] != 0 or int(est["amt"]) != res:
                        bad("estimate_ne_execute", "executed result %d but estimate %s" % (res, "failed" if est["err"] else est["amt"]))
                    # there and straight back never returns more than was put in
                    if est["back_err"] == 0 and int(est["back_amt"]) > tin:
                        bad("there_and_back", "put in %d, got %d, swapping that back is estimated to return %d" % (tin, tout, int(est["back_amt"])))
                    if est["back2_err"] == 0 and int(est["back2_amt"]) > tin:
                        bad("there_and_back", "put in %d, got %d, swapping that back returns %d" % (tin, tout, int(est["back2_amt"])))
                    if est["back2_err"] == 0 and (est["back_err"] != 0 or est["back_amt"] != est["back2_amt"]):
                        bad("estimate_ne_execute", "return swap executes to %s but its estimate is %s" % (est["back2_amt"], "failed" if est["back_err"] else est["back_amt"]))
        prev = st
    return out


# ---------------------------------------------------------------------------------------------
# direct calls of the math functions: structured operands, compared with the model (CLCorr.mcall_ok) and checked against exact rationals
# ---------------------------------------------------------------------------------------------
def gen_math(r, n, witness=False):
    def sqrtp():
        k = r.below(6)
        e = r.range(30, 55)
        if k == 0:
            return 10 ** e
        if k == 1:
            return r.range(10 ** 12, 10 ** 37) * 10 ** 18                  # an 18-decimal value (like every tick sqrt price)
        if k == 2:
            return r.range(10 ** 12, 10 ** 37) * 10 ** 18 + r.choice([-1, 1, 2])
        if k == 3:
            return 10 ** 36 + r.range(-10 ** 33, 10 ** 33)                # near price 1
        return r.range(10 ** (e - 1), 10 ** e)

    def liq():
        return r.choice([0, 1, 4 * 10 ** 17, 10 ** 18, r.range(1, 10 ** 20), r.range(10 ** 20, 10 ** 45)])

    def amt():
        return r.choice([0, 1, 2, r.range(1, 10 ** 6), r.range(10 ** 6, 10 ** 30)])
    calls = []
    if witness:   # the half-ulp witness of known finding C03-F1
        calls.append({"f": "amount1", "x": str(4 * 10 ** 17), "a": str(10 ** 36), "b": str(10 ** 36 + 25 * 10 ** 35 + 1), "ru": True})
    while len(calls) < n:
        f = r.choice(["amount0", "amount1", "amount0", "amount1", "next0in", "next0out", "next1in", "next1out", "liq0", "liq1", "liqfrom", "tick2sqrt", "sqrt2tick"])
        a, b = sqrtp(), sqrtp()
        if r.chance(1, 6):
            b = a + r.choice([0, 1, -1, 10 ** 18])
        if f in ("amount0", "amount1"):
            calls.append({"f": f, "x": str(liq()), "a": str(a), "b": str(b), "ru": r.chance(1, 2)})
        elif f == "next0in":
            calls.append({"f": f, "a": str(a), "x": str(liq() * 10 ** 18), "y": str(amt() * r.choice([10 ** 36, 10 ** 35, 1]))})
        elif f == "next0out":
            calls.append({"f": f, "a": str(a), "x": str(liq() * 10 ** 18), "y": str(amt() * r.choice([10 ** 18, 10 ** 17, 1]))})
        elif f in ("next1in", "next1out"):
            calls.append({"f": f, "a": str(a), "x": str(liq()), "y": str(amt() * r.choice([10 ** 36, 10 ** 35, 1]))})
        elif f in ("liq0", "liq1"):
            calls.append({"f": f, "x": str(amt()), "a": str(a), "b": str(b)})
        elif f == "liqfrom":
            calls.append({"f": f, "c": str(sqrtp()), "a": str(a), "b": str(b), "x": str(amt()), "y": str(amt())})
        elif f == "tick2sqrt":
            calls.append({"f": f, "t": r.choice([0, 1, -1, r.range(-108000002, 342000001), 9000000 * r.range(-12, 38) + r.range(-2, 2)])})
        else:
            calls.append({"f": f, "a": str(a)})
    return calls


def coq_mcall(m):
    z = lambda k: _cl.hz(int(m.get(k, "0") or 0))
    b = "true" if m.get("ru") else "false"
    f = m["f"]
    if f == "amount0":
        return "MAmount0 %s %s %s %s" % (z("x"), z("a"), z("b"), b)
    if f == "amount1":
        return "MAmount1 %s %s %s %s" % (z("x"), z("a"), z("b"), b)
    if f in ("next0in", "next0out", "next1in", "next1out"):
        return {"next0in": "MNext0In", "next0out": "MNext0Out", "next1in": "MNext1In", "next1out": "MNext1Out"}[f] + " %s %s %s" % (z("a"), z("x"), z("y"))
    if f in ("liq0", "liq1"):
        return {"liq0": "MLiq0", "liq1": "MLiq1"}[f] + " %s %s %s" % (z("x"), z("a"), z("b"))
    if f == "liqfrom":
        return "MLiqFrom %s %s %s %s %s" % (z("c"), z("a"), z("b"), z("x"), z("y"))
    if f == "tick2sqrt":
        return "MTick2Sqrt %s" % _cl.hz(m["t"])
    return "MSqrt2Tick %s" % z("a")


def math_oracle(m, res):
    """rounding direction of the amount / next-price functions against exact rationals (only meaningful operands)"""
    if res[0] != "1":
        return []
    v = int(res[1])
    f = m["f"]
    out = []

    def bad(kind, what):
        out.append({"what": "%s(%s) = %d: %s" % (f, {k: m[k] for k in m if k != "f"}, v, what), "rec": {"kind": kind, "fn": f}, "case": {"math": [m]}})
    if f in ("amount0", "amount1"):
        L, a, b = int(m["x"]), int(m["a"]), int(m["b"])
        if L < 0 or a <= 0 or b <= 0:
            return []
        d = abs(a - b)
        exact = Fraction(L * d * 10 ** 54, a * b) if f == "amount0" else Fraction(L * d, 10 ** 18)      # x 10^36
        if m.get("ru"):
            if v % 10 ** 36 != 0:
                bad("amount_round_up_not_whole", "a rounded-up amount must be a whole number of tokens")
            if v < exact:
                if f == "amount1" and v > exact - Fraction(1, 2):
                    bad("amount1_up_below_exact", "below the exact amount %s by less than half a unit of the 36th decimal (MulDec rounds half-even before Ceil)" % exact)
                else:
                    bad("amount_up_below_exact", "below the exact amount %s" % exact)
            elif v >= exact + 10 ** 36 + 2 * (10 ** 36 * 10 ** 36 // min(a, b) + 1 if f == "amount0" else 1):
                bad("amount_up_too_high", "more than a token above the exact amount %s" % exact)
        else:
            if v > exact:
                bad("amount_down_above_exact", "above the exact amount %s" % exact)
    elif f in ("next0in", "next1in", "next0out", "next1out"):
        c, x, y = int(m["a"]), int(m["x"]), int(m["y"])
        if c <= 0 or x <= 0 or y < 0:
            return []
        if f == "next0in":        # liq36, amt36 -> exact L c / (L + a c), rounded up (toward c)
            exact = Fraction(x * c * 10 ** 36, x * 10 ** 36 + y * c)
            if v < exact:
                bad("next_price_direction", "below the exact next price %s (must be rounded toward the current price)" % exact)
        elif f == "next1in":      # liq18, amt36 -> c + a / L, rounded down (toward c)
            exact = c + Fraction(y * 10 ** 18, x)
            if v > exact or v < c:
                bad("next_price_direction", "not in [current, exact next price %s]" % exact)
        elif f == "next1out":     # c - a / L rounded so that the price moves at least as far
            exact = c - Fraction(y * 10 ** 18, x)
            if v > exact:
                bad("next_price_direction", "above the exact next price %s (must be rounded away from the current price)" % exact)
        else:                     # next0out: liq36, amt18 -> L c / (L - a c) rounded up
            den = x * 10 ** 18 - y * c
            if den > 0:
                exact = Fraction(x * c * 10 ** 18, den)
                if v < exact:
                    bad("next_price_direction", "below the exact next price %s (must be rounded away from the current price)" % exact)
    return out


def run_math(r, n_cases, per_case, model_ok, out, K):
    mcases = [{"math": gen_math(r.fork("m%d" % i), per_case, witness=(i == 0))} for i in range(n_cases)]
    obs = _cl.run_cldrv(mcases)
    items, flat = [], []
    for c, o in zip(mcases, obs):
        res = o.get("math") or []
        if len(res) != len(c["math"]):
            out.oracle_violations.append({"what": "driver: math case returned %d results for %d calls" % (len(res), len(c["math"])), "rec": {"kind": "driver_fatal"}, "case": c})
            continue
        for m, rs in zip(c["math"], res):
            out.evaluations += 1
            out.oracle_violations.extend(math_oracle(m, rs))
            flat.append((m, rs))
            if rs[0] == "1":
                out.nontrivial.add(json.dumps(m, sort_keys=True))
    if model_ok and flat:
        per = max(1, -(-len(flat) // (2 * common.NPROC)))
        for fi in range(0, len(flat), per):
            chunk = flat[fi:fi + per]
            body = ";\n  ".join("(%s, %s)" % (coq_mcall(m), _cl.hzlist([int(rs[0]), int(rs[1])])) for m, rs in chunk)
            v = ("From Coq Require Import ZArith List Bool. Import ListNotations.\n"
                 "From Osmo Require Import Base.Obs CL.CLCorr.\nOpen Scope Z_scope.\n"
                 "Definition calls : list (mcall * list Z) := [\n  %s ].\n"
                 "Definition M := Eval vm_compute in mismatches mcall_ok calls.\nPrint M.\n" % body)
            items.append(("C03_math_%d" % (fi // per), v, chunk))
        res = common.coq_eval_many([(n, v) for n, v, _ in items])
        for (name, _, chunk), (rc, o) in zip(items, res):
            mm = common.parse_nat_list(o)
            if rc != 0 or mm is None:
                out.mismatches.append({"what": "model evaluation of math calls failed: " + o[-500:], "case": None})
                continue
            for i in mm:
                out.mismatches.append({"what": "CL math model differs from the implementation on %s -> %s" % (chunk[i][0], chunk[i][1]), "case": {"math": [chunk[i][0]]}})
    return len(flat)


def est_pre(st):
    if st["rop"]["k"] in ("swap_in", "swap_out"):
        e = st["est"]
        return [1, int(e["amt"])] if e["err"] == 0 else [0, 0]
    return []


def est_post(st):
    if st["rop"]["k"] in ("swap_in", "swap_out") and st["err"] == 0:
        e = st["est"]
        if e["back_err"] == -1:      # received amount not positive: the driver did not ask (cannot happen for executed swaps)
            return [0, 0]
        return [1, int(e["back_amt"])] if e["back_err"] == 0 else [0, 0]
    return []


WEIGHTS = {"create": 16, "withdraw": 7, "balance": 2, "add": 3, "transfer": 1, "swap_in": 30, "swap_out": 24, "swap_to_tick": 12, "time": 0, "bad": 2}


def nontrivial(obs):
    prev = obs["init"]
    moved = 0
    for s in obs["steps"]:
        if s["err"] == 0 and s["rop"]["k"] in ("swap_in", "swap_out") and s["sqrtp"] != prev["sqrtp"]:
            moved += 1
        prev = s
    return moved >= 2


def selftest(pairs, K, out):
    big = lambda lim: next(((c, o) for c, o in pairs if any(s["err"] == 0 and s["rop"]["k"] == "swap_in" and int(s["res"][0]) > lim for s in o["steps"])), None)
    c, o = big(400) or big(10) or pairs[0]
    o2 = copy.deepcopy(o)
    st = next(s for s in o2["steps"] if s["err"] == 0 and s["rop"]["k"] == "swap_in" and int(s["res"][0]) > 10)
    x = int(st["res"][0]) + 5                      # the pool pays out more than twice as much, consistently in response and balances
    i_out = 1 if st["rop"].get("zfo") else 0
    st["res"][0] = str(int(st["res"][0]) + x)
    st["bal"][3 + st["rop"]["a"]][i_out] = str(int(st["bal"][3 + st["rop"]["a"]][i_out]) + x)
    st["bal"][0][i_out] = str(int(st["bal"][0][i_out]) - x)
    kinds = {v["rec"]["kind"] for v in oracle(c, o2)}
    if not {"out_gt_ideal", "estimate_ne_execute"} <= kinds:
        out.mismatches.append({"what": "self-test: the oracle did not flag a doubled amount out (%s)" % sorted(kinds), "case": None})
    # the pool pays out 150 less than it did (consistently): below the exact proceeds of the price move by more than the proved allowance
    o4 = copy.deepcopy(o)
    cand = [s for s in o4["steps"] if s["err"] == 0 and s["rop"]["k"] == "swap_in" and int(s["res"][0]) > 400]
    if cand:
        st4 = cand[0]
        i_out = 1 if st4["rop"].get("zfo") else 0
        st4["res"][0] = str(int(st4["res"][0]) - 150)
        st4["bal"][3 + st4["rop"]["a"]][i_out] = str(int(st4["bal"][3 + st4["rop"]["a"]][i_out]) - 150)
        st4["bal"][0][i_out] = str(int(st4["bal"][0][i_out]) + 150)
        kinds4 = {v["rec"]["kind"] for v in oracle(c, o4)}
        if "out_below_bound" not in kinds4:
            out.mismatches.append({"what": "self-test: the oracle did not flag an amount out 150 below the exact proceeds (%s)" % sorted(kinds4), "case": None})
    # an exact-out swap is charged 3 % + 150 more than it was (consistently): above the exact cost of the price move by more than the proved allowance
    pr = next(((c5, o5) for c5, o5 in pairs if any(s["err"] == 0 and s["rop"]["k"] == "swap_out" and int(s["res"][0]) > 400 for s in o5["steps"])), None)
    if pr is not None:
        c5, o5 = pr[0], copy.deepcopy(pr[1])
        st5 = next(s for s in o5["steps"] if s["err"] == 0 and s["rop"]["k"] == "swap_out" and int(s["res"][0]) > 400)
        i_in = 0 if st5["rop"].get("zfo") else 1
        x = int(st5["res"][0]) * 3 // 100 + 150
        st5["res"][0] = str(int(st5["res"][0]) + x)
        st5["bal"][3 + st5["rop"]["a"]][i_in] = str(int(st5["bal"][3 + st5["rop"]["a"]][i_in]) - x)
        st5["bal"][0][i_in] = str(int(st5["bal"][0][i_in]) + x)
        kinds5 = {v["rec"]["kind"] for v in oracle(c5, o5)}
        if "in_above_bound" not in kinds5:
            out.mismatches.append({"what": "self-test: the oracle did not flag an exact-out charge 3%% + 150 above the exact cost (%s)" % sorted(kinds5), "case": None})
    o3 = copy.deepcopy(o)
    st3 = next(s for s in o3["steps"] if s["rop"]["k"] in ("swap_in", "swap_out") and s["est"]["err"] == 0)
    st3["est"]["amt"] = str(int(st3["est"]["amt"]) + 1)
    bad, errs = _cl.eval_cases("C03_self", [(c, o), (c, o3)], K, imports="C03.Corr", pre=est_pre, post=est_post, per_file=2)
    if errs or bad != [1]:
        out.mismatches.append({"what": "self-test: case_ok did not reject exactly the perturbed estimate (got %s %s)" % (bad, errs[:1]), "case": None})
    else:
        out.notes.append("self-test passed: oracle flags a doubled amount out (out_gt_ideal, estimate_ne_execute) and an amount out 150 below the exact proceeds "
                         "(out_below_bound, the proved lower half) and an exact-out charge 3% + 150 above the exact cost (in_above_bound, proved); case_ok rejects an estimate off by one and accepts the original")


def run_cases(cases, model_ok, out, tag, K, selft=False):
    obs = _cl.run_cldrv(cases)
    pairs = []
    for c, o in zip(cases, obs):
        out.evaluations += 1
        if o.get("fatal"):
            out.oracle_violations.append({"what": "driver: " + o["fatal"], "rec": {"kind": "driver_fatal"}, "case": c})
            continue
        for v in oracle(c, o):
            v["case"] = c
            out.oracle_violations.append(v)
        if nontrivial(o):
            out.nontrivial.add(json.dumps(c, sort_keys=True))
        pairs.append((c, o))
    if model_ok and pairs:
        bad, errs = _cl.eval_cases("C03_" + tag, pairs, K, imports="C03.Corr", pre=est_pre, post=est_post)
        for fi, txt in errs:
            out.mismatches.append({"what": "model evaluation failed: " + txt, "case": None})
        for i in bad:
            out.mismatches.append({"what": "CL model observables (incl. estimates) differ from the implementation's", "case": pairs[i][0]})
        if selft:
            selftest(pairs, K, out)
    elif not model_ok:
        out.model_ran = False
    return pairs


def correspond(tier, seed, model_ok):
    out = Outcome()
    K = _cl.consts()
    r = Rng(seed + 3)
    n, nops = (90, 32) if tier == "quick" else (1200, 45)
    cases = [_cl.gen_case(r.fork(i), nops, K, weights=WEIGHTS, est=True) for i in range(n)]
    corpus = common.load_corpus(PROP)
    pairs = run_cases(corpus + cases, model_ok, out, "q", K, selft=True)
    nmath = run_math(r.fork("math"), 8 if tier == "quick" else 80, 120, model_ok, out, K)
    out.notes.append("%d direct calls of CalcAmount0/1Delta, the four GetNextSqrtPrice..., Liquidity0/1, GetLiquidityFromAmounts, TickToSqrtPrice, "
                     "CalculateSqrtPriceToTick on structured operands compared with the model and checked against exact rationals" % nmath)
    out.rule = ("case = a pool state built by an LP history (overlapping / disjoint / adjacent / one-spacing / full ranges, gaps, balanced boundary ticks, all "
                "authorised spacings and spread factors incl. 0, prices 1e-11..1e30) interleaved with swaps in both directions, exact-in and exact-out, amounts from "
                "1 unit to beyond the pool, and swap-to-the-tick (+-1, +-2 units); around every swap: estimate before, estimate and execution of the return swap "
                "after (discarded); non-trivial = at least 2 executed swaps that moved the price; distinct = distinct case JSON")
    out.samples = [{"spacing": c["spacing"], "spread": c["spread"], "ops": c["ops"][:4]} for c in cases[:3]]
    hist, errs, crossed = {}, {}, {}
    for c, o in pairs:
        prev = o["init"]
        for s in o["steps"]:
            k = s["rop"]["k"] + (":ok" if s["err"] == 0 else ":rejected" if s["err"] == 1 else ":panic")
            hist[k] = hist.get(k, 0) + 1
            if s["err"]:
                errs[s["etyp"][:48]] = errs.get(s["etyp"][:48], 0) + 1
            elif s["rop"]["k"] in ("swap_in", "swap_out"):
                lo, hi = sorted((prev["tick"], s["tick"]))
                ncross = sum(1 for t in prev["ticks"] if lo < int(t[0]) <= hi)
                crossed[str(min(ncross, 6))] = crossed.get(str(min(ncross, 6)), 0) + 1
            prev = s
    out.distribution = {"ops": hist, "error_kinds": errs, "ticks_crossed_per_executed_swap": crossed,
                        "spread": {str(k): sum(1 for c in cases if int(c["spread"]) == k) for k in K["cl_AuthorizedSpreadFactors"]},
                        "corpus_cases": len(corpus)}
    out.traces = sum(1 for _, o in pairs for s in o["steps"] if s["rop"]["k"] in ("swap_in", "swap_out"))
    return out


def search(tier, seed, out):
    o2 = Outcome()
    K = _cl.consts()
    r = Rng(seed + 15485863)
    cases = [_cl.gen_case(r.fork(i), 45, K, weights=WEIGHTS, est=True) for i in range(1200)]
    for m in out.mismatches[:20]:
        if m.get("case"):
            cases.append(m["case"])
    run_cases(cases, False, o2, "s", K)
    return o2.oracle_violations[0] if o2.oracle_violations else None


def replay(path):
    d = json.load(open(path))
    c = d["case"].get("case") if isinstance(d.get("case"), dict) else None
    if not c:
        print("replay names a proof obligation / correspondence, not an input:", d.get("what"))
        return 1
    out = Outcome()
    if c.get("math"):
        findings = common.load_findings(PROP)
        o = _cl.run_cldrv([c])[0]
        for m, rs in zip(c["math"], o.get("math") or []):
            for v in math_oracle(m, rs):
                f = common.match_finding(findings, v["rec"])
                print(("known finding %s: " % f["id"] if f else "oracle: ") + v["what"])
                if not f:
                    out.oracle_violations.append(v)
        return 1 if out.oracle_violations else 0
    run_cases([c], True, out, "r", _cl.consts())
    for v in out.oracle_violations:
        print("oracle:", v["what"])
    for m in out.mismatches:
        print("mismatch:", m["what"])
    return 1 if (out.oracle_violations or out.mismatches) else 0


SCOPE = ("full (C03_full_proved): per-step rounding lemmas; whole-swap never-above / never-below the exact curve in the path form (C03_exact_in_vs_ideal, "
         "C03_exact_out_vs_ideal; token1-in with an explicit slack of 1/2*10^-36 token per step, refutation witness included); the other half of the "
         "rounding sandwich in the potential form with explicit allowances, exact-in (C03_exact_in_lower / _sandwich_lower: (in-1)(1-f) - in*1e-18 - "
         "k(1+1e-18+2e-24) - U < exact cost of the price move, exact proceeds < out + 1 + k(1e-18+1e-36+2e-24)) and exact-out (C03_exact_out_upper / "
         "_sandwich_upper: exact proceeds < out + 1 + k(1e-18+1e-36+2e-24) + U, (in-1)(1-f) - in*1e-18 - k(1+1e-18+2e-24) < exact cost), k loop iterations, "
         "U = sum of the value of one 1e-36 unit of sqrt price; estimate = execution (+ refuted converse); there-and-back (C03_there_and_back_le, all "
         "states with the C07 invariant). Not proved: the equivalence of the tick-by-tick ideal walk with the potentials (C03_error_bounded_walk_form)")
EXPLANATION = ("Theorems over the Gallina model CL/{CLMath,CLSwap}.v (function-by-function transcription of swaps.go, swapstrategy/*.go, math/math.go) and the exact "
               "rational walk CL/Ideal.v; the model is tied to /repo by running the real swap route (full app) on generated pool states and comparing every response, "
               "the pool after every operation and the estimate queries; an independent oracle walks the exact curve with python Fractions through the "
               "implementation's own tick sqrt prices.")
TRUSTED = [
    "hand-written model coq/theories/CL/*.v, tied to x/concentrated-liquidity by the correspondence run (harness/cldrv against /repo's working tree)",
    "translator props/_cl.py (regex over types/constants.go, swaps.go, incentives.go, math/precompute.go -> Gen/CL_consts.v)",
    "harness/cldrv + harness/apph (Go), props/_cl.py, props/c03.py (generator, flattening, Fraction oracle), Coq vm_compute on generated case files",
    "modelled not verified: SDK bank keeper, store / CacheContext atomicity, poolmanager routing with taker fee 0; spread-reward accumulator bookkeeping is outside the model",
]
ASSUMPTIONS = [
    "messages are executed atomically (DESIGN.md 1.5); taker fee 0; no CosmWasm hooks",
    "the ideal is the piecewise constant-liquidity curve through the implementation's own TickToSqrtPrice values (the comparison with the irrational curve is not claimed)",
]
TECHNIQUE = "Coq proofs on a Gallina model of the concentrated-liquidity swap (rounding lemmas per bucket step, estimate = execution); differential correspondence (vm_compute) incl. estimates + exact-rational oracle"
LEVEL_TEXT = ("Machine-checked theorems (Coq 8.16.1, axiom-free) about the swap model; the model is hand-written and checked against the real keeper on generated "
              "states on every run; an independent exact-rational oracle checks the never-above-ideal / bounded-below / estimate = execution / there-and-back clauses "
              "on the implementation's outputs.")
LEVEL_NOTE = ("Trusted: Coq kernel (vm_compute, no native_compute), no axioms; hand-written model CL/*.v; translator; Go driver harness/cldrv and python glue. "
              "See coq/theories/C03/STATUS.md for which theorems are full and which are _partial.")
