"""Exact-rational / high-precision fixed-point helpers for the C04 oracle (pure Python integers, no mpmath).
A fixed-point number is an int scaled by 2^PB.  ln / exp are evaluated by range reduction + Taylor/atanh
series with a few guard bits; results are accurate to better than 2^-(PB-40) relative."""
from fractions import Fraction

PB = 512
ONE = 1 << PB
_G = 32  # guard bits inside the series


def _atanh_series(z, prec):
    """atanh(z) for a fixed-point z (scaled 2^prec), |z| <= 1/3"""
    if z < 0:
        return -_atanh_series(-z, prec)
    z2 = (z * z) >> prec
    term = z
    acc = z
    k = 1
    while term:
        term = (term * z2) >> prec
        k += 2
        acc += term // k
    return acc


def _ln2(prec):
    third = (1 << prec) // 3
    return 2 * _atanh_series(third, prec)


_PREC = PB + _G
_LN2 = _ln2(_PREC)
_ln_cache = {}


def fp_ln_frac(x):
    """ln(x) for a positive Fraction (or int) x -> fixed point (2^PB)"""
    x = Fraction(x)
    if x <= 0:
        raise ValueError("ln of non-positive")
    key = (x.numerator, x.denominator)
    v = _ln_cache.get(key)
    if v is not None:
        return v
    prec = _PREC
    # x = m * 2^k with m in [2/3, 4/3)
    k = x.numerator.bit_length() - x.denominator.bit_length()
    m = x / (Fraction(2) ** k)
    while m >= Fraction(4, 3):
        m /= 2
        k += 1
    while m < Fraction(2, 3):
        m *= 2
        k -= 1
    z = (m - 1) / (m + 1)
    zfp = (z.numerator << prec) // z.denominator
    r = 2 * _atanh_series(zfp, prec) + k * _LN2
    v = r >> _G
    if len(_ln_cache) < 200000:
        _ln_cache[key] = v
    return v


def fp_exp(t):
    """exp(t) for fixed-point t (2^PB) -> fixed point (2^PB); t may be any sign / magnitude (result may be a huge int or 0)"""
    prec = _PREC
    t <<= _G
    k = (2 * t + _LN2) // (2 * _LN2)          # nearest integer to t/ln2
    r = t - k * _LN2
    acc = 1 << prec
    term = 1 << prec            # |r|^i / i!  (magnitude); sign handled separately
    neg = r < 0
    ar = -r if neg else r
    i = 1
    while term:
        term = ((term * ar) >> prec) // i
        acc += -term if (neg and i % 2 == 1) else term
        i += 1
    if k >= 0:
        acc <<= k
    else:
        acc >>= -k
    return acc >> _G


def fp_pow(b, e):
    """b^e for Fractions b > 0 and e -> fixed point (2^PB)"""
    b = Fraction(b)
    e = Fraction(e)
    if e == 0 or b == 1:
        return ONE
    lnb = fp_ln_frac(b)
    t = (lnb * e.numerator) // e.denominator
    return fp_exp(t)


def fp(x):
    x = Fraction(x)
    return (x.numerator << PB) // x.denominator


def fp_to_float(v):
    return v / ONE if abs(v) < (1 << (PB + 1000)) else float("inf")
