"""C07 - concentrated pool bookkeeping always agrees with its positions: generator, oracle, correspondence."""
import copy
import json

from lib import common
from lib.common import Rng, Outcome
from props import _cl

PROP = "C07"
GO_PKGS = [("cldrv", True)]
MODEL_VO = ["theories/C07/Corr.vo"]
ALLOWED_AXIOMS = []
translate = _cl.translate

KINDS = ["create", "withdraw", "add", "transfer", "swap_in", "swap_out", "time"]


# ---------------------------------------------------------------------------------------------
# oracle: the property's own predicates on the implementation's dumps (exact integers; written from the
# property text, independent of the Coq model)
# ---------------------------------------------------------------------------------------------
def check_state(o, spacing):
    """relations that must hold in every single state"""
    v = []
    tick, sqrtp, liq = o["tick"], int(o["sqrtp"]), int(o["liq"])
    pos = [(int(p[0]), int(p[1]), int(p[2]), int(p[3]), int(p[4])) for p in o["pos"]]
    # 1. active liquidity = total liquidity of the positions whose range contains the current tick
    want = sum(L for (_, _, lo, hi, L) in pos if lo <= tick < hi)
    if liq != want:
        v.append(("active_liq", "pool liquidity %d but in-range positions sum to %d (tick %d)" % (liq, want, tick)))
    # 2. each stored tick = sums over the positions that use it as a boundary; no other ticks stored
    gross, net = {}, {}
    for (_, _, lo, hi, L) in pos:
        gross[lo] = gross.get(lo, 0) + L
        gross[hi] = gross.get(hi, 0) + L
        net[lo] = net.get(lo, 0) + L
        net[hi] = net.get(hi, 0) - L
    stored = {}
    for t in o["ticks"]:
        if int(t[0]) in stored:
            v.append(("tick_sums", "tick %s stored twice" % t[0]))
        stored[int(t[0])] = (int(t[1]), int(t[2]))
    for b in sorted(set(gross) | set(stored)):
        if b not in stored:
            v.append(("tick_sums", "boundary %d is used by a position but no tick is stored" % b))
        elif b not in gross:
            v.append(("tick_sums", "tick %d is stored (gross %d, net %d) but no position uses it" % ((b,) + stored[b])))
        elif stored[b] != (gross[b], net[b]):
            v.append(("tick_sums", "tick %d stores gross/net %s, positions give %s" % (b, stored[b], (gross[b], net[b]))))
    # 4. a pool with no positions has no price
    if not pos:
        if sqrtp != 0 or tick != 0:
            v.append(("empty_pool", "no positions but sqrt price %d, tick %d" % (sqrtp, tick)))
    else:
        # 3. price and tick agree about every position: for every boundary b (and the two multiples of the
        # spacing around the current tick): b <= tick -> S(b) <= sqrtP, tick < b -> sqrtP <= S(b)
        S = {int(t[0]): int(t[3]) for t in o["ticks"] if t[3] != ""}
        e = o["edge"]
        for i in (0, 2):
            if e[i + 1] != "":
                S[int(e[i])] = int(e[i + 1])
        for b, sb in sorted(S.items()):
            if b % spacing != 0:
                v.append(("price_tick", "stored tick %d is not a multiple of the spacing %d" % (b, spacing)))
            if b <= tick and not sb <= sqrtp:
                v.append(("price_tick", "boundary %d <= tick %d but S(b)=%d > sqrtP=%d" % (b, tick, sb, sqrtp)))
            if tick < b and not sqrtp <= sb:
                v.append(("price_tick", "tick %d < boundary %d but sqrtP=%d > S(b)=%d" % (tick, b, sqrtp, sb)))
    # the per-owner index and the pool-position index list exactly the stored positions
    for a in range(3):
        want_ids = sorted(i for (i, ow, _, _, _) in pos if ow == a)
        if sorted(o["uidx"][a]) != want_ids:
            v.append(("owner_index", "per-owner index of account %d lists %s, positions say %s" % (a, o["uidx"][a], want_ids)))
    if o["anypos"] != bool(pos):
        v.append(("owner_index", "pool-position index non-empty = %s but %d positions" % (o["anypos"], len(pos))))
    for (i, ow, lo, hi, L) in pos:
        if not (0 < i < o["next_id"]):
            v.append(("ids", "position id %d outside 1..next_id-1 (next id %d)" % (i, o["next_id"])))
        if L <= 0 or not lo < hi:
            v.append(("ids", "position %d has liquidity %d, range [%d,%d)" % (i, L, lo, hi)))
    return v


def check_transition(prev, cur):
    """ids, owners and ranges never change except through transfer by the owner; ids are never reused"""
    v = []
    rop = cur["rop"]
    pp = {int(p[0]): p for p in prev["pos"]}
    cp = {int(p[0]): p for p in cur["pos"]}
    if cur["next_id"] < prev["next_id"]:
        v.append(("ids", "next position id went back from %d to %d" % (prev["next_id"], cur["next_id"])))
    for i in cp:
        if i not in pp and i < prev["next_id"]:
            v.append(("ids", "position id %d appears although ids below %d were already handed out" % (i, prev["next_id"])))
    for i in cp:
        if i in pp:
            a, b = pp[i], cp[i]
            if (a[2], a[3]) != (b[2], b[3]):
                v.append(("ranges", "position %d changed range %s -> %s" % (i, a[2:4], b[2:4])))
            if a[1] != b[1]:
                ok = (rop["k"] == "transfer" and cur["err"] == 0 and i in (rop.get("ids") or []) and int(a[1]) == rop["a"]
                      and int(b[1]) == rop.get("to", 0))
                if not ok:
                    v.append(("owners", "position %d changed owner %s -> %s during %s by account %d" % (i, a[1], b[1], rop["k"], rop["a"])))
    if cur["err"] != 0:
        # a failed message leaves no trace (baseapp atomicity, through the harness wrapper)
        for key in ("tick", "sqrtp", "liq", "ticks", "pos", "next_id", "bal"):
            if prev[key] != cur[key]:
                v.append(("atomicity", "failed %s changed %s" % (rop["k"], key)))
                break
    return v


def oracle(c, obs):
    out = []
    prev = obs["init"]
    for (kind, what) in check_state(prev, c["spacing"]):
        out.append({"what": "initial state: " + what, "rec": {"kind": kind, "op": "init"}})
    for n, st in enumerate(obs["steps"]):
        for (kind, what) in check_state(st, c["spacing"]) + check_transition(prev, st):
            out.append({"what": "after op %d (%s): %s" % (n, st["rop"]["k"], what), "rec": {"kind": kind, "op": st["rop"]["k"]}, "step": n})
        prev = st
    return out


# ---------------------------------------------------------------------------------------------
def nontrivial(obs):
    ok_lp = sum(1 for s in obs["steps"] if s["err"] == 0 and s["rop"]["k"] in ("create", "withdraw", "add", "transfer"))
    moved = 0
    prev = obs["init"]
    for s in obs["steps"]:
        if s["err"] == 0 and s["rop"]["k"] in ("swap_in", "swap_out") and s["tick"] != prev["tick"]:
            moved += 1
        prev = s
    return ok_lp >= 2 and moved >= 1


def selftest(pairs, K, out):
    """the machinery must notice a perturbed observation (oracle) and a perturbed expectation (case_ok)"""
    c, o = next(((c, o) for c, o in pairs if len(o["steps"]) >= 3 and any(s["pos"] for s in o["steps"])), pairs[0])
    o2 = copy.deepcopy(o)
    st = next(s for s in o2["steps"] if s["pos"])
    st["liq"] = str(int(st["liq"]) + 1)
    if not any(v["rec"]["kind"] == "active_liq" for v in oracle(c, o2)):
        out.mismatches.append({"what": "self-test: the oracle did not flag a pool liquidity off by one", "case": None})
    o3 = copy.deepcopy(o)
    o3["steps"][-1]["ticks"] = o3["steps"][-1]["ticks"] + [["7", "1", "1", ""]]
    bad, errs = _cl.eval_cases("C07_self", [(c, o), (c, o3)], K, per_file=2)
    if errs or bad != [1]:
        out.mismatches.append({"what": "self-test: case_ok did not reject exactly the perturbed expectation (got %s %s)" % (bad, errs[:1]), "case": None})
    else:
        out.notes.append("self-test passed: oracle flags a pool liquidity off by one; case_ok rejects an expectation with one extra stored tick and accepts the original")


def run_cases(cases, model_ok, out, tag, K, selft=False):
    obs = _cl.run_cldrv(cases)
    pairs = []
    for c, o in zip(cases, obs):
        out.evaluations += 1
        if o.get("fatal"):
            out.oracle_violations.append({"what": "driver: " + o["fatal"], "rec": {"kind": "driver_fatal"}, "case": c})
            continue
        for v in oracle(c, o):
            v["case"] = c
            out.oracle_violations.append(v)
        if nontrivial(o):
            out.nontrivial.add(json.dumps(c, sort_keys=True))
        pairs.append((c, o))
    if model_ok and pairs:
        bad, errs = _cl.eval_cases("C07_" + tag, pairs, K)
        for fi, txt in errs:
            out.mismatches.append({"what": "model evaluation failed: " + txt, "case": None})
        for i in bad:
            out.mismatches.append({"what": "CL model observables differ from the implementation's", "case": pairs[i][0]})
        if selft:
            selftest(pairs, K, out)
    elif not model_ok:
        out.model_ran = False
    return pairs


def correspond(tier, seed, model_ok):
    out = Outcome()
    K = _cl.consts()
    r = Rng(seed)
    n, nops = (110, 36) if tier == "quick" else (1500, 50)
    cases = [_cl.gen_case(r.fork(i), nops if not r.chance(1, 10) else nops // 3, K) for i in range(n)]
    corpus = common.load_corpus(PROP)
    pairs = run_cases(corpus + cases, model_ok, out, "q", K, selft=True)
    out.rule = ("case = one pool (authorised tick spacing and spread factor, 5 denom pairs, 5 price regimes incl. 1e-11 and 1e30) + a history of "
                "create / withdraw (partial, full) / add-to-position / transfer / swap exact-in / exact-out / swap-to-the-tick / time advance by 3 accounts, "
                "incl. overlapping, disjoint, one-spacing-wide and full ranges, dust amounts and a stream of invalid messages; after EVERY operation the pool, all "
                "ticks, all positions, the per-owner index and the pool balance are compared with the model and checked by the oracle; "
                "non-trivial = at least 2 successful LP operations and at least one swap that moved the current tick; distinct = distinct case JSON")
    out.samples = [{"spacing": c["spacing"], "spread": c["spread"], "ops": c["ops"][:4]} for c in cases[:3]]
    hist, errs, nticks = {}, {}, {}
    for c, o in pairs:
        for s in o["steps"]:
            k = s["rop"]["k"] + (":ok" if s["err"] == 0 else ":rejected" if s["err"] == 1 else ":panic")
            hist[k] = hist.get(k, 0) + 1
            if s["err"]:
                errs[s["etyp"][:48]] = errs.get(s["etyp"][:48], 0) + 1
            b = min(len(s["ticks"]) // 4 * 4, 20)
            nticks[str(b)] = nticks.get(str(b), 0) + 1
    out.distribution = {"ops": hist, "error_kinds": errs, "stored_ticks_hist": nticks,
                        "spacing": {str(k): sum(1 for c in cases if c["spacing"] == k) for k in K["cl_AuthorizedTickSpacing"]},
                        "spread": {str(k): sum(1 for c in cases if int(c["spread"]) == k) for k in K["cl_AuthorizedSpreadFactors"]},
                        "corpus_cases": len(corpus)}
    out.traces = sum(len(o["steps"]) for _, o in pairs)
    return out


def search(tier, seed, out):
    o2 = Outcome()
    K = _cl.consts()
    r = Rng(seed + 104729)
    cases = [_cl.gen_case(r.fork(i), 50, K) for i in range(1500)]
    for m in out.mismatches[:20]:
        if m.get("case"):
            cases.append(m["case"])
    run_cases(cases, False, o2, "s", K)
    return o2.oracle_violations[0] if o2.oracle_violations else None


def replay(path):
    d = json.load(open(path))
    c = d["case"].get("case") if isinstance(d.get("case"), dict) else None
    if not c:
        print("replay names a proof obligation / correspondence, not an input:", d.get("what"))
        return 1
    out = Outcome()
    run_cases([c], True, out, "r", _cl.consts())
    for v in out.oracle_violations:
        print("oracle:", v["what"])
    for m in out.mismatches:
        print("mismatch:", m["what"])
    return 1 if (out.oracle_violations or out.mismatches) else 0


SCOPE = ("full: C07_full (the bookkeeping invariant holds after every finite history of create / withdraw / add / transfer / swap exact-in / exact-out / time, "
         "for every authorised tick spacing and spread factor) and its corollaries active_liq_eq, tick_sums, price_tick_consistent (boundary form), "
         "empty_pool_no_price, ids_owners_ranges_stable, ids_never_reused, ranges_stable_forever are proved axiom-free over the model CL/*.v, including all swap "
         "cases (crossing up / down, landing inside a bucket, gaps, no-progress steps)")
EXPLANATION = ("Invariant proofs over the Gallina model CL/{TickMath,CLMath,CLPool,CLSwap,CLStep}.v (a function-by-function transcription of "
               "x/concentrated-liquidity lp.go / tick.go / position.go / swaps.go / swapstrategy / math) by induction over operation histories; the model "
               "is tied to /repo by running the real MsgServers (full app, baseapp atomicity) on generated histories and comparing pool, ticks, positions, "
               "balances and responses after every operation; an independent oracle recomputes the property's relations from the dumped positions.")
TRUSTED = [
    "hand-written model coq/theories/CL/*.v, tied to x/concentrated-liquidity by the correspondence run (harness/cldrv against /repo's working tree)",
    "translator props/_cl.py (regex over types/constants.go, swaps.go, incentives.go, math/precompute.go -> Gen/CL_consts.v)",
    "harness/cldrv + harness/apph (Go), props/_cl.py, props/c07.py (generator, flattening incl. the 128-bit digest of ticks/positions, oracle), Coq vm_compute on generated case files",
    "modelled not verified: SDK bank keeper (balances of the pool account), store / CacheContext atomicity, protobuf codecs; spread-reward / uptime accumulators, "
    "incentives, locks, hooks, gas, events are outside the model (they do not feed back into pool / tick / position bookkeeping)",
]
ASSUMPTIONS = [
    "messages are executed atomically (DESIGN.md 1.5); no position has an underlying lock; taker fee 0; no CosmWasm hooks",
    "Dec / Int overflow panics are modelled for the operations on the swap path that can reach them; accumulated overflow of the global spread-reward accumulator over many swaps is not",
]
TECHNIQUE = "Coq invariant proofs by induction over LP/swap histories on a Gallina model of the concentrated-liquidity keeper; differential correspondence (vm_compute) after every operation + exact-integer oracle"
LEVEL_TEXT = ("Machine-checked invariants (Coq 8.16.1, axiom-free) of the concentrated-liquidity bookkeeping for all histories of the model; the model is "
              "hand-written and checked against the real keeper after every operation of generated histories on every run; an independent oracle "
              "evaluates the property's relations on the implementation's dumps.")
LEVEL_NOTE = ("Trusted: Coq kernel (vm_compute, no native_compute), no axioms; hand-written model CL/*.v; translator for the literals; Go driver harness/cldrv "
              "and python glue; SDK bank/store semantics. See coq/theories/C07/STATUS.md for which theorems are full and which are _partial.")
