"""C10 - TWAP equals the time-weighted mean of the recorded spot prices:
translator (Gen/C10_consts.v), history generator, driver-output parser, Coq case writer, oracle."""
import json
import os
import re
from fractions import Fraction

from lib import common
from lib.common import Rng, Outcome, zlit, zlist

PROP = "C10"
GO_PKGS = [("c10drv", True)]
# C10/BridgeC13.v (accuracy of the model's exp2 / twap_log from C13's theorems) is deliberately not listed: it depends on another
# property's files and on Coq-Interval; it is compiled by `./check --setup` (full make) like every file of the development
MODEL_VO = ["theories/C10/Corr.vo"]
# built by ./check --setup and by the thorough tier (not by the quick tier: its cone contains C13's Coq-Interval files)
EXTRA_VO = ["theories/C10/BridgeC13.vo"]
# only the real-valued theorems (C10_geom_value_partial, C10_geom_twap_true_mean_partial, C10_geom_twap_model_partial) use them: the standard library's reals
ALLOWED_AXIOMS = ["ClassicalDedekindReals.sig_not_dec", "ClassicalDedekindReals.sig_forall_dec",
                  "FunctionalExtensionality.functional_extensionality_dep", "Classical_Prop.classic"]

P18 = 10 ** 18
P36 = 10 ** 36
ZERO_T = -62135596800 * 10 ** 9
MS = 10 ** 6
SEC = 10 ** 9

Q_OK, Q_FLAG, Q_START_AFTER_END, Q_FUTURE, Q_TOO_OLD, Q_NOT_IN_POOL, Q_SAME, Q_PANIC, Q_OTHER = range(9)


# ---------------------------------------------------------------------------------------------
# translator: literals of /repo the model depends on -> coq/theories/Gen/C10_consts.v
# ---------------------------------------------------------------------------------------------
class ShapeError(Exception):
    pass


def _src(rel):
    return open(os.path.join(common.REPO, rel)).read()


def _strip_comments(s):
    s = re.sub(r"/\*.*?\*/", "", s, flags=re.S)
    return re.sub(r"//[^\n]*", "", s)


def _one(pat, src, what):
    ms = re.findall(pat, src, flags=re.S)
    if len(ms) != 1:
        raise ShapeError("%s: expected exactly one match of /%s/, found %d" % (what, pat, len(ms)))
    return ms[0]


def _declit(txt, prec):
    m = re.fullmatch(r"(-?)(\d+)(?:\.(\d+))?", txt)
    if not m or len(m.group(3) or "") > prec:
        raise ShapeError("not a decimal literal with at most %d decimals: %r" % (prec, txt))
    v = int(m.group(2) + (m.group(3) or "").ljust(prec, "0"))
    return -v if m.group(1) else v


def _coeff_block(src, name):
    body = _one(name + r"\s*=\s*\[\]BigDec\{(.*?)\n\t\}", src, name)
    entries, rest = [], body
    for m in re.finditer(r'(OneBigDec\(\)|MustNewBigDecFromStr\("([0-9.]+)"\))(\.Neg\(\))?\s*,', body):
        v = P36 if m.group(1).startswith("OneBigDec") else _declit(m.group(2), 36)
        entries.append(-v if m.group(3) else v)
        rest = rest.replace(m.group(0), "", 1)
    if rest.strip():
        raise ShapeError("%s: unrecognised entry text %r" % (name, rest.strip()[:80]))
    return entries


_CONSTS = None


def read_consts():
    global _CONSTS
    if _CONSTS is None:
        _CONSTS = _read_consts()
    return _CONSTS


def _read_consts():
    c = read_twap_consts()
    exp2 = _strip_comments(_src("osmomath/exp2.go"))
    decimal = _strip_comments(_src("osmomath/decimal.go"))
    c["num"] = _coeff_block(exp2, "numeratorCoefficients13Param")
    c["den"] = _coeff_block(exp2, "denominatorCoefficients13Param")
    if len(c["num"]) != len(c["den"]) or len(c["num"]) < 2:
        raise ShapeError("exp2: coefficient lists of different length")
    b, pw = _one(r'maxSupportedExponent\s*=\s*MustNewBigDecFromStr\("([0-9.]+)"\)\.PowerInteger\((\d+)\)', exp2, "maxSupportedExponent")
    if _declit(b, 36) % P36:
        raise ShapeError("maxSupportedExponent base is not an integer")
    c["max_exp"] = (_declit(b, 36) // P36) ** int(pw)
    c["log_iter"] = int(_one(r"maxLog2Iterations\s*=\s*(\d+)", decimal, "maxLog2Iterations"))
    c["two"] = _declit(_one(r'twoBigDec\s+BigDec\s*=\s*MustNewBigDecFromStr\("([0-9.]+)"\)', decimal, "twoBigDec"), 36)
    if int(_one(r"BigDecPrecision\s*=\s*(\d+)", decimal, "BigDecPrecision")) != 36:
        raise ShapeError("BigDecPrecision is not 36")
    return c


def read_twap_consts():
    utils = _strip_comments(_src("x/twap/types/utils.go"))
    store = _strip_comments(_src("x/twap/store.go"))
    gconst = _strip_comments(_src("x/gamm/types/constants.go"))
    base, power = _one(r"MaxSpotPrice\s*=\s*osmomath\.NewDec\((\d+)\)\.Power\((\d+)\)\.Sub\(osmomath\.OneDec\(\)\)", utils, "twap MaxSpotPrice")
    _one(r"MaxSpotPriceBigDec\s*=\s*osmomath\.BigDecFromDec\(MaxSpotPrice\)", utils, "twap MaxSpotPriceBigDec")
    limit = _one(r"var\s+NumRecordsToPrunePerBlock\s+uint16\s*=\s*(\d+)", store, "NumRecordsToPrunePerBlock")
    sfe = _one(r"SigFigsExponent\s*=\s*(\d+)", gconst, "SigFigsExponent")
    sb = _one(r"SpotPriceSigFigs\s*=\s*osmomath\.NewDec\((\d+)\)\.Power\(SigFigsExponent\)\.TruncateInt\(\)", gconst, "SpotPriceSigFigs")
    return {"max_spot_price": int(base) ** int(power) - 1, "limit": int(limit), "sig_figs": int(sb) ** int(sfe)}


def translate():
    c = read_consts()
    txt = ("(* GENERATED on every run by props/c10.py translate() from /repo/x/twap/{types/utils.go,store.go,strategy.go} and\n"
           "   x/gamm/types/constants.go. Do not edit: the C10 model is stated against these names. *)\n"
           "From Coq Require Import ZArith.\nOpen Scope Z_scope.\n\n"
           "(* twap types.MaxSpotPriceBigDec = BigDecFromDec(NewDec(b).Power(p).Sub(OneDec())), raw x 10^36 *)\n"
           "Definition max_spot_price_bigdec : Z := %d * 10 ^ 36.\n"
           "(* twap NumRecordsToPrunePerBlock *)\nDefinition prune_limit_default : Z := %d.\n"
           "(* gammtypes.SpotPriceSigFigs = NewDec(b).Power(SigFigsExponent).TruncateInt() *)\n"
           "Definition sig_figs : Z := %d.\n" % (c["max_spot_price"], c["limit"], c["sig_figs"]))
    zl = lambda xs: "[" + ";\n   ".join(zlit(x) for x in xs) + "]"
    txt = txt.replace("From Coq Require Import ZArith.", "From Coq Require Import ZArith List.\nImport ListNotations.")
    txt += ("(* osmomath/exp2.go: numeratorCoefficients13Param / denominatorCoefficients13Param (raw x 10^36, .Neg() applied) *)\n"
            "Definition exp2_num : list Z :=\n  %s.\nDefinition exp2_den : list Z :=\n  %s.\n"
            "(* exp2.go maxSupportedExponent = MustNewBigDecFromStr(b).PowerInteger(p), as an integer *)\n"
            "Definition exp2_max_exponent : Z := %d.\n"
            "(* decimal.go maxLog2Iterations, twoBigDec *)\nDefinition log2_iterations : nat := %d.\nDefinition two_bd : Z := %d.\n"
            % (zl(c["num"]), zl(c["den"]), c["max_exp"], c["log_iter"], c["two"]))
    return {"Gen/C10_consts.v": txt}


# ---------------------------------------------------------------------------------------------
# generator
# ---------------------------------------------------------------------------------------------
BAL_DENOMS = ["aaa", "bbb", "ccc", "ddd", "uosmo", "stake"]
CL_PAIRS = [("eth", "usdc"), ("bar", "foo"), ("eth", "foo"), ("bar", "usdc"), ("baz", "stake")]


class Sim:
    """rough constant-product bookkeeping, only to keep generated operations mostly valid"""

    def __init__(self):
        self.pools = []   # dict(kind, denoms, res{denom: float}, w{denom: float}, npos, shares)

    def pairs(self, i):
        d = sorted(self.pools[i]["denoms"])
        return [(d[a], d[b]) for a in range(len(d)) for b in range(a + 1, len(d))]


def gen_amount(r, lo_exp, hi_exp):
    e = r.range(lo_exp, hi_exp)
    return r.range(1, 9) * 10 ** e + (r.below(10 ** e) if r.chance(1, 2) and e > 0 else 0)


def gen_case(r, tier, geom=False, prune=False, extreme=False, ns=False):
    """prune: pruning passes (direct and through the epoch hook, small per-block limits); extreme: pools whose spot
    price errors or exceeds the maximum; ns: block and query times that are not whole milliseconds"""
    sim = Sim()
    t0 = 1_700_000_000 * SEC + r.range(0, 10 ** 6) * MS + (r.range(1, MS - 1) if ns else 0)
    ops = []
    now = t0
    times = [t0]
    prune_limit = r.choice([0, 1, 2, 3, 7]) if prune else 0
    keep_period = r.choice([10, 60, 600, 3600]) * SEC if prune else 0

    def new_pool():
        k = r.below(10)
        if k < 4 or len([p for p in sim.pools if p["kind"] == "cl"]) >= len(CL_PAIRS) and k >= 7:
            n = 2
        elif k < 7:
            n = 3 if r.chance(1, 2) and not geom else 2
        else:
            n = 0
        if n:
            ds = []
            while len(ds) < n:
                d = r.choice(BAL_DENOMS)
                if d not in ds:
                    ds.append(d)
            mode = r.below(10)
            if extreme and r.chance(2, 3):
                # one side scarce: the tiny price direction errors, beyond 2^128 both do / the value is clamped
                big = 10 ** r.choice([20, 24, 30, 38, 39, 40, 44])
                amts = [r.range(1, 9) * 10 ** r.range(0, 3) for _ in range(n)]
                amts[r.below(n)] = big * r.range(1, 9)
            elif mode == 0:
                amts = [10 ** 9] * n                                # price exactly 1 (F7 witness shape)
            elif mode == 1:
                b = gen_amount(r, 6, 12)
                amts = [b * 2 ** r.range(0, 6) for _ in range(n)]   # power-of-two ratios
            else:
                amts = [gen_amount(r, 5, 14) for _ in range(n)]
            ws = [1] * n if r.chance(2, 3) else [r.range(1, 5) for _ in range(n)]
            ops.append({"op": "bal", "denoms": ds, "amts": [str(a) for a in amts], "weights": ws})
            sim.pools.append({"kind": "bal", "denoms": ds, "res": dict(zip(ds, map(float, amts))), "w": dict(zip(ds, map(float, ws))), "npos": 0})
        else:
            used = [tuple(p["denoms"]) for p in sim.pools if p["kind"] == "cl"]
            free = [p for p in CL_PAIRS if p not in used]
            d = r.choice(free)
            ops.append({"op": "cl", "denoms": list(d)})
            sim.pools.append({"kind": "cl", "denoms": list(d), "res": {d[0]: 0.0, d[1]: 0.0}, "w": {d[0]: 1.0, d[1]: 1.0}, "npos": 0, "alive": []})
            if r.chance(5, 6):
                add_pos(len(sim.pools) - 1)

    def add_pos(i):
        p = sim.pools[i]
        if p["npos"] == 0:
            if r.chance(1, 6):
                a0 = a1 = 10 ** r.range(6, 12)
            else:
                a0, a1 = gen_amount(r, 6, 13), gen_amount(r, 6, 13)
        else:
            a0, a1 = gen_amount(r, 5, 12), gen_amount(r, 5, 12)
        ops.append({"op": "clpos", "pool": i + 1, "amts": [str(a0), str(a1)], "is_first": p["npos"] == 0})
        d0, d1 = p["denoms"]
        if p["npos"] == 0:
            p["res"] = {d0: float(a0), d1: float(a1)}
        else:
            # liquidity is added at the current price: the binding side decides
            f = min(a0 / p["res"][d0], a1 / p["res"][d1])
            p["res"][d0] *= 1 + f
            p["res"][d1] *= 1 + f
        p["npos"] += 1
        p["alive"].append(True)

    def wd_pos(i):
        p = sim.pools[i]
        alive = [k for k, a in enumerate(p["alive"]) if a]
        if not alive:
            return
        k = r.below(len(alive))
        ops.append({"op": "clwd", "pool": i + 1, "pos": k, "is_last": len(alive) == 1})
        # bookkeeping of the driver: positions are removed from its list, index k among the alive ones
        n = len(alive)
        del p["alive"][alive[k]]
        p["npos"] -= 1
        if n == 1:
            d0, d1 = p["denoms"]
            p["res"] = {d0: 0.0, d1: 0.0}
        else:
            for d in p["denoms"]:
                p["res"][d] *= (n - 1) / n

    def swap(i):
        p = sim.pools[i]
        if p["kind"] == "cl" and p["npos"] == 0:
            return
        din = r.choice(p["denoms"])
        dout = r.choice([d for d in p["denoms"] if d != din])
        frac = r.choice([1e-6, 1e-4, 1e-3, 0.01, 0.05, 0.2, 0.45]) * (1 + r.below(100) / 100.0)
        if extreme and r.chance(1, 3):
            frac = r.choice([0.49, 0.3, 1e-12, 1e-20])
        amt = max(1, int(p["res"][din] * min(frac, 0.49)))
        ops.append({"op": "swap", "pool": i + 1, "in": din, "amt": str(amt), "out": dout})
        bi, bo = p["res"][din], p["res"][dout]
        out = bo * (1 - (bi / (bi + amt)) ** (p["w"][din] / p["w"][dout]))
        p["res"][din] = bi + amt
        p["res"][dout] = max(bo - out, 1.0)

    def end_block():
        nonlocal now
        m = r.below(10)
        if m < 5:
            dt = r.range(1, 12) * SEC
        elif m < 7:
            dt = r.range(1, 5000) * MS
        elif m < 8:
            dt = r.choice([1, 2, 999, 1000, 1001]) * MS
        elif m < 9:
            dt = r.range(1, 48) * 3600 * SEC
        else:
            dt = r.range(60, 7200) * SEC
        if ns and r.chance(2, 3):
            dt = max(1, dt + r.choice([r.range(-MS + 1, MS - 1), 1 - dt if r.chance(1, 4) else 0, r.range(1, 999)]))
        ops.append({"op": "end", "dt": dt})
        now += dt
        times.append(now)

    def prune_op():
        k = r.below(10)
        n = len(sim.pools)
        if k < 3:
            ops.append({"op": "epoch"})
            return
        keep = pick_time() if k < 8 else r.choice(times) + r.choice([-1, 0, 1])
        last = r.choice([n, n, n, n, max(n - 1, 0), n + 1, 0])
        ops.append({"op": "prune", "keep": keep, "last": last})

    def pick_time():
        k = r.below(20)
        base = r.choice(times)
        if k < 6:
            return base
        if k < 10:
            a, b = r.choice(times), r.choice(times)
            lo, hi = min(a, b), max(a, b)
            return lo + r.below((hi - lo) // MS + 1) * MS
        if k < 13:
            return base + r.choice([-1, 1]) * MS * r.choice([1, 2, 1000])
        if k < 15:
            return now - r.below(max(1, (now - t0) // MS) + 1) * MS
        if k < 16:
            return t0 - r.range(1, 10 ** 6) * MS
        if k < 17:
            return now + r.range(1, 10 ** 5) * MS
        return now if r.chance(1, 2) else base

    _pick_ms = pick_time

    def pick_time():          # noqa: F811  (nanosecond variant wraps the millisecond one)
        t = _pick_ms()
        if ns and r.chance(1, 2):
            t += r.choice([1, -1, 2, 999_999, -999_999, 500_000, r.range(-MS, MS)])
        return t

    def queries(n):
        if not sim.pools:
            return
        for _ in range(n):
            i = r.below(len(sim.pools))
            prs = sim.pairs(i)
            a, b = r.choice(prs)
            if r.chance(1, 2):
                a, b = b, a
            x = r.below(40)
            pool = i + 1
            if x == 0:
                b = a
            elif x == 1:
                b = "zzz"
            elif x == 2:
                pool = len(sim.pools) + 1 + r.below(3)
            elif x == 3 and len(sim.pools) > 1:
                pool = (i + 1) % len(sim.pools) + 1
            s, e = pick_time(), pick_time()
            if s > e and not r.chance(1, 12):
                s, e = e, s
            q = {"op": "q", "kind": 0, "pool": pool, "base": a, "quote": b, "start": s, "end": e}
            if r.chance(1, 4):
                q["tonow"] = True
            if geom and r.chance(3, 4):
                q["kind"] = 1
                ops.append(q)
                ops.append(dict(q, base=q["quote"], quote=q["base"]))      # the other quote direction
                continue
            ops.append(q)

    npools = r.choice([1, 1, 2, 2, 3])
    nblocks = r.range(4, 28 if tier == "quick" else 60)
    if geom:    # every distinct recorded price costs one LogBase2 evaluation of the model
        npools = r.choice([1, 1, 2])
        nblocks = r.range(3, 9 if tier == "quick" else 14)
    new_pool()
    created = 1
    for b in range(nblocks):
        if created < npools and r.chance(1, 3):
            new_pool()
            created += 1
        nact = r.choice([0, 0, 1, 1, 1, 2, 3])
        for _ in range(nact):
            i = r.below(len(sim.pools))
            p = sim.pools[i]
            x = r.below(20)
            if p["kind"] == "cl":
                if x < 13:
                    swap(i)
                elif x < 16:
                    add_pos(i)
                else:
                    wd_pos(i)
            else:
                if x < 15:
                    swap(i)
                elif x < 18:
                    ops.append({"op": "join", "pool": i + 1, "amt": str(r.range(1, 100) * 10 ** r.range(15, 19))})
                else:
                    ops.append({"op": "exit", "pool": i + 1, "amt": str(r.range(1, 50) * 10 ** r.range(15, 18))})
        if r.chance(1, 5):
            queries(r.range(1, 6))
        if prune and b >= 2 and r.chance(1, 4):
            prune_op()
            if r.chance(1, 2):
                queries(r.range(1, 4))     # between setting the pruning state and the pruning pass
        end_block()
    queries((12 if geom else 40) if tier == "quick" else (30 if geom else 80))
    return {"t0": t0, "prune_limit": prune_limit, "keep_period": keep_period, "geom": geom, "ops": ops}


# ---------------------------------------------------------------------------------------------
# parsing the driver's flat output: per-operation records
# ---------------------------------------------------------------------------------------------
class Parsed:
    pass


def parse(case, flat):
    """-> Parsed with .h0, .steps (one dict per op, aligned with case['ops']), .final_hist, .pools"""
    pos = [0]

    def nxt():
        v = flat[pos[0]]
        pos[0] += 1
        return v

    def raw():
        return (nxt(), nxt(), nxt())

    def rec():
        return tuple(nxt() for _ in range(8))

    pr = Parsed()
    pr.h0 = nxt()
    pools = []    # dict(id, npairs, denoms(sorted), pairs)
    steps = []
    pruning_on = False

    def raws_all():
        return [[(raw(), raw()) for _ in range(p["npairs"])] for p in pools]

    def hist():
        out = []
        for p in pools:
            n = nxt()
            assert n == p["npairs"], "hist dump: pair count"
            out.append([[rec() for _ in range(nxt())] for _ in range(n)])
        return out

    for op in case["ops"]:
        k = op["op"]
        st = {"op": k}
        if k in ("bal", "cl"):
            st["id"] = nxt()
            st["npairs"] = nxt()
            ds = sorted(op["denoms"])
            prs = [(ds[a], ds[b]) for a in range(len(ds)) for b in range(a + 1, len(ds))]
            assert len(prs) == st["npairs"]
            st["raws"] = [(raw(), raw()) for _ in range(st["npairs"])]
            pools.append({"id": st["id"], "npairs": st["npairs"], "denoms": ds, "pairs": prs})
            assert st["id"] == len(pools), "pool ids are expected to be 1,2,3,... in creation order"
        elif k in ("clpos", "clwd", "swap", "join", "exit"):
            st["ok"] = nxt()
        elif k == "end":
            n = nxt()
            st["changed"] = [nxt() for _ in range(n)]
            st["raws"] = raws_all()
            st["recent"] = []
            for p in pools:
                n = nxt()
                assert n == p["npairs"], "recent dump: pair count"
                st["recent"].append([rec() for _ in range(n)])
            st["pruning"] = (nxt(), nxt(), nxt())
            st["was_pruning"] = pruning_on
            if pruning_on:
                st["hist"] = hist()
            pruning_on = bool(st["pruning"][0])
        elif k in ("prune", "epoch"):
            st["pruning"] = (nxt(), nxt(), nxt())
            pruning_on = bool(st["pruning"][0])
        elif k == "q":
            st["status"] = nxt()
            st["value"] = nxt()
        else:
            raise ValueError(k)
        steps.append(st)
    assert nxt() == -7
    pr.final_hist = hist()
    assert pos[0] == len(flat), "trailing output"
    pr.steps = steps
    pr.pools = pools
    return pr


def tracks(op, st):
    """does this (successful) operation call trackChangedPool?  (listeners.go + the call sites in gamm / CL)"""
    k = op["op"]
    if k in ("swap", "join", "exit"):
        return bool(st["ok"])
    if k == "clpos":
        return bool(st["ok"]) and op["is_first"]
    if k == "clwd":
        return bool(st["ok"]) and op["is_last"]
    return False


# ---------------------------------------------------------------------------------------------
# Coq case writer
# ---------------------------------------------------------------------------------------------
def cbool(b):
    return "true" if b else "false"


def craw(w):
    return "(mkRaw %s %s %s)" % (cbool(w[0]), cbool(w[1]), zlit(w[2]))


def craws(ws):
    return "[" + "; ".join("(%s, %s)" % (craw(a), craw(b)) for a, b in ws) + "]"


def resolve(pools, q):
    """query target as the model sees it"""
    if q["base"] == q["quote"]:
        return "QSame", None
    if not (1 <= q["pool"] <= len(pools)):
        return "QNone", None
    p = pools[q["pool"] - 1]
    d0, d1 = sorted([q["base"], q["quote"]])
    if (d0, d1) not in p["pairs"]:
        return "QNone", None
    k = p["pairs"].index((d0, d1))
    q0 = q["quote"] == d0
    return "(QPair %d %d%%nat %s)" % (q["pool"], k, cbool(q0)), (q["pool"] - 1, k, q0)


def rec_flat(rc, with_g):
    return list(rc[:6]) + ([rc[6]] if with_g else []) + [rc[7]]


def coq_case(case, pr):
    """-> (Coq term of type case, expected flat list in the model's layout)"""
    with_g = bool(case.get("geom"))
    exp = [pr.h0]
    cops = []
    pools = []

    def hist_flat(h):
        out = []
        for hp in h:
            out.append(len(hp))
            for recs in hp:
                out.append(len(recs))
                for rc in recs:
                    out += rec_flat(rc, with_g)
        return out

    for op, st in zip(case["ops"], pr.steps):
        k = op["op"]
        if k in ("bal", "cl"):
            cops.append("CCreate %s" % craws(st["raws"]))
            exp += [st["id"], st["npairs"]]
            pools.append(pr.pools[len(pools)])
        elif k in ("clpos", "clwd", "swap", "join", "exit"):
            if tracks(op, st):
                cops.append("CTouch %d" % op["pool"])
        elif k == "end":
            rw = "[" + "; ".join("(%d, %s)" % (pools[i]["id"], craws(ws)) for i, ws in enumerate(st["raws"])) + "]"
            cops.append("CEnd %s %s" % (zlit(op["dt"]), rw))
            exp += [len(st["changed"])] + st["changed"]
            for rp in st["recent"]:
                exp.append(len(rp))
                for rc in rp:
                    exp += rec_flat(rc, with_g)
            exp += list(st["pruning"])
            if st["was_pruning"]:
                exp += hist_flat(st["hist"])
            exp.append(0)
        elif k == "prune":
            cops.append("CPrune %s %s" % (zlit(op["keep"]), zlit(op["last"])))
            exp += list(st["pruning"])
        elif k == "epoch":
            cops.append("CEpoch")
            exp += list(st["pruning"])
        elif k == "q":
            tg, _ = resolve(pools, op)
            cops.append("CQuery %s %s %s %s %s" % (tg, cbool(op["kind"] == 1), cbool(op.get("tonow", False)), zlit(op["start"]), zlit(op.get("end", 0))))
            exp += [st["status"], st["value"]]
    exp.append(-7)
    exp += hist_flat(pr.final_hist)
    limit = case["prune_limit"] or read_consts()["limit"]
    kp = case["keep_period"] or DEFAULT_KEEP_PERIOD
    term = "mkCase %s %s %s %s %s\n   [%s]\n   %s" % (zlit(case["t0"]), zlit(pr.h0), zlit(limit), zlit(kp), cbool(with_g),
                                                     ";\n    ".join(cops), zlist(exp))
    return term, exp


DEFAULT_KEEP_PERIOD = 48 * 3600 * SEC   # twap genesis param RecordHistoryKeepPeriod of the test app (observed through the epoch hook)


# ---------------------------------------------------------------------------------------------
# oracle: the property's own predicates on the implementation's observations
# ---------------------------------------------------------------------------------------------
def ms(t):
    return t // MS


MAX_SP = None


def spec_price(w):
    """the spot price 'in force' as an 18-decimal integer, or None when the pool gave an error / out-of-range price"""
    global MAX_SP
    if MAX_SP is None:
        MAX_SP = read_consts()["max_spot_price"] * P36
    err, nil, val = w
    if err or nil or val > MAX_SP:
        return None
    return val // P18


def oracle(case, pr):
    v = []
    pools = []
    # per (pool, pair): list of (time, p0, p1, errored) = the price step function, one entry per block end in which the
    # pool existed; built from the pool's raw spot price at every block end (not from the twap records)
    series = {}
    now = case["t0"]
    first_rec = {}
    pairs_seen = {}
    keepmax = None      # the largest keep time any pruning pass was given so far: the retention window starts there

    def viol(what, rec):
        v.append({"what": what, "rec": rec})

    for idx, (op, st) in enumerate(zip(case["ops"], pr.steps)):
        k = op["op"]
        if k in ("bal", "cl"):
            pools.append(dict(pr.pools[len(pools)], created=now))
            for j in range(st["npairs"]):
                series[(len(pools) - 1, j)] = []
                w0, w1 = st["raws"][j]
                if w0[0] or w1[0] or spec_price(w0) is None or spec_price(w1) is None:
                    first_rec[(len(pools) - 1, j)] = now    # spot-price error at creation (block time `now`)
        elif k == "end":
            for i, p in enumerate(pools):
                for j in range(p["npairs"]):
                    w0, w1 = st["raws"][i][j]
                    rc = st["recent"][i][j]
                    s0, s1 = spec_price(w0), spec_price(w1)
                    errored = w0[0] or w1[0] or s0 is None or s1 is None
                    if first_rec.get((i, j)) == now and not errored:
                        # the pool was created in this very block with a spot-price error: that error happened at this block time
                        series[(i, j)].append((now, rc[2], rc[3], True))
                        continue
                    if not errored:
                        # the recorded end-of-block price is the pool's spot price at the end of the block
                        if (rc[2], rc[3]) != (s0, s1):
                            viol("pool %d pair %d block ending %d: recorded prices (%d, %d) but the pool's spot prices are (%d, %d)"
                                 % (p["id"], j, now, rc[2], rc[3], s0, s1), {"fn": "twap.updateRecord", "kind": "recorded_price"})
                    else:
                        if rc[7] != rc[0]:
                            viol("pool %d pair %d block ending %d: spot price error / out of range but the newest record (time %d) has last error time %d"
                                 % (p["id"], j, now, rc[0], rc[7]), {"fn": "twap.getSpotPrices", "kind": "error_not_recorded"})
                    series[(i, j)].append((now, rc[2], rc[3], bool(errored)))
            now += op["dt"]
        elif k in ("prune", "epoch"):
            if st["pruning"][0]:
                keepmax = st["pruning"][1] if keepmax is None else max(keepmax, st["pruning"][1])
        elif k == "q":
            tg, where = resolve(pools, op)
            stt, val = st["status"], st["value"]
            start = op["start"]
            end = now if op.get("tonow") else op["end"]
            if where is None:
                continue
            i, j, q0 = where
            ser = series[(i, j)]
            created = pools[i]["created"]
            in_window = created <= start <= end <= now and (keepmax is None or keepmax <= start)
            if stt == Q_PANIC and ms(start) == ms(end) and start < end:
                viol("query %d: %s TWAP over [%d, %d] (inside one millisecond) panics" % (idx, "geometric" if op["kind"] else "arithmetic", start, end),
                     {"fn": "twap.computeTwap", "kind": "panic", "cause": "interval_within_one_millisecond"})
                continue
            if stt not in (Q_OK, Q_FLAG):
                # an interval inside the retention window must be answered
                if stt == Q_PANIC:
                    viol("query %d: panic" % idx, {"fn": "twap.getTwap", "kind": "panic"})
                elif in_window:
                    viol("query %d: interval [%d, %d] inside the retention window answered with error status %d" % (idx, start, end, stt),
                         {"fn": "twap.getTwap", "kind": "unexpected_error", "status": stt})
                continue
            if not in_window or not ser:
                continue
            col = 1 if q0 else 2
            a, b = ms(start), ms(end)
            # ---- error flag (both kinds of TWAP) ----
            touched = any(e[3] and start <= e[0] <= end for e in ser)
            inforce = [e for e in ser if e[0] <= start]
            if inforce and inforce[-1][3]:
                touched = True
            anyerr = any(e[3] for e in ser if e[0] <= end)
            if touched and stt != Q_FLAG:
                viol("query %d: interval [%d, %d] touches a spot-price error but the answer is not flagged" % (idx, start, end),
                     {"fn": "twap.computeTwap", "kind": "missing_error_flag"})
            if not anyerr and stt == Q_FLAG and not any(e[1] == 0 or e[2] == 0 for e in ser):
                viol("query %d: flagged although no spot-price error ever occurred" % idx, {"fn": "twap.computeTwap", "kind": "spurious_error_flag"})
            if stt == Q_FLAG:
                continue          # the value of a flagged answer is declared unreliable by the implementation itself
            if start == end:
                exp = [e for e in ser if e[0] <= start][-1][col]
                if val != exp:
                    viol("query %d: TWAP over the empty interval at %d is %d, the price in force is %d" % (idx, start, val, exp),
                         {"fn": "twap.computeTwap", "kind": "instant_price"})
                continue
            if a == b:
                if op["kind"] == 1 and val == 0:
                    viol("query %d: geometric TWAP over [%d, %d] (inside one millisecond) is 0" % (idx, start, end),
                         {"fn": "twap.computeTwap", "kind": "zero_result", "cause": "interval_within_one_millisecond"})
                continue
            pts = [e for e in ser if ms(e[0]) <= b]
            segs = []      # (price, milliseconds) of the step function on [a, b)
            for n_, e in enumerate(pts):
                seg_a = max(a, ms(e[0]))
                seg_b = b if n_ + 1 == len(pts) else min(b, ms(pts[n_ + 1][0]))
                if seg_b > seg_a:
                    segs.append((e[1], e[2], seg_b - seg_a))
            if op["kind"] == 0:
                total = sum(sg[col - 1] * sg[2] for sg in segs)
                lo_p, hi_p = min(sg[col - 1] for sg in segs), max(sg[col - 1] for sg in segs)
                mean = Fraction(total, b - a)
                if not (mean - 1 < val < mean + 1):       # 18 decimals, either rounding direction
                    viol("query %d: arithmetic TWAP over [%d, %d] is %d, time-weighted mean of the end-of-block prices is %s"
                         % (idx, start, end, val, float(mean)), {"fn": "twap.arithmetic.computeTwap", "kind": "mean"})
                elif not (lo_p <= val <= hi_p):
                    viol("query %d: arithmetic TWAP %d outside [min %d, max %d] of the prices in force" % (idx, val, lo_p, hi_p),
                         {"fn": "twap.arithmetic.computeTwap", "kind": "min_max"})
            else:
                geom_oracle(viol, idx, op, segs, q0, val, start, end, pairs_seen, (i, j, start, end, now))
    return v


import decimal
_DC = decimal.Context(prec=90)
_LN2 = _DC.ln(decimal.Decimal(2))


def _log2_dec(p18):
    return _DC.divide(_DC.ln(_DC.divide(decimal.Decimal(p18), decimal.Decimal(P18))), _LN2)


def _sigfig_slack(x):
    """half a unit of the last digit SigFigRound(., 10^8) keeps: 8 decimals for x >= 0.1, 8 significant ones below"""
    k = 0
    y = x
    while y < decimal.Decimal("0.1") and k < 40:
        y *= 10
        k += 1
    return decimal.Decimal(5) / decimal.Decimal(10 ** (9 + k))


def geom_oracle(viol, idx, op, segs, q0, val, start, end, pairs_seen, key):
    """geometric TWAP = 2^(time-weighted mean of log2 of the prices in force, own quote direction), to the stated
    precision: logarithms and their mean are kept to 18 decimals (2 ulp on the exponent), Exp2 is good to a factor
    1 +- 1e-18, the result is cut to 18 decimals and rounded by SigFigRound(., 10^8).  Quote = asset 1 is answered as the
    reciprocal of the asset-0 mean: the recorded asset-1 prices are the pool's own roundings of the reciprocal
    (8 significant digits for gamm pools), which adds 2e-7 relative."""
    D = decimal.Decimal
    tot = sum(sg[2] for sg in segs)
    own = [sg[0] if q0 else sg[1] for sg in segs]
    if any(sg[0] <= 0 for sg in segs) or any(p <= 0 for p in own):
        return
    L = _DC.divide(sum((_log2_dec(p) * sg[2] for p, sg in zip(own, segs)), D(0)), D(tot))
    x = _DC.exp(_DC.multiply(L, _LN2))
    got = D(val) / D(P18)
    if val == 0 and abs(L) <= D("2e-7"):
        L0 = _DC.divide(sum((_log2_dec(sg[0]) * sg[2] for sg in segs), D(0)), D(tot))
        if abs(L0) <= D("2e-18"):
            viol("query %d: geometric TWAP over [%d, %d] is 0 although the time-weighted mean of log2(price) is 0, i.e. the mean price is 1"
                 % (idx, start, end), {"fn": "twap.geometric.computeTwap", "kind": "zero_result", "cause": "geometric_accumulator_difference_zero"})
            return
    tol = x * D("3e-18") + _sigfig_slack(x) + D("2e-18")
    eps = D(0) if q0 else D("2e-7")
    quant = D(0) if q0 else max(D(1) / D(sg[0]) for sg in segs) * 2      # relative 18-decimal quantisation of the asset-0 prices
    lo, hi = D(min(own)) / D(P18), D(max(own)) / D(P18)

    def check(e):
        if abs(got - x) > tol + x * e:
            return "mean", ("query %d: geometric TWAP over [%d, %d] (quote asset %d) is %s, two to the time-weighted mean of log2(price) is %s (allowed +-%s)"
                            % (idx, start, end, 0 if q0 else 1, got, x, tol + x * e))
        if not (lo * (1 - e) - tol <= got <= hi * (1 + e) + tol):
            return "min_max", "query %d: geometric TWAP %s outside [min %s, max %s] of the prices in force" % (idx, got, lo, hi)
        return None

    bad = check(eps)
    if bad:
        if not q0 and check(eps + quant) is None:
            viol(bad[1] + ": the answer is the reciprocal of the asset-0 mean and the asset-0 price %s has too few significant digits at 18 decimals"
                 % (D(min(sg[0] for sg in segs)) / D(P18)), {"fn": "twap.geometric.computeTwap", "kind": bad[0], "cause": "asset0_price_quantised"})
        else:
            viol(bad[1], {"fn": "twap.geometric.computeTwap", "kind": bad[0]})
        return
    # the two quote directions are reciprocal up to their roundings
    other = pairs_seen.get((key, not q0))
    pairs_seen[(key, q0)] = (got, x)
    if other is not None and got > 0 and other[0] > 0:
        g2, x2 = other
        slack = (tol / x) + ((x2 * D("3e-18") + _sigfig_slack(x2) + D("2e-18")) / x2)
        if abs(got * g2 - 1) > slack * D("1.01") + D("1e-30"):
            viol("query %d: the two quote directions of the geometric TWAP, %s and %s, are not reciprocal (product - 1 = %s, allowed %s)"
                 % (idx, got, g2, got * g2 - 1, slack), {"fn": "twap.geometric.computeTwap", "kind": "reciprocity"})


def case_prunes(case):
    return any(o["op"] in ("prune", "epoch") for o in case["ops"])


# ---------------------------------------------------------------------------------------------
# running
# ---------------------------------------------------------------------------------------------
def nontrivial(case, pr):
    """some query over a positive interval was answered with a value, after at least two price-changing blocks"""
    changing = sum(1 for st in pr.steps if st["op"] == "end" and st["changed"])
    ans = sum(1 for op, st in zip(case["ops"], pr.steps) if st["op"] == "q" and st["status"] in (Q_OK, Q_FLAG)
              and (op.get("tonow") or op["start"] < op["end"]))
    return changing >= 2 and ans >= 1


def twin_of(case):
    """the same history without its pruning passes"""
    return dict(case, ops=[o for o in case["ops"] if o["op"] not in ("prune", "epoch")])


def twin_compare(case, pr, flat2):
    """pruning never changes an answer inside the window: compare every query with the never-pruned twin chain"""
    v = []
    pr2 = parse(twin_of(case), flat2)
    q2 = [st for st in pr2.steps if st["op"] == "q"]
    keepmax = None
    k = 0
    for idx, (op, st) in enumerate(zip(case["ops"], pr.steps)):
        if op["op"] in ("prune", "epoch") and st["pruning"][0]:
            keepmax = st["pruning"][1] if keepmax is None else max(keepmax, st["pruning"][1])
        if op["op"] == "q":
            t = q2[k]
            k += 1
            if keepmax is not None and op["start"] < keepmax:
                continue
            if (st["status"], st["value"]) != (t["status"], t["value"]):
                v.append({"what": "query %d (start %d >= every keep time so far, %s): answer (status %d, value %d) but (status %d, value %d) on the never-pruned chain"
                          % (idx, op["start"], keepmax, st["status"], st["value"], t["status"], t["value"]),
                          "rec": {"fn": "twap.pruneRecordsBeforeTimeButNewest", "kind": "prune_visible"}})
    return v


def run_cases(cases, model_ok, out, tag):
    binary = common.go_build("c10drv", test=True)
    twins = [(i, twin_of(c)) for i, c in enumerate(cases) if case_prunes(c)]
    obs_all = common.run_driver(binary, cases + [t for _, t in twins], args="-test.run ^TestDriver$", shards=8)
    obs = obs_all[:len(cases)]
    twin_obs = {i: o for (i, _), o in zip(twins, obs_all[len(cases):])}
    good = []
    for ci, (c, o) in enumerate(zip(cases, obs)):
        out.evaluations += 1
        if o.get("err"):
            out.oracle_violations.append({"what": o["err"], "rec": {"fn": "driver", "kind": "unexpected_panic"}, "case": c})
            continue
        flat = [int(x) for x in o["flat"]]
        try:
            pr = parse(c, flat)
        except (AssertionError, IndexError, ValueError) as ex_:
            out.oracle_violations.append({"what": "driver output does not have the expected shape: %r" % (ex_,), "rec": {"fn": "driver", "kind": "shape"}, "case": c})
            continue
        vs = oracle(c, pr)
        if ci in twin_obs and not twin_obs[ci].get("err"):
            vs += twin_compare(c, pr, [int(x) for x in twin_obs[ci]["flat"]])
        for v in vs:
            v["case"] = c
            out.oracle_violations.append(v)
        if nontrivial(c, pr):
            out.nontrivial.add(json.dumps(c, sort_keys=True))
        good.append((c, pr))
    if model_ok:
        items, chunks = [], []
        arith = [g for g in good if not g[0].get("geom")]
        geo = [g for g in good if g[0].get("geom")]
        per_file = 6
        for fi in range(0, len(arith), per_file):
            chunks.append(arith[fi:fi + per_file])
        chunks += [[g] for g in geo]             # one file per geometric history: its logarithms dominate the cost
        for n_, chunk in enumerate(chunks):
            body = ";\n  ".join(coq_case(c, pr)[0] for c, pr in chunk)
            prices = sorted({p0 for c, pr in chunk if c.get("geom") for p0 in recorded_p0(pr)})
            vtxt = ("From Coq Require Import ZArith List. Import ListNotations.\n"
                    "From Osmo Require Import Base.Obs C10.Model C10.LogExp C10.Corr.\nOpen Scope Z_scope.\n"
                    "Definition cases : list case := [\n  %s ].\n"
                    "Definition tab : list (Z * option Z) := Eval vm_compute in build_tab %s.\n"
                    "Definition M := Eval vm_compute in mismatches (case_ok_tab tab) cases.\nPrint M.\n" % (body, zlist(prices)))
            items.append(("C10_%s_%d" % (tag, n_), vtxt))
        res = common.coq_eval_many(items)
        for (name, _), (rc, o), chunk in zip(items, res, chunks):
            mm = common.parse_nat_list(o)
            if rc != 0 or mm is None:
                out.mismatches.append({"what": "model evaluation failed: " + o[-800:], "case": None})
                continue
            for idx in mm:
                c, pr = chunk[idx]
                out.mismatches.append({"what": "C10 model_obs differs from implementation observations", "case": c})
    else:
        out.model_ran = False
    return good


def recorded_p0(pr):
    """every distinct non-zero asset-0 price stored in a record of this history (the arguments of twapLog)"""
    ps = set()
    for st in pr.steps:
        if st["op"] == "end":
            for rp in st["recent"]:
                ps.update(rc[2] for rc in rp)
    for hp in pr.final_hist:
        for recs in hp:
            ps.update(rc[2] for rc in recs)
    ps.discard(0)
    return ps


# (share of the cases, flavour) - arithmetic-only histories
FLAVOURS = [(24, {}), (14, {"prune": True}), (12, {"extreme": True}), (8, {"ns": True}),
            (6, {"prune": True, "extreme": True, "ns": True})]


def gen_cases(r, tier, n):
    cases = []
    tot = sum(w for w, _ in FLAVOURS)
    for i in range(n):
        x = (i * tot) // n
        for w, fl in FLAVOURS:
            if x < w:
                break
            x -= w
        cases.append(gen_case(r.fork(i), tier, **fl))
    return cases


# geometric histories (every stored asset-0 price costs one LogBase2 evaluation in the model): share, flavour
GEOM_FLAVOURS = [(3, {}), (1, {"extreme": True}), (1, {"prune": True}), (1, {"ns": True})]


def gen_geom_cases(r, tier, n):
    cases = []
    tot = sum(w for w, _ in GEOM_FLAVOURS)
    for i in range(n):
        x = (i * tot) // n
        for w, fl in GEOM_FLAVOURS:
            if x < w:
                break
            x -= w
        cases.append(gen_case(r.fork("g%d" % i), tier, geom=True, **fl))
    return cases


def f7_witness():
    """the witness of Properties/C10.v C10_geom_full_refuted on the real chain: a pool whose spot price is exactly 1
    (arithmetic TWAP 1.0, geometric TWAP 0.0 in both quote directions)"""
    t0 = 1_700_000_000 * SEC
    ops = [{"op": "bal", "denoms": ["aaa", "bbb"], "amts": ["1000000000", "1000000000"], "weights": [1, 1]}]
    for _ in range(5):
        ops.append({"op": "end", "dt": 60 * SEC})
    for kind in (0, 1):
        for a, b in (("aaa", "bbb"), ("bbb", "aaa")):
            ops.append({"op": "q", "kind": kind, "pool": 1, "base": a, "quote": b, "start": t0 + 60 * SEC, "end": t0 + 240 * SEC})
    return {"t0": t0, "prune_limit": 0, "keep_period": 0, "geom": True, "ops": ops}


def correspond(tier, seed, model_ok):
    out = Outcome()
    r = Rng(seed)
    n = 56 if tier == "quick" else 600
    ng = 24 if tier == "quick" else 240
    cases = [f7_witness()] + gen_cases(r, tier, n) + gen_geom_cases(r, tier, ng)
    corpus = common.load_corpus(PROP)
    good = run_cases(corpus + cases, model_ok, out, "q")
    out.rule = ("case = history on a fresh full app (1-3 balancer / concentrated pools, swaps, joins, exits, position creation and withdrawal, "
                "irregular block times incl. sub-millisecond ones, pools driven into spot-price errors / beyond the maximum price, pruning passes "
                "with small per-block limits and through the epoch hook) with arithmetic and geometric TWAP queries (+ToNow) on, between, before "
                "and after record times; non-trivial = at least two blocks recorded a price change and at least one query over a positive "
                "interval returned a value; distinct = distinct case JSON")
    out.samples = [{"t0": c["t0"], "ops": c["ops"][:8]} for c in cases[:3]]
    kinds, qst = {}, {}
    for c, pr in good:
        for op, st in zip(c["ops"], pr.steps):
            kinds[op["op"]] = kinds.get(op["op"], 0) + 1
            if op["op"] == "q":
                qst[str(st["status"])] = qst.get(str(st["status"]), 0) + 1
    out.distribution = {"ops": kinds, "query_status": qst, "corpus_cases": len(corpus),
                        "geometric_histories": sum(1 for c, _ in good if c.get("geom")),
                        "log_base2_evaluations": sum(len(recorded_p0(pr)) for c, pr in good if c.get("geom")),
                        "histories_with_pruning": sum(1 for c, _ in good if case_prunes(c))}
    return out


def search(tier, seed, out):
    o2 = Outcome()
    r = Rng(seed + 7919)
    cases = gen_cases(r, "thorough", 300) + gen_geom_cases(r, "quick", 100)
    for m in out.mismatches[:20]:
        if m.get("case"):
            cases.append(m["case"])
    run_cases(cases, False, o2, "s")
    findings = common.load_findings(PROP)
    real = [v for v in o2.oracle_violations if not common.match_finding(findings, v.get("rec", {}))]
    return real[0] if real else None


def replay(path):
    d = json.load(open(path))
    c = d["case"].get("case") if isinstance(d.get("case"), dict) else None
    if not c:
        print("replay names a proof obligation / correspondence, not an input:", d.get("what"))
        return 1
    out = Outcome()
    run_cases([c], True, out, "r")
    for v in out.oracle_violations:
        print("oracle:", v["what"])
    for m in out.mismatches:
        print("mismatch:", m["what"])
    return 1 if (out.oracle_violations or out.mismatches) else 0


def selftest(seed=1):
    """unit checks of the checking machinery itself: the oracle must flag hand-perturbed observations and case_ok must
    reject a perturbed expectation"""
    r = Rng(seed)
    cases = gen_cases(r, "quick", 16)
    binary = common.go_build("c10drv", test=True)
    obs = common.run_driver(binary, cases, args="-test.run ^TestDriver$", shards=8)
    done = set()
    for c, o in zip(cases, obs):
        flat = [int(x) for x in o["flat"]]
        pr = parse(c, flat)
        base = [v for v in oracle(c, pr) if v["rec"].get("cause") != "interval_within_one_millisecond"]
        assert not base, base
        for idx, (op, st) in enumerate(zip(c["ops"], pr.steps)):
            if op["op"] != "q" or op["kind"] != 0:
                continue
            if st["status"] == Q_OK and (op.get("tonow") or ms(op["start"]) < ms(op["end"])) and "mean" not in done:
                st["value"] += 1
                kinds = {v["rec"]["kind"] for v in oracle(c, pr)}
                st["value"] -= 1
                if "mean" in kinds or "min_max" in kinds:
                    done.add("mean")
                    print("selftest: oracle flags an arithmetic TWAP that is 1e-18 too high: ok")
            if st["status"] == Q_FLAG and "flag" not in done:
                st["status"] = Q_OK
                kinds = {v["rec"]["kind"] for v in oracle(c, pr)}
                st["status"] = Q_FLAG
                if "missing_error_flag" in kinds:
                    done.add("flag")
                    print("selftest: oracle flags a dropped error flag: ok")
        if "coq" not in done:
            term, exp = coq_case(c, pr)
            bad = list(exp)
            k = max(i for i, x in enumerate(bad) if x > 10 ** 9)
            bad[k] += 1
            term_bad = term[:term.rindex("[")] + zlist(bad)
            vtxt = ("From Coq Require Import ZArith List. Import ListNotations.\n"
                    "From Osmo Require Import Base.Obs C10.Model C10.Corr.\nOpen Scope Z_scope.\n"
                    "Definition cases : list case := [\n  %s;\n  %s ].\n"
                    "Definition M := Eval vm_compute in mismatches case_ok cases.\nPrint M.\n" % (term, term_bad))
            rc, o2 = common.coq_eval("C10_selftest", vtxt)
            mm = common.parse_nat_list(o2)
            assert mm == [1], (rc, o2[-500:])
            done.add("coq")
            print("selftest: case_ok accepts the observed expectation and rejects one perturbed by 1: ok")
    missing = {"mean", "flag", "coq"} - done
    assert not missing, missing
    return 0


SCOPE = ("partial: proved for every history and every interval inside the retention window - arithmetic TWAP = truncated time-weighted mean "
         "(definitional integral), between min and max, geometric accumulator difference = sum log2(p_i)*dt_i exactly and result = the code's "
         "rounding of Exp2|mean| or its reciprocal when that difference is non-zero, the two quote directions share one Exp2 value, error flag, "
         "pruning invisible. Refuted (findings, witnesses in the theorem file): geometric TWAP 0 when the accumulator difference is 0 (F7); "
         "intervals inside one millisecond panic (C10-SUBMS); outside that case arithmetic queries inside the window are proved to be "
         "answered. Real-valued (standard-library real axioms): geometric TWAP = 2^(+-m) within 5.1e-8 relative + 3e-18, m = truncated "
         "mean of the accumulated logarithms, and within 5.1e-8 relative + 3e-18 of 2^(+-M), M = the true time-weighted mean of "
         "log2(price) - the latter stated under two accuracy statements about the model's twap_log / exp2 that C10/BridgeC13.v proves "
         "from C13's LogBase2 / Exp2 theorems (file compiled by ./check --setup with the whole development, kept outside the theorem file's cone because of coqchk time and so that C10's check does not depend on C13's files). "
         "Not proved: geometric queries never failing (Exp2's 2^9 exponent bound). The per-pair theorems are lifted to the module-level model that the "
         "correspondence runs (C10/Lift.v: every pair of every reachable module state has a well-formed pair history)")
EXPLANATION = ("Gallina model of x/twap (C10/Model.v: getSpotPrices, newTwapRecord, updateRecord, recordWithUpdatedAccumulators, "
               "getInterpolatedRecord, computeTwap with both strategies, pruneRecordsBeforeTimeButNewest with its per-block limit, EndBlock, epoch "
               "hook, the changed-pool set) plus faithful copies of osmomath LogBase2 / Exp2 / SigFigRound (C10/LogExp.v). Theorems are by induction "
               "over the chain of records ever stored for a pair, against a definitional sum over millisecond slots of the price step function. "
               "The model is tied to /repo by running the real keeper on a full app (balancer and concentrated pools) and comparing every stored "
               "record field, changed-pool set, pruning state and query answer; the pool's raw spot prices are case inputs. An independent oracle "
               "(exact Fractions; 90-digit decimal log/exp) evaluates the property's predicates on the implementation's observations.")
TRUSTED = [
    "hand-written model coq/theories/C10/Model.v + LogExp.v, tied to x/twap and osmomath by the correspondence run (harness/c10drv against /repo's working tree)",
    "harness/c10drv (Go; clears the twap transient store between blocks the way a commit does), props/c10.py (generator, parser, oracle), Coq vm_compute evaluation of generated case files; logarithms of a history are tabulated once (lg_cached, proved pointwise equal to twap_log)",
    "modelled not verified: pool modules (their spot prices are inputs), SDK stores and time formatting of keys (years 1..9999), protobuf codecs, math/big",
]
ASSUMPTIONS = [
    "block times strictly increase (CometBFT BFT time) and lie after year 1; pool ids are assigned 1,2,3,... in creation order",
    "time-weighted means are taken over canonical millisecond time (types.CanonicalTimeMs), as the module documents",
    "theorems are stated per (pool, asset pair) and lifted to the module state (EndBlock over changed pools, pruning over pools and pairs with its per-block limit) in C10/Lift.v",
]
TECHNIQUE = "Coq proof over a Gallina model of x/twap; model tied to the keeper by differential correspondence on full-app histories + oracle"
LEVEL_TEXT = ("Machine-checked theorems (Coq 8.16.1; axiom-free except the two real-valued ones) over all histories of one (pool, pair) and all query intervals inside the retention "
              "window: arithmetic TWAP equals the truncated definitional time-weighted mean and lies between min and max; geometric accumulator "
              "structure and result form; reciprocity of the quote directions up to the stated roundings; error flag; pruning invisibility. Two "
              "clauses of the property are refuted on the faithful model with witnesses replayed on the real chain (known findings F7, C10-SUBMS). "
              "The model is checked against the real keeper on generated full-app histories on every run.")
LEVEL_NOTE = ("Trusted: Coq kernel (vm_compute, no native_compute); axioms: none for the integer theorems, the standard library's classical real "
              "numbers (sig_not_dec, sig_forall_dec, functional_extensionality_dep, classic) for the three real-valued theorems (C10_geom_value_partial, C10_geom_twap_true_mean_partial, C10_geom_twap_model_partial); "
              "their accuracy hypotheses on Exp2 / twapLog are discharged for the model's own functions in C10/BridgeC13.v from C13's theorems (Coq-Interval), compiled with the whole development (./check --setup) but outside the theorem file's cone; hand-written model C10/Model.v + LogExp.v; Go driver harness/c10drv and "
              "python glue; pool modules, SDK stores, codecs not modelled. The geometric TWAP's error against the true mean of log2(price) is not proved (LogBase2 bound missing).")
