"""C11 - superfluid staking: stake tracks locks, supply is neutral, locks stay bonded.
Case generator, Coq case writer, oracle (independent of the Coq model), self-test of the machinery."""
import json
import os
from fractions import Fraction

from lib import common
from lib.common import Rng, Outcome, zlit, zlist

PROP = "C11"
GO_PKGS = [("c11drv", True)]
MODEL_VO = ["theories/C11/Corr.vo"]
ALLOWED_AXIOMS = []
SCOPE = ("partial: theorems of Properties/C11.v hold for every history of the modelled operations (lock, top-up, MsgLockTokens, lock-and-delegate, "
         "create-position-and-delegate, superfluid delegate / undelegate / unbond / undelegate-and-unbond incl. partial, unbond-convert-and-stake of a lock, "
         "begin-unlock (whole, partial, all, force), withdraw, time advance, end-block cleanup, epoch refresh with arbitrary new multipliers) over any number of "
         "validators, owners, denoms; "
         "slashing (x/superfluid/keeper/slash.go): the model function `slash` mirrors it for gamm-share locks and is compared with the real app in the "
         "correspondence run; the marker / unlock-refusal / withdraw-refusal / accumulator theorems hold for histories with slashes (fractions <= 1/2) in "
         "between, the stake-tracking theorems (refresh_exact, drift) and supply neutrality are for slash-free histories only (validator slashing is not a "
         "step of the property's histories; what the slash does to the reported supply is recorded as an observation: C11_observation_slash_moves_reported_supply); "
         "NOT covered: concentrated-share locks under slashing, x/staking is a "
         "hand model of an SDK module (bonded validators only, no unbonding queue, no rewards), exchange rate 1:1 is a hypothesis of refresh_exact and of the "
         "drift bound, removal of a superfluid asset / pool without OSMO (epoch hook returns early), governance parameter changes, LegacyDec range panics, "
         "the 1000-lock bound of WithdrawMaturedLocks, concentrated-liquidity position migration messages. The literal drift bound "
         "(<= number of currently delegated locks) is refuted by a dust witness (finding C11-F1); the proved bound counts the locks present at the last "
         "refresh plus 2 per top-up since.")
EXPLANATION = ("Gallina model C11/Model.v of the superfluid keeper, the lockup functions it drives and a small staking/bank model; invariants proved by "
               "induction over operation histories (C11/Proofs*.v). The model is tied to /repo by running the real full app (2-3 validators, 3 owners, "
               "1-3 gamm / concentrated share denoms, risk factors, exchange rates) on generated histories of 30-60 operations and comparing after every "
               "operation: result code, block time, OSMO supply and offset, multipliers, validator tokens/shares, every intermediary account's delegation "
               "shares/tokens, GetExpectedDelegationAmount, both synthetic-denom accumulators, all connections, all synthetic locks, all locks and the "
               "TotalSuperfluidDelegations query. An independent oracle checks the property's predicates on the implementation's observations.")
TRUSTED = [
    "hand-written model coq/theories/C11/Model.v, tied to x/superfluid + x/lockup + SDK x/staking, x/bank by the correspondence run (harness/c11drv against /repo's working tree)",
    "harness/c11drv (Go, full app through verifharness/apph), props/c11.py (generator, flattening, oracle), Coq vm_compute evaluation of generated case files",
    "modelled not verified: SDK x/staking (Delegate, ValidateUnbondAmount, InstantUndelegate, validator share arithmetic), x/bank supply/offset, baseapp message atomicity (DESIGN 1.5); "
    "not modelled: slashing, distribution rewards, gauges, incentives, LP balances, events",
]
ASSUMPTIONS = [
    "no slashing; validators stay bonded; superfluid assets stay registered; pools keep a positive OSMO reserve; parameters (unbonding time, MinimumRiskFactor) fixed per history",
    "refresh_exact and the drift bound assume validator exchange rate 1:1 (tokens * 10^18 = delegator shares), which all modelled operations preserve",
    "block time is non-decreasing; Dec values stay within LegacyDec's 2^256 range",
]
TECHNIQUE = "Coq proof by induction over operation histories on a Gallina model of x/superfluid + lockup pieces + small staking/bank model; model tied to the full app by differential correspondence (vm_compute) + independent oracle"
LEVEL_TEXT = ("Machine-checked theorems (Coq 8.16.1, axiom-free) over all histories of the modelled operations: supply neutrality, marker invariants, "
              "refusal to unlock while delegated / withdraw before maturity, exact delegation after refresh and a drift bound in between (partial: no slashing, "
              "staking is a model of an SDK module). The model is checked against the real app on generated histories on every run; an independent oracle "
              "evaluates the property's predicates on the implementation's observations.")
LEVEL_NOTE = ("Trusted: Coq kernel (vm_compute, no native_compute), no axioms; hand-written model C11/Model.v incl. its staking/bank part; Go driver harness/c11drv and python glue; "
              "baseapp atomicity assumed (DESIGN 1.5). Slashing unmodelled.")

P18 = 10 ** 18
SEC = 10 ** 9
DEFAULT_UNB = 1814400 * SEC


def dec_raw(s):
    """decimal string -> 10^18 raw mantissa"""
    f = Fraction(s)
    r = f * P18
    assert r.denominator == 1, s
    return r.numerator


def raw_dec(n):
    sign = "-" if n < 0 else ""
    n = abs(n)
    return "%s%d.%018d" % (sign, n // P18, n % P18)


# ---------------------------------------------------------------------------------------------
# generator
# ---------------------------------------------------------------------------------------------
RFS = ["0.5", "0.5", "0.5", "0", "0.25", "0.333333333333333333", "0.9", "1", "0.000000000000000001", "0.07"]
GMULTS = ["20", "20", "1", "0.5", "3.7", "0.000001", "1000"]


def gen_amount(r, kind):
    c = r.below(10)
    if kind == "cl":
        return r.choice([1000, 5000000, r.range(10 ** 3, 10 ** 9), r.range(10 ** 9, 10 ** 15)])
    if c < 2:
        return r.range(1, 12)                       # dust: values round to 0 / 1
    if c < 4:
        return r.range(10, 10 ** 4)
    if c < 7:
        return r.range(10 ** 5, 10 ** 9)
    return r.range(10 ** 15, 10 ** 20)


def gen_case(r, tier, force=None):
    force = force or {}
    nval = r.range(2, 3)
    denoms = [{"kind": "gamm", "mult": r.choice(GMULTS), "sf": True}]
    x = r.below(10)
    if x < 4:
        denoms.append({"kind": "gamm", "mult": r.choice(GMULTS), "sf": True})
    elif x < 7:
        denoms.append({"kind": "cl", "mult": "", "sf": True})
    if r.chance(1, 4):
        denoms.append({"kind": "gamm", "mult": r.choice(GMULTS), "sf": False})
    rf = r.choice(RFS)
    unb = r.choice([0, 0, 0, 3600 * SEC, 14 * 86400 * SEC])
    U = unb or DEFAULT_UNB
    vtok = []
    if r.chance(1, 6):
        vtok = [str(r.choice([0, r.range(1, 10 ** 6), 10 ** 6, r.range(1, 10 ** 9)])) for _ in range(nval)]
    forced = sorted(set(r.below(3) for _ in range(r.below(3)))) if r.chance(1, 2) else []
    if "denoms" in force:
        denoms = force["denoms"]
    if "rf" in force:
        rf = force["rf"]
    if "vtok" in force:
        vtok = force["vtok"]
    nd = len(denoms)
    nops = r.range(30, 60) if tier == "quick" else r.range(30, 90)
    # shadow state (generator only: picks mostly valid operations; it is allowed to be wrong)
    locks = {}            # id -> dict(owner, d, amt, st) st in free/del/undel/unlocking
    last = 0
    ops = []
    cur_mult = [dec_raw(dn["mult"]) if dn["kind"] == "gamm" else P18 for dn in denoms]
    dusty = r.chance(1, 4)      # histories that live at the rounding boundary
    # validator slashing (outside the theorems' scope; the model function [slash] is compared): gamm-share denoms only
    slashing = r.chance(1, 5) and all(dn["kind"] == "gamm" for dn in denoms)
    swapped = False

    def pick(pred):
        c = [i for i, l in locks.items() if pred(l)]
        return r.choice(c) if c else None

    def amount(kind):
        if dusty and kind != "cl":
            return r.range(1, 9)
        return gen_amount(r, kind)

    for _ in range(nops):
        x = r.below(100)
        if slashing and locks and r.chance(1, 20):
            ops.append({"k": "slash", "v": r.below(nval), "amt": str(r.choice([P18 // 10000, P18 // 100, P18 // 20, P18 // 10, P18 // 3, r.range(1, P18 // 2)]))})
            continue
        if x < 15 or not locks:
            d = r.below(nd)
            dur = r.choice([U, U, U, 2 * U, U + 1, U - 1, 3600 * SEC])
            o = r.below(3)
            y = r.below(10)
            if denoms[d]["kind"] == "cl":
                a = amount("cl")
                if y < 3:
                    v = r.below(nval) if not r.chance(1, 12) else nval
                    ops.append({"k": "cldel", "o": o, "d": d, "amt": str(a), "v": v})
                    if v < nval and denoms[d]["sf"]:
                        last += 1
                        locks[last] = {"owner": o, "d": d, "amt": a, "st": "del", "dur": U, "v": v}
                    continue
                dur = r.choice([U, U, 2 * U])
                ops.append({"k": "cllock", "o": o, "d": d, "amt": str(a), "dur": dur})
            else:
                a = amount("gamm")
                if y < 3:
                    # the message servers: an existing bonded lock of the same owner / denom / duration is topped up instead
                    same = [i for i, l in locks.items() if l["owner"] == o and l["d"] == d and l["dur"] == (U if y < 2 else dur) and l["st"] in ("free", "del", "undel")]
                    if y < 2:
                        v = r.below(nval) if not r.chance(1, 12) else nval
                        ops.append({"k": "lockdel", "o": o, "d": d, "amt": str(a), "v": v})
                        if same:
                            i = min(same)
                            if locks[i]["st"] == "free" and v < nval and denoms[d]["sf"]:
                                locks[i]["amt"] += a
                                locks[i]["st"] = "del"
                        elif v < nval and denoms[d]["sf"]:
                            last += 1
                            locks[last] = {"owner": o, "d": d, "amt": a, "st": "del", "dur": U, "v": v}
                    else:
                        ops.append({"k": "locktokens", "o": o, "d": d, "amt": str(a), "dur": dur})
                        if same:
                            locks[min(same)]["amt"] += a
                        else:
                            last += 1
                            locks[last] = {"owner": o, "d": d, "amt": a, "st": "free", "dur": dur}
                    continue
                ops.append({"k": "lock", "o": o, "d": d, "amt": str(a), "dur": dur})
            last += 1
            locks[last] = {"owner": o, "d": d, "amt": a, "st": "free", "dur": dur}
        elif x < 34:
            i = pick(lambda l: l["st"] == "free") if not r.chance(1, 8) else pick(lambda l: True)
            if i is None:
                continue
            l = locks[i]
            o = l["owner"] if not r.chance(1, 15) else r.below(3)
            v = r.below(nval) if not r.chance(1, 15) else nval + r.below(2)
            ops.append({"k": "sfdel", "o": o, "id": i if not r.chance(1, 30) else last + 3, "v": v})
            if o == l["owner"] and v < nval and l["st"] == "free" and denoms[l["d"]]["sf"] and l["dur"] >= U:
                l["st"] = "del"
                l["v"] = v
        elif x < 44:
            i = pick(lambda l: l["st"] == "del") if not r.chance(1, 8) else pick(lambda l: True)
            if i is None:
                continue
            l = locks[i]
            o = l["owner"] if not r.chance(1, 15) else r.below(3)
            ops.append({"k": "sfundel", "o": o, "id": i})
            if o == l["owner"] and l["st"] == "del":
                l["st"] = "undel"
        elif x < 50:
            i = pick(lambda l: l["st"] == "undel") if not r.chance(1, 5) else pick(lambda l: True)
            if i is None:
                continue
            l = locks[i]
            o = l["owner"] if not r.chance(1, 15) else r.below(3)
            ops.append({"k": "sfunbond", "o": o, "id": i})
            if o == l["owner"] and l["st"] == "undel":
                l["st"] = "unlocking"
        elif x < 58:
            i = pick(lambda l: l["st"] == "del") if not r.chance(1, 8) else pick(lambda l: True)
            if i is None:
                continue
            l = locks[i]
            a = l["amt"]
            amt = r.choice([a, a, max(1, a // 2), max(1, a // 3), 1, max(1, a - 1), a + 1, 0]) if not r.chance(1, 4) else r.range(1, max(1, a))
            ops.append({"k": "sfundelunbond", "o": l["owner"], "id": i, "amt": str(amt)})
            if l["st"] == "del" and 0 < amt <= a:
                if amt == a:
                    l["st"] = "unlocking"
                else:
                    l["amt"] = a - amt
                    last += 1
                    locks[last] = {"owner": l["owner"], "d": l["d"], "amt": amt, "st": "unlocking", "dur": l["dur"]}
        elif x < 67:
            i = pick(lambda l: l["st"] in ("del", "del", "undel", "free") and denoms[l["d"]]["kind"] != "cl")
            if i is None:
                continue
            l = locks[i]
            a = amount("gamm")
            o = l["owner"] if not r.chance(1, 20) else r.below(3)
            ops.append({"k": "topup", "o": o, "id": i, "amt": str(a)})
            if o == l["owner"]:
                l["amt"] += a
        elif x < 76:
            i = pick(lambda l: l["st"] in ("del", "undel")) if r.chance(2, 3) else pick(lambda l: True)
            if i is None:
                continue
            l = locks[i]
            y = r.below(10)
            if y < 4:
                ops.append({"k": "beginunlock", "o": l["owner"], "id": i})
                if l["st"] == "free":
                    l["st"] = "unlocking"
            elif y < 6:
                a = l["amt"]
                amt = r.choice([a, max(1, a // 2), 1, max(1, a - 1), a + 1])
                ops.append({"k": "beginunlockpartial", "o": l["owner"], "id": i, "amt": str(amt)})
                if l["st"] == "free" and amt <= a:
                    if amt == a:
                        l["st"] = "unlocking"
                    else:
                        l["amt"] = a - amt
                        last += 1
                        locks[last] = {"owner": l["owner"], "d": l["d"], "amt": amt, "st": "unlocking", "dur": l["dur"]}
            elif y < 8:
                # every bonded lock of the owner starts unlocking - unless one of them is superfluid staked
                o = l["owner"] if not r.chance(1, 6) else r.below(3)
                ops.append({"k": "beginunlockall", "o": o})
                mine = [q for q in locks.values() if q["owner"] == o]
                if not any(q["st"] in ("del", "undel") for q in mine):
                    for q in mine:
                        if q["st"] == "free":
                            q["st"] = "unlocking"
            else:
                o = l["owner"] if not r.chance(1, 6) else r.below(3)
                ops.append({"k": "forceunlock", "o": o, "id": i})
                if o == l["owner"] and o in forced and l["st"] in ("free", "unlocking"):
                    l["st"] = "gone"
        elif x < 79:
            i = pick(lambda l: l["st"] in ("unlocking", "undel")) if r.chance(2, 3) else pick(lambda l: True)
            if i is None:
                continue
            ops.append({"k": "withdraw", "id": i})
        elif x < 81:
            # MsgUnbondConvertAndStake: the lock leaves lockup whatever its state and is staked as plain OSMO
            i = pick(lambda l: l["st"] != "gone")
            if i is None:
                continue
            l = locks[i]
            o = l["owner"] if not r.chance(1, 10) else r.below(3)
            v = r.below(nval) if not r.chance(1, 10) else nval
            ops.append({"k": "convert", "o": o, "id": i, "v": v})
            if o == l["owner"] and v < nval and denoms[l["d"]]["kind"] == "gamm":
                l["st"] = "gone"
        elif x < 85:
            ops.append({"k": "adv", "dt": r.choice([SEC, 3600 * SEC, U // 2, U - 1, U, U + 1, 2 * U, r.range(1, 2 * U)])})
        elif x < 88:
            ops.append({"k": "cleanup"})
        elif x < 96:
            if swapped or r.chance(1, 3):
                ops.append({"k": "epoch", "mode": "hook"})
                swapped = False
            else:
                ms = []
                for d in range(nd):
                    c = r.below(12)
                    if c < 2 or not denoms[d]["sf"]:
                        ms.append("")
                        continue
                    if c < 3:
                        m = 0
                    elif c < 5:
                        m = r.range(1, 3 * P18)
                    elif c < 6:
                        m = r.choice([P18, P18 // 2, P18 // 3, 2 * P18, 1])
                    else:
                        m = cur_mult[d] * r.range(50, 200) // 100 + r.range(0, 1000)
                    cur_mult[d] = m
                    ms.append(str(m))
                ops.append({"k": "epoch", "mode": "direct", "mults": ms})
        else:
            d = r.below(nd)
            if denoms[d]["kind"] == "gamm":
                pool_osmo = dec_raw(denoms[d]["mult"]) * 100
                if r.chance(1, 2):
                    ops.append({"k": "swap", "d": d, "dir": 0, "amt": str(max(1, pool_osmo * r.range(1, 30) // 100))})
                else:
                    ops.append({"k": "swap", "d": d, "dir": 1, "amt": str(r.range(1, 3000))})
            else:
                ops.append({"k": "swap", "d": d, "dir": r.below(2), "amt": str(r.range(1, 10 ** 17))})
            swapped = True
    return {"nval": nval, "denoms": denoms, "rf": rf, "unb": unb, "vtok": vtok, "force": forced, "ops": ops}


# deterministic witness of finding C11-F1 (three dust locks, refresh, two undelegations)
def witness_f1():
    U = DEFAULT_UNB
    ops = [{"k": "epoch", "mode": "direct", "mults": [str(P18)]}]
    for o in range(3):
        ops.append({"k": "lock", "o": o, "d": 0, "amt": "3", "dur": U})
    for o in range(3):
        ops.append({"k": "sfdel", "o": o, "id": o + 1, "v": 0})
    ops.append({"k": "epoch", "mode": "direct", "mults": [str(P18)]})
    ops.append({"k": "sfundel", "o": 0, "id": 1})
    ops.append({"k": "sfundel", "o": 1, "id": 2})
    return {"nval": 2, "denoms": [{"kind": "gamm", "mult": "20", "sf": True}], "rf": "0.5", "unb": 0, "vtok": [], "force": [], "ops": ops}


# deterministic case for the observation recorded in C11/STATUS.md (a validator with superfluid stake is slashed by 10%)
def witness_f2():
    U = DEFAULT_UNB
    ops = [{"k": "lock", "o": 0, "d": 0, "amt": "1000000", "dur": U}, {"k": "sfdel", "o": 0, "id": 1, "v": 0},
           {"k": "epoch", "mode": "hook"}, {"k": "slash", "v": 0, "amt": str(P18 // 10)}, {"k": "epoch", "mode": "hook"},
           {"k": "sfundel", "o": 0, "id": 1}, {"k": "epoch", "mode": "hook"}]
    return {"nval": 2, "denoms": [{"kind": "gamm", "mult": "20", "sf": True}], "rf": "0.5", "unb": 0, "vtok": [], "force": [], "ops": ops}


# ---------------------------------------------------------------------------------------------
# observation rows
# ---------------------------------------------------------------------------------------------
def parse_row(row, nd, nv):
    row = [int(x) for x in row]
    p = 0
    o = {"code": row[0], "newid": row[1], "now": row[2], "supply": row[3], "offset": row[4], "swo": row[5], "bonded": row[6]}
    p = 7
    o["mult"], o["pin"] = [], []
    for _ in range(nd):
        o["mult"].append(row[p])
        o["pin"].append((row[p + 1], row[p + 2]))
        p += 3
    o["vals"] = []
    for _ in range(nv):
        o["vals"].append((row[p], row[p + 1]))
        p += 2
    o["acc"] = {}
    for d in range(nd):
        for v in range(nv):
            o["acc"][(d, v)] = dict(zip(("exists", "shares", "tokens", "expected", "stk", "ustk", "bal"), row[p:p + 7]))
            p += 7
    n = row[p]
    p += 1
    o["conns"] = [tuple(row[p + 3 * i:p + 3 * i + 3]) for i in range(n)]
    p += 3 * n
    n = row[p]
    p += 1
    o["synths"] = [tuple(row[p + 6 * i:p + 6 * i + 6]) for i in range(n)]     # id, kind, d, v, end, dur
    p += 6 * n
    n = row[p]
    p += 1
    o["locks"] = [tuple(row[p + 6 * i:p + 6 * i + 6]) for i in range(n)]      # id, owner, d, amt, dur, end
    p += 6 * n
    o["total"] = row[p]
    assert p + 1 == len(row), (p, len(row))
    return o


def model_flat(o, nd, nv):
    """the part of a row the Coq model reproduces, in the order of C11/Corr.v flat_row"""
    f = [o["code"], o["newid"], o["now"], o["supply"], o["offset"], o["bonded"]]
    f += o["mult"]
    for t, s in o["vals"]:
        f += [t, s]
    for d in range(nd):
        for v in range(nv):
            a = o["acc"][(d, v)]
            f += [a["exists"], a["shares"], a["tokens"], a["expected"], a["stk"], a["ustk"]]
    f.append(len(o["conns"]))
    for c in o["conns"]:
        f += list(c)
    f.append(len(o["synths"]))
    for s in o["synths"]:
        f += list(s)
    f.append(len(o["locks"]))
    for l in o["locks"]:
        f += list(l)
    f.append(o["total"])
    return f


def coq_op(op, prev, c, order, cur=None):
    k = op["k"]
    z = zlit
    if k in ("lock", "cllock"):
        return None  # handled by caller (cllock needs the observed amount)
    if k == "topup":
        return "OTopUp %s %s %s" % (z(op["o"]), z(op["id"]), z(int(op["amt"])))
    if k == "sfdel":
        return "ODelegate %s %s %s" % (z(op["o"]), z(op["id"]), z(op["v"]))
    if k == "sfundel":
        return "OUndelegate %s %s" % (z(op["o"]), z(op["id"]))
    if k == "sfunbond":
        return "OUnbondLock %s %s" % (z(op["o"]), z(op["id"]))
    if k == "sfundelunbond":
        return "OUndelegateAndUnbond %s %s %s" % (z(op["o"]), z(op["id"]), z(int(op["amt"])))
    if k == "beginunlock":
        return "OBeginUnlock %s %s" % (z(op["o"]), z(op["id"]))
    if k == "beginunlockpartial":
        return "OBeginUnlockPartial %s %s %s" % (z(op["o"]), z(op["id"]), z(int(op["amt"])))
    if k == "beginunlockall":
        return "OBeginUnlockAll %s" % z(op["o"])
    if k == "forceunlock":
        return "OForceUnlock %s %s" % (z(op["o"]), z(op["id"]))
    if k == "convert":
        # the OSMO obtained from the pool exit and swaps is an environment input (reported by the message); an environment
        # failure (code 97: pool exit / swap) is an input too
        return "OConvert %s %s %s %s %s" % (z(op["o"]), z(op["id"]), z(op["v"]), z(cur["newid"] if cur["code"] == 0 else 1), "false" if cur["code"] == 97 else "true")
    if k == "withdraw":
        return "OWithdraw %s" % z(op["id"])
    if k == "adv":
        return "OAdvance %s" % z(op["dt"])
    if k == "cleanup":
        return "OCleanup"
    if k == "epoch":
        nv = c["nval"]
        ins = []
        if op["mode"] == "direct":
            for d, m in enumerate(op.get("mults", [])):
                if m != "" and d < len(c["denoms"]):
                    ins.append("(%s, MDirect %s)" % (z(d), z(int(m))))
        else:
            for d, dn in enumerate(c["denoms"]):
                if not dn["sf"]:
                    continue
                a, b = prev["pin"][d]
                ins.append("(%s, %s %s %s)" % (z(d), "MPool" if dn["kind"] == "gamm" else "MCL", z(a), z(b)))
        od = "[" + "; ".join("(%s, %s)" % (z(x // nv), z(x % nv)) for x in order) + "]"
        return "OEpoch [%s] %s" % ("; ".join(ins), od)
    raise ValueError(k)


def coq_case(c, o):
    """Coq term for a case + the implementation's observations; None if the case cannot be expressed"""
    nd, nv = len(c["denoms"]), c["nval"]
    rows = [parse_row(r, nd, nv) for r in o["flat"]]
    U = int(o["unb"])
    r0 = rows[0]
    ops = []
    ei = 0
    keep = [0]
    for i, op in enumerate(c["ops"]):
        prev, cur = rows[i], rows[i + 1]
        k = op["k"]
        if k == "swap":
            # environment step outside the model (moves the pool reserves only): the row is dropped from the comparison
            continue
        if k == "lock":
            ops.append("OLock %s %s %s %s" % (zlit(op["o"]), zlit(op["d"]), zlit(int(op["amt"])), zlit(op["dur"])))
        elif k == "locktokens":
            ops.append("OLockTokens %s %s %s %s" % (zlit(op["o"]), zlit(op["d"]), zlit(int(op["amt"])), zlit(op["dur"])))
        elif k == "lockdel":
            ops.append("OLockAndDelegate %s %s %s %s" % (zlit(op["o"]), zlit(op["d"]), zlit(int(op["amt"])), zlit(op["v"])))
        elif k == "cldel":
            # the shares minted by the concentrated pool are an environment input read off the observation; a refused message
            # is reproduced with a dummy amount (huge: the refusals other than "zero osmo equivalent" do not depend on it)
            if cur["code"] == 0:
                lk = [l for l in cur["locks"] if l[0] == cur["newid"]]
                if len(lk) != 1:
                    return None
                amt_ = lk[0][3]
            elif cur["code"] == 7:
                amt_ = 1             # the value is monotone in the amount: zero for the real amount => zero for 1
            elif cur["code"] in (3, 5, 6, 8):
                amt_ = 10 ** 30
            else:
                return None
            ops.append("OCreateAndDelegate %s %s %s %s" % (zlit(op["o"]), zlit(op["d"]), zlit(amt_), zlit(op["v"])))
        elif k == "cllock":
            # the lock holds the liquidity shares minted by the concentrated pool: an environment input read off the observation
            if cur["code"] != 0:
                return None
            lk = [l for l in cur["locks"] if l[0] == cur["newid"]]
            if len(lk) != 1:
                return None
            ops.append("OLock %s %s %s %s" % (zlit(op["o"]), zlit(op["d"]), zlit(lk[0][3]), zlit(op["dur"])))
        elif k == "slash":
            od = "[" + "; ".join("(%s, %s)" % (zlit(x // nv), zlit(x % nv)) for x in o["ord"][ei]) + "]"
            ops.append("ESlash %s %s %s" % (od, zlit(op["v"]), zlit(int(op["amt"]))))
        else:
            order = []
            if k == "epoch":
                order = o["ord"][ei]
            ops.append(coq_op(op, prev, c, order, cur))
        if k in ("epoch", "slash"):
            ei += 1
        keep.append(i + 1)
    ops = [x if x.startswith("ESlash") else "EOp (%s)" % x for x in ops]
    exp = []
    for i in keep:
        exp += model_flat(rows[i], nd, nv)
    sf = "[" + "; ".join(zlit(d) for d, dn in enumerate(c["denoms"]) if dn["sf"]) + "]"
    gm = "[" + "; ".join(zlit(d) for d, dn in enumerate(c["denoms"]) if dn["kind"] == "gamm") + "]"
    cfg = "(mkCfg %s %s %s [%s] %s)" % (zlit(U), zlit(dec_raw(c["rf"])), sf, "; ".join(zlit(x) for x in c.get("force", [])), gm)
    vals = "[" + "; ".join("(%s, mkVal %s %s)" % (zlit(v), zlit(t), zlit(s)) for v, (t, s) in enumerate(r0["vals"])) + "]"
    mults = "[" + "; ".join("(%s, %s)" % (zlit(d), zlit(m)) for d, m in enumerate(r0["mult"])) + "]"
    dn = "[" + "; ".join(zlit(d) for d in range(nd)) + "]"
    return "mkCase %s %s %s %s %s %s %s %s\n   [%s]\n   %s" % (cfg, zlit(r0["now"]), vals, mults, zlit(r0["supply"]), zlit(r0["offset"]), zlit(r0["bonded"]), dn,
                                                            ";\n    ".join(ops), zlist(exp))


# ---------------------------------------------------------------------------------------------
# oracle: the property's own predicates on the implementation's observations
# ---------------------------------------------------------------------------------------------
def rhe(fr):
    """round half to even of a Fraction"""
    return round(fr)


def lock_value(mult_raw, rf_raw, amt):
    """risk-adjusted OSMO value of an LP amount: x = round(mult*amt); x - round(x*rf)"""
    x = rhe(Fraction(mult_raw * amt, P18))
    return x - rhe(Fraction(x * rf_raw, P18))


def oracle(c, o):
    nd, nv = len(c["denoms"]), c["nval"]
    rows = [parse_row(r, nd, nv) for r in o["flat"]]
    U = int(o["unb"])
    rf = dec_raw(c["rf"])
    v = []

    def bad(kind, i, what, **rec):
        rec = dict(rec, kind=kind)
        v.append({"what": "op %d (%s): %s" % (i, json.dumps(c["ops"][i - 1]) if i else "setup", what), "rec": rec})

    budget = {}          # (d, v) -> allowance of the honest drift bound
    first_seen = {}      # (lock id) of unstaking synth -> end
    for i in range(1, len(rows)):
        op = c["ops"][i - 1]
        k = op["k"]
        p, r = rows[i - 1], rows[i]
        # --- the reported supply is supply + offset
        if r["swo"] != r["supply"] + r["offset"]:
            bad("supply_query", i, "GetSupplyWithOffset %d != supply %d + offset %d" % (r["swo"], r["supply"], r["offset"]))
        # --- supply neutrality: only the harness's own funding of uosmo may change supply + offset
        funded = 0          # the harness mints all the OSMO it needs before the first observation
        if k == "slash":
            # validator slashing is not a step of the property's histories and the burn is x/staking's: supply neutrality is judged
            # across the superfluid steps only (observation outside the property, see C11/STATUS.md: the slash also burns the
            # superfluid-minted stake and nothing corrects the supply offset)
            pass
        elif r["swo"] - p["swo"] != funded:
            bad("supply_neutral", i, "OSMO supply with offset moved by %d (expected %d)" % (r["swo"] - p["swo"], funded), op=k)
        # --- failed messages leave everything unchanged
        if r["code"] != 0:
            a, b = dict(r), dict(p)
            for key in ("code", "newid"):
                a.pop(key), b.pop(key)
            if a != b:
                bad("atomicity", i, "failed message (code %d) changed state" % r["code"], op=k)
        locks = {l[0]: l for l in r["locks"]}
        plocks = {l[0]: l for l in p["locks"]}
        conn = {cn[0]: (cn[1], cn[2]) for cn in r["conns"]}
        pconn = {cn[0]: (cn[1], cn[2]) for cn in p["conns"]}
        synths = {}
        for s in r["synths"]:
            synths.setdefault(s[0], []).append(s)
        psynths = {}
        for s in p["synths"]:
            psynths.setdefault(s[0], []).append(s)
        # --- markers: delegated <=> exactly one synthetic lock, of the staking kind, on the same (denom, validator)
        for lid, (d, vv) in conn.items():
            ss = synths.get(lid, [])
            if len(ss) != 1 or ss[0][1] != 0 or (ss[0][2], ss[0][3]) != (d, vv) or ss[0][4] != 0:
                bad("marker_delegated", i, "delegated lock %d has synthetic locks %s" % (lid, ss))
            if lid not in locks:
                bad("marker_delegated", i, "delegated lock %d does not exist" % lid)
            elif locks[lid][5] != 0:
                bad("unlocking_while_delegated", i, "delegated lock %d is unlocking (end %d)" % (lid, locks[lid][5]))
            elif locks[lid][2] != d:
                bad("marker_delegated", i, "delegated lock %d has denom %d, account denom %d" % (lid, locks[lid][2], d))
        for lid, ss in synths.items():
            for s in ss:
                if s[1] == 0 and conn.get(lid) != (s[2], s[3]):
                    bad("marker_delegated", i, "staking synthetic lock %s without connection" % (s,))
                if s[1] == 1:
                    # undelegating marker: lasts exactly the unbonding period from the block it was created in
                    was = [q for q in psynths.get(lid, []) if q[1] == 1]
                    if not was:
                        if s[4] != r["now"] + U:
                            bad("marker_undelegating", i, "unstaking synthetic lock %s created at %d, unbonding %d" % (s, r["now"], U))
                    elif was[0][4] != s[4]:
                        bad("marker_undelegating", i, "unstaking synthetic lock end moved %d -> %d" % (was[0][4], s[4]))
                    if len(ss) != 1:
                        bad("marker_undelegating", i, "lock %d has several synthetic locks %s" % (lid, ss))
        converted = op["id"] if (k == "convert" and r["code"] == 0) else None
        if converted is not None:
            # the conversion message is the designed exception: the lock leaves lockup at once, but nothing is released - the
            # reported amount (possibly 0 for a dust lock) must be staked with the chosen validator (on top of what the undelegation took away)
            vv_ = op["v"]
            grew = r["vals"][vv_][0] - p["vals"][vv_][0]
            dropped = sum(p["acc"][(d_, vv_)]["tokens"] - r["acc"][(d_, vv_)]["tokens"] for d_ in range(nd))
            tol_ = 0 if p["vals"][vv_][1] == p["vals"][vv_][0] * P18 else 2 + abs(dropped) // 10 ** 12
            if r["newid"] < 0 or abs(grew + dropped - r["newid"]) > tol_:
                bad("conversion_not_staked", i, "conversion reports %d staked, validator %d grew by %d (+ %d undelegated)" % (r["newid"], vv_, grew, dropped))
            if converted in locks or converted in conn or converted in synths:
                bad("conversion_not_staked", i, "converted lock %d still has lock / connection / synthetic lock" % converted)
        for lid, ss in psynths.items():
            if lid == converted:
                continue
            for s in ss:
                if s[1] == 1 and r["now"] < s[4]:
                    # before maturity the marker stays and the lock cannot be withdrawn
                    if not [q for q in synths.get(lid, []) if q[1] == 1 and q[4] == s[4]]:
                        bad("marker_undelegating", i, "unstaking synthetic lock %s removed at %d before its end" % (s, r["now"]))
                    if lid in plocks and lid not in locks:
                        bad("withdrawn_before_matured", i, "lock %d withdrawn at %d, undelegation matures at %d" % (lid, r["now"], s[4]))
        # --- undelegation creates the marker
        if r["code"] == 0 and k == "sfundel":
            ss = synths.get(op["id"], [])
            if len(ss) != 1 or ss[0][1] != 1 or ss[0][4] != r["now"] + U or op["id"] in conn:
                bad("marker_undelegating", i, "after undelegation lock %d has connection %s synthetic locks %s" % (op["id"], conn.get(op["id"]), ss))
        if r["code"] == 0 and k == "sfundelunbond":
            ss = synths.get(r["newid"], [])
            if len(ss) != 1 or ss[0][1] != 1 or ss[0][4] != r["now"] + U or r["newid"] in conn:
                bad("marker_undelegating", i, "after undelegate-and-unbond lock %d has synthetic locks %s" % (r["newid"], ss))
            if r["newid"] not in locks or locks[r["newid"]][5] == 0:
                bad("marker_undelegating", i, "after undelegate-and-unbond lock %d is not unlocking" % r["newid"])
        # --- a lock cannot start unlocking while superfluid-delegated (or while it carries any marker), whatever the entry point
        if k in ("beginunlock", "beginunlockpartial", "forceunlock") and (op["id"] in pconn or op["id"] in psynths) and r["code"] == 0:
            bad("unlock_while_delegated", i, "%s of lock %d succeeded although it is superfluid staked" % (k, op["id"]))
        if k == "beginunlockall" and r["code"] == 0:
            for lid, l in plocks.items():
                if l[1] == op["o"] and l[5] == 0 and (lid in pconn or lid in psynths):
                    bad("unlock_while_delegated", i, "BeginUnlockingAll succeeded although lock %d of the owner is superfluid staked" % lid)
        for lid in pconn:
            # whatever the operation: a lock that was delegated before it is afterwards either still delegated and bonded, or was
            # undelegated by a superfluid message; it never starts unlocking, shrinks or disappears while connected
            if lid in plocks and plocks[lid][5] == 0:
                now_l = locks.get(lid)
                undelegating_op = k in ("sfundel", "sfundelunbond", "convert") and op["id"] == lid
                if now_l is None and undelegating_op and k == "convert":
                    pass
                elif now_l is None:
                    bad("unlock_while_delegated", i, "delegated lock %d disappeared" % lid)
                elif not undelegating_op and k != "slash" and (now_l[5] != 0 or now_l[3] < plocks[lid][3]):
                    bad("unlock_while_delegated", i, "delegated lock %d: end %d -> %d, amount %d -> %d" % (lid, plocks[lid][5], now_l[5], plocks[lid][3], now_l[3]))
        # --- stake tracks locks
        carried = {}
        if r["code"] == 0 and k == "epoch":
            for key, a in r["acc"].items():
                if a["exists"]:
                    n_ = sum(1 for cn in r["conns"] if (cn[1], cn[2]) == key)
                    if r["vals"][key[1]][1] == r["vals"][key[1]][0] * P18:
                        budget[key] = n_
                    else:
                        # exchange rate != 1 (after a slash; outside the claimed scope): the refresh may be unable to remove a residue
                        # (RoundInt of the token value rounds up, the shares for that amount exceed the delegation: "invalid shares
                        # amount" is logged and the account is skipped), so the allowance accumulated so far is carried over
                        carried[key] = budget.get(key, 0)
                        if a["expected"] == 0:
                            # ... and when the expected amount is 0 the whole stake can stay (the refresh wants to undelegate
                            # RoundInt(token value), rounded up: more shares than the account holds)
                            carried[key] = max(carried[key], a["tokens"])
                        budget[key] = max(budget.get(key, 0), n_, carried[key])
        if r["code"] == 0 and k == "slash":
            # every lock behind the slashed validator loses trunc(amount * fraction): up to one share (worth mult * (1 - rf)) per lock
            for key in list(r["acc"].keys()):
                if key[1] == op["v"] and r["acc"][key]["exists"]:
                    n_ = sum(1 for cn in r["conns"] if (cn[1], cn[2]) == key)
                    # ... and the locks are slashed by the effective fraction rounded to 18 decimals while the stake shrinks by an
                    # amount derived from the validator's integer power: a relative 1e-18 .. 1e-16 of the stake stays as residue
                    budget[key] = budget.get(key, 0) + n_ * (r["mult"][key[0]] * (P18 - rf) // (P18 * P18) + 2) + r["acc"][key]["tokens"] // 10 ** 16 + 2
        if r["code"] == 0 and k == "topup" and op["id"] in conn:
            budget[conn[op["id"]]] = budget.get(conn[op["id"]], 0) + 2
        if r["code"] == 0 and k in ("locktokens", "lockdel") and r["newid"] in plocks and r["newid"] in pconn:
            # the message topped up an existing lock that was already delegated
            budget[pconn[r["newid"]]] = budget.get(pconn[r["newid"]], 0) + 2
        for (d, vv), a in r["acc"].items():
            if not a["exists"]:
                if a["shares"] or a["tokens"]:
                    bad("stake_without_account", i, "delegation %d without intermediary account (%d,%d)" % (a["tokens"], d, vv))
                continue
            mine = [locks[cn[0]] for cn in r["conns"] if (cn[1], cn[2]) == (d, vv) and cn[0] in locks]
            total = sum(l[3] for l in mine)
            one_to_one = r["vals"][vv][1] == r["vals"][vv][0] * P18
            # exchange rate != 1 is outside the claimed scope (it arises from slashing): SDK share rounding then moves the
            # token value of a delegation by a relative 1e-18 per staking operation on the validator - a loose tolerance only
            slack = 0 if one_to_one else 2 + sum(1 for x in r["acc"].values() if x["exists"]) + a["tokens"] // 10 ** 12
            # the accumulator the refresh reads = the locks delegated through the account
            if a["stk"] != total:
                bad("accumulator", i, "account (%d,%d): synthetic-denom accumulation %d != sum of delegated locks %d" % (d, vv, a["stk"], total))
            ideal = Fraction(r["mult"][d] * total * (P18 - rf), P18 * P18)
            per_lock = sum(lock_value(r["mult"][d], rf, l[3]) for l in mine)
            if r["code"] == 0 and k == "epoch":
                tol = slack + carried.get((d, vv), 0)
                if a["expected"] >= 0 and abs(a["tokens"] - a["expected"]) > tol:
                    bad("refresh_exact", i, "account (%d,%d): delegation %d != expected %d right after the refresh" % (d, vv, a["tokens"], a["expected"]))
                if abs(a["tokens"] - ideal) > 1 + tol:
                    bad("refresh_exact", i, "account (%d,%d): delegation %d vs ideal risk-adjusted value %s of its %d locks" % (d, vv, a["tokens"], float(ideal), len(mine)))
            else:
                drift = abs(a["tokens"] - per_lock)
                allow = budget.get((d, vv), 0) + slack * (1 + len(mine))
                if drift > allow:
                    bad("drift", i, "account (%d,%d): |delegation %d - sum of per-lock values %d| = %d > %d (locks at last refresh + 2 per top-up)"
                        % (d, vv, a["tokens"], per_lock, drift, allow))
                elif drift > len(mine) and one_to_one:
                    bad("drift_literal", i, "account (%d,%d): |delegation %d - sum of per-lock values %d| = %d > %d currently delegated locks"
                        % (d, vv, a["tokens"], per_lock, drift, len(mine)), cause="rounding residue of locks refreshed together and since undelegated or topped up")
    return v


# ---------------------------------------------------------------------------------------------
# running
# ---------------------------------------------------------------------------------------------
def nontrivial(c, o):
    nd, nv = len(c["denoms"]), c["nval"]
    ok = {"sfdel": 0, "sfundel": 0, "epoch": 0}
    for op, row in zip(c["ops"], o["flat"][1:]):
        if op["k"] in ok and int(row[0]) == 0:
            ok[op["k"]] += 1
    last = parse_row(o["flat"][-1], nd, nv)
    return ok["sfdel"] >= 1 and ok["epoch"] >= 1 and any(a["exists"] for a in last["acc"].values())


def run_cases(cases, model_ok, out, tag, hist=None):
    binary = common.go_build("c11drv", test=True)
    obs = common.run_driver(binary, cases, args="-test.run ^TestDriver$", shards=(14 if len(cases) >= 200 else 8) if len(cases) >= 16 else 1)
    good = []
    for c, o in zip(cases, obs):
        out.evaluations += 1
        if o.get("err"):
            out.oracle_violations.append({"what": "driver: " + o["err"], "rec": {"kind": "driver_panic"}, "case": c})
            continue
        for m in o.get("msgs") or []:
            if hist is not None:
                hist.setdefault("unclassified", {})
                key = m.split(":")[0]
                hist["unclassified"][key] = hist["unclassified"].get(key, 0) + 1
        for vv in oracle(c, o):
            vv["case"] = c
            out.oracle_violations.append(vv)
        if nontrivial(c, o):
            out.nontrivial.add(json.dumps(c, sort_keys=True))
        if hist is not None:
            hist["repo_invariant_rows"] = hist.get("repo_invariant_rows", 0) + len(o.get("inv") or [])
            hist["repo_invariant_broken_rows"] = hist.get("repo_invariant_broken_rows", 0) + sum(o.get("inv") or [])
            for op, row in zip(c["ops"], o["flat"][1:]):
                hist["ops"][op["k"]] = hist["ops"].get(op["k"], 0) + 1
                hist["codes"][str(row[0])] = hist["codes"].get(str(row[0]), 0) + 1
        good.append((c, o))
    if not model_ok:
        out.model_ran = False
        return
    items, chunks = [], []
    per_file = 6
    for fi in range(0, len(good), per_file):
        chunk = [(c, o, coq_case(c, o)) for c, o in good[fi:fi + per_file]]
        chunk = [x for x in chunk if x[2] is not None]
        if not chunk:
            continue
        body = ";\n  ".join(x[2] for x in chunk)
        vtxt = ("From Coq Require Import ZArith List. Import ListNotations.\n"
                "From Osmo Require Import Base.Obs C11.Model C11.Corr.\nOpen Scope Z_scope.\n"
                "Definition cases : list case := [\n  %s ].\n"
                "Definition M := Eval vm_compute in mismatches case_ok cases.\nPrint M.\n" % body)
        items.append(("C11_%s_%d" % (tag, fi // per_file), vtxt))
        chunks.append(chunk)
    res = common.coq_eval_many(items)
    for (name, _), (rc, txt), chunk in zip(items, res, chunks):
        mm = common.parse_nat_list(txt)
        if rc != 0 or mm is None:
            out.mismatches.append({"what": "model evaluation failed: " + txt[-600:], "case": None})
            continue
        for idx in mm:
            c, o, _ = chunk[idx]
            out.mismatches.append({"what": "C11 model_obs differs from implementation observations", "case": c})


def correspond(tier, seed, model_ok):
    out = Outcome()
    r = Rng(seed)
    n = 56 if tier == "quick" else 700
    cases = [witness_f1(), witness_f2()]
    cases += [gen_case(r.fork(i), tier) for i in range(n)]
    corpus = common.load_corpus(PROP)
    hist = {"ops": {}, "codes": {}}
    run_cases(corpus + cases, model_ok, out, "q", hist)
    out.rule = ("cases = two deterministic cases (finding C11-F1; a slashed validator) + histories of 30-60 (thorough: 30-90) operations on a fresh full app with 2-3 bonded "
                "validators, 3 owners, 1-3 gamm / concentrated share denoms (one possibly not superfluid), MinimumRiskFactor from {0, 1e-18, 0.07, 0.25, 1/3, 0.5, 0.9, 1}, "
                "unbonding time from {default, 1h, 14d}, 1/6 of the cases with validator exchange rates != 1, 1/4 living on dust amounts, 1/5 of the gamm-only cases with "
                "validator slashes, 1/2 with a force-unlock whitelist; non-trivial = at least one successful SuperfluidDelegate and one "
                "successful epoch refresh and an intermediary account alive at the end; distinct = distinct case JSON")
    out.samples = [{"nval": c["nval"], "denoms": c["denoms"], "rf": c["rf"], "unb": c["unb"], "vtok": c["vtok"], "ops": c["ops"][:8]} for c in cases[2:5]]
    out.distribution = {"op_kinds": hist["ops"], "result_codes": hist["codes"], "unclassified_errors": hist.get("unclassified", {}),
                        "ops_total": sum(hist["ops"].values()), "corpus_cases": len(corpus),
                        "rows_where_the_repos_own_TotalSuperfluidDelegationInvariant_reports_broken": "%d of %d" % (hist.get("repo_invariant_broken_rows", 0), hist.get("repo_invariant_rows", 0)),
                        "risk_factors": {k: sum(1 for c in cases if c["rf"] == k) for k in sorted(set(RFS))},
                        "cases_with_cl_denom": sum(1 for c in cases if any(d["kind"] == "cl" for d in c["denoms"])),
                        "cases_with_rate_ne_1": sum(1 for c in cases if any(x not in ("", "0") for x in c["vtok"]))}
    return out


def search(tier, seed, out):
    """targeted search after a proof / correspondence break: many more histories, oracle only, concentrated on the
    configurations of the disagreeing cases"""
    o2 = Outcome()
    r = Rng(seed + 7919)
    cases = []
    for m in out.mismatches[:12]:
        c = m.get("case")
        if c:
            cases.append(c)
            for j in range(12):
                cases.append(gen_case(r.fork(("m", len(cases), j)), "thorough", force={"denoms": c["denoms"], "rf": c["rf"], "vtok": c["vtok"]}))
    cases += [gen_case(r.fork(i), "thorough") for i in range(240)]
    run_cases(cases, False, o2, "s")
    findings = common.load_findings(PROP)
    for v in o2.oracle_violations:
        if not common.match_finding(findings, v.get("rec", {})):
            return v
    return None


def replay(path):
    d = json.load(open(path))
    c = d["case"].get("case") if isinstance(d.get("case"), dict) else None
    if not c:
        print("replay names a proof obligation / correspondence, not an input:", d.get("what"))
        return 1
    out = Outcome()
    run_cases([c], True, out, "r")
    for v in out.oracle_violations:
        print("oracle:", v["what"])
    for m in out.mismatches:
        print("mismatch:", m["what"])
    return 1 if (out.oracle_violations or out.mismatches) else 0


# ---------------------------------------------------------------------------------------------
# self-test of the machinery:  cd /verif && python3 -m props.c11
# the oracle must flag hand-perturbed observations, case_ok must reject a perturbed expectation
# ---------------------------------------------------------------------------------------------
def _coq_accepts(c, o):
    t = coq_case(c, o)
    v = ("From Coq Require Import ZArith List. Import ListNotations.\nFrom Osmo Require Import Base.Obs C11.Model C11.Corr.\nOpen Scope Z_scope.\n"
         "Definition cases : list case := [\n %s ].\nDefinition M := Eval vm_compute in mismatches case_ok cases.\nPrint M.\n" % t)
    rc, out = common.coq_eval("C11_selftest", v)
    mm = common.parse_nat_list(out)
    assert rc == 0 and mm is not None, out[-400:]
    return mm == []


def selftest():
    import copy
    U = DEFAULT_UNB
    ops = [{"k": "lock", "o": 0, "d": 0, "amt": "1000000", "dur": U}, {"k": "lock", "o": 1, "d": 0, "amt": "2500000", "dur": U},
           {"k": "sfdel", "o": 0, "id": 1, "v": 0}, {"k": "sfdel", "o": 1, "id": 2, "v": 0},
           {"k": "epoch", "mode": "direct", "mults": [str(3 * P18 // 2)]},
           {"k": "sfundel", "o": 1, "id": 2}, {"k": "topup", "o": 0, "id": 1, "amt": "777"}, {"k": "adv", "dt": 3600 * SEC}]
    c = {"nval": 2, "denoms": [{"kind": "gamm", "mult": "20", "sf": True}], "rf": "0.5", "unb": 0, "vtok": [], "force": [], "ops": ops}
    binary = common.go_build("c11drv", test=True)
    o = common.run_driver(binary, [c], args="-test.run ^TestDriver$")[0]
    nd, nv = 1, 2
    res = []
    res.append(("clean observation: oracle silent", oracle(c, o) == []))
    res.append(("clean observation: case_ok accepts", _coq_accepts(c, o)))
    base = 7 + 3 * nd + 2 * nv          # first account block; fields: exists, shares, tokens, expected, stk, ustk, bal

    def perturbed(row, idx, delta=1):
        p = copy.deepcopy(o)
        p["flat"][row][idx] = str(int(p["flat"][row][idx]) + delta)
        return p
    kinds = lambda p: sorted(set(v["rec"]["kind"] for v in oracle(c, p)))
    # 1. delegation right after the refresh (row 5) one unit off
    p = perturbed(5, base + 2)
    res.append(("delegation +1 after refresh -> oracle refresh_exact", "refresh_exact" in kinds(p)))
    res.append(("delegation +1 after refresh -> case_ok rejects", not _coq_accepts(c, p)))
    # 2. delegation far off between epochs (row 7)
    res.append(("delegation +9 between epochs -> oracle drift", "drift" in kinds(perturbed(7, base + 2, 9))))
    # 3. supply moved
    res.append(("supply +1 -> oracle supply", {"supply_neutral", "supply_query"} & set(kinds(perturbed(6, 3))) != set()))
    # 4. accumulator off
    res.append(("accumulator +1 -> oracle accumulator", "accumulator" in kinds(perturbed(4, base + 4))))
    # 5. synthetic lock of lock 2 (unstaking after row 6): end time one second late; connection section sits after the accounts
    r6 = parse_row(o["flat"][6], nd, nv)
    pos = base + 7 * nd * nv + 1 + 3 * len(r6["conns"]) + 1
    idx = [j for j, s_ in enumerate(r6["synths"]) if s_[1] == 1][0]
    res.append(("unstaking marker end +1s -> oracle marker_undelegating", "marker_undelegating" in kinds(perturbed(6, pos + 6 * idx + 4, SEC))))
    # 6. the delegated lock 1 shown as unlocking in row 4
    r4 = parse_row(o["flat"][4], nd, nv)
    posl = base + 7 * nd * nv + 1 + 3 * len(r4["conns"]) + 1 + 6 * len(r4["synths"]) + 1
    res.append(("delegated lock unlocking -> oracle", "unlocking_while_delegated" in kinds(perturbed(4, posl + 5, 12345))))
    # 7. a staking marker turned into an unstaking one
    res.append(("staking marker kind flipped -> oracle marker", "marker_delegated" in kinds(perturbed(4, base + 7 * nd * nv + 1 + 3 * len(r4["conns"]) + 1 + 1))))
    ok = True
    for name, good in res:
        print("%-70s %s" % (name, "ok" if good else "FAILED"))
        ok = ok and good
    return 0 if ok else 1


if __name__ == "__main__":
    import sys
    sys.exit(selftest())
