"""High-precision reference functions for the C13 oracle: 2^x, log2, ln, x^y on exact rationals, computed with
Python integers in binary fixed point (PREC fractional bits, GUARD of them slack for the accumulated truncation
errors of at most a few thousand operations).  Independent of the Coq model and of the Go code.
Every function returns an integer v with  |v / 2^PREC - true value| < 2^-(PREC-GUARD)  (relative for exp-like results
larger than 1: the result is then scaled so that the leading bit sits at PREC)."""
from fractions import Fraction

PREC = 760
GUARD = 60
ONE = 1 << PREC

_ln2 = None


def _atanh_series(num, den):
    """2*atanh(num/den) for 0 <= num/den <= 1/3, in fixed point"""
    z = (num << PREC) // den
    z2 = (z * z) >> PREC
    term = z
    total = 0
    k = 1
    while term:
        total += term // k
        term = (term * z2) >> PREC
        k += 2
    return 2 * total


def ln2():
    global _ln2
    if _ln2 is None:
        _ln2 = _atanh_series(1, 3)          # ln 2 = 2 atanh(1/3)
    return _ln2


def ln_frac(x):
    """ln(x) for a positive Fraction x, fixed point (absolute error < 2^-(PREC-GUARD) for |ln x| < 2^20)"""
    assert x > 0
    n, d = x.numerator, x.denominator
    k = n.bit_length() - d.bit_length()
    # m = x / 2^k in [1/2, 2): fix to [1, 2)
    if k >= 0:
        mn, md = n, d << k
    else:
        mn, md = n << (-k), d
    if mn < md:
        mn <<= 1
        k -= 1
    # now 1 <= mn/md < 2; z = (m-1)/(m+1) in [0, 1/3)
    return k * ln2() + _atanh_series(mn - md, mn + md)


def log2_frac(x):
    return (ln_frac(x) << PREC) // ln2()


def exp_fixed(y):
    """exp(y/2^PREC) for 0 <= y < 2^PREC (i.e. argument in [0,1)), fixed point"""
    assert 0 <= y < ONE
    term = ONE
    total = ONE
    k = 1
    while term:
        term = (term * y) >> PREC
        term //= k
        total += term
        k += 1
    return total


def exp2_frac(x):
    """(mantissa, shift): 2^x = mantissa / 2^PREC * 2^shift with mantissa in [ONE, 2*ONE), for a Fraction x (any sign)"""
    fl = x.numerator // x.denominator
    f = x - fl                                # in [0,1)
    y = (((f.numerator << PREC) // f.denominator) * ln2()) >> PREC
    return exp_fixed(y), fl


def exp2_fixed_of_fixed(t):
    """2^(t/2^PREC) for a fixed-point t (any sign) -> (mantissa, shift)"""
    fl = t >> PREC
    f = t - (fl << PREC)
    y = (f * ln2()) >> PREC
    return exp_fixed(y), fl


def pow_frac(b, e):
    """b^e for Fractions b > 0, e -> (mantissa, shift) as exp2_frac"""
    l2 = log2_frac(b)
    t = (l2 * e.numerator) // e.denominator
    return exp2_fixed_of_fixed(t)


def to_fraction(mantissa, shift):
    return Fraction(mantissa, ONE) * (Fraction(2) ** shift)


def selfcheck():
    """cross-check against the decimal module (50 digits) and exact identities"""
    import decimal
    ctx = decimal.Context(prec=60)
    for x in (Fraction(3), Fraction(1, 7), Fraction(10 ** 36 + 1, 10 ** 36), Fraction(123456789, 1000)):
        ref = ctx.divide(ctx.ln(ctx.divide(decimal.Decimal(x.numerator), decimal.Decimal(x.denominator))), ctx.ln(decimal.Decimal(2)))
        got = Fraction(log2_frac(x), ONE)
        assert abs(got - Fraction(ref)) < Fraction(1, 10 ** 50), (x, float(got), ref)
    for x in (Fraction(1, 2), Fraction(511, 1) + Fraction(999, 1000), Fraction(1, 10 ** 36)):
        m, s = exp2_frac(x)
        ref = ctx.power(decimal.Decimal(2), ctx.divide(decimal.Decimal(x.numerator), decimal.Decimal(x.denominator)))
        got = to_fraction(m, s)
        assert abs(got / Fraction(ref) - 1) < Fraction(1, 10 ** 50), (x, float(got), ref)
    m, s = exp2_frac(Fraction(10))
    assert abs(to_fraction(m, s) - 1024) < Fraction(1, 2 ** 600)
    assert abs(Fraction(log2_frac(Fraction(1024)), ONE) - 10) < Fraction(1, 2 ** 600)
    m, s = pow_frac(Fraction(9, 4), Fraction(1, 2))
    assert abs(to_fraction(m, s) - Fraction(3, 2)) < Fraction(1, 2 ** 600)
    m, s = pow_frac(Fraction(1, 1000), Fraction(1, 3))
    assert abs(to_fraction(m, s) - Fraction(1, 10)) < Fraction(1, 2 ** 600)
    return True
