"""C16 - sum-tree vs sorted map: case generator, Coq case writer, oracle (Python sorted dict)."""
import json
import os
import re

from lib import common
from lib.common import Rng, Outcome, zlit

PROP = "C16"
GO_PKGS = [("c16drv", False)]
MODEL_VO = ["theories/C16/Corr.vo"]
ALLOWED_AXIOMS = []

SCOPE = ("partial: set_only_refines is proved at full strength (every fan-out m >= 2, every history of Set/Increase/Decrease: no panic, invariant WF, "
         "every query vs the sorted map, TotalAccumulatedValue = the true total since /repo 9b85b1164c) and remove_safe_partial (every non-panicking history incl. Remove: the stored "
         "leaves are the map's contents, so Get and ordered iteration are right; any store still satisfying WF answers every query correctly); "
         "the full statement C16_full is refuted (findings F2b-F2d, all in Remove) by vm_compute witnesses replayed on the real code")
EXPLANATION = ("Faithful Gallina model C16/Model.v of osmoutils/sumtree (tree.go, node.go) over a sorted (level, key) store, a sorted-map "
               "specification C16/Spec.v, the invariant WF of DESIGN 9.4 (C16/Statement.v). The full statement is false of the model and of the "
               "real code (findings F2b-F2d in Remove; F2a fixed in /repo by 9b85b1164c): Properties/C16.v carries it with vm_compute witnesses that are replayed on the Go driver on every run. "
               "The model is tied to /repo by running the real sumtree on an IAVL store on generated histories for m in {2,3,4,5,8,10,32} and "
               "comparing, after every operation, every Get, split, subset sum, prefix sum, total, forward/reverse/ranged iteration and the raw "
               "store dump decoded with the exported Node/Leaf types (node by node), panics included as an enum.")
TRUSTED = [
    "hand-written model coq/theories/C16/Model.v, tied to osmoutils/sumtree by the correspondence run (harness/c16drv against /repo's working tree, IAVL store over MemDB as in the repo's own tests)",
    "harness/c16drv (Go), props/c16.py (generator, flattening, digest, oracle), Coq vm_compute evaluation of generated case files; bulk comparison is by digest "
    "(length, sum, position-weighted sum, 64-bit polynomial hash of the observation list) - Corr.v case_ok; replays compare the full list (case_ok_full)",
    "translator props/c16.py translate(): copies nodeKeyPrefix and the split formula m/2+1 from constants.go / node.go into Gen/C16_consts.v",
    "modelled not verified: IAVL/KVStore (assumed: a sorted byte-keyed map with forward/reverse range iterators), gogoproto codec of Node/Leaf/Child, sdk Int (unbounded integers)",
]
ASSUMPTIONS = [
    "levels fit uint16 (a tree of fan-out >= 2 with 2^16 levels is unreachable); the store holds only this tree's keys",
    "a mutation that panics ends the history (the store is not atomic at this level; later observations would depend on a half-done write)",
    "SubsetAccumulation with start > end, SubsetAccumulation(nil, nil) and PrefixSum(nil) (the code reads a nil end as the empty key) are outside the documented domain: "
    "corresponded with the model and characterised by theorem (an_subset_code), not judged by the oracle",
]

MS = [2, 3, 4, 5, 8, 10, 32]


def _src(rel):
    return open(os.path.join(common.REPO, rel)).read()


def translate():
    """regenerate Gen/C16_consts.v from constants.go / tree.go / node.go; raise if the code no longer has the shape the model assumes"""
    cst, tree, node = _src("osmoutils/sumtree/constants.go"), _src("osmoutils/sumtree/tree.go"), _src("osmoutils/sumtree/node.go")

    def need(rx, txt, what):
        m = re.search(rx, txt)
        if not m:
            raise ValueError("C16 translator: osmoutils/sumtree no longer has the shape the model assumes (%s)" % what)
        return m
    prefix = need(r'nodeKeyPrefix\s*=\s*\[\]byte\("([^"\\]*)"\)', cst, "nodeKeyPrefix literal").group(1)
    plen = int(need(r"const\s+nodeKeyPrefixLen\s*=\s*(\d+)", cst, "nodeKeyPrefixLen").group(1))
    if plen != len(prefix.encode()):
        raise ValueError("C16 translator: nodeKeyPrefixLen != len(nodeKeyPrefix) (init() would panic)")
    need(r"make\(\[\]byte,\s*nodeKeyPrefixLen\+2\+len\(key\)\)", tree, "nodeKey buffer = prefix + 2 + key")
    off = int(need(r"binary\.BigEndian\.PutUint16\(bz\[(\d+):\],\s*level\)", tree, "be16 level at offset").group(1))
    koff = int(need(r"key:\s*iter\.Key\(\)\[(\d+):\]", tree, "ptrIterator key offset").group(1))
    roff = int(need(r"key\s*:=\s*iter\.Key\(\)\[(\d+):\]", tree, "root key offset").group(1))
    if off != plen or koff != plen + 2 or roff != plen:
        raise ValueError("C16 translator: key offsets %d/%d/%d do not match prefix length %d" % (off, koff, roff, plen))
    need(r"func \(t Tree\) TotalAccumulatedValue\(\) osmomath\.Int \{\s*left, exact, right := t\.root\(\)\.accumulationSplit\(nil\)\s*return left\.Add\(exact\)\.Add\(right\)\s*\}",
         tree, "TotalAccumulatedValue = left+exact+right of root().accumulationSplit(nil) (commit 9b85b1164c)")
    m = need(r"split\s*:=\s*ptr\.tree\.m/(\d+)\s*\+\s*(\d+)", node, "split := ptr.tree.m/2 + 1")
    div, add = int(m.group(1)), int(m.group(2))
    txt = ("(* GENERATED by props/c16.py translate() from /repo/osmoutils/sumtree/{constants,tree,node}.go on every run - do not edit. *)\n"
           "From Coq Require Import ZArith List.\nImport ListNotations.\nOpen Scope Z_scope.\n\n"
           "Definition gen_node_prefix : list Z := [%s].\n"
           "Definition gen_split_div : nat := %d%%nat.\nDefinition gen_split_add : nat := %d%%nat.\n"
           % ("; ".join(str(b) for b in prefix.encode()), div, add))
    return {"Gen/C16_consts.v": txt}

ST_NAMES = {0: "ok", 1: "index_out_of_range", 2: "nil_deref", 3: "push_missing_child", 4: "pull_missing_child", 5: "other_panic", 6: "watchdog"}


# ---------------------------------------------------------------------------------------------
# generator
# ---------------------------------------------------------------------------------------------
ALPHA = [0x00, 0x61, 0x62, 0xff]


def gen_universe(r, n):
    """n distinct keys over a 4-byte alphabet, length <= 3, always containing the empty key; shared prefixes abound"""
    keys = {b""}
    tries = 0
    while len(keys) < n and tries < 10000:
        tries += 1
        ln = r.choice([1, 1, 2, 2, 2, 3, 3])
        if keys and r.chance(1, 2):
            base = r.choice(sorted(keys))          # extend an existing key: shared prefix
            k = (base + bytes([r.choice(ALPHA)]))[:3]
        else:
            k = bytes(r.choice(ALPHA) for _ in range(ln))
        keys.add(k)
    return sorted(keys)


def order_keys(r, keys, mode):
    ks = list(keys)
    if mode == "mono":
        return ks
    if mode == "rev":
        return ks[::-1]
    if mode == "alt":                                # outside-in: lowest, highest, second lowest, ...
        out = []
        i, j = 0, len(ks) - 1
        while i <= j:
            out.append(ks[i])
            if i != j:
                out.append(ks[j])
            i += 1
            j -= 1
        return out
    if mode == "mid":                                # inside-out
        return order_keys(r, keys, "alt")[::-1]
    out = ks[:]
    for i in range(len(out) - 1, 0, -1):
        j = r.below(i + 1)
        out[i], out[j] = out[j], out[i]
    return out


def gen_value(r):
    x = r.below(40)
    if x == 0:
        return 0
    if x == 1:
        return r.choice([10**30 + r.below(1000), -(10**25), 2**64, 2**63 - 1])
    if x < 6:
        return -r.range(1, 9)
    return r.range(1, 60)


def hx(k):
    return k.hex()


def gen_case(r, tier, nops=40, force_m=None, with_rm=None):
    m = force_m if force_m is not None else r.choice([2, 2, 3, 3, 3, 4, 4, 5, 5, 8, 10, 32])
    if m <= 3:
        nu = r.range(4, 8)
    elif m <= 5:
        nu = r.range(6, 13)
    elif m <= 10:
        nu = r.range(m + 2, 2 * m + 4)
    else:
        nu = r.range(m + 2, min(nops, m + 8))
    uni = gen_universe(r, nu)
    mode = r.choice(["mono", "rev", "alt", "mid", "rand", "rand"])
    order = order_keys(r, uni, mode)
    if with_rm is None:
        with_rm = r.chance(2, 5)
    ops = []
    present = {b""}
    pending = [k for k in order]
    # big fan-outs need (almost) all ops to be inserts to reach a split
    p_ins = 85 if m >= 8 else r.choice([50, 65, 80])
    rm_run = []
    while len(ops) < nops:
        x = r.below(100)
        if rm_run:
            k = rm_run.pop(0)
            ops.append({"op": "rm", "k": hx(k), "v": "0"})
            present.discard(k)
            continue
        if pending and x < p_ins:
            k = pending.pop(0)
            kind = r.choice(["set", "set", "inc", "dec"])
            ops.append({"op": kind, "k": hx(k), "v": str(gen_value(r))})
            present.add(k)
            continue
        if with_rm and r.chance(1, 3) and present:
            srt = sorted(present)
            y = r.below(10)
            if y < 3 and len(srt) >= 2:
                # a run of consecutive keys (in key order): empties whole nodes
                i = r.below(len(srt))
                n = r.range(2, max(2, min(m + 1, 5)))
                run = srt[i:i + n]
                if r.chance(1, 2):
                    run = run[::-1]
                rm_run = run
                continue
            k = r.choice(srt) if y < 9 else r.choice(uni)     # sometimes an absent key
            ops.append({"op": "rm", "k": hx(k), "v": "0"})
            present.discard(k)
            if k in uni and k not in pending and r.chance(1, 2):
                pending.append(k)                              # re-insert later
            continue
        # update an existing (or occasionally absent) key
        k = r.choice(sorted(present)) if (present and not r.chance(1, 8)) else r.choice(uni)
        kind = r.choice(["set", "inc", "inc", "dec"])
        ops.append({"op": kind, "k": hx(k), "v": str(gen_value(r))})
        present.add(k)
    for o in ops:
        if o["k"] == "" and r.chance(1, 2):
            o["k"] = None                                      # nil slice instead of the empty non-nil slice
    nq = min(len(uni), r.range(3, 5))
    q = {b""} if r.chance(3, 4) else set()
    while len(q) < nq:
        q.add(r.choice(uni))
    if r.chance(1, 2):
        q.add(bytes(r.choice(ALPHA) for _ in range(r.range(1, 3))))   # possibly never inserted
    q = sorted(q)
    rngs = []
    for _ in range(2):
        a, b = r.choice(uni), r.choice(uni)
        if r.chance(3, 4) and a > b:
            a, b = b, a
        rngs.append([hx(a), hx(b)])
    return {"m": m, "universe": [hx(k) for k in uni], "q": [hx(k) for k in q], "ranges": rngs, "ops": ops, "mode": mode}


def gen_merge_case(r, tier, nops=40):
    """histories that reach pull's sibling-merge branch while every surviving node still starts with its own key: keys are
    inserted in increasing order (so the level-1 node boundaries are known: every node but the last holds m/2+1 entries),
    then the neighbours of a middle node are trimmed from their tails and the middle node is emptied last-entry-last."""
    m = r.choice([3, 3, 4, 4, 5])
    sz = m // 2 + 1
    nnodes = r.range(3, m)
    nkeys = sz * (nnodes - 1) + r.range(1, sz)
    uni = gen_universe(r, nkeys)
    ops = [{"op": "set", "k": hx(k), "v": str(gen_value(r))} for k in uni if k != b""]
    # node boundaries under monotone insertion
    sizes, cur = [], 0
    for _ in uni:
        cur += 1
        if cur > m:
            sizes.append(sz)
            cur -= sz
    sizes.append(cur)
    bounds, pos = [], 0
    for n in sizes:
        bounds.append(uni[pos:pos + n])
        pos += n
    if len(bounds) >= 3:
        t = r.range(1, len(bounds) - 2)
        a = r.range(1, max(1, m - 2))
        b = r.range(1, max(1, m - 1 - a))
        trims = [("L", k) for k in bounds[t - 1][::-1][:max(0, len(bounds[t - 1]) - a)]] + \
                [("R", k) for k in bounds[t + 1][::-1][:max(0, len(bounds[t + 1]) - b)]]
        # interleave the two tail trims at random, each in descending order
        L = [k for w, k in trims if w == "L"]
        R = [k for w, k in trims if w == "R"]
        while L or R:
            src = L if (L and (not R or r.chance(1, 2))) else R
            ops.append({"op": "rm", "k": hx(src.pop(0)), "v": "0"})
        for k in bounds[t][::-1]:
            ops.append({"op": "rm", "k": hx(k), "v": "0"})
    present = sorted({bytes.fromhex(o["k"]) for o in ops if o["op"] == "set"} - {bytes.fromhex(o["k"]) for o in ops if o["op"] == "rm"} | {b""})
    while len(ops) < nops:
        k = r.choice(present) if r.chance(2, 3) else r.choice(uni)
        ops.append({"op": r.choice(["inc", "dec", "set"]), "k": hx(k), "v": str(gen_value(r))})
    q = sorted({b""} | {r.choice(uni) for _ in range(4)})
    lo, hi = sorted([r.choice(uni), r.choice(uni)])
    return {"m": m, "universe": [hx(k) for k in uni], "q": [hx(k) for k in q], "ranges": [[hx(lo), hx(hi)]], "ops": ops, "mode": "merge"}


BIG_MS = [127, 128, 253, 254, 255]


def gen_big_keys(r, n):
    """n distinct non-empty keys of 1-3 bytes over the whole byte range, many sharing a prefix"""
    keys = set()
    while len(keys) < n:
        if keys and r.chance(1, 3):
            k = (r.choice(sorted(keys)[:8] + sorted(keys)[-8:]) + bytes([r.below(256)]))[:3]
        else:
            k = bytes(r.below(256) for _ in range(r.choice([1, 2, 2, 2, 3])))
        if k:
            keys.add(k)
    return sorted(keys)


def gen_overflow_case(r, m, order=None, extra=None):
    """a fan-out of up to 255 (tree.m is a uint8): m + extra distinct keys are inserted, so the first level-1 node overflows and
    splits at m/2+1 (and the root is created); only the last operations are observed (the first m-3 inserts are 'quiet'), then a
    few updates; every query is asked after each observed operation.  Set-only, so everything is judged strictly."""
    extra = extra if extra is not None else r.range(2, 6)
    keys = gen_big_keys(r, m + extra)
    order = order or r.choice(["mono", "rev", "rand", "alt"])
    ins = order_keys(r, keys, order)
    ops = [{"op": r.choice(["set", "set", "inc"]), "k": hx(k), "v": str(r.range(1, 9))} for k in ins]
    for _ in range(3):
        ops.append({"op": r.choice(["inc", "dec", "set"]), "k": hx(r.choice(keys)), "v": str(gen_value(r))})
    srt = sorted(keys)
    # Get / queries: the ends, the middle (where the split falls), the keys inserted last
    probe = sorted({b"", srt[0], srt[len(srt) // 2], srt[len(srt) // 2 + 1], srt[-1], ins[-1], ins[m - 1], ins[m]})
    lo, hi = srt[len(srt) // 4], srt[3 * len(srt) // 4]
    return {"m": m, "universe": [hx(k) for k in probe], "q": [hx(k) for k in probe[:6]], "ranges": [[hx(lo), hx(hi)]],
            "ops": ops, "quiet": max(0, m - 3), "mode": "overflow_" + order}


EX_KEYS = [b"", b"a", b"ab", b"b"]          # the empty key, a shared prefix, and a key above both


def exhaustive_cases(length, ms=(2, 3)):
    """small scope, exhaustively: EVERY sequence of exactly `length` operations from {Set k, Remove k : k in EX_KEYS} for every
    fan-out in ms (shorter sequences are covered as prefixes: the driver observes after every operation).  The i-th operation
    sets the value 2^i, so every subset of leaves has its own sum.  Increase/Decrease are Get+Set and add no path."""
    import itertools
    alpha = [("set", k) for k in EX_KEYS] + [("rm", k) for k in EX_KEYS]
    uni = [hx(k) for k in EX_KEYS]
    out = []
    for m in ms:
        for seq in itertools.product(alpha, repeat=length):
            ops = [{"op": o, "k": hx(k), "v": str(2 ** i) if o == "set" else "0"} for i, (o, k) in enumerate(seq)]
            out.append({"m": m, "universe": uni, "q": uni, "ranges": [["61", "62"]], "ops": ops, "mode": "exhaustive%d" % length})
    return out


# ---------------------------------------------------------------------------------------------
# observation parsing
# ---------------------------------------------------------------------------------------------
class Cur:
    def __init__(self, flat):
        self.f = flat
        self.i = 0

    def get(self):
        v = self.f[self.i]
        self.i += 1
        return v

    def key(self):
        n = self.get()
        k = bytes(self.f[self.i:self.i + n])
        self.i += n
        return k

    def done(self):
        return self.i >= len(self.f)


def parse_iter(cur):
    st = cur.get()
    if st != 0:
        return (st, None)
    n = cur.get()
    items = []
    for _ in range(n):
        k = cur.key()
        items.append((k, cur.get()))
    return (0, items)


def parse_block(cur, c):
    u, nq, nr = len(c["universe"]), len(c["q"]), len(c["ranges"])
    b = {}
    b["gets"] = [(cur.get(), cur.get()) for _ in range(u)]
    b["splits"] = [(cur.get(), cur.get(), cur.get(), cur.get()) for _ in range(nq)]
    b["subsets"] = {}
    for i in range(nq + 1):
        for j in range(nq + 1):
            b["subsets"][(i, j)] = (cur.get(), cur.get())
    b["prefix"] = [(cur.get(), cur.get()) for _ in range(nq + 1)]
    b["total"] = (cur.get(), cur.get())
    b["fwd"] = parse_iter(cur)
    b["rev"] = parse_iter(cur)
    b["ranges"] = [(parse_iter(cur), parse_iter(cur)) for _ in range(nr)]
    st = cur.get()
    if st != 0:
        b["dump"] = (st, None)
    else:
        n = cur.get()
        ents = []
        for _ in range(n):
            lvl = cur.get()
            k = cur.key()
            nch = cur.get()
            ch = []
            for _ in range(nch):
                ck = cur.key()
                ch.append((ck, cur.get()))
            ents.append((lvl, k, ch))
        b["dump"] = (0, ents)
    return b


def parse_obs(c, flat):
    """-> (st_newtree, [(0, block0), (st1, block1 | None), ...]); block is None after a panicking mutation (st != 0, last
    entry) and after each of the first c["quiet"] operations (st == 0, not observed)"""
    cur = Cur(flat)
    st0 = cur.get()
    if st0 != 0:
        return st0, []
    steps = [(0, parse_block(cur, c))]
    quiet = c.get("quiet", 0)
    for i, _ in enumerate(c["ops"]):
        if cur.done():
            break
        st = cur.get()
        if st != 0:
            steps.append((st, None))
            break
        steps.append((0, parse_block(cur, c) if i >= quiet else None))
    assert cur.done(), "trailing observations"
    return 0, steps


# ---------------------------------------------------------------------------------------------
# oracle: a plain sorted map with the same contents (from the property text)
# ---------------------------------------------------------------------------------------------
F2B = {"fn": "ptr.accumulationSplit", "kind": "panic_after_remove"}
F2C = {"fn": "ptr.pull", "kind": "stale_sum_after_merge"}
F2D = {"fn": "ptr.pull", "kind": "first_entry_or_leftmost_node_lost"}
OPNAME = {"set": "Set", "inc": "Increase", "dec": "Decrease", "rm": "Remove"}


def key_of(op):
    return b"" if op["k"] is None else bytes.fromhex(op["k"])


def apply_op(D, op):
    k = key_of(op)
    v = int(op["v"])
    if op["op"] == "set":
        D[k] = v
    elif op["op"] == "inc":
        D[k] = D.get(k, 0) + v
    elif op["op"] == "dec":
        D[k] = D.get(k, 0) - v
    elif op["op"] == "rm":
        D.pop(k, None)


def check_aggregates(ents, D):
    """internal aggregates consistent with the leaves: leaves = map contents; every child entry of an internal node
    names an existing node one level down and carries the sum of that node's entries; every node below the top
    level is listed by exactly one parent entry; one node at the top.
    -> list of (kind, text, (level, key) the entry is about or None)"""
    bad = []
    nodes = {(l, k): ch for (l, k, ch) in ents}
    got = {}
    for (l, k, ch) in ents:
        if l != 0:
            continue
        if len(ch) != 1 or ch[0][0] != k:
            bad.append(("leaf_shape", "leaf %r holds %r" % (k, ch), None))
        else:
            got[k] = ch[0][1]
    if got != D:
        bad.append(("leaves", "leaves %r differ from the map %r" % (sorted(got.items()), sorted(D.items())), None))
    top = max([l for (l, _, _) in ents], default=0)
    refs = {}
    for (l, k, ch) in ents:
        if l == 0:
            continue
        for (ck, a) in ch:
            refs[(l - 1, ck)] = refs.get((l - 1, ck), 0) + 1
            sub = nodes.get((l - 1, ck))
            if sub is None:
                bad.append(("dangling", "node (%d,%r) lists child %r which does not exist" % (l, k, ck), (l - 1, ck)))
            elif sum(x[1] for x in sub) != a:
                bad.append(("stale_sum", "node (%d,%r) carries %d for child %r whose entries sum to %d" % (l, k, a, ck, sum(x[1] for x in sub)), (l - 1, ck)))
    for (l, k, ch) in ents:
        if l < top and refs.get((l, k), 0) != 1:
            bad.append(("orphan", "node (%d,%r) is listed by %d parent entries" % (l, k, refs.get((l, k), 0)), None))
    if D and sum(1 for (l, _, _) in ents if l == top) != 1:
        bad.append(("top", "%d nodes at the top level %d" % (sum(1 for (l, _, _) in ents if l == top), top), None))
    return bad


def shape_damage(ents, D):
    """what a Remove may leave behind (DESIGN 9.4 (b)): -> (first_child_lost, leftmost_lost)
    first_child_lost: an internal node whose first entry is not its own key (its first child was removed, the key stayed)
    leftmost_lost: a level (below or at the top) that has nodes but none with the empty key, or an empty store"""
    fcl = any(l > 0 and (not ch or ch[0][0] != k) for (l, k, ch) in ents)
    levels = {}
    for (l, k, _) in ents:
        levels.setdefault(l, []).append(k)
    top = max(levels) if levels else 0
    lml = (not ents) or any(b"" not in levels.get(l, []) for l in range(1, max(top, 1) + 1))
    return fcl, lml


def merged_nodes(before, after):
    """internal nodes that gained entries across a Remove: receivers of the sibling merge in ptr.pull"""
    b = {(l, k): len(ch) for (l, k, ch) in before if l > 0}
    return {(l, k) for (l, k, ch) in after if l > 0 and (l, k) in b and len(ch) > b[(l, k)]}


def oracle(c, flat):
    """violations of the property's own predicates in the implementation's observations.
    Each violation: {"what", "rec"}; rec is specific (function + class of failure) so that the known findings
    F2b..F2d match exactly their own failures and nothing else (F2a - TotalAccumulatedValue - is fixed in /repo: a wrong
    total is judged like every other query):
      F2b  a call panics with index out of range [-1] after a Remove has left a node whose first entry is not its key
           (or a level without its left-most, empty-keyed node);
      F2d  any other wrong answer / panic / dangling or orphaned node in a history after such a Remove (the damaged
           structure makes later Sets overwrite or orphan nodes; an emptied store makes every query dereference nil);
      F2c  a Remove that merged two siblings left a stale sum for the merged node (structure otherwise intact), and the
           wrong sums that follow from it in that history.
    Everything else is a violation: any disagreement on a history without Remove, a wrong Get / iteration / leaf content
    ever, a stale sum without a merge, a panic or wrong sum while the structure is intact, damage to the first-entry /
    left-most shape by an operation that is not a Remove."""
    v = []
    uni = [bytes.fromhex(x) for x in c["universe"]]
    q = [bytes.fromhex(x) for x in c["q"]]
    ends = [None] + q
    st0, steps = parse_obs(c, flat)
    if st0 != 0:
        return [{"what": "NewTree panicked: %s" % ST_NAMES.get(st0), "rec": {"fn": "NewTree", "kind": ST_NAMES.get(st0)}}]
    D = {b"": 0}
    removed = False          # a Remove of a present key has happened
    shape_lost = False       # a Remove has left a node without its first entry / a level without its left-most node
    stale = False            # a merging Remove has left a stale sum (F2c)
    prev_dump = None
    for si, (st, b) in enumerate(steps):
        op = c["ops"][si - 1] if si > 0 else None
        where = "after op %d %s" % (si, json.dumps(op)) if op else "after NewTree"
        is_rm = bool(op and op["op"] == "rm" and key_of(op) in D)
        if op is not None:
            removed = removed or is_rm
            apply_op(D, op)
        hist = "with_remove" if removed else "set_only"

        def bad(fn, kind, text, st_=0):
            if st_ == 1 and shape_lost:
                rec = dict(F2B)
            elif shape_lost:
                rec = dict(F2D)
            elif stale:
                rec = dict(F2C)
            else:
                rec = {"fn": fn, "kind": kind if st_ == 0 else "panic_" + ST_NAMES.get(st_, "?"), "history": hist}
            v.append({"what": "%s %s: %s" % (fn, where, text), "rec": rec})

        if st != 0:
            bad("Tree." + OPNAME[op["op"]], "panic", "the mutation panicked (%s)" % ST_NAMES.get(st), st)
            break
        if b is None:                 # one of the first c["quiet"] operations: applied, not observed
            prev_dump = None
            continue
        items = sorted(D.items())
        total = sum(D.values())

        # stored structure first: it decides whether later answers can be judged at all
        dst, ents = b["dump"]
        if dst != 0:
            bad("store dump", "panic", "dump panicked", dst)
        else:
            fcl_now, lml_now = shape_damage(ents, D)
            if (fcl_now or lml_now) and not shape_lost:
                if is_rm:
                    shape_lost = True
                else:
                    bad("stored structure", "shape", "a node lost its first entry / a level its left-most node without any Remove")
            ag = check_aggregates(ents, D)
            if ag:
                merged = merged_nodes(prev_dump, ents) if (prev_dump is not None and is_rm) else set()
                if not shape_lost and not stale and merged and all(kind == "stale_sum" and at in merged for kind, _, at in ag):
                    stale = True
                for kind, text, _ in ag[:3]:
                    if kind in ("leaves", "leaf_shape"):     # the leaves never depend on the internal structure: always judged
                        v.append({"what": "stored leaves %s: %s" % (where, text), "rec": {"fn": "stored leaves", "kind": kind, "history": hist}})
                    else:
                        bad("stored aggregates", kind, text)
            prev_dump = ents
        for i, k in enumerate(uni):
            s_, val = b["gets"][i]
            if s_ != 0:
                bad("Tree.Get", "panic", "Get(%r) panicked" % k, s_)
            elif val != D.get(k, 0):
                v.append({"what": "Tree.Get %s: Get(%r) = %d, map has %d" % (where, k, val, D.get(k, 0)), "rec": {"fn": "Tree.Get", "kind": "wrong_value", "history": hist}})
        for i, k in enumerate(q):
            s_, l, e, r_ = b["splits"][i]
            exp = (sum(x for kk, x in items if kk < k), D.get(k, 0), sum(x for kk, x in items if kk > k))
            if s_ != 0:
                bad("Tree.SplitAcc", "panic", "SplitAcc(%r) panicked (%s), map gives %s" % (k, ST_NAMES.get(s_), exp), s_)
            elif (l, e, r_) != exp:
                bad("Tree.SplitAcc", "wrong_split", "SplitAcc(%r) = %s, map gives %s" % (k, (l, e, r_), exp))
        for (i, j), (s_, val) in b["subsets"].items():
            lo, hi = ends[i], ends[j]
            if lo is not None and hi is not None and lo > hi:
                continue                               # inverted range: outside the documented domain, not judged
            if lo is None and hi is None:
                continue                               # SubsetAccumulation(nil, nil): the code treats the nil end as the empty key; corresponded, not judged
            exp = sum(x for kk, x in items if (lo is None or kk >= lo) and (hi is None or kk <= hi))
            if s_ != 0:
                bad("Tree.SubsetAccumulation", "panic", "SubsetAccumulation(%r,%r) panicked" % (lo, hi), s_)
            elif val != exp:
                bad("Tree.SubsetAccumulation", "wrong_sum", "SubsetAccumulation(%r,%r) = %d, map gives %d" % (lo, hi, val, exp))
        for j, (s_, val) in enumerate(b["prefix"]):
            hi = ends[j]
            if hi is None:
                continue                               # PrefixSum(nil): "keys <= nil" is not defined by the text, not judged
            exp = sum(x for kk, x in items if kk <= hi)
            if s_ != 0:
                bad("Tree.PrefixSum", "panic", "PrefixSum(%r) panicked" % hi, s_)
            elif val != exp:
                bad("Tree.PrefixSum", "wrong_sum", "PrefixSum(%r) = %d, map gives %d" % (hi, val, exp))
        s_, val = b["total"]
        if s_ != 0:
            bad("Tree.TotalAccumulatedValue", "panic", "TotalAccumulatedValue panicked", s_)
        elif val != total:
            bad("Tree.TotalAccumulatedValue", "wrong_total", "TotalAccumulatedValue = %d, map gives %d" % (val, total))
        for name, got, exp in [("Tree.Iterator", b["fwd"], items), ("Tree.ReverseIterator", b["rev"], items[::-1])]:
            if got[0] != 0:
                bad(name, "panic", "full iteration panicked", got[0])
            elif got[1] != exp:
                v.append({"what": "%s %s: full iteration %r, map gives %r" % (name, where, got[1][:6], exp[:6]), "rec": {"fn": name, "kind": "wrong_iteration", "history": hist}})
        for (lo_s, hi_s), (f, rv) in zip(c["ranges"], b["ranges"]):
            lo, hi = bytes.fromhex(lo_s), bytes.fromhex(hi_s)
            exp = [(kk, x) for kk, x in items if lo <= kk < hi]
            for name, got, e_ in [("Tree.Iterator", f, exp), ("Tree.ReverseIterator", rv, exp[::-1])]:
                if got[0] != 0:
                    bad(name, "panic", "iteration [%r,%r) panicked" % (lo, hi), got[0])
                elif got[1] != e_:
                    v.append({"what": "%s %s: iteration [%r,%r) = %r, map gives %r" % (name, where, lo, hi, got[1][:6], e_[:6]), "rec": {"fn": name, "kind": "wrong_iteration", "history": hist}})
    return v


def check_raw_order(o):
    """byte layout: raw keys 'node/' ++ be16(level) ++ key are in strictly increasing byte order and decode to strictly
    increasing (level, key) pairs"""
    raws = [bytes.fromhex(x) for x in (o.get("rawkeys") or [])]
    dec = [(int.from_bytes(x[5:7], "big"), x[7:]) for x in raws]
    return all(x[:5] == b"node/" for x in raws) and all(raws[i] < raws[i + 1] for i in range(len(raws) - 1)) and \
        all(dec[i] < dec[i + 1] for i in range(len(dec) - 1))


# ---------------------------------------------------------------------------------------------
# Coq case writer, running cases
# ---------------------------------------------------------------------------------------------
def kz(k):
    return "[" + "; ".join(str(b) for b in k) + "]"


def coq_op(op):
    k = key_of(op)
    nil = "true" if op["k"] is None else "false"
    if op["op"] == "rm":
        return "ORemove %s %s" % (kz(k), nil)
    con = {"set": "OSet", "inc": "OInc", "dec": "ODec"}[op["op"]]
    return "%s %s %s %s" % (con, kz(k), nil, zlit(int(op["v"])))


MASK64, HB = 2**64 - 1, 2**32 + 15


def digest(flat):
    """same function as Corr.v [digest]: length, sum, sum of running sums, polynomial hash mod 2^64 of the sign-folded list"""
    n, s1, s2, h = 0, 0, 0, 7
    for x in flat:
        e = 2 * (-x) + 1 if x < 0 else 2 * x
        s1 += e
        s2 += s1
        h = (HB * h + e) & MASK64
        n += 1
    return [n, s1, s2, h]


def coq_case(c, flat):
    uni = "[" + "; ".join(kz(bytes.fromhex(x)) for x in c["universe"]) + "]"
    q = "[" + "; ".join(kz(bytes.fromhex(x)) for x in c["q"]) + "]"
    rg = "[" + "; ".join("(%s, %s)" % (kz(bytes.fromhex(a)), kz(bytes.fromhex(b))) for a, b in c["ranges"]) + "]"
    ops = "[" + "; ".join(coq_op(o) for o in c["ops"]) + "]"
    exp = "[" + ";".join(zlit(x) for x in flat) + "]"      # the full observation list (case_ok_full) or its digest (case_ok)
    return "mkCase %d%%nat %d%%nat %s %s %s %s %s" % (c["m"], c.get("quiet", 0), uni, q, rg, ops, exp)


COQ_HEADER = ("From Coq Require Import ZArith List. Import ListNotations.\n"
              "From Osmo Require Import Base.Obs C16.Model C16.Corr.\nOpen Scope Z_scope.\n")


def coq_items(pairs, tag, per_file, full=False):
    items = []
    for fi in range(0, len(pairs), per_file):
        chunk = pairs[fi:fi + per_file]
        body = ";\n  ".join(coq_case(c, f) for c, f in chunk)
        v = COQ_HEADER + "Definition cases : list case := [\n  %s ].\nDefinition M := Eval vm_compute in mismatches %s cases.\nPrint M.\n" % (body, "case_ok_full" if full else "case_ok")
        items.append(("C16_%s_%d" % (tag, fi // per_file), v))
    return items


def canon(c):
    return json.dumps(dict({k: c[k] for k in ("m", "universe", "q", "ranges", "ops")}, quiet=c.get("quiet", 0)), sort_keys=True)


def _binary():
    """the driver built against /repo; VERIF_C16_DRV substitutes another binary (used only by the builder's own mutation
    self-tests, which must not touch /repo: tools in coq/theories/C16/STATUS.md)"""
    return os.environ.get("VERIF_C16_DRV") or common.go_build("c16drv")


def _judge_shard(args):
    """worker: run the driver on a shard of cases, judge every observation with the oracle, digest it for the model check"""
    binary, cases = args
    obs = common.run_driver(binary, cases)
    res = []
    for c, o in zip(cases, obs):
        r = {"err": o.get("err"), "viol": [], "digest": None, "nontrivial": False, "stats": {}}
        if o.get("err"):
            res.append(r)
            continue
        flat = [int(x) for x in o["flat"]]
        if not check_raw_order(o):
            r["viol"].append({"what": "raw store keys are not in (level, key) order: %r" % o.get("rawkeys"), "rec": {"fn": "Tree.nodeKey", "kind": "layout_order"}})
        seen = set()
        for v in oracle(c, flat):
            key = json.dumps(v["rec"], sort_keys=True)
            r["stats"][key] = r["stats"].get(key, 0) + 1
            if key in seen:
                continue                      # one record per class and history is enough
            seen.add(key)
            r["viol"].append(v)
        r["digest"] = digest(flat)
        # non-trivial: the history ended without a panicking mutation and built at least 3 levels (some node split)
        st0, steps = parse_obs(c, flat)
        if steps and steps[-1][1] is not None and len(steps) == len(c["ops"]) + 1:
            dst, ents = steps[-1][1]["dump"]
            r["nontrivial"] = bool(dst == 0 and any(l >= 2 for (l, _, _) in ents))
        res.append(r)
    return res


def impl_flat(c):
    o = common.run_driver(_binary(), [c])[0]
    return [int(x) for x in o["flat"]]


def run_cases(cases, model_ok, out, tag, stats=None):
    import concurrent.futures as cf
    binary = _binary()
    nsh = min(common.NPROC, max(1, len(cases) // 4))
    shards = [cases[i::nsh] for i in range(nsh)]
    with cf.ProcessPoolExecutor(max_workers=nsh) as ex:
        parts = list(ex.map(_judge_shard, [(binary, sh) for sh in shards]))
    results = [None] * len(cases)
    for i in range(nsh):
        for j, r in enumerate(parts[i]):
            results[i + j * nsh] = r
    pairs = []
    for c, r in zip(cases, results):
        out.evaluations += 1
        if r["err"]:
            out.oracle_violations.append({"what": "driver: " + r["err"], "rec": {"fn": "driver", "kind": r["err"]}, "case": c})
            continue
        for v in r["viol"]:
            v["case"] = c
            out.oracle_violations.append(v)
        if stats is not None:
            for k, n in r["stats"].items():
                stats[k] = stats.get(k, 0) + n
        if r["nontrivial"]:
            out.nontrivial.add(canon(c))
        pairs.append((c, r["digest"]))
    if model_ok:
        tiny = sum(len(c["ops"]) for c, _ in pairs) <= 8 * len(pairs)
        per_file = max(1, min(400 if tiny else 12, len(pairs) // (2 * common.NPROC) + 1))
        items = coq_items(pairs, tag, per_file)
        res = common.coq_eval_many(items)
        for (name, _), (rc, o), fi in zip(items, res, range(0, len(pairs), per_file)):
            mm = common.parse_nat_list(o)
            if rc != 0 or mm is None:
                out.mismatches.append({"what": "model evaluation failed: " + o[-500:], "case": None})
                continue
            chunk = pairs[fi:fi + per_file]
            for idx in mm:
                c, _ = chunk[idx]
                out.mismatches.append({"what": "C16 model_obs differs from implementation observations", "case": c, "impl_flat": [str(x) for x in impl_flat(c)[:2000]]})
    else:
        out.model_ran = False


# ---------------------------------------------------------------------------------------------
# witnesses of finding F2 (the histories of coq/theories/C16/Refuted.v), replayed on the real code on every run
# ---------------------------------------------------------------------------------------------
def _w(m, ops, q):
    keys = sorted({b""} | {bytes.fromhex(o["k"]) for o in ops if o["k"] is not None} | set(q))
    return {"m": m, "universe": [hx(k) for k in keys], "q": [hx(k) for k in sorted(set(q) | {b""})], "ranges": [], "ops": ops, "mode": "witness"}


def _set(k, v):
    return {"op": "set", "k": hx(k), "v": str(v)}


def _rm(k):
    return {"op": "rm", "k": hx(k), "v": "0"}


WITNESSES = [
    ("w_panic", F2B, _w(2, [_set(b"a", 1), _set(b"b", 2), _set(b"c", 3), _rm(b"b")], [b"b"])),
    ("w_stale", F2C, _w(3, [_set(bytes([97 + i]), 2 + i) for i in range(9)] + [_rm(b"g"), _rm(b"e"), _rm(b"i"), _rm(b"f")], [b"a"])),
    ("w_empty", F2D, _w(2, [_rm(b"")], [b"a"])),
    ("w_orphan", F2D, _w(2, [_set(b"b", 2), _set(b"c", 3), _rm(b""), _rm(b"b"), _set(b"a", 5)], [b"c"])),
]


def swap_first_unequal(flat):
    """a permutation of the observation list: swap the first two adjacent unequal elements"""
    f = list(flat)
    for i in range(len(f) - 1):
        if f[i] != f[i + 1]:
            f[i], f[i + 1] = f[i + 1], f[i]
            break
    return f


FIXED_WITNESSES = [("w_total (F2a, fixed by 9b85b1164c)", _w(2, [_set(b"gb", 16)], [b"gb"]))]     # must now be violation-free


def selftest_oracle(c, flat):
    """the oracle must flag a perturbed observation: bump the first Get value of the initial block"""
    bad = list(flat)
    bad[2] += 1                       # flat[0]=NewTree status, flat[1]=Get status, flat[2]=Get value of universe[0]
    ok_get = any(v["rec"].get("fn") == "Tree.Get" for v in oracle(c, bad))
    # ... and a wrong TotalAccumulatedValue on a history without Remove: bump the total of the initial block
    cur = Cur(flat)
    cur.get()
    u, nq = len(c["universe"]), len(c["q"])
    pos = 1 + 2 * u + 4 * nq + 2 * (nq + 1) ** 2 + 2 * (nq + 1) + 1      # index of the total's value in block 0
    bad2 = list(flat)
    bad2[pos] += 1
    ok_total = any(v["rec"].get("fn") == "Tree.TotalAccumulatedValue" and v["rec"].get("kind") == "wrong_total" for v in oracle(c, bad2))
    return ok_get and ok_total


def correspond(tier, seed, model_ok):
    out = Outcome()
    r = Rng(seed)
    n = int(os.environ.get("VERIF_C16_N") or (800 if tier == "quick" else 16000))
    nops = 40 if tier == "quick" else 60
    cases = [gen_case(r.fork(i), tier, nops=nops) for i in range(n)]
    cases += [gen_merge_case(r.fork("merge%d" % i), tier, nops=nops) for i in range(n // 10)]
    # large fan-outs (tree.m is a uint8): the first node overflow at m in {127, 128, 253, 254, 255}
    for m in BIG_MS:
        for j in range(1 if tier == "quick" else 6):
            cases.append(gen_overflow_case(r.fork("big%d_%d" % (m, j)), m))
    # per-fan-out streams so that every m of MS is exercised with set-only and with removing histories on every run
    for m in MS:
        for j in range(4 if tier == "quick" else 40):
            cases.append(gen_case(r.fork("m%d_%d" % (m, j)), tier, nops=nops, force_m=m, with_rm=(j % 2 == 1)))
    corpus = common.load_corpus(PROP)
    wit = [w[2] for w in WITNESSES] + [w[1] for w in FIXED_WITNESSES]
    stats = {}
    run_cases(wit + corpus + cases, model_ok, out, "q", stats)
    # exhaustive small scope: all Set/Remove sequences over 4 keys, m in {2,3}; model + oracle up to ex_model ops,
    # oracle only (no Coq evaluation) for ex_oracle ops
    ex_model, ex_oracle = (3, 0) if tier == "quick" else (5, 6)
    ex_model = int(os.environ.get("VERIF_C16_EX") or ex_model)
    ex = exhaustive_cases(ex_model)
    run_cases(ex, model_ok, out, "x", stats)
    n_ex_oracle = 0
    if ex_oracle:
        o2 = Outcome()
        ex6 = exhaustive_cases(ex_oracle)
        run_cases(ex6, False, o2, "x6", stats)
        n_ex_oracle = len(ex6)
        out.evaluations += o2.evaluations
        out.nontrivial |= o2.nontrivial
        out.oracle_violations += o2.oracle_violations
    out.notes.append("exhaustive small scope (all sequences of Set/Remove over keys '', a, ab, b; m in {2,3}): %d histories of %d ops against model and oracle%s"
                     % (len(ex), ex_model, ("; %d histories of %d ops against the oracle only" % (n_ex_oracle, ex_oracle)) if ex_oracle else ""))
    # the witnesses must reproduce their finding on the implementation
    binary = _binary()
    wobs = common.run_driver(binary, wit)
    for (name, rec, c), o in zip(WITNESSES, wobs):
        flat = [int(x) for x in o["flat"]]
        ok = any(v["rec"] == rec for v in oracle(c, flat))
        out.notes.append("witness %s (%s) reproduced on the implementation: %s" % (name, json.dumps(rec), "yes" if ok else "NO"))
    for (name, c), o in zip(FIXED_WITNESSES, common.run_driver(binary, [w[1] for w in FIXED_WITNESSES])):
        vs = oracle(c, [int(x) for x in o["flat"]])
        out.notes.append("former witness %s is clean on the implementation: %s" % (name, "yes" if not vs else "NO"))
        for v in vs:
            v["case"] = c
            out.oracle_violations.append(v)
    # unit checks of the machinery itself
    so = [c for c in cases if not any(o["op"] == "rm" for o in c["ops"])][:1]
    if so:
        o = common.run_driver(binary, so)[0]
        flat = [int(x) for x in o["flat"]]
        if not selftest_oracle(so[0], flat):
            out.mismatches.append({"what": "selftest: the oracle did not flag a perturbed Get / TotalAccumulatedValue observation", "case": so[0]})
        if model_ok:
            dg = digest(flat)
            items = [("C16_selftest", COQ_HEADER + "Definition good := %s.\nDefinition bad := %s.\nDefinition bad2 := %s.\n"
                      "Definition M := Eval vm_compute in mismatches case_ok [good; bad; bad2].\nPrint M.\n"
                      % (coq_case(so[0], digest(flat)), coq_case(so[0], digest(flat[:-1] + [flat[-1] + 1])),
                         coq_case(so[0], digest(swap_first_unequal(flat)))))]
            rc, txt = common.coq_eval_many(items)[0]
            if common.parse_nat_list(txt) != [1, 2]:
                out.mismatches.append({"what": "selftest: case_ok did not reject exactly the perturbed expectations: " + txt[-300:], "case": so[0]})
            out.notes.append("selftest: oracle flags a perturbed Get and a perturbed total; case_ok rejects a perturbed / permuted expectation: ok")
    out.rule = ("cases = histories of %d ops (set/inc/dec, 40%% of histories also remove) over 4-40 byte-string keys (alphabet {00,61,62,ff}, length <= 3, "
                "shared prefixes, always the empty key, nil and empty slices), fan-out from %s, insertion orders monotone/reverse/outside-in/inside-out/random, "
                "removal runs of consecutive keys; plus one overflow-forcing insertion of m+2..m+6 keys for each m in %s (observed from the overflow on); after NewTree and after every op: Get of every key of the universe, SplitAcc / SubsetAccumulation / PrefixSum "
                "over all (pairs of) 3-6 query keys incl. nil ends, TotalAccumulatedValue, full forward+reverse and two ranged iterations, raw store dump; "
                "plus, exhaustively, every Set/Remove sequence of 3 (quick) / 5 with model, 6 oracle-only (thorough) operations over 4 keys for m in {2,3}; "
                "non-trivial = the history ended without a panicking mutation and built at least 3 levels (some node split); distinct = distinct case JSON" % (nops, MS, BIG_MS))
    out.samples = [{"m": c["m"], "mode": c["mode"], "universe": c["universe"][:8], "q": c["q"], "ops": c["ops"][:6]} for c in cases[:3]]
    kinds, ms, modes = {}, {}, {}
    for c in cases:
        ms[str(c["m"])] = ms.get(str(c["m"]), 0) + 1
        modes[c["mode"].split("_")[0]] = modes.get(c["mode"].split("_")[0], 0) + 1
        for o in c["ops"]:
            kinds[o["op"]] = kinds.get(o["op"], 0) + 1
    out.distribution = {"op_kinds": kinds, "fan_out_hist": ms, "insertion_order_hist": modes,
                        "histories_with_remove": sum(1 for c in cases if any(o["op"] == "rm" for o in c["ops"])),
                        "set_only_histories": sum(1 for c in cases if not any(o["op"] == "rm" for o in c["ops"])),
                        "oracle_records_by_class": stats, "witnesses": len(wit), "corpus_cases": len(corpus)}
    return out


def search(tier, seed, out):
    """targeted search for a failing input after a proof/correspondence break: many more histories, oracle only,
    concentrated on the fan-outs / shapes of the disagreeing cases; returns the first violation that is not a known finding"""
    findings = common.load_findings(PROP)
    o2 = Outcome()
    r = Rng(seed + 7919)
    cases = []
    ms = set()
    for mm in out.mismatches[:50]:
        c = mm.get("case")
        if c:
            cases.append(c)
            ms.add(c["m"])
            # the same history without its removals, and prefixes of it
            cases.append(dict(c, ops=[o for o in c["ops"] if o["op"] != "rm"]))
            cases.append(dict(c, ops=c["ops"][:len(c["ops"]) // 2]))
    for i in range(3000):
        fm = r.choice(sorted(ms)) if (ms and i % 2 == 0) else None
        cases.append(gen_case(r.fork(i), "thorough", nops=50, force_m=fm, with_rm=(i % 3 == 0)))
    cases += [gen_merge_case(r.fork("merge%d" % i), "thorough", nops=50) for i in range(300)]
    # every fan-out a uint8 can hold, with an insertion that forces the first node overflow (cheap: only the tail is observed)
    for m in range(2, 256):
        for order in ("mono", "rand"):
            cases.append(gen_overflow_case(r.fork("sweep%d%s" % (m, order)), m, order=order, extra=3))
    run_cases(cases, False, o2, "s")
    for v in o2.oracle_violations:
        if not common.match_finding(findings, v.get("rec", {})):
            return v
    return None


def replay(path):
    d = json.load(open(path))
    c = d["case"].get("case") if isinstance(d.get("case"), dict) else None
    if not c:
        print("replay names a proof obligation / correspondence, not an input:", d.get("what"))
        return 1
    binary = _binary()
    o = common.run_driver(binary, [c])[0]
    flat = [int(x) for x in o["flat"]]
    findings = common.load_findings(PROP)
    rc = 0
    seen = set()
    for v in oracle(c, flat):
        key = json.dumps(v["rec"], sort_keys=True)
        if key in seen:
            continue
        seen.add(key)
        f = common.match_finding(findings, v["rec"])
        print(("known finding %s: " % f["id"] if f else "oracle: ") + v["what"][:400])
        if not f:
            rc = 1
    full = len(flat) < 6000
    res = common.coq_eval_many(coq_items([(c, flat if full else digest(flat))], "r", 1, full=full))
    mm = common.parse_nat_list(res[0][1])
    if res[0][0] != 0 or mm is None:
        print("model evaluation failed:", res[0][1][-400:])
        rc = 1
    elif mm:
        print("mismatch: model observations differ from the implementation's")
        rc = 1
    else:
        print("model agrees with the implementation on this case")
    return rc


TECHNIQUE = ("Coq: faithful Gallina model of tree.go/node.go over a sorted (level,key) store + sorted-map spec + invariant WF; refinement proof by induction over "
             "histories and levels (push with split / root creation / re-fetched parent, updateAccumulation, accumulationSplit); refutation witnesses by vm_compute; "
             "model tied to osmoutils/sumtree by differential correspondence (vm_compute, store dump node by node) + sorted-dict oracle")
LEVEL_TEXT = ("Machine-checked (Coq 8.16.1, axiom-free). Proved for all fan-outs m >= 2 and all histories of Set/Increase/Decrease of any length over arbitrary byte-string "
              "keys and integers: no panic, the well-formedness invariant holds, and Get, the three-way split, subset sums, prefix sums and ordered iteration equal the sorted "
              "map's, and TotalAccumulatedValue is the sum of all values (F2a, repaired in /repo by 9b85b1164c). For all histories including Remove that do not panic: the stored leaves are the map's contents (push/updateAccumulation/pull "
              "never write below level 1), so Get and iteration are right, and any store still satisfying the invariant answers every query correctly. "
              "The full statement (with Remove, and the true total) is refuted on the faithful model by four concrete histories (F2b-F2d), each replayed on the real code; the raw "
              "key layout is proved order-isomorphic to (level, key). The model is hand-written and compared with the real sumtree on an IAVL store after every operation of "
              "generated histories (queries, iteration, raw store dump node by node); an independent sorted-dict oracle judges the implementation's answers.")
LEVEL_NOTE = ("Trusted: Coq kernel (vm_compute), no axioms; hand-written model C16/Model.v; Go driver harness/c16drv and python glue (bulk comparison by digest); "
              "IAVL store, gogoproto codec and sdk Int are not modelled beyond a sorted map / plain records / unbounded integers. Histories with Remove are covered by "
              "correspondence and the oracle only (known findings F2b-F2d), not by a theorem.")
