"""C17 - epoch timers / hook containment: case generator, Coq case writer, oracle."""
import json

from lib import common
from lib.common import Rng, Outcome, zlit, zlist

PROP = "C17"
GO_PKGS = [("epochsdrv", False)]
MODEL_VO = ["theories/C17/Corr.vo"]
ALLOWED_AXIOMS = []
SCOPE = "full: all eight theorems of Properties/C17.v are proved for every block-time sequence, timer set and subscriber script (axiom-free)"
EXPLANATION = ("Theorems over the Gallina model C17/Model.v (BeginBlocker + MultiEpochHooks + ApplyFuncIfNoError) by induction over "
               "block lists; the model is tied to /repo by running the real x/epochs keeper with scripted subscribers on generated "
               "schedules and comparing every timer field after every block, the full ordered hook-call log and every subscriber store.")
TRUSTED = [
    "hand-written model coq/theories/C17/Model.v, tied to x/epochs by the correspondence run (harness/epochsdrv against /repo's working tree)",
    "harness/epochsdrv (Go), props/c17.py (generator, flattening, oracle), Coq vm_compute evaluation of generated case files",
    "modelled not verified: SDK store/CacheContext (assumed: writes on a cache context are discarded unless written back), telemetry, events, logging",
]
ASSUMPTIONS = [
    "subscribers only touch their own store; their behaviour is an arbitrary function of (invocation index, subscriber)",
    "block times fit int64 nanoseconds; identifiers are compared in store (byte) order",
]

KINDS = ["ok", "err", "panic", "oog"]


def gen_case(r, tier):
    nt = r.range(1, 4)
    ns = r.range(0, 4) if r.chance(1, 10) else r.range(1, 4)
    base = r.range(10**9, 10**12)
    timers = []
    for i in range(nt):
        dur = r.choice([1, 2, 7, 10, 60, 3600, r.range(1, 10**6)]) * r.choice([1, 10**3, 10**9])
        start = base + r.range(-5, 40) * r.choice([1, dur, 10**9])
        timers.append({"id": i, "start": start, "dur": dur})
    nb = r.range(5, 60 if tier == "quick" else 150)
    t = base - r.range(0, 3) * 10**9
    blocks = []
    mode = r.below(4)
    unit = r.choice([t_["dur"] for t_ in timers])
    for h in range(1, nb + 1):
        if mode == 0:
            t += unit // 3 + 1
        elif mode == 1:
            t += r.range(0, unit)            # jitter, including equal times
        elif mode == 2:
            t += r.choice([0, 1, unit, unit + 1, unit * r.range(2, 9)])  # gaps of many epochs
        else:
            t += r.choice([1, unit - 1, unit, unit + 1])   # exactly on / next to the boundary
        blocks.append([t, h])
    script = []
    oog_ok = r.chance(1, 5)
    ncalls_max = nb * nt * 2 * max(ns, 1)
    pfail = r.choice([0, 10, 30, 60])
    for k in range(ncalls_max):
        for i in range(ns):
            x = r.below(100)
            if x < pfail or r.chance(1, 3):
                kind = "ok"
                if x < pfail:
                    kind = r.choice(["err", "panic"])
                    if oog_ok and r.chance(1, 40):
                        kind = "oog"
                w = [[r.range(-3, 6), r.range(0, 99)] for _ in range(r.range(0, 3))]
                if kind == "ok" and not w:
                    continue
                script.append({"k": k, "i": i, "kind": kind, "writes": w})
    return {"timers": timers, "nsubs": ns, "blocks": blocks, "script": script}


def coq_case(c, flat):
    # script entries beyond the last invocation actually made are never consulted: drop them from the Coq term
    per = 4 * len(c["timers"]) + 2
    nb = len(c["blocks"])
    ncalls = flat[per * nb - 2] if nb else 0
    c = dict(c, script=[e for e in c["script"] if e["k"] < ncalls])
    timers = "[" + "; ".join("(%s, %s, %s)" % (zlit(t["id"]), zlit(t["start"]), zlit(t["dur"])) for t in c["timers"]) + "]"
    blocks = "[" + "; ".join("(%s, %s)" % (zlit(b[0]), zlit(b[1])) for b in c["blocks"]) + "]"
    con = {"ok": "OOk", "err": "OErr", "panic": "OPanic", "oog": "OOog"}
    rows = [[] for _ in range(ncalls)]
    for e in c["script"]:
        rows[e["k"]].append("(%d%%nat, %s [%s])" % (e["i"], con[e["kind"]], "; ".join("(%s, %s)" % (zlit(w[0]), zlit(w[1])) for w in e["writes"])))
    sc = "[" + "; ".join("[" + "; ".join(rw) + "]" for rw in rows) + "]"
    return "mkCase %s %d%%nat %s %s %s" % (timers, c["nsubs"], blocks, sc, zlist(flat))


def oracle(c, flat):
    """the property's own predicates on the implementation's observations (independent of the Coq model)"""
    nt, ns = len(c["timers"]), c["nsubs"]
    per = 4 * nt + 2
    nb = len(c["blocks"])
    v = []
    prev = [(0, 0, 0, 0)] * nt
    halted_at = None
    pos = 0
    for bi in range(nb):
        blk = flat[pos:pos + per]
        pos += per
        t = c["blocks"][bi][0]
        halted = blk[-1]
        for i, tm in enumerate(c["timers"]):
            cur, cst, st, hgt = blk[4 * i:4 * i + 4]
            pc, pcst, pst, _ = prev[i]
            if halted_at is None and not halted:
                # start at start time; at most one tick per block; tick iff strictly past the end
                if not pst:
                    exp = (1, tm["start"], 1) if t >= tm["start"] else (0, 0, 0)
                else:
                    exp = (pc + 1, pcst + tm["dur"], 1) if t > pcst + tm["dur"] else (pc, pcst, 1)
                if (cur, cst, st) != exp:
                    v.append({"what": "timer %d after block %d (t=%d): got epoch=%d start=%d started=%d, rule gives %s" % (i, bi, t, cur, cst, st, exp),
                              "rec": {"kind": "tick_rule"}})
            if st and cst != tm["start"] + (cur - 1) * tm["dur"]:
                v.append({"what": "timer %d off grid after block %d: start=%d epoch=%d" % (i, bi, cst, cur), "rec": {"kind": "grid"}})
            prev[i] = (cur, cst, st, hgt)
        if halted and halted_at is None:
            halted_at = bi
    assert flat[pos] == -2
    pos += 1
    calls = []
    while flat[pos] != -1:
        calls.append(tuple(flat[pos:pos + 4]))
        pos += 4
    pos += 1
    stores = []
    for i in range(ns):
        n = flat[pos]
        kv = flat[pos + 1:pos + 1 + 2 * n]
        stores.append({kv[2 * j]: kv[2 * j + 1] for j in range(n)})
        pos += 1 + 2 * n
    script = {(e["k"], e["i"]): e for e in c["script"]}
    # containment: stores = own successful writes only
    exp_stores = [dict() for _ in range(ns)]
    oog_seen = False
    for k, (sub, kind, tid, num) in enumerate(calls):
        e = script.get((k, sub))
        if e is None:
            continue
        if e["kind"] == "ok":
            for w in e["writes"]:
                exp_stores[sub][w[0]] = w[1]
        if e["kind"] == "oog":
            oog_seen = True
            if k != len(calls) - 1:
                v.append({"what": "hook invocation %d ran out of gas but %d more invocations followed" % (k, len(calls) - 1 - k), "rec": {"kind": "oog"}})
    for i in range(ns):
        if stores[i] != exp_stores[i]:
            v.append({"what": "subscriber %d store %s differs from its own successful writes %s" % (i, stores[i], exp_stores[i]), "rec": {"kind": "containment"}})
    if oog_seen != (halted_at is not None):
        v.append({"what": "out-of-gas seen=%s but block aborted=%s" % (oog_seen, halted_at is not None), "rec": {"kind": "oog"}})
    # signal order per (timer, subscriber), when nothing ran out of gas
    if not oog_seen:
        final = flat[per * (nb - 1):per * nb] if nb else []
        for i, tm in enumerate(c["timers"]):
            cur, cst, st, _ = final[4 * i:4 * i + 4] if nb else (0, 0, 0, 0)
            exp = []
            if st:
                exp = [(1, 1)]
                for n in range(1, cur):
                    exp += [(0, n), (1, n + 1)]
            for s in range(ns):
                got = [(kind, num) for (sub, kind, tid, num) in calls if sub == s and tid == tm["id"]]
                if got != exp:
                    v.append({"what": "timer %d subscriber %d saw signals %s, expected %s" % (i, s, got[:12], exp[:12]), "rec": {"kind": "signal_order"}})
    return v


def run_cases(cases, model_ok, out, tag):
    binary = common.go_build("epochsdrv")
    obs = common.run_driver(binary, cases, shards=8)
    for c, o in zip(cases, obs):
        out.evaluations += 1
        if o.get("err"):
            out.oracle_violations.append({"what": o["err"], "rec": {"kind": "unexpected_panic"}, "case": c})
            continue
        flat = o["flat"]
        for v in oracle(c, flat):
            v["case"] = c
            v["impl_flat"] = flat
            out.oracle_violations.append(v)
        ncalls = flat[len(flat) - 1] if False else None
        # non-trivial: at least one timer advanced past epoch 1 and at least one hook was invoked
        per = 4 * len(c["timers"]) + 2
        nb = len(c["blocks"])
        last = flat[per * (nb - 1):per * nb]
        if nb and max(last[0:4 * len(c["timers"]):4]) >= 2 and last[-2] > 0:
            out.nontrivial.add(json.dumps(c, sort_keys=True))
    if model_ok:
        items = []
        per_file = 40
        for fi in range(0, len(cases), per_file):
            chunk = list(zip(cases, obs))[fi:fi + per_file]
            body = ";\n  ".join(coq_case(c, o["flat"]) for c, o in chunk if not o.get("err"))
            v = ("From Coq Require Import ZArith List. Import ListNotations.\n"
                 "From Osmo Require Import Base.Obs C17.Model C17.Corr.\nOpen Scope Z_scope.\n"
                 "Definition cases : list case := [\n  %s ].\n"
                 "Definition M := Eval vm_compute in mismatches case_ok cases.\nPrint M.\n" % body)
            items.append(("C17_%s_%d" % (tag, fi // per_file), v))
        res = common.coq_eval_many(items)
        for (name, _), (rc, o), fi in zip(items, res, range(0, len(cases), per_file)):
            mm = common.parse_nat_list(o)
            if rc != 0 or mm is None:
                out.mismatches.append({"what": "model evaluation failed: " + o[-500:], "case": None})
                continue
            chunk = [(c, ob) for c, ob in list(zip(cases, obs))[fi:fi + per_file] if not ob.get("err")]
            for idx in mm:
                c, ob = chunk[idx]
                out.mismatches.append({"what": "C17 model_obs differs from implementation observations", "case": c, "impl_flat": ob["flat"]})
    else:
        out.model_ran = False


def correspond(tier, seed, model_ok):
    out = Outcome()
    r = Rng(seed)
    n = 300 if tier == "quick" else 6000
    cases = [gen_case(r.fork(i), tier) for i in range(n)]
    corpus = common.load_corpus(PROP)
    run_cases(corpus + cases, model_ok, out, "q")
    out.rule = ("cases = (1-4 timers, 0-4 scripted subscribers, 5-%d blocks with regular/jittered/multi-epoch-gap/boundary-hugging times, a script of "
                "ok/error/panic/out-of-gas outcomes with partial writes); non-trivial = some timer reached epoch >= 2 and at least one hook ran; "
                "distinct = distinct case JSON" % (60 if tier == "quick" else 150))
    out.samples = [{"timers": c["timers"], "nsubs": c["nsubs"], "blocks": c["blocks"][:6], "script": c["script"][:4]} for c in cases[:3]]
    kinds = {}
    for c in cases:
        for e in c["script"]:
            kinds[e["kind"]] = kinds.get(e["kind"], 0) + 1
    out.distribution = {"script_outcomes": kinds, "blocks_total": sum(len(c["blocks"]) for c in cases),
                        "timers_hist": {str(k): sum(1 for c in cases if len(c["timers"]) == k) for k in range(1, 5)},
                        "corpus_cases": len(corpus)}
    return out


def search(tier, seed, out):
    """targeted search for a failing input after a proof/correspondence break: many more schedules, oracle only"""
    o2 = Outcome()
    r = Rng(seed + 7919)
    cases = [gen_case(r.fork(i), "thorough") for i in range(4000)]
    for m in out.mismatches[:20]:
        if m.get("case"):
            cases.append(m["case"])
    run_cases(cases, False, o2, "s")
    return o2.oracle_violations[0] if o2.oracle_violations else None


def replay(path):
    d = json.load(open(path))
    c = d["case"].get("case") if isinstance(d.get("case"), dict) else None
    if not c:
        print("replay names a proof obligation / correspondence, not an input:", d.get("what"))
        return 1
    out = Outcome()
    run_cases([c], True, out, "r")
    for v in out.oracle_violations:
        print("oracle:", v["what"])
    for m in out.mismatches:
        print("mismatch:", m["what"])
    return 1 if (out.oracle_violations or out.mismatches) else 0

TECHNIQUE = "Coq proof by induction over block lists on a Gallina model of BeginBlocker/hooks; model tied to x/epochs by differential correspondence (vm_compute) + oracle"
LEVEL_TEXT = ("Machine-checked theorems (Coq 8.16.1, axiom-free) for all block-time sequences, timer sets and subscriber scripts: grid, tick rule, "
              "signal order exactly once per subscriber, containment of failing subscribers, out-of-gas propagation. The model is hand-written and "
              "checked against the real x/epochs keeper on generated schedules on every run; an independent oracle evaluates the property's predicates "
              "on the implementation's observations.")
LEVEL_NOTE = ("Trusted: Coq kernel (vm_compute, no native_compute), no axioms; hand-written model C17/Model.v; Go driver harness/epochsdrv and python glue; "
              "SDK store/CacheContext semantics, telemetry/events not modelled. Out-of-gas is modelled as an escaping panic that halts the chain.")
