"""C08 - spread rewards and incentives reach exactly the liquidity that earned them: generator, oracle, correspondence."""
import copy
import json
from fractions import Fraction

from lib import common
from lib.common import Rng, Outcome
from props import _cl, _clr

PROP = "C08"
GO_PKGS = [("clrdrv", True)]
MODEL_VO = ["theories/C08/Corr.vo"]
ALLOWED_AXIOMS = []
translate = _clr.translate

P18 = 10**18
UPTIMES_NS = None  # filled from the translator


def uptimes():
    global UPTIMES_NS
    if UPTIMES_NS is None:
        UPTIMES_NS = _clr.supported_uptimes_ns()
    return UPTIMES_NS


# ---------------------------------------------------------------------------------------------
# generator: histories with twin positions, k-multiples, never-in-range positions, claims at arbitrary times, swaps
# crossing ticks both ways, incentives on all uptimes, both sides of the scaling migration
# ---------------------------------------------------------------------------------------------
def gen_case(r, nops, K, exits=False, mode=None):
    mode = r.below(8) if mode is None else mode
    w = {"time": 8, "create": 22, "swap_in": 20, "swap_out": 12, "swap_to_tick": 14, "withdraw": 12, "add": 5, "transfer": 4, "bad": 2}
    if mode == 0:      # small core: spread rewards only, swaps mostly inside one bucket
        w = {"time": 2, "create": 12, "swap_in": 40, "swap_out": 25, "swap_to_tick": 0, "withdraw": 6, "add": 2, "transfer": 2, "bad": 1}
    c = _cl.gen_case(r, nops, K, weights=w)
    ops = []
    k_inc = 0 if mode == 0 else r.choice([4, 8, 14])
    inc_amts = [1, 1000, 10**6, 10**9, 10**12, 10**15]
    rates = [1, 10**12, 10**15, 10**17, 10**18, 3 * 10**18, 10**21, 10**24, 10**30]
    for i, o in enumerate(c["ops"]):
        ops.append(o)
        if o["k"] == "create" and o.get("lo", 0) < o.get("hi", 0):
            x = r.below(10)
            if x < 3:        # twin: same range and amounts, different account, same block
                t = dict(o)
                t["a"] = (o["a"] + 1 + r.below(2)) % 3
                ops.append(t)
            elif x < 5:      # k-multiple
                kk = r.choice([2, 3, 5, 10, 100])
                t = dict(o)
                t["a"] = (o["a"] + 1) % 3
                t["amt0"] = str(int(o["amt0"]) * kk)
                t["amt1"] = str(int(o["amt1"]) * kk)
                t["min0"] = t["min1"] = "0"
                ops.append(t)
        x = r.below(100)
        a = r.below(3)
        if x < 9:
            n = r.choice([1, 1, 1, 2, 3])
            ops.append({"k": "collect_spread", "a": a, "sels": [r.below(64) for _ in range(n)], "own": r.chance(7, 8)})
        elif x < 9 + k_inc:
            n = r.choice([1, 1, 1, 2])
            ops.append({"k": "collect_inc", "a": a, "sels": [r.below(64) for _ in range(n)], "own": r.chance(7, 8)})
        elif x < 9 + 2 * k_inc:
            ops.append({"k": "incentive", "a": a, "d": r.below(2), "amt": str(r.choice(inc_amts) * r.range(1, 9)), "rate": str(r.choice(rates) * r.range(1, 9)),
                        "u": r.choice([0, 0, 1, 1, 2, 3, 4, 5]), "dt": r.choice([0, 0, 0, 0, 1, 100, 86400])})
        elif x < 9 + 3 * k_inc:
            ops.append({"k": "time", "dt": r.choice([1, 1, 59, 60, 61, 3599, 3600, 86400, 7 * 86400, 14 * 86400, 14 * 86400 + 1])})
        if r.chance(1, 60):
            ops.append({"k": "incentive", "a": a, "d": 0, "amt": "0", "rate": "1", "u": 0, "dt": 0})       # rejected
        if r.chance(1, 60):
            ops.append({"k": "collect_spread", "a": a, "id": r.range(1, 40)})                                # mostly foreign / missing
    if r.chance(1, 2):
        ops = boundary_blocks(r, ops, nops)
    c["ops"] = ops[:nops]
    c["spread_scaled"] = r.chance(1, 2)
    c["inc_scaled"] = r.chance(1, 2)
    c["exits"] = exits
    return c


def boundary_block(r, first):
    """boundary coincidence: the price is (optionally) moved exactly onto an initialised tick, positions are created whose UPPER or
    LOWER tick is the pool's current tick (resolved by the driver: op create_at), then small swaps that mostly stay inside that tick
    accrue spread rewards - a position whose range [lower, upper) does not contain the current tick must earn nothing, one whose
    lower tick is the current tick must earn - and rewards are collected.  For every tick spacing (the case's)."""
    a0, a1 = max(1, int(first.get("amt0", "1000"))), max(1, int(first.get("amt1", "1000")))
    b = []
    m = r.below(6)
    if m < 3:
        b.append({"k": "swap_to_tick", "a": r.below(3), "zfo": m == 0, "n": r.choice([1, 1, 2]), "delta": 0})
    elif m == 3:     # there and back: leaves the price within a hair of the tick it came from
        z = r.chance(1, 2)
        b.append({"k": "swap_to_tick", "a": r.below(3), "zfo": z, "n": 1, "delta": 0})
        b.append({"k": "swap_to_tick", "a": r.below(3), "zfo": not z, "n": 1, "delta": 0})
    edges = r.choice([["upper"], ["lower"], ["upper", "lower"], ["lower", "upper"], ["upper", "upper"], ["upper", "lower", "upper"]])
    for e in edges:
        sc = r.choice([1, 1, 2, 10, 1000])
        b.append({"k": "create_at", "a": r.below(3), "edge": e, "wd": r.choice([1, 1, 2, 10, 100, 5000]), "off": r.choice([0, 0, 0, 0, 1, -1]),
                  "amt0": str(max(1, a0 // sc)), "amt1": str(max(1, a1 // sc)), "min0": "0", "min1": "0"})
        if r.chance(1, 3):
            b.append({"k": "swap_in", "a": r.below(3), "zfo": r.chance(1, 2), "amt": str(r.choice([1, 2, 10, 1000, max(1, a1 // 10**6)])), "lim": "1"})
    for _ in range(r.range(2, 5)):
        z = r.chance(1, 3)       # one-for-zero keeps the tick when it does not reach the next one
        src = a0 if z else a1
        amt = r.choice([1, 3, 10, 1000, max(1, src // 10**9), max(1, src // 10**6), max(1, src // 10**4), max(1, src // 100)])
        b.append({"k": r.choice(["swap_in", "swap_in", "swap_out"]), "a": r.below(3), "zfo": z, "amt": str(amt), "lim": "1"})
        if b[-1]["k"] == "swap_out":
            b[-1]["lim"] = str(10**40)
        if r.chance(1, 4):
            b.append({"k": "collect_spread", "a": r.below(3), "sels": [r.below(64)], "own": True})
    if r.chance(1, 2):
        b.append({"k": "collect_spread", "a": r.below(3), "sels": [r.below(64), r.below(64)], "own": True})
    if r.chance(1, 3):
        b.append({"k": "withdraw", "a": r.below(3), "sel": r.below(64), "own": True, "num": 1, "den": r.choice([1, 1, 2])})
    return b


SEL_LAST = 999983      # driver: the most recently created open position


def forfeit_block(r, first):
    """forfeits in several uptime accumulators at once: incentives on two or three different uptimes of at least a minute, a fresh
    in-range position (create_at), a few seconds, then that position is withdrawn from (partially or fully) while the other liquidity
    stays - redepositForfeitedIncentives has to hand each accumulator ITS forfeits - then time, collects and withdrawals of others."""
    a0, a1 = max(1, int(first.get("amt0", "1000"))), max(1, int(first.get("amt1", "1000")))
    b = []
    ups = r.choice([[1, 2], [1, 3], [2, 4], [1, 2, 3], [3, 5], [1, 5], [2, 3, 4]])
    for u in ups:
        d = r.below(2)
        b.append({"k": "incentive", "a": r.below(3), "d": d, "amt": str(r.choice([10**6, 10**9, 10**12]) * r.range(1, 9)),
                  "rate": str(r.choice([10**18, 10**19, 10**21, 10**24]) * r.range(1, 9)), "u": u, "dt": 0})
    sc = r.choice([1, 1, 2, 10])
    b.append({"k": "create_at", "a": r.below(3), "edge": "lower", "wd": r.choice([1, 2, 10, 100, 5000]), "off": 0,
              "amt0": str(max(1, a0 // sc)), "amt1": str(max(1, a1 // sc)), "min0": "0", "min1": "0"})
    b.append({"k": "time", "dt": r.choice([1, 5, 30, 59])})
    if r.chance(1, 3):
        z = r.chance(1, 2)
        b.append({"k": "swap_in", "a": r.below(3), "zfo": z, "amt": str(max(1, (a0 if z else a1) // 10**4)), "lim": "1"})
    num, den = r.choice([(1, 1), (1, 1), (1, 2), (1, 3), (999, 1000)])
    b.append({"k": "withdraw", "a": r.below(3), "sel": SEL_LAST, "own": True, "num": num, "den": den})
    b.append({"k": "time", "dt": r.choice([1, 60, 3600, 86400])})
    b.append({"k": "collect_inc", "a": r.below(3), "sels": [r.below(64), r.below(64)], "own": True})
    if r.chance(1, 2):
        b.append({"k": "withdraw", "a": r.below(3), "sel": r.below(64), "own": True, "num": 1, "den": r.choice([1, 2])})
    return b


UPTIME_S = [0, 60, 3600, 86400, 7 * 86400, 14 * 86400]


def uptime_edge_block(r, first):
    """uptime thresholds hit exactly: an incentive on uptime u, a fresh in-range position, then exactly that uptime (or one second less /
    more) of block time, then the position collects its incentives: met at age >= uptime, forfeited below."""
    a0, a1 = max(1, int(first.get("amt0", "1000"))), max(1, int(first.get("amt1", "1000")))
    u = r.choice([1, 1, 2, 2, 3, 4, 5])
    b = [{"k": "incentive", "a": r.below(3), "d": r.below(2), "amt": str(r.choice([10**6, 10**9, 10**12]) * r.range(1, 9)),
          "rate": str(r.choice([10**15, 10**18, 10**19]) * r.range(1, 9)), "u": u, "dt": 0}]
    if r.chance(1, 2):
        b.append({"k": "incentive", "a": r.below(3), "d": r.below(2), "amt": str(10**9 * r.range(1, 9)), "rate": str(10**18 * r.range(1, 9)),
                  "u": r.choice([0, 1, 2, 3]), "dt": 0})
    b.append({"k": "create_at", "a": r.below(3), "edge": "lower", "wd": r.choice([1, 2, 10, 100, 5000]), "off": 0,
              "amt0": str(max(1, a0 // r.choice([1, 2, 10]))), "amt1": str(max(1, a1 // r.choice([1, 2, 10]))), "min0": "0", "min1": "0"})
    b.append({"k": "time", "dt": max(1, UPTIME_S[u] + r.choice([-1, 0, 0, 0, 1]))})
    if r.chance(2, 3):
        b.append({"k": "collect_inc", "a": r.below(3), "sels": [SEL_LAST], "own": True})
    else:
        b.append({"k": "withdraw", "a": r.below(3), "sel": SEL_LAST, "own": True, "num": 1, "den": r.choice([1, 2])})
    b.append({"k": "time", "dt": r.choice([1, 60])})
    b.append({"k": "collect_inc", "a": r.below(3), "sels": [SEL_LAST, r.below(64)], "own": True})
    return b


def boundary_blocks(r, ops, nops):
    first = ops[0] if ops and ops[0].get("k") == "create" else {}
    out = list(ops)
    for _ in range(r.choice([1, 1, 2, 3])):
        at = r.range(1, max(1, min(len(out), nops - 6)))
        x = r.below(6)
        out[at:at] = boundary_block(r, first) if x < 3 else forfeit_block(r, first) if x < 5 else uptime_edge_block(r, first)
    return out


# ---------------------------------------------------------------------------------------------
# oracle: the property's own predicates on the implementation's dumps (exact integers / Fractions; written from the
# property text and its "mechanism" entries, independent of the Coq model)
# ---------------------------------------------------------------------------------------------
def _positions(o):
    d = {}
    for p, inc, rec in zip(o["pos"], o["pos_inc"], o["pos_rec"]):
        d[int(p[0])] = {"owner": int(p[1]), "lo": int(p[2]), "hi": int(p[3]), "L": int(p[4]), "join": int(p[5]),
                        "cs": (int(p[6]), int(p[7])) if p[6] != "" else None,
                        "ci": tuple(int(x) for x in inc) if inc[0] != "" else None, "rec": rec}
    return d


def _named_ids(rop):
    k = rop["k"]
    if k in ("withdraw", "add"):
        return [rop.get("id", 0)]
    if k in ("collect_spread", "collect_inc"):
        return list(rop.get("ids") or [])
    return []


def oracle(c, obs, K, stats=None):
    V = []
    stats = stats if stats is not None else {}

    def cnt(key):
        stats[key] = stats.get(key, 0) + 1

    def viol(step, kind, what, **rec):
        r = {"kind": kind}
        r.update(rec)
        V.append({"what": "after op %s: %s" % (step, what), "rec": r, "step": step})

    big = K["cl_perUnitLiqScalingFactor18"] // P18
    sf_spread = big if c.get("spread_scaled") else 1
    sf_inc = big if c.get("inc_scaled") else 1
    ups = uptimes()
    prev = obs["init"]
    pprev = _positions(prev)
    track = {}         # id -> {"entered": bool, "sig": [...], "born": step}
    dust_spread = [Fraction(0), Fraction(0)]
    dust_inc = [Fraction(0), Fraction(0)]
    stranded = [0, 0]          # incentives forfeited through MsgCollectIncentives: neither paid nor re-deposited
    inc_uptimes_used = set()
    for n, st in enumerate(obs["steps"]):
        rop, ok = st["rop"], st["err"] == 0
        pos = _positions(st)
        k = rop["k"]
        lo_t, hi_t = min(prev["tick"], st["tick"]), max(prev["tick"], st["tick"])
        is_swap = k in ("swap_in", "swap_out")
        # ---- failed message: nothing changes (harness atomicity) ----
        if not ok:
            for key in ("ticks", "pos", "pos_rec", "accum", "up_accum", "inc_recs", "bal", "last_upd"):
                if prev[key] != st[key]:
                    viol(n, "atomicity", "failed %s changed %s" % (k, key), op=k)
                    break
        # ---- bookkeeping of lifetimes ----
        for i, p in pos.items():
            if i not in track:
                track[i] = {"entered": p["lo"] <= st["tick"] < p["hi"], "sig": [], "born": n}
        if ok:
            for i in _named_ids(rop):
                if i in track:
                    track[i]["sig"].append((n, k, rop.get("liq", "")))
            if k == "incentive":
                inc_uptimes_used.add(rop.get("u", 0))
        for i, p in pos.items():
            if i in pprev and (p["lo"] <= hi_t and lo_t < p["hi"]):
                track[i]["entered"] = True
        Lsum = sum(p["L"] for p in pprev.values())
        nticks = len(prev["ticks"])
        bal, pbal = st["bal"], prev["bal"]
        sp_bal = [int(bal[1][0]), int(bal[1][1])]
        psp_bal = [int(pbal[1][0]), int(pbal[1][1])]
        inc_bal = [int(bal[2][0]), int(bal[2][1])]
        pinc_bal = [int(pbal[2][0]), int(pbal[2][1])]
        # ---- dust budgets (how far total claimable may fall short of what was paid in) ----
        if ok and is_swap:
            d_in = 0 if rop.get("zfo") else 1
            # every fee-charging step truncates fee * scaling / liquidity to 18 decimals: at most L * 10^-18 / scaling tokens;
            # the total fee is rounded up to a whole unit once
            dust_spread[d_in] += 1 + (nticks + 2) * Fraction(Lsum, P18 * sf_spread)
        if ok and st["last_upd"] != prev["last_upd"]:
            for d in (0, 1):
                dust_inc[d] += (len(prev["inc_recs"]) + 1) * (Fraction(Lsum, P18 * sf_inc) + 1)
        claimers = _named_ids(rop) if ok else []
        for d in (0, 1):
            dust_spread[d] += 2 * len(claimers)
            dust_inc[d] += 2 * len(ups) * len(claimers) * (1 + Fraction(Lsum, P18 * sf_inc))
        # ---- modification preserves matured rewards ----
        if ok and k == "collect_spread":
            want = [0, 0]
            seen = set()
            for i in (rop.get("ids") or []):
                if i in pprev and pprev[i]["cs"] and i not in seen:
                    want[0] += pprev[i]["cs"][0]
                    want[1] += pprev[i]["cs"][1]
                seen.add(i)
            got = [int(st["res"][0]), int(st["res"][1])]
            paid = [psp_bal[0] - sp_bal[0], psp_bal[1] - sp_bal[1]]
            # the message collects its positions one after the other and (on a pool whose spread accumulator is not scaled) every collect
            # re-deposits its dust (< 1 unit per denom) into the global accumulator, so the j-th collect (j = 0, 1, ...) of a position
            # in range sees up to j re-deposited units more than its query before the message said: trunc(x + d) - trunc(x) <= j for
            # d < j.  All collects together re-deposit < m - 1 units before the last one, and each of the r later in-range collects
            # rounds at most once more: total surplus <= min(sum of j over the in-range collects, m - 2 + r).  Never less than the
            # queries, the account pays exactly what the message reports, and on a scaled pool (no re-deposit) the amounts are equal.
            ids_l = rop.get("ids") or []
            slack = 0
            if not c.get("spread_scaled"):
                js = [j for j, i in enumerate(ids_l) if j >= 1 and i in pprev and pprev[i]["lo"] <= st["tick"] < pprev[i]["hi"]]
                if js:
                    slack = min(sum(js), len(ids_l) - 2 + len(js))
            if got != paid or any(not (want[d] <= got[d] <= want[d] + slack) for d in (0, 1)):
                viol(n, "collect_spread_amount", "collect of %s paid %s (account moved %s) but the claimable queries said %s (at most %d more per denom can come from re-deposited dust)" % (rop.get("ids"), got, paid, want, slack), op=k)
            # right after the message a collected position claims nothing again - except for its share of the forfeited dust of the
            # collects of this message: on a pool whose spread accumulator is not scaled every collect re-deposits its dust (< 1 unit,
            # AddToAccumulator(dust / total shares)), which accrues to the positions in range incl. the ones just collected; n collects
            # re-deposit < n units in total, so a collected in-range position may claim up to n - 1 units again, never more
            # (claim formula: trunc(MulDec(growth inside since the new snapshot, shares)); Coq: stage_claim in C08/Paid.v)
            ids_m = rop.get("ids") or []
            for i in ids_m:
                if i in pos:
                    inr = pos[i]["lo"] <= st["tick"] < pos[i]["hi"]
                    bound = (len(ids_m) - 1) if (inr and not c.get("spread_scaled")) else 0
                    if pos[i]["cs"] is None or max(pos[i]["cs"]) > bound or min(pos[i]["cs"]) < 0:
                        viol(n, "collect_not_reset", "position %d still claims %s right after a collect of %d positions (at most %d per denom can come from re-deposited dust)"
                             % (i, pos[i]["cs"], len(ids_m), bound), op=k)
        if ok and k == "collect_inc":
            want, wforf = [0, 0], [0, 0]
            seen = set()
            for i in (rop.get("ids") or []):
                if i in pprev and pprev[i]["ci"] and i not in seen:
                    want[0] += pprev[i]["ci"][0]
                    want[1] += pprev[i]["ci"][1]
                    wforf[0] += pprev[i]["ci"][2]
                    wforf[1] += pprev[i]["ci"][3]
                seen.add(i)
            got = [int(x) for x in st["res"][:2]]
            gforf = [int(x) for x in st["res"][2:4]]
            paid = [pinc_bal[0] - inc_bal[0], pinc_bal[1] - inc_bal[1]]
            if got != want or paid != want or gforf != wforf:
                viol(n, "collect_inc_amount", "collect of %s paid %s forfeited %s (account moved %s) but the claimable query said %s / %s" % (rop.get("ids"), got, gforf, paid, want, wforf), op=k)
            for d in (0, 1):
                stranded[d] += gforf[d]
            if gforf != [0, 0]:
                viol(n, "forfeit_stranded", "collecting incentives of %s before the uptime was met removed %s from the position; it was neither paid nor re-deposited "
                     "(it stays in the incentive account with no claim on it)" % (rop.get("ids"), gforf), op=k)
        if ok and k == "transfer":
            for i in rop.get("ids") or []:
                if i in pprev and i in pos and (pprev[i]["cs"], pprev[i]["ci"]) != (pos[i]["cs"], pos[i]["ci"]):
                    viol(n, "transfer_changed_rewards", "transfer changed the claimable rewards of position %d: %s -> %s" % (i, (pprev[i]["cs"], pprev[i]["ci"]), (pos[i]["cs"], pos[i]["ci"])), op=k)
        if ok and k == "withdraw":
            i = rop.get("id", 0)
            if i in pprev and i in pos and pprev[i]["cs"] and pos[i]["cs"]:
                # partial withdrawal: matured spread rewards stay with the position
                for d in (0, 1):
                    if abs(pos[i]["cs"][d] - pprev[i]["cs"][d]) > 1:
                        viol(n, "withdraw_changed_rewards", "partial withdrawal changed claimable spread rewards of %d from %s to %s" % (i, pprev[i]["cs"], pos[i]["cs"]), op=k)
            if i in pprev and pprev[i]["cs"] and i not in pos:
                paid = [psp_bal[0] - sp_bal[0], psp_bal[1] - sp_bal[1]]
                if paid != list(pprev[i]["cs"]):
                    viol(n, "withdraw_spread_amount", "full withdrawal of %d moved %s out of the spread-reward account, claimable was %s" % (i, paid, pprev[i]["cs"]), op=k)
        # positions nobody named: rewards only move through swaps / time / dust re-deposits, and never down
        if ok and not is_swap and k != "time":
            for i, p in pos.items():
                if i in pprev and i not in claimers and p["cs"] and pprev[i]["cs"]:
                    for d in (0, 1):
                        if p["cs"][d] < pprev[i]["cs"][d] or p["cs"][d] > pprev[i]["cs"][d] + 1:
                            viol(n, "bystander_changed", "%s by others changed claimable spread rewards of position %d from %s to %s" % (k, i, pprev[i]["cs"], p["cs"]), op=k)
        # ---- never in range => exactly nothing ----
        for i, p in pos.items():
            if not track[i]["entered"]:
                cnt("never_entered_position_steps")
                if (p["cs"] and p["cs"] != (0, 0)) or (p["ci"] and p["ci"] != (0, 0, 0, 0)):
                    viol(n, "out_of_range_earned", "position %d [%d,%d) was never in range (tick now %d) but claims %s / %s" % (i, p["lo"], p["hi"], st["tick"], p["cs"], p["ci"]), op=k)
        # ---- twins and multiples (same range, same block of creation, same list of operations naming them) ----
        ids = sorted(pos)
        for x in range(len(ids)):
            for y in range(x + 1, len(ids)):
                a, b = pos[ids[x]], pos[ids[y]]
                ta, tb = track[ids[x]], track[ids[y]]
                if (a["lo"], a["hi"], a["join"]) != (b["lo"], b["hi"], b["join"]) or tb["born"] - ta["born"] != 1:
                    continue
                if [e[1:] for e in ta["sig"]] != [e[1:] for e in tb["sig"]] or [e[0] for e in ta["sig"]] != [e[0] for e in tb["sig"]]:
                    continue     # only when every operation naming one named the other in the same message
                if a["cs"] is None or b["cs"] is None or a["ci"] is None or b["ci"] is None:
                    continue
                nz = a["cs"] != (0, 0) or a["ci"] != (0, 0, 0, 0) or b["cs"] != (0, 0) or b["ci"] != (0, 0, 0, 0)
                cnt(("twin" if a["L"] == b["L"] else "k_fold") + ("_compared_nonzero" if nz else "_compared_zero"))
                if a["L"] == b["L"]:
                    if a["cs"] != b["cs"] or a["ci"] != b["ci"]:
                        viol(n, "twins_differ", "positions %d and %d (same range, liquidity, lifetime) claim %s/%s vs %s/%s" % (ids[x], ids[y], a["cs"], a["ci"], b["cs"], b["ci"]), op=k)
                else:
                    (s, sm), (l, lg) = ((a, ids[x]), (b, ids[y])) if a["L"] < b["L"] else ((b, ids[y]), (a, ids[x]))
                    rho = Fraction(l["L"], s["L"])
                    nclaims = 1 + len(ta["sig"])
                    for d in (0, 1):
                        diff = l["cs"][d] - rho * s["cs"][d]
                        if not (-(1 + Fraction(1, 10**6)) * nclaims <= diff <= (rho + Fraction(1, 10**6)) * nclaims):
                            viol(n, "k_fold", "position %d has %s times the liquidity of %d but spread claims %d vs %d (denom %d)" % (lg, float(rho), sm, l["cs"][d], s["cs"][d], d), op=k)
                        nu = len(ups)
                        for off in (0, 2):
                            diff = l["ci"][d + off] - rho * s["ci"][d + off]
                            if not (-(1 + Fraction(1, 10**6)) * nclaims * nu <= diff <= (rho + Fraction(1, 10**6)) * nclaims * nu):
                                viol(n, "k_fold", "position %d has %s times the liquidity of %d but incentive claims %d vs %d" % (lg, float(rho), sm, l["ci"][d + off], s["ci"][d + off]), op=k)
        # ---- total claimable <= paid in, short only by bounded dust ----
        for d in (0, 1):
            tot = sum(p["cs"][d] for p in pos.values() if p["cs"])
            if tot > sp_bal[d]:
                viol(n, "spread_overclaim", "claimable spread rewards %d exceed the spread-reward account %d (denom %d)" % (tot, sp_bal[d], d), op=k)
            if sp_bal[d] - tot > dust_spread[d] + len(pos):
                viol(n, "spread_shortfall", "spread-reward account %d exceeds total claimable %d by more than the rounding budget %s (denom %d)" % (sp_bal[d], tot, float(dust_spread[d] + len(pos)), d), op=k)
            toti = sum(p["ci"][d] + p["ci"][d + 2] for p in pos.values() if p["ci"])
            rem = sum(Fraction(int(r[2]), P18) for r in st["recs_now"] if int(r[1]) == d)
            if toti + rem > inc_bal[d]:
                viol(n, "incentive_overclaim", "claimable incentives %d + undistributed %s exceed the incentive account %d (denom %d)" % (toti, float(rem), inc_bal[d], d), op=k)
            if inc_bal[d] - toti - rem > dust_inc[d] + stranded[d] + len(ups) * len(pos) * (1 + Fraction(Lsum, P18 * sf_inc)):
                viol(n, "incentive_shortfall", "incentive account %d exceeds claimable %d + undistributed %s + stranded forfeits %d by more than the rounding budget (denom %d)" % (inc_bal[d], toti, float(rem), stranded[d], d), op=k)
        # ---- unmet uptime => not paid ----
        now = st["time"]
        for i, p in pos.items():
            if p["ci"] is None:
                continue
            age_ns = (now - p["join"]) * 10**9
            used = sorted(inc_uptimes_used)
            if used and all(age_ns < ups[u] for u in used) and p["ci"] != (0, 0, 0, 0):
                cnt("unmet_uptime_with_accrual")
            if used and all(age_ns < ups[u] for u in used) and (p["ci"][0], p["ci"][1]) != (0, 0):
                viol(n, "unmet_uptime_paid", "position %d of age %d s is offered %s although every incentive requires at least %d ns" % (i, now - p["join"], p["ci"][:2], ups[used[0]]), op=k)
            if used and all(age_ns >= ups[u] for u in used) and (p["ci"][2], p["ci"][3]) != (0, 0):
                viol(n, "met_uptime_forfeited", "position %d of age %d s would forfeit %s although it met every incentivised uptime" % (i, now - p["join"], p["ci"][2:]), op=k)
        prev, pprev = st, pos
    return V


# ---------------------------------------------------------------------------------------------
def nontrivial(obs):
    grew = crossed = claimed = False
    prev = obs["init"]
    for s in obs["steps"]:
        if s["err"] == 0 and s["rop"]["k"] in ("swap_in", "swap_out"):
            if s["accum"][:2] != prev["accum"][:2]:
                grew = True
            if any(a[4:] != b[4:] for a, b in zip(prev["ticks"], s["ticks"]) if a[0] == b[0]):
                crossed = True
        if any(p[6] not in ("", "0") or p[7] not in ("", "0") for p in s["pos"]) or any(any(x not in ("", "0") for x in p) for p in s["pos_inc"]):
            claimed = True
        prev = s
    return grew and claimed, crossed


def selftest(pairs, K, out):
    """the machinery must notice a perturbed observation (oracle) and a perturbed expectation (case_ok)"""
    pick = None
    for c, o in pairs:
        for n, s in enumerate(o["steps"]):
            if any(p[6] not in ("", "0") for p in s["pos"]) and s["err"] == 0:
                pick = (c, o, n)
                break
        if pick:
            break
    if not pick:
        out.notes.append("self-test skipped: no step with positive claimable spread rewards")
        return
    c, o, n = pick
    o2 = copy.deepcopy(o)
    s = o2["steps"][n]
    s["bal"][1][0] = "0"                                      # the spread-reward account is emptied: claims exceed it
    kinds = {v["rec"]["kind"] for v in oracle(c, o2, K)}
    if "spread_overclaim" not in kinds:
        out.mismatches.append({"what": "self-test: the oracle did not flag claimable spread rewards above an emptied spread-reward account", "case": None})
    o3 = copy.deepcopy(o)
    for p in o3["steps"][n]["pos"]:
        if p[6] not in ("", "0"):
            p[6] = str(int(p[6]) + 1)
            break
    bad, errs = _clr.eval_cases("C08_self", [(c, o), (c, o3)], K, per_file=2, case_ok="c08_case_ok", imports="C08.Corr")
    if errs or bad != [1]:
        out.mismatches.append({"what": "self-test: rcase_ok did not reject exactly the perturbed expectation (got %s %s)" % (bad, errs[:1]), "case": None})
    else:
        out.notes.append("self-test passed: oracle flags an emptied spread-reward account; rcase_ok rejects a claimable amount off by one and accepts the original")


def run_cases(cases, model_ok, out, tag, K, selft=False):
    obs = _clr.run_clrdrv(cases)
    pairs = []
    for c, o in zip(cases, obs):
        out.evaluations += 1
        if o.get("fatal"):
            out.oracle_violations.append({"what": "driver: " + o["fatal"], "rec": {"kind": "driver_fatal"}, "case": c})
            continue
        for v in oracle(c, o, K):
            v["case"] = c
            out.oracle_violations.append(v)
        nt, crossed = nontrivial(o)
        if nt:
            out.nontrivial.add(json.dumps(c, sort_keys=True))
        pairs.append((c, o))
    if model_ok and pairs:
        bad, errs = _clr.eval_cases("C08_" + tag, pairs, K, case_ok="c08_case_ok", imports="C08.Corr")
        for fi, txt in errs:
            out.mismatches.append({"what": "model evaluation failed: " + txt, "case": None})
        for i in bad:
            out.mismatches.append({"what": "CLR model observables differ from the implementation's (or a swap of the case has an ill-formed tick trace)", "case": pairs[i][0]})
        if selft:
            selftest(pairs, K, out)
    elif not model_ok:
        out.model_ran = False
    return pairs


def correspond(tier, seed, model_ok):
    out = Outcome()
    K = _cl.consts()
    r = Rng(seed)
    n, nops = (72, 30) if tier == "quick" else (1000, 50)
    cases = [gen_case(r.fork(i), nops if not r.chance(1, 10) else nops // 3, K) for i in range(n)]
    corpus = common.load_corpus(PROP)
    pairs = run_cases(corpus + cases, model_ok, out, "q", K, selft=True)
    out.rule = ("case = one pool (authorised tick spacing / spread factor, spread-reward and incentive accumulators each on either side of the scaling migration) + a "
                "history of create (incl. twin and k-multiple positions in the same block, ranges above / below / around the price) / withdraw / add / transfer / "
                "swaps in and out incl. swap-to-the-tick crossings both ways / collect spread rewards / collect incentives / create incentive (6 uptimes, rates 1e-18..1e12 "
                "per second) / block-time advances (1 s .. 14 d) by 3 accounts; after EVERY operation: claimable queries, accumulator records and trackers of every "
                "position and tick, the accumulators, incentive records and account balances are compared with the model and checked by the oracle; "
                "non-trivial = a swap grew the spread accumulator and some position had a positive claimable amount; distinct = distinct case JSON")
    out.samples = [{"spacing": c["spacing"], "spread": c["spread"], "spread_scaled": c["spread_scaled"], "inc_scaled": c["inc_scaled"], "ops": c["ops"][:4]} for c in cases[:3]]
    hist, errs = {}, {}
    ncross = 0
    for c, o in pairs:
        if nontrivial(o)[1]:
            ncross += 1
        for s in o["steps"]:
            k = s["rop"]["k"] + (":ok" if s["err"] == 0 else ":rejected" if s["err"] == 1 else ":panic")
            hist[k] = hist.get(k, 0) + 1
            if s["err"]:
                errs[s["etyp"][:48]] = errs.get(s["etyp"][:48], 0) + 1
    out.distribution = {"ops": hist, "error_kinds": errs, "cases_with_tracker_flips": ncross,
                        "scaling": {"spread_scaled": sum(1 for c in cases if c["spread_scaled"]), "inc_scaled": sum(1 for c in cases if c["inc_scaled"]), "cases": len(cases)},
                        "corpus_cases": len(corpus)}
    out.traces = sum(len(o["steps"]) for _, o in pairs)
    return out


def search(tier, seed, out):
    o2 = Outcome()
    K = _cl.consts()
    r = Rng(seed + 15485863)
    cases = [gen_case(r.fork(i), 45, K) for i in range(1200)]
    for m in out.mismatches[:20]:
        if m.get("case"):
            cases.append(m["case"])
    run_cases(cases, False, o2, "s", K)
    found = [v for v in o2.oracle_violations if not common.match_finding(common.load_findings(PROP), v.get("rec", {}))]
    return found[0] if found else None


def replay(path):
    d = json.load(open(path))
    c = d["case"].get("case") if isinstance(d.get("case"), dict) else None
    if not c:
        print("replay names a proof obligation / correspondence, not an input:", d.get("what"))
        return 1
    out = Outcome()
    run_cases([c], True, out, "r", _cl.consts())
    for v in out.oracle_violations:
        print("oracle:", v["what"])
    for m in out.mismatches:
        print("mismatch:", m["what"])
    return 1 if (out.oracle_violations or out.mismatches) else 0


SCOPE = "see coq/theories/C08/STATUS.md"
EXPLANATION = ("Theorems over the Gallina model CLR/{Accum,Rewards,RSwap,RStep}.v - the reward bookkeeping of x/concentrated-liquidity (spread_rewards.go, incentives.go, "
               "tick.go trackers, the accumulator charge of the swap loop, the osmoutils/accum subset) on top of the shared pool model CL/*.v; the model is tied to /repo by "
               "running the real MsgServers / keeper (full app, baseapp atomicity) on generated histories and comparing, after every operation, responses, claimable queries, "
               "records, trackers, accumulators, incentive records and balances; an independent oracle evaluates the property's predicates on the implementation's dumps.")
TRUSTED = [
    "hand-written models coq/theories/CL/*.v (shared pool model) and coq/theories/CLR/*.v (rewards), tied to x/concentrated-liquidity and osmoutils/accum by the correspondence run (harness/clrdrv against /repo's working tree)",
    "translators props/_cl.py and props/_clr.py (regex over types/constants.go, swaps.go, incentives.go, math/precompute.go -> Gen/CL_consts.v, Gen/CLR_consts.v)",
    "harness/clrdrv + harness/apph (Go), props/_cl.py, props/_clr.py, props/c08.py (generator, flattening incl. the 128-bit digest, oracle), Coq vm_compute on generated case files",
    "modelled not verified: SDK bank keeper (balances of the three pool accounts and the users), store / CacheContext atomicity, protobuf codecs, sdk.DecCoins / sdk.Coins "
    "(modelled as pairs over the pool's two denominations), LegacyDec range assertions; locks, hooks, gas, events, telemetry, the linked balancer pool are outside the model",
]
ASSUMPTIONS = [
    "messages are executed atomically (DESIGN.md 1.5); no position has an underlying lock; taker fee 0; no CosmWasm hooks; incentives are denominated in one of the pool's two tokens",
    "block times are whole seconds (the driver starts the chain clock at a whole second); every supported uptime is authorised; sdk.Int 256-bit overflow of coin sums is not modelled",
]
TECHNIQUE = "Coq proofs on a Gallina model of the concentrated-liquidity reward bookkeeping (tick-snapshot invariant, telescoping of growth inside); differential correspondence (vm_compute) after every operation + exact Fraction oracle"
LEVEL_TEXT = ("Machine-checked theorems (Coq 8.16.1, axiom-free) about the reward model; the model is hand-written and checked against the real keeper after every operation "
              "of generated histories on every run; an independent oracle evaluates the property's relations (twins, k-fold, never in range, conservation with bounded dust, "
              "uptime) on the implementation's dumps.")
LEVEL_NOTE = ("Trusted: Coq kernel (vm_compute, no native_compute), no axioms; hand-written models CL/*.v and CLR/*.v; translators for the literals; Go driver harness/clrdrv "
              "and python glue; SDK bank/store semantics. See coq/theories/C08/STATUS.md for which theorems are full and which are _partial.")
