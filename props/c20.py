"""C20 - only the owner or admin can move or alter what they own.

translator (Msg-service inventory of the four modules -> Gen/C20_msgs.v), history generator, message x sender matrix
builder, abstraction of the driver's snapshots into Coq states, Coq case writer, oracle."""
import json
import os
import re

from lib import common
from lib.common import Rng, Outcome, zlit

PROP = "C20"
GO_PKGS = [("c20drv", True)]
MODEL_VO = ["theories/C20/Corr.vo", "theories/C20/Inventory.vo"]
ALLOWED_AXIOMS = []


class ShapeError(Exception):
    pass


# ---------------------------------------------------------------------------------------------
# translator: the Msg services of the four modules -> coq/theories/Gen/C20_msgs.v
# ---------------------------------------------------------------------------------------------
MSG_SOURCES = [
    ("concentrated-liquidity", "x/concentrated-liquidity/types/tx.pb.go", "proto/osmosis/concentratedliquidity/v1beta1/tx.proto"),
    ("concentrated-liquidity/model", "x/concentrated-liquidity/model/tx.pb.go", "proto/osmosis/concentratedliquidity/poolmodel/concentrated/v1beta1/tx.proto"),
    ("lockup", "x/lockup/types/tx.pb.go", "proto/osmosis/lockup/tx.proto"),
    ("superfluid", "x/superfluid/types/tx.pb.go", "proto/osmosis/superfluid/tx.proto"),
    ("tokenfactory", "x/tokenfactory/types/tx.pb.go", "proto/osmosis/tokenfactory/v1beta1/tx.proto"),
]
MODULE_DIRS = ["x/concentrated-liquidity", "x/lockup", "x/superfluid", "x/tokenfactory"]


def _strip_go_comments(s):
    s = re.sub(r"/\*.*?\*/", "", s, flags=re.S)
    return re.sub(r"//[^\n]*", "", s)


def read_msg_inventory():
    """every method of every generated `MsgServer` interface under the four module directories"""
    found = []
    for d in MODULE_DIRS:
        for dp, _, fs in os.walk(os.path.join(common.REPO, d)):
            for f in fs:
                if f.endswith(".pb.go"):
                    p = os.path.join(dp, f)
                    if "type MsgServer interface" in open(p).read():
                        found.append(os.path.relpath(p, common.REPO))
    expected = sorted(s[1] for s in MSG_SOURCES)
    if sorted(found) != expected:
        raise ShapeError("Msg services of the four modules are expected in %s, found in %s" % (expected, sorted(found)))
    inv = []
    for mod, rel, proto in MSG_SOURCES:
        src = _strip_go_comments(open(os.path.join(common.REPO, rel)).read())
        m = re.search(r"type MsgServer interface \{(.*?)\n\}", src, flags=re.S)
        if not m:
            raise ShapeError("no MsgServer interface in " + rel)
        names = []
        for line in m.group(1).splitlines():
            line = line.strip()
            if not line:
                continue
            mm = re.fullmatch(r"([A-Z][A-Za-z0-9]*)\(context\.Context, \*Msg([A-Za-z0-9]+)\) \(\*Msg([A-Za-z0-9]+)Response, error\)", line)
            if not mm or mm.group(1) != mm.group(2) or mm.group(1) != mm.group(3):
                raise ShapeError("unexpected MsgServer method line in %s: %r" % (rel, line))
            names.append(mm.group(1))
        # cross-check with the proto service definition when it is there
        pp = os.path.join(common.REPO, proto)
        if os.path.exists(pp):
            ps = re.sub(r"//[^\n]*", "", open(pp).read())
            sm = re.search(r"service Msg \{(.*?)\n\}", ps, flags=re.S)
            if sm:
                rpcs = re.findall(r"rpc\s+([A-Za-z0-9]+)\s*\(", sm.group(1))
                if sorted(rpcs) != sorted(names):
                    raise ShapeError("%s: proto service Msg %s differs from generated MsgServer %s" % (mod, sorted(rpcs), sorted(names)))
        if len(set(names)) != len(names) or not names:
            raise ShapeError("empty or duplicated method list in " + rel)
        inv.append((mod, names))
    return inv


def translate():
    inv = read_msg_inventory()
    rows = []
    for mod, names in inv:
        m = mod.split("/")[0]
        for n in names:
            rows.append('("%s", "%s")' % (m, n))
    txt = """(* GENERATED on every run by props/c20.py translate() from the `MsgServer` interfaces in
   /repo/x/{concentrated-liquidity/types,concentrated-liquidity/model,lockup/types,superfluid/types,tokenfactory/types}/tx.pb.go
   (cross-checked against the proto `service Msg` definitions). Do not edit: C20/Inventory.v proves that the model
   classifies every entry, so a new or renamed message breaks the build until it is modelled. *)
From Coq Require Import String List.
Import ListNotations.
Local Open Scope string_scope.

(* (module, Msg service method) *)
Definition c20_msgs : list (string * string) :=
  [ %s ].
""" % (";\n    ".join(rows))
    return {"Gen/C20_msgs.v": txt}


# ---------------------------------------------------------------------------------------------
# the fixed world of harness/c20drv (account table) - asserted against the driver's `static.names`
# ---------------------------------------------------------------------------------------------
NAMES = ["A", "B", "C", "D", "F", "Z", "mod:gov", "mod:lockup", "mod:tokenfactory", "mod:superfluid", "mod:distribution",
         "mod:bonded_tokens_pool", "gammpool", "clpool", "clpool:fees", "clpool:incentives", "sfclpool",
         "intermediary:gamm/pool/1:0", "intermediary:gamm/pool/1:1", "intermediary:cl/pool/4:0", "intermediary:cl/pool/4:1", "contract", "mod:protorev"]
A, B, C, D, F, Z, GOV, LOCKUP, TF, SF, DISTR, BONDED, GAMMPOOL, CLPOOL, CLFEES, CLINC, SFCLPOOL, IA0, IA1, IC0, IC1, CONTRACT, PROTOREV = range(23)
USERS = [A, B, C, D, F, Z]
OWNERS = [A, B, C, F]          # accounts that own things in the histories (D: unrelated, Z: empty account)
MODULES = [GOV, LOCKUP, TF, SF, DISTR, BONDED, PROTOREV]   # PROTOREV: the bank does not block it from receiving
UNBONDING_S = 1814400          # staking unbonding time of the test app (asserted)
POOL_SFB, POOL_B, POOL_CL, POOL_SFCL = 1, 2, 3, 4
SHARE1, SHARE2, CLSHARE = "gamm/pool/1", "gamm/pool/2", "cl/pool/4"
NOVAL = 99                     # validator index that names no validator

MODELLED = {"cl_withdraw", "cl_add", "cl_transfer", "cl_collect_spread", "cl_collect_incentives",
            "lk_begin_unlock", "lk_begin_unlock_all", "lk_extend", "lk_set_receiver", "lk_force_unlock",
            "sf_delegate", "sf_undelegate", "sf_unbond", "sf_undelegate_unbond", "sf_lock_delegate", "sf_unpool",
            "sf_unlock_migrate", "sf_add_to_cl", "sf_unbond_convert_stake",
            "tf_create", "tf_mint", "tf_burn", "tf_force_transfer", "tf_change_admin", "tf_set_metadata", "tf_set_hook"}
TF_ADMIN = {"tf_mint", "tf_burn", "tf_force_transfer", "tf_change_admin", "tf_set_metadata", "tf_set_hook"}
POS_ONE = {"cl_withdraw", "cl_add"}
POS_MANY = {"cl_transfer", "cl_collect_spread", "cl_collect_incentives"}
LOCK_ONE = {"lk_begin_unlock", "lk_extend", "lk_set_receiver", "lk_force_unlock", "sf_delegate", "sf_undelegate", "sf_unbond",
            "sf_undelegate_unbond"}


# ---------------------------------------------------------------------------------------------
# history generator: a random sequence of accepted operations (the generator keeps a rough mirror of the objects
# only to pick sensible arguments; the matrix is later built from the chain's own snapshots)
# ---------------------------------------------------------------------------------------------
def na(x):
    """the before-send hook contract of the test data (no100.wasm) refuses sends of exactly 100: stay clear of it"""
    return x + 1 if x == 100 else x


class Mirror:
    def __init__(self):
        self.pos = {1: {"owner": D, "pool": POOL_SFCL, "lock": 0}}
        self.npos = 2
        self.locks = {}
        self.llock = 0
        self.denoms = {}   # (creator, sub) -> admin
        self.fbal = {}     # (acct, denom) -> amount of factory coins
        self.shares = {u: 5 * 10**18 - 1000 for u in USERS if u != Z}


def gen_history(r, tier):
    m = Mirror()
    ops = []
    setup = {"fee": r.choice(["0", "0", "1000", "250000"]), "allowed": r.choice([[F], [F], [F, B], [], [F, GOV]]),
             "unpool": r.choice([[], [], [2], [1, 2]]), "wasm": r.chance(1, 3)}
    n = r.range(16, 32)
    subs = ["foo", "bar", "x/y", "a"]

    def add(o, **kw):
        o = dict(o, c=True, **kw)
        ops.append(o)

    # a base so that every case has objects of all three kinds
    script = ["pos", "pos", "swap", "lock_sf", "denom", "mint", "lock_factory", "lock_plain", "delegate"]
    kinds = ["pos", "swap", "transfer", "withdraw", "addpos", "fullpos", "lock_sf", "lock_sf", "lock_plain", "lock_b", "delegate", "delegate",
             "undelegate", "undelegate", "unbond", "unbond", "und_unb", "begin_unlock", "extend", "receiver", "lock_delegate", "time", "denom", "mint",
             "chadmin", "renounce", "renounce", "metadata", "burn", "ftransfer", "send", "force_unlock", "incentive", "collect", "convert", "hook",
             "lock_factory", "denom"]
    while len(script) < n:
        script.append(r.choice(kinds))
    for k in script:
        if k == "pos":
            o = r.choice(OWNERS)
            w = r.range(1, 30) * 10000
            add({"k": "h_create_position", "s": o, "id": POOL_CL, "lo": -w, "hi": w, "amt": str(r.range(10**6, 10**7)),
                 "amt1": str(r.range(10**6, 10**7))})
            m.pos[m.npos] = {"owner": o, "pool": POOL_CL, "lock": 0}
            m.npos += 1
        elif k == "swap":
            add({"k": "h_swap", "s": D, "id": POOL_CL, "amt": str(r.range(1000, 50000)), "bad": r.chance(1, 2)})
        elif k == "incentive":
            add({"k": "h_incentive", "s": D, "id": POOL_CL, "den": "usdc", "amt": str(r.range(10**5, 10**6))})
        elif k == "transfer":
            c = [i for i, p in m.pos.items() if p["pool"] == POOL_CL and not p["lock"]]
            if len(c) >= 2:
                i = r.choice(c)
                to = r.choice([u for u in OWNERS + [D] if u != m.pos[i]["owner"]])
                snd = m.pos[i]["owner"] if r.chance(4, 5) else GOV
                add({"k": "cl_transfer", "s": snd, "ids": [i], "to": to})
                m.pos[i]["owner"] = to
        elif k == "withdraw":
            c = [i for i, p in m.pos.items() if p["pool"] == POOL_CL and not p["lock"]]
            if len(c) >= 2:
                i = r.choice(c)
                add({"k": "cl_withdraw", "s": m.pos[i]["owner"], "id": i, "amt": "frac:%d" % r.choice([1, 2, 3, 4, 4])})
                # frac:4 = everything; resolved against the snapshot in pass 2
        elif k == "addpos":
            c = [i for i, p in m.pos.items() if p["pool"] == POOL_CL and not p["lock"]]
            if len(c) >= 2:
                i = r.choice(c)
                a = r.range(1000, 10**6)
                add({"k": "cl_add", "s": m.pos[i]["owner"], "id": i, "amt": str(a), "amt1": str(a + r.range(0, 1000))})
                m.pos[m.npos] = dict(m.pos[i])
                del m.pos[i]
                m.npos += 1
        elif k == "fullpos":
            o = r.choice(OWNERS)
            add({"k": "h_create_full_locked", "s": o, "id": POOL_SFCL, "val": r.below(2), "amt": str(r.range(10**6, 10**7)),
                 "amt1": str(r.range(10**6, 10**7))})
            m.llock += 1
            m.pos[m.npos] = {"owner": o, "pool": POOL_SFCL, "lock": m.llock}
            m.locks[m.llock] = {"owner": o, "den": CLSHARE, "amt": 10**20, "dur": UNBONDING_S, "unl": False, "synth": 1}
            m.npos += 1
        elif k == "lock_factory":
            h = sorted((a, d) for (a, d), v in m.fbal.items() if v >= 10 and a != Z)
            if h:
                a, d = r.choice(h)
                amt = r.range(1, m.fbal[(a, d)] // 2)
                dur = r.choice([3600, UNBONDING_S])
                ex = [i for i, l in m.locks.items() if l["owner"] == a and l["den"] == "factory/@%d/%s" % d and l["dur"] == dur and not l["unl"]]
                add({"k": "h_lock", "s": a, "den": "factory/@%d/%s" % d, "amt": str(amt), "dur": dur})
                m.fbal[(a, d)] -= amt
                if ex:
                    m.locks[ex[0]]["amt"] += amt
                else:
                    m.llock += 1
                    m.locks[m.llock] = {"owner": a, "den": "factory/@%d/%s" % d, "amt": amt, "dur": dur, "unl": False, "synth": 0}
        elif k == "hook":
            c = [d for d, adm in m.denoms.items() if adm is not None]
            if c and setup["wasm"]:
                d = r.choice(c)
                add({"k": "tf_set_hook", "s": m.denoms[d], "den": "factory/@%d/%s" % d, "to": r.choice([CONTRACT, CONTRACT, -1])})
        elif k in ("lock_sf", "lock_plain", "lock_b"):
            o = r.choice(OWNERS)
            if k == "lock_plain":
                den, amt = "plain", r.range(1000, 10**6)
                fd = [d for d, adm in m.denoms.items() if m.fbal.get((o, d), 0) >= 10]
                if fd and r.chance(1, 2):
                    d = r.choice(fd)
                    den, amt = "factory/@%d/%s" % d, r.range(1, m.fbal[(o, d)] // 2 + 1)
                    m.fbal[(o, d)] -= amt
            else:
                den = SHARE1 if k == "lock_sf" else SHARE2
                amt = r.range(10**16, 5 * 10**17)
                if m.shares[o] < amt:
                    continue
                m.shares[o] -= amt
            dur = r.choice([3600, UNBONDING_S, UNBONDING_S, 2 * UNBONDING_S])
            ex = [i for i, l in m.locks.items() if l["owner"] == o and l["den"] == den and l["dur"] == dur and not l["unl"]]
            if ex and m.locks[ex[0]]["synth"] != 0:
                # topping up a superfluid-delegated lock delegates floor(b*m) more; a later undelegation of floor((a+b)*m) can then
                # exceed the delegation by one unit and fail ("invalid shares amount") until the epoch refresh - not an authorisation
                # matter, and not something the model predicts: the histories stay clear of it
                if den in (SHARE1, SHARE2):
                    m.shares[o] += amt
                continue
            add({"k": "h_lock", "s": o, "den": den, "amt": str(amt), "dur": dur})
            if ex:
                m.locks[ex[0]]["amt"] += amt
            else:
                m.llock += 1
                m.locks[m.llock] = {"owner": o, "den": den, "amt": amt, "dur": dur, "unl": False, "synth": 0}
        elif k == "delegate":
            c = [i for i, l in m.locks.items() if l["den"] == SHARE1 and l["dur"] >= UNBONDING_S and not l["unl"] and l["synth"] == 0]
            if c:
                i = r.choice(c)
                add({"k": "sf_delegate", "s": m.locks[i]["owner"], "id": i, "val": r.below(2)})
                m.locks[i]["synth"] = 1
        elif k == "undelegate":
            c = [i for i, l in m.locks.items() if l["synth"] == 1 and l["den"] == SHARE1]
            if c:
                i = r.choice(c)
                add({"k": "sf_undelegate", "s": m.locks[i]["owner"], "id": i})
                m.locks[i]["synth"] = 2
        elif k == "unbond":
            c = [i for i, l in m.locks.items() if l["synth"] == 2 and not l["unl"]]
            if c:
                i = r.choice(c)
                add({"k": "sf_unbond", "s": m.locks[i]["owner"], "id": i})
                m.locks[i]["unl"] = True
        elif k == "und_unb":
            c = [i for i, l in m.locks.items() if l["synth"] == 1 and l["den"] == SHARE1 and l["amt"] >= 4 * 10**15]
            if c:
                i = r.choice(c)
                l = m.locks[i]
                part = r.range(10**15, l["amt"] - 2 * 10**15)
                add({"k": "sf_undelegate_unbond", "s": l["owner"], "id": i, "den": l["den"], "amt": str(part)})
                m.llock += 1
                m.locks[m.llock] = dict(l, amt=part, unl=True, synth=2)
                l["amt"] -= part
        elif k == "begin_unlock":
            c = [i for i, l in m.locks.items() if l["synth"] == 0 and not l["unl"]]
            if c:
                i = r.choice(c)
                l = m.locks[i]
                if r.chance(1, 2) and l["amt"] >= 2:
                    part = r.range(1, l["amt"] - 1)
                    add({"k": "lk_begin_unlock", "s": l["owner"], "id": i, "den": l["den"], "amt": str(part)})
                    m.llock += 1
                    m.locks[m.llock] = dict(l, amt=part, unl=True)
                    l["amt"] -= part
                else:
                    add({"k": "lk_begin_unlock", "s": l["owner"], "id": i})
                    l["unl"] = True
        elif k == "extend":
            c = [i for i, l in m.locks.items() if l["synth"] == 0 and not l["unl"]]
            if c:
                i = r.choice(c)
                nd = m.locks[i]["dur"] + r.range(1, 100000)
                add({"k": "lk_extend", "s": m.locks[i]["owner"], "id": i, "dur": nd})
                m.locks[i]["dur"] = nd
        elif k == "receiver":
            if m.locks:
                i = r.choice(sorted(m.locks))
                add({"k": "lk_set_receiver", "s": m.locks[i]["owner"], "id": i, "to": r.choice([u for u in USERS if u != m.locks[i]["owner"]])})
        elif k == "lock_delegate":
            o = r.choice(OWNERS)
            amt = r.range(10**16, 10**17)
            if m.shares[o] >= amt and not [1 for l in m.locks.values() if l["owner"] == o and l["den"] == SHARE1 and l["dur"] == UNBONDING_S and not l["unl"]]:
                add({"k": "sf_lock_delegate", "s": o, "den": SHARE1, "amt": str(amt), "val": r.below(2)})
                m.shares[o] -= amt
                m.llock += 1
                m.locks[m.llock] = {"owner": o, "den": SHARE1, "amt": amt, "dur": UNBONDING_S, "unl": False, "synth": 1}
        elif k == "time":
            dur = r.choice([3601, 3601, UNBONDING_S + 1])
            add({"k": "h_time", "s": 0, "dur": dur})
            for i in list(m.locks):
                l = m.locks[i]
                if l["unl"] and l["dur"] <= dur and l["synth"] != 1:
                    if l["synth"] == 0 or UNBONDING_S <= dur:
                        del m.locks[i]
                        for p in m.pos.values():
                            if p["lock"] == i:
                                p["lock"] = 0
                elif l["synth"] == 2 and UNBONDING_S <= dur:
                    l["synth"] = 0
        elif k == "denom":
            o = r.choice(OWNERS)
            free = [s for s in subs if (o, s) not in m.denoms]
            if free:
                s = r.choice(free)
                add({"k": "tf_create", "s": o, "sub": s})
                m.denoms[(o, s)] = o
        elif k in ("mint", "chadmin", "renounce", "metadata", "burn", "ftransfer"):
            c = [d for d, adm in m.denoms.items() if adm is not None]
            if not c:
                continue
            d = r.choice(c)
            adm = m.denoms[d]
            den = "factory/@%d/%s" % d
            if k == "mint":
                to = Z if r.chance(1, 8) else r.choice(OWNERS + [D])
                amt = na(r.range(10, 10**6))
                add({"k": "tf_mint", "s": adm, "den": den, "amt": str(amt), "to": to})
                m.fbal[(to, d)] = m.fbal.get((to, d), 0) + amt
            elif k == "chadmin":
                to = r.choice([u for u in OWNERS + [D] if u != adm])
                add({"k": "tf_change_admin", "s": adm, "den": den, "to": to})
                m.denoms[d] = to
            elif k == "renounce":
                if r.chance(2, 3):
                    add({"k": "tf_change_admin", "s": adm, "den": den, "to": -1})
                    m.denoms[d] = None
            elif k == "metadata":
                add({"k": "tf_set_metadata", "s": adm, "den": den, "sub": r.choice(["first", "second", "third"])})
            else:
                h = [a for (a, dd), v in m.fbal.items() if dd == d and v >= 2]
                if h:
                    a = r.choice(sorted(h))
                    amt = na(r.range(1, m.fbal[(a, d)] // 2))
                    if amt > m.fbal[(a, d)]:
                        continue
                    if k == "burn":
                        add({"k": "tf_burn", "s": adm, "den": den, "amt": str(amt), "from": a})
                    else:
                        to = r.choice(USERS)
                        add({"k": "tf_force_transfer", "s": adm, "den": den, "amt": str(amt), "from": a, "to": to})
                        m.fbal[(to, d)] = m.fbal.get((to, d), 0) + amt
                    m.fbal[(a, d)] -= amt
        elif k == "send":
            h = [(a, d) for (a, d), v in m.fbal.items() if v >= 2]
            if h:
                a, d = r.choice(sorted(h))
                to = r.choice(USERS)
                amt = na(r.range(1, m.fbal[(a, d)] // 2))
                if amt > m.fbal[(a, d)]:
                    continue
                add({"k": "h_send", "s": a, "to": to, "den": "factory/@%d/%s" % d, "amt": str(amt)})
                m.fbal[(a, d)] -= amt
                m.fbal[(to, d)] = m.fbal.get((to, d), 0) + amt
        elif k == "force_unlock":
            c = [i for i, l in m.locks.items() if l["owner"] == F and l["synth"] == 0]
            if c:
                i = r.choice(c)
                add({"k": "lk_force_unlock", "s": F, "id": i})
                del m.locks[i]
        elif k == "collect":
            c = [i for i, p in m.pos.items() if p["pool"] == POOL_CL]
            if c:
                i = r.choice(c)
                add({"k": r.choice(["cl_collect_spread", "cl_collect_incentives"]), "s": m.pos[i]["owner"], "ids": [i]})
        elif k == "convert":
            c = [i for i, l in m.locks.items() if l["den"] in (SHARE1, SHARE2)]
            if c and r.chance(1, 2):
                i = r.choice(c)
                add({"k": "sf_unbond_convert_stake", "s": m.locks[i]["owner"], "id": i, "val": r.below(2), "den": m.locks[i]["den"], "amt": "0"})
                del m.locks[i]
    return {"setup": setup, "ops": ops}


# ---------------------------------------------------------------------------------------------
# snapshots
# ---------------------------------------------------------------------------------------------
class Snap:
    def __init__(self, j):
        self.pos = {int(p[0]): {"id": int(p[0]), "owner": int(p[1]), "pool": int(p[2]), "liq": int(p[3]), "lock": int(p[4]), "full": int(p[5])}
                    for p in j["pos"]}
        self.npos = j["npos"]
        self.locks = {int(l[0]): {"id": int(l[0]), "owner": int(l[1]), "recv": int(l[2]), "den": l[3], "amt": int(l[4]), "dur": int(l[5]),
                                  "unl": int(l[6]), "synth": int(l[7]), "conn": (int(l[9]) if int(l[8]) else -1)} for l in j["locks"]}
        self.llock = j["llock"]
        self.denoms = {d[0]: {"den": d[0], "admin": int(d[1]), "hook": int(d[2]), "desc": d[3]} for d in j["denoms"]}
        self.bal = {(int(b[0]), b[1]): int(b[2]) for b in j["bal"]}

    def balance(self, a, d):
        return self.bal.get((a, d), 0)


def resolve(o, snap):
    """fill in arguments that depend on the chain's state (fractions of a position's liquidity)"""
    if o.get("amt", "").startswith("frac:"):
        k = int(o["amt"][5:])
        p = snap.pos.get(o["id"])
        liq = p["liq"] if p else 10**18
        o = dict(o, amt=str(liq if k >= 4 else max(1, liq * k // 4)))
    return o


# ---------------------------------------------------------------------------------------------
# the message x sender matrix on one state
# ---------------------------------------------------------------------------------------------
def senders_for(r, owner, prev, extra):
    """sender classes: current owner / admin, previous ones, an unrelated user, the empty account, the force-unlock account,
    the governance module account, another module account, the pool's own address, an intermediary account, plus `extra`"""
    s = []
    for a in [owner] + sorted(prev) + [D, Z, F, GOV, r.choice([LOCKUP, TF, SF, DISTR, BONDED])] + extra:
        if a is not None and a >= 0 and a not in s:
            s.append(a)
    return s


def build_matrix(r, snap, static, hist, tier):
    """hist: {'pos': {id: set(prev owners)}, 'lock': ..., 'denom': {den: set(prev admins)}}"""
    probes = []

    def emit(o, senders):
        for s in senders:
            probes.append(dict(o, s=s))

    users = [A, B, C, D, F]
    other_admins = sorted({d["admin"] for d in snap.denoms.values() if d["admin"] >= 0})
    pos_ids = sorted(snap.pos)
    lock_ids = sorted(snap.locks)
    full = tier != "quick"
    # ---- positions
    for i in pos_ids:
        p = snap.pos[i]
        o = p["owner"]
        pooladdr = CLPOOL if p["pool"] == POOL_CL else SFCLPOOL
        snd = senders_for(r, o, hist["pos"].get(i, set()) - {o}, [pooladdr, r.choice([CLFEES, CLINC]), r.choice(other_admins) if other_admins else None])
        two = [o, r.choice([u for u in users if u != o])]
        emit({"k": "cl_withdraw", "id": i, "amt": str(max(1, p["liq"] // r.range(2, 9)))}, snd)
        emit({"k": "cl_withdraw", "id": i, "amt": str(p["liq"])}, snd if full else two + [GOV, pooladdr])
        emit({"k": "cl_withdraw", "id": i, "amt": str(p["liq"] + 1)}, two)
        emit({"k": "cl_withdraw", "id": i, "amt": "0"}, two)
        a = r.range(1000, 10**5)
        emit({"k": "cl_add", "id": i, "amt": str(a), "amt1": str(a + r.range(0, 99))}, snd)
        emit({"k": "cl_add", "id": i, "amt": "0", "amt1": "0"}, two)
        emit({"k": "cl_add", "id": i, "amt": "-1", "amt1": "5"}, two)
        # the one privileged account is the governance module: every other module account is tried as well
        emit({"k": "cl_transfer", "ids": [i], "to": r.choice([u for u in users if u != o])}, snd + [x for x in MODULES if x not in snd])
        emit({"k": "cl_transfer", "ids": [i], "to": o}, two + [GOV])
        emit({"k": "cl_collect_spread", "ids": [i]}, snd)
        emit({"k": "cl_collect_incentives", "ids": [i]}, snd)
        if p["pool"] == POOL_SFCL or r.chance(1, 3):
            a = r.range(1000, 10**5)
            emit({"k": "sf_add_to_cl", "id": i, "amt": str(a), "amt1": str(a)}, snd)
    # several positions in one message: all owned by the sender / one foreign one among them / duplicates / a missing one
    byowner = {}
    for i in pos_ids:
        byowner.setdefault(snap.pos[i]["owner"], []).append(i)
    for o, ids in sorted(byowner.items()):
        foreign = [i for i in pos_ids if snap.pos[i]["owner"] != o]
        for k in ("cl_collect_spread", "cl_collect_incentives", "cl_transfer"):
            base = {"k": k}
            if k == "cl_transfer":
                base["to"] = r.choice([u for u in users if u != o])
            emit(dict(base, ids=ids), [o, GOV, D])
            if foreign:
                f = r.choice(foreign)
                emit(dict(base, ids=ids + [f]), [o, GOV, snap.pos[f]["owner"]])
                emit(dict(base, ids=[f] + ids), [o, GOV])
            emit(dict(base, ids=ids + [ids[0]]), [o, GOV])
            emit(dict(base, ids=ids + [snap.npos + 3]), [o, GOV])
    emit({"k": "cl_collect_spread", "ids": []}, [A, Z, GOV])
    emit({"k": "cl_transfer", "ids": [], "to": B}, [A, Z, GOV])
    emit({"k": "cl_withdraw", "id": snap.npos + 5, "amt": "1000"}, [A, GOV])
    # ---- locks
    for i in lock_ids:
        l = snap.locks[i]
        o = l["owner"]
        pooladdr = GAMMPOOL if l["den"].startswith("gamm") else (SFCLPOOL if l["den"].startswith("cl/") else CLPOOL)
        ia = {(SHARE1, 0): IA0, (SHARE1, 1): IA1, (CLSHARE, 0): IC0, (CLSHARE, 1): IC1}.get((l["den"], max(l["conn"], 0)), IA0)
        snd = senders_for(r, o, hist["lock"].get(i, set()) - {o}, [pooladdr, ia, l["recv"] if l["recv"] >= 0 else None])
        two = [o, r.choice([u for u in users if u != o])]
        emit({"k": "lk_begin_unlock", "id": i}, snd)
        if l["amt"] >= 2:
            emit({"k": "lk_begin_unlock", "id": i, "den": l["den"], "amt": str(r.range(1, l["amt"] - 1))}, snd if full else two + [GOV, LOCKUP])
        emit({"k": "lk_begin_unlock", "id": i, "den": l["den"], "amt": str(l["amt"])}, two)
        emit({"k": "lk_begin_unlock", "id": i, "den": l["den"], "amt": str(l["amt"] + 1)}, two)
        emit({"k": "lk_begin_unlock", "id": i, "den": "eth", "amt": "1"}, two)
        emit({"k": "lk_extend", "id": i, "dur": l["dur"] // 10**9 + r.range(1, 10**6)}, snd)
        emit({"k": "lk_extend", "id": i, "dur": l["dur"] // 10**9}, two)
        emit({"k": "lk_extend", "id": i, "dur": 0}, two)
        emit({"k": "lk_set_receiver", "id": i, "to": r.choice([u for u in USERS if u != o and u != l["recv"]])}, snd)
        emit({"k": "lk_set_receiver", "id": i, "to": o}, two)
        if l["recv"] >= 0:
            emit({"k": "lk_set_receiver", "id": i, "to": l["recv"]}, two + [l["recv"]])
        emit({"k": "lk_force_unlock", "id": i}, snd + [a for a in static["allowed"] + MODULES if a not in snd])
        if l["amt"] >= 2:
            emit({"k": "lk_force_unlock", "id": i, "den": l["den"], "amt": str(r.range(1, l["amt"] - 1))}, two + static["allowed"])
        emit({"k": "lk_force_unlock", "id": i, "den": l["den"], "amt": str(l["amt"] + 1)}, two + static["allowed"])
        emit({"k": "sf_delegate", "id": i, "val": r.below(2)}, snd)
        emit({"k": "sf_delegate", "id": i, "val": NOVAL}, two)
        emit({"k": "sf_undelegate", "id": i}, snd)
        emit({"k": "sf_unbond", "id": i}, snd)
        if l["amt"] >= 4 * 10**15:
            emit({"k": "sf_undelegate_unbond", "id": i, "den": l["den"], "amt": str(r.range(10**15, l["amt"] - 2 * 10**15))}, snd)
        emit({"k": "sf_undelegate_unbond", "id": i, "den": l["den"], "amt": str(l["amt"])}, snd if full else two + [GOV])
        emit({"k": "sf_undelegate_unbond", "id": i, "den": l["den"], "amt": "0"}, two)
        emit({"k": "sf_undelegate_unbond", "id": i, "den": l["den"], "amt": str(l["amt"] + 1)}, two)
        emit({"k": "sf_unbond_convert_stake", "id": i, "val": r.below(2), "den": l["den"], "amt": "0"}, snd)
        emit({"k": "sf_unbond_convert_stake", "id": i, "val": NOVAL, "den": l["den"], "amt": "0"}, two)
        emit({"k": "sf_unlock_migrate", "id": i, "den": l["den"], "amt": "1"}, two)
    emit({"k": "lk_begin_unlock", "id": snap.llock + 4}, [A, GOV])
    emit({"k": "lk_force_unlock", "id": snap.llock + 4}, [F, GOV])
    emit({"k": "sf_undelegate", "id": snap.llock + 4}, [A, GOV])
    emit({"k": "sf_unbond_convert_stake", "id": snap.llock + 4, "val": 0, "den": SHARE1, "amt": "0"}, [A, GOV])
    # messages that address no object: they act on the sender's own locks / shares
    allacc = list(range(len(NAMES)))
    emit({"k": "lk_begin_unlock_all"}, allacc)
    for den in (SHARE1, SHARE2, "plain"):
        emit({"k": "sf_lock_delegate", "den": den, "amt": str(r.range(10**16, 10**17) if den != "plain" else r.range(10, 1000)), "val": r.below(2)},
             USERS + [GOV, LOCKUP, GAMMPOOL])
    emit({"k": "sf_lock_delegate", "den": SHARE1, "amt": str(6 * 10**18), "val": 0}, [A, B])
    emit({"k": "sf_lock_delegate", "den": SHARE1, "amt": str(10**16), "val": NOVAL}, [A, B])
    for pool in (POOL_SFB, POOL_B, POOL_CL, 77):
        emit({"k": "sf_unpool", "id": pool}, USERS + [GOV, GAMMPOOL, LOCKUP])
    for den in (SHARE1, SHARE2, "plain", "gamm/pool/9"):
        emit({"k": "sf_unbond_convert_stake", "id": 0, "val": r.below(2), "den": den, "amt": str(r.range(10**15, 10**16))}, USERS + [GOV, GAMMPOOL])
    emit({"k": "sf_unbond_convert_stake", "id": 0, "val": NOVAL, "den": SHARE2, "amt": str(10**15)}, [A, B])
    emit({"k": "sf_unbond_convert_stake", "id": 0, "val": 0, "den": SHARE2, "amt": "0"}, [A, B])
    emit({"k": "sf_unbond_convert_stake", "id": 0, "val": 0, "den": SHARE2, "amt": str(9 * 10**18)}, [A, B])
    # ---- factory denoms
    dens = sorted(snap.denoms)
    for den in dens:
        d = snap.denoms[den]
        adm = d["admin"]
        creator = int(den.split("/")[1][1:])
        others = [x for x in other_admins if x != adm]
        snd = senders_for(r, adm if adm >= 0 else None, (hist["denom"].get(den, set()) | {creator}) - {adm},
                          [CLPOOL, TF, r.choice(others) if others else None])
        two = [adm if adm >= 0 else creator, r.choice([u for u in users if u != adm])]
        holders = sorted(a for (a, dd), v in snap.bal.items() if dd == den and v > 0 and a in USERS)
        holder = r.choice(holders) if holders else A
        hb = snap.balance(holder, den)
        amt = str(na(r.range(1, 10**6)))
        emit({"k": "tf_mint", "den": den, "amt": amt, "to": -1}, snd)
        emit({"k": "tf_mint", "den": den, "amt": amt, "to": r.choice(USERS)}, snd)
        holding = [mod for mod in MODULES if snap.balance(mod, den) > 0]     # e.g. the lockup module when the coins are locked
        for mod in (MODULES if full else sorted(set(holding + [r.choice(MODULES), TF, PROTOREV]))):
            emit({"k": "tf_mint", "den": den, "amt": amt, "to": mod}, two)
            emit({"k": "tf_burn", "den": den, "amt": "1", "from": mod}, two)
            emit({"k": "tf_force_transfer", "den": den, "amt": "1", "from": mod, "to": r.choice(USERS)}, two)
            emit({"k": "tf_force_transfer", "den": den, "amt": "1", "from": holder, "to": mod}, two)
        emit({"k": "tf_mint", "den": den, "amt": amt, "to": r.choice([CLPOOL, GAMMPOOL, IA0])}, two)
        emit({"k": "tf_mint", "den": den, "amt": "0", "to": -1}, two)
        emit({"k": "tf_burn", "den": den, "amt": str(na(max(1, hb // 2))), "from": holder}, snd)
        emit({"k": "tf_burn", "den": den, "amt": "1", "from": -1}, snd if full else two)
        emit({"k": "tf_burn", "den": den, "amt": str(hb + 1), "from": holder}, two)
        emit({"k": "tf_force_transfer", "den": den, "amt": str(na(max(1, hb // 2))), "from": holder, "to": r.choice(USERS)}, snd)
        emit({"k": "tf_force_transfer", "den": den, "amt": str(hb + 1), "from": holder, "to": r.choice(USERS)}, two)
        emit({"k": "tf_force_transfer", "den": den, "amt": "0", "from": holder, "to": r.choice(USERS)}, two)
        emit({"k": "tf_change_admin", "den": den, "to": r.choice(users)}, snd)
        emit({"k": "tf_change_admin", "den": den, "to": -1}, snd if full else two + [GOV])
        emit({"k": "tf_set_metadata", "den": den, "sub": r.choice(["alpha", "beta"])}, snd)
        emit({"k": "tf_set_metadata", "den": den, "sub": "gamma", "bad": True}, two)
        emit({"k": "tf_set_hook", "den": den, "to": -1}, snd)
        emit({"k": "tf_set_hook", "den": den, "to": CONTRACT}, snd)     # a contract only when the case uploaded it
        emit({"k": "tf_set_hook", "den": den, "to": r.choice(USERS)}, two)
    for den in ("factory/@0/nosuch", "stake", SHARE1, "uosmo"):
        emit({"k": "tf_mint", "den": den, "amt": "5", "to": -1}, [A, D])
        emit({"k": "tf_burn", "den": den, "amt": "5", "from": -1}, [A, D])
        emit({"k": "tf_force_transfer", "den": den, "amt": "5", "from": A, "to": B}, [A, D])
        emit({"k": "tf_change_admin", "den": den, "to": B}, [A, D])
        emit({"k": "tf_set_metadata", "den": den, "sub": "alpha"}, [A, D])
        emit({"k": "tf_set_hook", "den": den, "to": -1}, [A, D])
    # CreateDenom: anyone, in the own namespace only
    emit({"k": "tf_create", "sub": "fresh"}, allacc)
    for sub in ["foo", "bar", "", "x/y", "stake", "eth", SHARE1, "sp ace", "s" * 44, "s" * 45]:
        emit({"k": "tf_create", "sub": sub}, [A, B, Z])
    return probes


# ---------------------------------------------------------------------------------------------
# abstraction: snapshot -> Coq state, operation -> Coq message
# ---------------------------------------------------------------------------------------------
class Intern:
    """identifiers for native denoms, subdenoms and metadata descriptions (per Coq file)"""

    def __init__(self):
        self.nat, self.sub, self.desc = {}, {}, {"": 0}

    def native(self, d):
        return self.nat.setdefault(d, len(self.nat) + 1)

    def subid(self, s):
        return self.sub.setdefault(s, len(self.sub) + 1)

    def descid(self, s):
        return self.desc.setdefault(s, len(self.desc))

    def dk(self, den):
        m = re.fullmatch(r"factory/@(\d+)/(.*)", den, flags=re.S)
        if m:
            return ("F", int(m.group(1)), self.subid(m.group(2)))
        return ("N", self.native(den), 0)

    def dk_coq(self, den):
        k = self.dk(den)
        return "(DFactory %s %d)" % (zlit(k[1]), k[2]) if k[0] == "F" else "(DNative %d)" % k[1]

    def dk_flat(self, den):
        k = self.dk(den)
        return [1, k[1], k[2]] if k[0] == "F" else [0, k[1], 0]


def oz(i):
    return "None" if i < 0 else "(Some %s)" % zlit(i)


def coq_list(xs):
    return "[" + "; ".join(xs) + "]"


def subdenom_wellformed(sub):
    """types.GetTokenDenom: at most 44 bytes and factory/{creator}/{sub} is a valid sdk denom"""
    return len(sub.encode()) <= 44 and re.fullmatch(r"[a-zA-Z0-9/:._-]*", sub) is not None


def coq_state(snap, static, it):
    pos = coq_list("mkPos %d %d %d %d %d %s" % (p["id"], p["owner"], p["pool"], p["liq"], p["lock"], "true" if p["full"] else "false")
                   for _, p in sorted(snap.pos.items()))
    syn = {0: "SNone", 1: "SBonded", 2: "SUnbonding"}
    locks = coq_list("mkLock %d %d %s %s %d %d %s %s %s" % (l["id"], l["owner"], oz(l["recv"]), it.dk_coq(l["den"]), l["amt"], l["dur"],
                                                             "true" if l["unl"] else "false", syn[l["synth"]], oz(l["conn"]))
                     for _, l in sorted(snap.locks.items()))
    dens = []
    for den in sorted(snap.denoms):
        d = snap.denoms[den]
        k = it.dk(den)
        dens.append("mkDenom %d %d %s %s %d" % (k[1], k[2], oz(d["admin"]), oz(d["hook"]), it.descid(d["desc"])))
    bals = coq_list("(%d, %s, %d)" % (a, it.dk_coq(d), v) for (a, d), v in sorted(snap.bal.items()))
    supplied = sorted(it.subid(s) for s in static["supply"])
    gamm = coq_list("(%s, %d)" % (it.dk_coq("gamm/pool/%d" % p), p) for p in static["pools"][:2])
    cls = coq_list("(%s, %d)" % (it.dk_coq("cl/pool/%d" % p), p) for p in static["pools"][2:])
    fee = int(static["fee"] or 0)
    return ("mkState %s %d %s %d %s %s %d %d %d %s %s %d %s %s %d %s %s %s %s %s %s %s"
            % (pos, snap.npos, locks, snap.llock, coq_list(dens), bals, static["gov"], LOCKUP, DISTR,
               coq_list(str(x) for x in static["protected"]), coq_list(str(x) for x in static["allowed"]), static["unbonding"],
               coq_list(it.dk_coq(d) for d in static["sfassets"]), coq_list(str(i) for i in range(static["nvals"])), fee,
               it.dk_coq(static["feedenom"]), coq_list(str(x) for x in supplied), coq_list(str(x) for x in static["unpool"]),
               gamm, cls, coq_list(str(x) for x in static["contracts"]), coq_list(str(it.native(d)) for d in static["meta"])))


def coq_msg(o, it):
    k = o["k"]
    ids = coq_list(zlit(i) for i in o.get("ids", []))
    amt = int(o.get("amt") or 0)
    coins = "None"
    if o.get("amt") not in (None, "") and k in ("lk_begin_unlock", "lk_force_unlock"):
        coins = "(Some (%s, %s))" % (it.dk_coq(o["den"]), zlit(amt))
    if k == "cl_withdraw":
        return "MWithdrawPosition %d %s" % (o["id"], zlit(amt))
    if k == "cl_add":
        return "MAddToPosition %d %s %s" % (o["id"], zlit(amt), zlit(int(o["amt1"])))
    if k == "cl_transfer":
        return "MTransferPositions %s %d" % (ids, o["to"])
    if k == "cl_collect_spread":
        return "MCollectSpreadRewards %s" % ids
    if k == "cl_collect_incentives":
        return "MCollectIncentives %s" % ids
    if k == "lk_begin_unlock":
        return "MBeginUnlocking %d %s" % (o["id"], coins)
    if k == "lk_begin_unlock_all":
        return "MBeginUnlockingAll"
    if k == "lk_extend":
        return "MExtendLockup %d %d" % (o["id"], o["dur"] * 10**9)
    if k == "lk_set_receiver":
        return "MSetRewardReceiverAddress %d %d" % (o["id"], o["to"])
    if k == "lk_force_unlock":
        return "MForceUnlock %d %s" % (o["id"], coins)
    if k == "sf_delegate":
        return "MSuperfluidDelegate %d %d" % (o["id"], o["val"])
    if k == "sf_undelegate":
        return "MSuperfluidUndelegate %d" % o["id"]
    if k == "sf_unbond":
        return "MSuperfluidUnbondLock %d" % o["id"]
    if k == "sf_undelegate_unbond":
        return "MSuperfluidUndelegateAndUnbondLock %d %s" % (o["id"], zlit(amt))
    if k == "sf_lock_delegate":
        return "MLockAndSuperfluidDelegate %s %s %d" % (it.dk_coq(o["den"]), zlit(amt), o["val"])
    if k == "sf_unpool":
        return "MUnPoolWhitelistedPool %d" % o["id"]
    if k == "sf_unlock_migrate":
        return "MUnlockAndMigrateSharesToFullRangeConcentratedPosition %d" % o["id"]
    if k == "sf_add_to_cl":
        return "MAddToConcentratedLiquiditySuperfluidPosition %d %s %s" % (o["id"], zlit(amt), zlit(int(o["amt1"])))
    if k == "sf_unbond_convert_stake":
        return "MUnbondConvertAndStake %d %d %s %s" % (o["id"], o["val"], it.dk_coq(o["den"]), zlit(amt))
    if k == "tf_create":
        return "MCreateDenom %d %s" % (it.subid(o["sub"]), "true" if subdenom_wellformed(o["sub"]) else "false")
    if k == "tf_mint":
        return "MMint %s %s %s" % (it.dk_coq(o["den"]), zlit(amt), oz(o["to"]))
    if k == "tf_burn":
        return "MBurn %s %s %s" % (it.dk_coq(o["den"]), zlit(amt), oz(o["from"]))
    if k == "tf_force_transfer":
        return "MForceTransfer %s %s %d %d" % (it.dk_coq(o["den"]), zlit(amt), o["from"], o["to"])
    if k == "tf_change_admin":
        return "MChangeAdmin %s %s" % (it.dk_coq(o["den"]), oz(o["to"]))
    if k == "tf_set_metadata":
        return "MSetDenomMetadata %s %s %d" % (it.dk_coq(o["den"]), "false" if o.get("bad") else "true", it.descid(o["sub"]))
    if k == "tf_set_hook":
        return "MSetBeforeSendHook %s %s" % (it.dk_coq(o["den"]), oz(o["to"]))
    raise KeyError(k)


COMPARE_NATIVE = ("uosmo", "plain")


def watch_pairs(pre, post):
    w = set()
    for sn in (pre, post):
        for (a, d), v in sn.bal.items():
            if v and (d.startswith("factory/") or d in COMPARE_NATIVE):
                w.add((a, d))
    return sorted(w)


def expect_flat(pre, post, st, watch, it):
    """what C20/Corr.v model_obs must produce for this step"""
    if st["r"] != 0:
        return [st["ec"] if st["ec"] in (1, 2) else 2]
    out = [0, -1]
    for _, p in sorted(post.pos.items()):
        out += [p["id"], p["owner"], p["pool"], p["liq"], p["lock"], p["full"]]
    out += [-2, post.npos]
    for _, l in sorted(post.locks.items()):
        out += [l["id"], l["owner"], l["recv"]] + it.dk_flat(l["den"]) + [l["amt"], l["dur"], l["unl"], l["synth"], l["conn"]]
    out += [-3, post.llock]
    order = sorted(pre.denoms) + sorted(d for d in post.denoms if d not in pre.denoms)
    for den in order:
        d = post.denoms[den]
        k = it.dk(den)
        out += [k[1], k[2], d["admin"], d["hook"], it.descid(d["desc"])]
    out += [-4] + [post.balance(a, d) for a, d in watch]
    return out


def unpool_order(pre, sender, share):
    """the store iterator of GetAccountLockedLongerDurationDenom: not-unlocking locks by (duration, id), then the unlocking ones"""
    own = [l for l in pre.locks.values() if l["owner"] == sender and l["den"] == share]
    return [l["id"] for l in sorted(own, key=lambda l: (l["unl"], l["dur"], l["id"]))]


def env_for(o, pre, post, it):
    liq = shares = 0
    if o["k"] == "sf_unpool" and post is not None:
        order = unpool_order(pre, o["s"], "gamm/pool/%d" % o["id"])
        new = [post.locks[i] for i in sorted(post.locks) if i > pre.llock]
        per = len(new) // len(order) if order else 0
        rows = []
        for k, lid in enumerate(order):
            grp = new[k * per:(k + 1) * per]
            rows.append("(%d, %d, %s)" % (lid, grp[0]["dur"] if grp else 0, coq_list("(%s, %d)" % (it.dk_coq(g["den"]), g["amt"]) for g in grp)))
        return "(mkEnv 0 0 %s)" % coq_list(rows)
    if post is not None:
        np = post.pos.get(pre.npos)
        if np:
            liq = np["liq"]
        nl = post.locks.get(post.llock)
        if nl and post.llock > pre.llock and nl["den"].startswith("cl/"):
            shares = nl["amt"]
    return "(mkEnv %d %d [])" % (liq, shares)


# ---------------------------------------------------------------------------------------------
# oracle: the property's own predicates on the implementation's observations
# ---------------------------------------------------------------------------------------------
def denom_creator(den):
    m = re.fullmatch(r"factory/@(\d+)/(.*)", den, flags=re.S)
    return int(m.group(1)) if m else None


def lock_rec(l):
    return (l["owner"], l["recv"], l["den"], l["amt"], l["dur"], l["unl"], l["synth"], l["conn"])


def oracle(o, st, pre, post, static):
    """o: the operation (with sender), st: the driver's step record, pre/post: Snap before / after (post None if rejected)"""
    v = []
    k, s = o["k"], o["s"]

    def bad(kind, what):
        v.append({"what": "%s: %s [sender %s, op %s]" % (kind, what, NAMES[s], json.dumps(o, sort_keys=True)),
                  "rec": {"kind": kind, "msg": k}})

    # the id discipline the frame theorems assume of reachable states
    for sn in (pre, post):
        if sn is not None and (any(i > sn.llock for i in sn.locks) or any(i >= sn.npos for i in sn.pos)):
            bad("id_discipline", "an object id is not below its counter: locks %s <= %d, positions %s < %d" % (sorted(sn.locks), sn.llock, sorted(sn.pos), sn.npos))
    if st["r"] != 0:
        # rejected => nothing changed
        if st["d0"] != st["d1"]:
            bad("rejected_but_changed", "message failed but the state digest moved %s -> %s" % (st["d0"], st["d1"]))
        return v
    gov = static["gov"]
    # ---- accepted => the sender is in the authorised set the property names
    if k in POS_ONE or k == "sf_add_to_cl":
        p = pre.pos.get(o["id"])
        if p is None or p["owner"] != s:
            bad("accepted_from_non_owner", "position %d is owned by %s" % (o["id"], NAMES[p["owner"]] if p else "nobody"))
        if k == "sf_add_to_cl" and p is not None:
            l = pre.locks.get(p["lock"])
            if l is None or l["owner"] != s:
                bad("accepted_from_non_owner", "underlying lock of position %d is not the sender's" % o["id"])
    if k in POS_MANY:
        for i in o["ids"]:
            p = pre.pos.get(i)
            if not (p is not None and (p["owner"] == s or (k == "cl_transfer" and s == gov))):
                bad("accepted_from_non_owner", "position %d is owned by %s" % (i, NAMES[p["owner"]] if p else "nobody"))
    if k in LOCK_ONE or (k == "sf_unbond_convert_stake" and o["id"] > 0):
        l = pre.locks.get(o["id"])
        if l is None or l["owner"] != s:
            bad("accepted_from_non_owner", "lock %d is owned by %s" % (o["id"], NAMES[l["owner"]] if l else "nobody"))
        if k == "lk_force_unlock" and s not in static["allowed"]:
            bad("force_unlock_outside_allow_list", "sender is not in ForceUnlockAllowedAddresses %s" % static["allowed"])
    if k == "sf_unlock_migrate":
        bad("accepted_disabled_message", "UnlockAndMigrateSharesToFullRangeConcentratedPosition is documented as no longer supported")
    if k in TF_ADMIN:
        d = pre.denoms.get(o["den"])
        if d is None or d["admin"] < 0 or d["admin"] != s:
            bad("accepted_from_non_admin", "admin of %s is %s" % (o["den"], ("nobody (renounced)" if d and d["admin"] < 0 else NAMES[d["admin"]]) if d else "nobody (no such denom)"))
    if k == "tf_create":
        want = "factory/@%d/%s" % (s, o["sub"])
        if st.get("newdn") != want:
            bad("namespace", "created %r, the sender's namespace gives %r" % (st.get("newdn"), want))
    # ---- accepted => only the sender's own objects were touched (whatever the message)
    for i, p in pre.pos.items():
        q = post.pos.get(i)
        if q != p and p["owner"] != s and not (k == "cl_transfer" and s == gov and i in o.get("ids", [])):
            bad("foreign_position_touched", "position %d of %s: %s -> %s" % (i, NAMES[p["owner"]], p, q))
    for i, q in post.pos.items():
        if i not in pre.pos and q["owner"] != s:
            bad("foreign_position_created", "new position %d belongs to %s" % (i, NAMES[q["owner"]]))
    for i, l in pre.locks.items():
        q = post.locks.get(i)
        if (q is None or lock_rec(q) != lock_rec(l)) and l["owner"] != s:
            bad("foreign_lock_touched", "lock %d of %s: %s -> %s" % (i, NAMES[l["owner"]], l, q))
    for i, q in post.locks.items():
        if i not in pre.locks and q["owner"] != s:
            bad("foreign_lock_created", "new lock %d belongs to %s" % (i, NAMES[q["owner"]]))
    for den, d in pre.denoms.items():
        q = post.denoms.get(den)
        if q != d and d["admin"] != s:
            bad("foreign_denom_touched", "%s (admin %s): %s -> %s" % (den, d["admin"], d, q))
    for den, q in post.denoms.items():
        if den not in pre.denoms and (denom_creator(den) != s or q["admin"] != s):
            bad("namespace", "new denom %s with admin %s created by %s" % (den, q["admin"], NAMES[s]))
    # no user other than the sender loses funds, except factory coins taken by their admin
    for (a, d), b0 in pre.bal.items():
        if a in USERS and a != s and post.balance(a, d) < b0:
            dd = pre.denoms.get(d)
            if not (dd is not None and dd["admin"] == s and k in ("tf_burn", "tf_force_transfer")):
                bad("foreign_funds_moved", "%s lost %d %s" % (NAMES[a], b0 - post.balance(a, d), d))
    # mint-to / burn-from / force-transfer never reach into the protected module accounts
    if k in ("tf_mint", "tf_burn", "tf_force_transfer"):
        for a in static["protected"]:
            for d in {dd for (aa, dd) in list(pre.bal) + list(post.bal) if aa == a}:
                if pre.balance(a, d) != post.balance(a, d):
                    bad("module_account_touched", "%s balance of %s: %d -> %d" % (NAMES[a], d, pre.balance(a, d), post.balance(a, d)))
    return v


# ---------------------------------------------------------------------------------------------
# running
# ---------------------------------------------------------------------------------------------
def drive(cases):
    binary = common.go_build("c20drv", test=True)
    return common.run_driver(binary, cases, args="-test.run ^TestDriver$", shards=8, timeout=3000)


def check_static(st):
    if st["names"] != NAMES:
        raise common.BuildError("driver account table %s differs from props/c20.py NAMES" % st["names"])
    if st["unbonding"] != UNBONDING_S * 10**9 or st["pools"] != [POOL_SFB, POOL_B, POOL_CL, POOL_SFCL] or st["gov"] != GOV:
        raise common.BuildError("driver world differs from props/c20.py constants: %s" % {k: st[k] for k in ("unbonding", "pools", "gov")})


def expand(h, ob, rr, tier, two_checkpoints):
    """insert the message x sender matrix into a history, at its end and (optionally) at one earlier checkpoint;
    ob = the driver's observation of the history alone"""
    cur = Snap(ob["init"])
    hist = {"pos": {}, "lock": {}, "denom": {}}
    nops = len(h["ops"])
    cps = sorted(set([nops - 1] + ([rr.range(nops // 3, max(nops // 3, nops - 2))] if two_checkpoints else [])))
    ops = []
    for oi, (o, st) in enumerate(zip(h["ops"], ob["steps"])):
        ops.append(o)
        if st["r"] == 0 and st.get("post"):
            for i, p in cur.pos.items():
                hist["pos"].setdefault(i, set()).add(p["owner"])
            for i, l in cur.locks.items():
                hist["lock"].setdefault(i, set()).add(l["owner"])
            for den, d in cur.denoms.items():
                if d["admin"] >= 0:
                    hist["denom"].setdefault(den, set()).add(d["admin"])
            cur = Snap(st["post"])
        if oi in cps:
            ops += build_matrix(rr.fork(("cp", oi)), cur, ob["static"], hist, tier)
    return {"setup": h["setup"], "ops": ops}


def plan(r, tier, n_cases):
    """pass 1: run the histories alone; pass 2: the same histories with the matrix inserted at the checkpoints"""
    hists = [gen_history(r.fork(("h", i)), tier) for i in range(n_cases)]
    obs1 = drive(hists)
    cases = []
    for ci, (h, ob) in enumerate(zip(hists, obs1)):
        if ob.get("err"):
            cases.append({"setup": h["setup"], "ops": h["ops"], "broken": ob["err"]})
            continue
        check_static(ob["static"])
        cases.append(expand(h, ob, r.fork(("m", ci)), tier, tier != "quick" or ci % 2 == 0))
    return cases


def coq_file(tag, blocks):
    """blocks: list of (state text, watch text, [(env, sender, msg, expect)])"""
    out = ["From Coq Require Import ZArith List Bool. Import ListNotations.",
           "From Osmo Require Import Base.Obs C20.Model C20.Corr.", "Open Scope Z_scope."]
    names = []
    for bi, (stxt, rows) in enumerate(blocks):
        out.append("Definition s%d : state := %s." % (bi, stxt))
        rs = []
        for (env, wtxt, snd, msg, exp) in rows:
            rs.append("mkCase %s s%d %s %d (%s) %s" % (env, bi, wtxt, snd, msg, "[" + "; ".join(zlit(x) for x in exp) + "]"))
        out.append("Definition c%d : list case := [\n  %s ]." % (bi, ";\n  ".join(rs)))
        names.append("c%d" % bi)
    out.append("Definition G := Eval vm_compute in map grade (%s)." % " ++ ".join(names))
    out.append("Definition M := Eval vm_compute in where_is 1%nat G.")        # verdict or post-state differs: a disagreement
    out.append("Definition MC := Eval vm_compute in where_is 2%nat G.")       # only the error class differs: a diagnostic
    out.append("Print M.")
    out.append("Print MC.")
    return "\n".join(out) + "\n"


# rejections that come from arithmetic the model abstracts, not from a guard: staking's Undelegate refusing floor((a+b)m) shares
# after two delegations of floor(am) + floor(bm) (a superfluid-delegated lock that was topped up, until the epoch refresh)
OUTSIDE_MODEL = ("invalid shares amount",)


def evaluate(cases, obs, model_ok, out, tag, perturb=None):
    """oracle on every step, Coq model on every modelled step; returns nothing, fills `out`"""
    skipped = [0]
    files = []
    index = []   # per file: list of (case idx, op idx)
    kinds, verdicts, sender_cls, target_cls = {}, {}, {}, {}
    vbs = {"passes_validate_basic": 0, "fails_validate_basic": 0, "fails_validate_basic_but_handler_accepts": 0}
    for ci, (c, ob) in enumerate(zip(cases, obs)):
        if c.get("broken") or ob.get("err"):
            out.oracle_violations.append({"what": "driver failed on a case: %s" % (c.get("broken") or ob.get("err")), "rec": {"kind": "driver_error"}, "case": c})
            continue
        static = ob["static"]
        check_static(static)
        it = Intern()
        cur = Snap(ob["init"])
        blocks = []
        rows = None
        where = []
        for oi, (o, st) in enumerate(zip(c["ops"], ob["steps"])):
            out.evaluations += 1
            o = resolve(o, cur)
            post = Snap(st["post"]) if st.get("post") else None
            if st["r"] == 2:
                out.oracle_violations.append({"what": "handler panicked: %s [op %s]" % (st.get("err"), json.dumps(o)), "rec": {"kind": "panic", "msg": o["k"]},
                                              "case": {"setup": c["setup"], "ops": history_of(c, oi) + [o]}})
            if o["k"] in MODELLED:
                kinds[o["k"]] = kinds.get(o["k"], 0) + 1
                vk = "%s:%s" % (o["k"], ["accepted", "rejected_auth", "rejected_other"][0 if st["r"] == 0 else st["ec"] if st["ec"] in (1, 2) else 2])
                verdicts[vk] = verdicts.get(vk, 0) + 1
                sc = NAMES[o["s"]].split(":")[0]
                sender_cls[sc] = sender_cls.get(sc, 0) + 1
                vbs["passes_validate_basic" if st["vb"] == 0 else "fails_validate_basic"] += 1
                if st["vb"] == 1 and st["r"] == 0:
                    vbs["fails_validate_basic_but_handler_accepts"] += 1
                tc = target_class(o, cur)
                if tc:
                    target_cls[tc] = target_cls.get(tc, 0) + 1
                for vv in oracle(o, st, cur, post, static):
                    vv["case"] = {"setup": c["setup"], "ops": history_of(c, oi) + [dict(o, c=False)]}
                    out.oracle_violations.append(vv)
                if st["r"] == 0:
                    out.nontrivial.add(json.dumps([c["setup"], history_of(c, oi), o], sort_keys=True))
                if st["r"] != 0 and any(t in st.get("err", "") for t in OUTSIDE_MODEL):
                    # a failure inside the staking arithmetic the model abstracts (see OUTSIDE_MODEL): oracle only
                    skipped[0] += 1
                    continue
                if rows is None:
                    rows = []
                    blocks.append((coq_state(cur, static, it), rows))
                watch = watch_pairs(cur, post) if post else []
                wtxt = coq_list("(%d, %s)" % (a, it.dk_coq(d)) for a, d in watch)
                exp = expect_flat(cur, post, st, watch, it)
                if perturb is not None:
                    exp = perturb(exp)
                rows.append((env_for(o, cur, post, it), wtxt, o["s"], coq_msg(o, it), exp))
                where.append((ci, oi))
            if (o.get("c") and st["r"] == 0) or o["k"] == "h_time":
                if post is not None:
                    cur = post
                rows = None
        if blocks:
            files.append(("C20_%s_%d" % (tag, ci), coq_file(tag, blocks)))
            index.append(where)
    if skipped[0]:
        out.notes.append("%d rejected steps failed inside staking share arithmetic (outside the model): checked by the oracle only" % skipped[0])
    merge_distribution(out, {"message_kinds": kinds, "verdicts": verdicts, "sender_classes": sender_cls, "target_object_states": target_cls,
                             "validate_basic (reported by the driver, not part of the model)": vbs})
    if not model_ok:
        out.model_ran = False
        return
    res = common.coq_eval_many(files, timeout=1500)
    class_notes = {}
    for (name, _), (rc, o), where in zip(files, res, index):
        mm = common.parse_nat_list(o)
        if rc != 0 or mm is None:
            out.mismatches.append({"what": "model evaluation failed (%s): %s" % (name, o[-600:]), "case": None})
            continue
        for idx in mm:
            ci, oi = where[idx]
            c = cases[ci]
            st = obs[ci]["steps"][oi]
            out.mismatches.append({"what": "C20 model and implementation disagree on %s from %s: implementation %s" % (
                c["ops"][oi]["k"], NAMES[c["ops"][oi]["s"]], "accepted" if st["r"] == 0 else "rejected (class %d: %s)" % (st["ec"], st.get("err", ""))),
                "case": {"setup": c["setup"], "ops": history_of(c, oi) + [dict(c["ops"][oi], c=False)]},
                "diagnostic": {"implementation_error_class": ["none", "authorisation", "other"][st["ec"]] if st["r"] else "accepted",
                               "implementation_error": st.get("err", "")}})
        # soft note: both reject, but a different guard fired (authorisation / other) - not a disagreement
        for idx in (common.parse_nat_list(o, ident="MC") or []):
            ci, oi = where[idx]
            st = obs[ci]["steps"][oi]
            k = "%s: implementation rejects with class %s, the model's guard order gives the other class" % (
                cases[ci]["ops"][oi]["k"], ["none", "authorisation", "other"][st["ec"] if st["ec"] in (1, 2) else 2])
            class_notes[k] = class_notes.get(k, 0) + 1
    note_classes(out, class_notes)


def note_classes(out, class_notes):
    if class_notes:
        n = sum(class_notes.values())
        out.notes.append("diagnostic (not a disagreement): %d rejected steps where implementation and model reject through a different guard "
                         "(authorisation vs other error): %s" % (n, "; ".join("%s x%d" % kv for kv in sorted(class_notes.items())[:8])))


def merge_distribution(out, d):
    """histograms add up over the batches of a run"""
    for k, h in d.items():
        acc = out.distribution.setdefault(k, {})
        for kk, v in h.items():
            acc[kk] = acc.get(kk, 0) + v


def target_class(o, pre):
    """state class of the object a probe addresses (for the evidence histogram)"""
    k = o["k"]
    if k in LOCK_ONE or (k == "sf_unbond_convert_stake" and o["id"] > 0):
        l = pre.locks.get(o["id"])
        if l is None:
            return "lock:missing"
        return "lock:%s%s%s" % (["plain", "sf-bonded", "sf-unbonding"][l["synth"]], ",unlocking" if l["unl"] else "", ",receiver-set" if l["recv"] >= 0 else "")
    if k in POS_ONE or k == "sf_add_to_cl":
        p = pre.pos.get(o["id"])
        if p is None:
            return "position:missing"
        return "position:%s" % ("locked" if p["lock"] else "free")
    if k in TF_ADMIN:
        d = pre.denoms.get(o["den"])
        if d is None:
            return "denom:missing"
        cr = denom_creator(o["den"])
        return "denom:%s%s" % ("renounced" if d["admin"] < 0 else ("admin=creator" if d["admin"] == cr else "admin-changed"), ",hook" if d["hook"] >= 0 else "")
    return None


def history_of(c, oi):
    return [o for o in c["ops"][:oi] if o.get("c") or o["k"] == "h_time"]


def selftest(cases, obs, out):
    """the machinery must notice a hand-perturbed observation and a perturbed expectation"""
    # (1) oracle: turn the first rejected message from a non-owner into an accepted one
    done = False
    for c, ob in zip(cases, obs):
        if ob.get("err") or c.get("broken"):
            continue
        cur = Snap(ob["init"])
        for o, st in zip(c["ops"], ob["steps"]):
            if not done and o["k"] in ("cl_withdraw", "lk_begin_unlock", "tf_mint") and st["r"] != 0 and st["ec"] == 1:
                fake = dict(st, r=0, ec=0, d1=st["d0"])
                if not oracle(o, fake, cur, cur, ob["static"]):
                    out.oracle_violations.append({"what": "self-test: the oracle did not flag an accepted message from an unauthorised sender (%s)" % json.dumps(o),
                                                  "rec": {"kind": "selftest"}, "case": None})
                done = True
            if (o.get("c") and st["r"] == 0 and st.get("post")) or o["k"] == "h_time":
                cur = Snap(st["post"]) if st.get("post") else cur
        if done:
            break
    if not done:
        out.notes.append("self-test (oracle): no rejected probe available")
    # (2) case_ok: flip the verdict of every expectation of one small case; every case must then be reported
    sub_c, sub_o = None, None
    for c, ob in zip(cases, obs):
        if not (ob.get("err") or c.get("broken")):
            sub_c = {"setup": c["setup"], "ops": c["ops"][:60]}
            sub_o = dict(ob, steps=ob["steps"][:60])
            break
    if sub_c is None:
        return
    o2 = Outcome()

    def flip(exp):
        return [1] if exp[0] == 0 else [0]      # accepted <-> rejected
    evaluate([sub_c], [sub_o], True, o2, "self", perturb=flip)
    nmod = sum(1 for o in sub_c["ops"] if o["k"] in MODELLED)
    if len(o2.mismatches) != nmod:
        out.mismatches.append({"what": "self-test: %d perturbed expectations, case_ok rejected only %d" % (nmod, len(o2.mismatches)), "case": None})
    else:
        out.notes.append("self-test: oracle flags a forged acceptance; case_ok rejected all %d perturbed expectations" % nmod)


def correspond(tier, seed, model_ok):
    out = Outcome()
    r = Rng(seed)
    n = 20 if tier == "quick" else 200
    batch = 25          # histories per batch: bounds the memory of a thorough run
    done = 0
    nprobe = 0
    lengths = []
    samples = []
    first = True
    while done < n:
        k = min(batch, n - done)
        cases = (common.load_corpus(PROP) if first else []) + plan(r.fork(("batch", done)), tier, k)
        obs = drive(cases)
        evaluate(cases, obs, model_ok, out, "q%d" % done)
        if model_ok and first:
            selftest(cases, obs, out)
        nprobe += sum(1 for c in cases for o in c["ops"] if not o.get("c") and o["k"] in MODELLED)
        lengths += [len([o for o in c["ops"] if o.get("c")]) for c in cases]
        if first:
            samples = [{"setup": c["setup"], "history": [o for o in c["ops"] if o.get("c")][:5],
                        "probes": [o for o in c["ops"] if not o.get("c") and o["k"] in MODELLED][:4]} for c in cases[1:4]]
        first = False
        done += k
    out.rule = ("case = a fresh chain (6 users, 7 module accounts, 4 pools, 2 validators, optionally a before-send hook contract), a random history "
                "of 16-32 accepted operations (positions created / transferred / partly withdrawn / re-created, locks incl. superfluid delegated / "
                "undelegating / unlocking / split / matured, factory denoms incl. admin changed, renounced, hooked, coins locked), then at 1-2 "
                "checkpoints the message x sender matrix (%d probes in this run) built from the chain's own snapshot; plus the curated corpus case. "
                "Every step = one message through its module's MsgServer under the atomic wrapper. evaluations = steps; non-trivial = distinct "
                "(history, sender, message) that the chain accepted, i.e. that ran through the guards into the effect" % nprobe)
    out.samples = samples
    out.distribution["cases"] = {"histories": len(lengths)}
    out.distribution["history_lengths"] = {str(k): lengths.count(k) for k in sorted(set(lengths))}
    return out


def search(tier, seed, out):
    """after a proof / correspondence break: many more histories, oracle only, plus the disagreeing cases themselves"""
    o2 = Outcome()
    r = Rng(seed + 7919)
    cases = [m["case"] for m in out.mismatches[:40] if m.get("case")]
    cases += plan(r, "thorough", 40)
    obs = drive(cases)
    evaluate(cases, obs, False, o2, "s")
    return o2.oracle_violations[0] if o2.oracle_violations else None


def replay(path):
    d = json.load(open(path))
    c = d["case"].get("case") if isinstance(d.get("case"), dict) else None
    if not c:
        print("replay names a proof obligation / correspondence, not an input:", d.get("what"))
        return 1
    out = Outcome()
    obs = drive([c])
    evaluate([c], obs, True, out, "r")
    for v in out.oracle_violations:
        print("oracle:", v["what"])
    for m in out.mismatches:
        print("mismatch:", m["what"])
    return 1 if (out.oracle_violations or out.mismatches) else 0


SCOPE = ("full for the modelled handlers: every theorem of Properties/C20.v holds for every state (hence after every history), every sender, every "
         "message of the 26 constructors and every value of the unmodelled pool arithmetic (env); axiom-free")
EXPLANATION = ("Gallina model C20/Model.v of the 26 Msg-service methods of x/concentrated-liquidity, x/lockup, x/superfluid and x/tokenfactory that act on an "
               "existing position / lock / factory denom (or on the sender's own locks / namespace), each handler's guards written in the order and form of "
               "the Go code, under baseapp's atomic wrapper. Theorems by case analysis on the message: a sender outside the authorised set always fails and "
               "nothing changes; renounced admin => every admin message fails for everybody; CreateDenom only in the sender's namespace; mint-to / burn-from / "
               "force-transfer never change a protected module account's balance. The inventory is tied to the code: the translator extracts every method of "
               "the generated MsgServer interfaces (cross-checked with the proto services) and C20/Inventory.v proves by computation that each one is "
               "modelled or explicitly classified as creating a new object of the sender (CreatePosition, CreateConcentratedPool, LockTokens, "
               "CreateFullRangePositionAndSuperfluidDelegate). The model is tied to /repo by running the real message servers of the full app on random "
               "histories and, at checkpoints, the message x sender matrix (owner/admin, previous owner/admin, unrelated, empty account, allow-listed account, "
               "governance and other module accounts, the pool's own addresses, intermediary accounts, admins of other denoms) on one and the same state, "
               "comparing the verdict (accepted / rejected) and the projected post-state of every accepted message with the model; which guard "
               "rejected a message (authorisation / other error) is reported as a diagnostic note only.")
TRUSTED = [
    "hand-written model coq/theories/C20/Model.v, tied to the four modules by the correspondence run (harness/c20drv against /repo's working tree)",
    "harness/c20drv (Go; abstraction of chain state into indices, error-text -> class mapping), props/c20.py (translator, generator, abstraction into Coq terms, oracle), Coq vm_compute evaluation of generated case files",
    "modelled not verified: baseapp atomicity (CacheContext written only on success), bank SendCoins / Mint / Burn, staking delegation, gamm / concentrated pool arithmetic (abstracted into env), cosmwasm sudo call of SetBeforeSendHook, ValidateBasic (reported by the driver, not part of the model), signature verification (sender = signer)",
]
ASSUMPTIONS = [
    "the sender field of a message is the signer (ante handler), and is a well-formed address (the empty string is not a sender: Sender == \"\" would equal a renounced admin in the handler's string comparison, baseapp rejects it in ValidateBasic / GetSigners)",
    "messages run under baseapp's atomic wrapper: a handler that returns an error leaves no writes",
    "locks hold one coin (MsgLockTokens.ValidateBasic); the protected accounts of tokenfactory are the module accounts of app.maccPerms (permAddrs and permAddrMap hold the same set)",
]
TECHNIQUE = "Coq proof by case analysis over a Gallina model of the four modules' message handlers; inventory lemma over the translated Msg services; model tied to the full app by a message x sender differential matrix (vm_compute) + oracle"
LEVEL_TEXT = ("Machine-checked theorems (Coq 8.16.1, axiom-free) for all states, senders and messages: unauthorised => fails and state unchanged; accepted => "
              "authorised; renounced admin powerless; CreateDenom confined to the sender's namespace; module accounts out of reach of mint-to / burn-from / "
              "force-transfer; every Msg-service method found in the code is modelled or explicitly classified. The model is hand-written and checked "
              "against the real message servers on every run; an independent oracle evaluates the property's predicates on the implementation's observations.")
LEVEL_NOTE = ("Trusted: Coq kernel (vm_compute), no axioms; model C20/Model.v; driver harness/c20drv and python glue; SDK bank/staking/store semantics and pool arithmetic "
              "are abstracted. Noted, not a violation: tokenfactory Burn's msg-server module-account guard converts bech32 text to bytes and is dead code; the "
              "effective guard is burnFrom's IsModuleAcc (mirrored).")
