"""C15 - reward accumulator (osmoutils/accum): case generator, Coq case writer, oracle."""
import json
from fractions import Fraction

from lib import common
from lib.common import Rng, Outcome, zlit, zlist

PROP = "C15"
GO_PKGS = [("c15drv", False)]
MODEL_VO = ["theories/C15/Corr.vo"]
ALLOWED_AXIOMS = []

P18 = 10 ** 18
HUGE = 10 ** 58 * P18          # amounts from here on can overflow LegacyDec (2^256): panics are tolerated by the oracle
ND_ALL = 4                     # the driver knows 4 denominations (indices in strings.Compare order)

POS_OPS = ("new", "newia", "add", "addia", "rem", "remia", "upd", "updia", "setia", "claim", "del", "unc")
IA_OPS = ("newia", "addia", "remia", "updia", "setia")


# ---------------------------------------------------------------------------------------------
# generator
# ---------------------------------------------------------------------------------------------
def gen_amount(r, allow_zero=True, huge=False):
    x = r.below(100)
    if x < 8 and allow_zero:
        return 0
    if x < 16:
        return 1                                   # 1 ulp
    if x < 45:
        return r.range(1, 1000) * P18              # integers
    if x < 55:
        return r.choice([1, 2, 3, 7, 10, 100]) * P18
    if x < 80:
        return r.range(1, 1000 * P18)              # 18-decimal fractions
    if x < 88:
        return r.range(1, P18 - 1)                 # < 1
    if x < 92:
        return P18 // 2 + r.range(-1, 1)           # around one half
    if x < 98 or not huge:
        return 10 ** 30 * P18
    return 10 ** 70 * P18 if r.chance(1, 2) else 10 ** 76 * P18


def gen_coins(r, ds, huge=False, zero_entries=True):
    out = []
    for d in ds:
        if r.chance(3, 4):
            a = gen_amount(r, True, huge)
            if a == 0 and not zero_entries:
                continue
            out.append([d, a])
    return out


class Tracker:
    """bookkeeping shared by the generator (to stay inside the property's domain) and the oracle (to know
    when a history left it): which AccumulatorObject handles hold a current value / total-share count"""

    def __init__(self):
        self.h = {}          # (a, h) -> [val_sync, tot_sync]

    def needs(self, kind):
        val = kind not in ("setia", "unc")
        tot = kind in ("grow", "del")
        return val, tot

    def in_domain(self, a, h, fresh, kind):
        if fresh or (a, h) not in self.h:
            return True
        v, t = self.h[(a, h)]
        nv, nt = self.needs(kind)
        return (v or not nv) and (t or not nt)

    def touch(self, a, h, fresh):
        if fresh or (a, h) not in self.h:
            self.h[(a, h)] = [True, True]

    def after(self, a, h, kind, code):
        if code == 99:
            self.h[(a, h)] = [True, True]
            return
        if code != 0:
            return
        if kind in ("setia", "unc", "claim"):
            return
        self.h[(a, h)] = [True, True]
        for (a2, h2), fl in self.h.items():
            if a2 == a and h2 != h:
                if kind == "grow":
                    fl[0] = False
                else:
                    fl[1] = False


def gen_case(r, tier):
    na = r.choice([1, 1, 1, 2, 2, 3, 4])
    nn = r.range(1, 6)
    nd = r.range(1, 3)
    ds = sorted(r.choice([[0, 1, 2, 3], [3, 1, 0, 2], [2, 3, 1, 0], [1, 0, 3, 2]])[:nd])
    nops = r.range(5, 60)
    huge = r.chance(1, 12)
    ia_mode = r.chance(3, 10)
    stale_ok = r.chance(1, 25)          # deliberately leave the domain (stale handles): correspondence only
    dup_ok = r.chance(1, 10)            # duplicate creation: outside the quantifier, correspondence only
    neg_growth = r.chance(1, 30)
    p_invalid = r.choice([5, 15, 15, 25])
    ops = []
    exists = [False] * na
    live = [dict() for _ in range(na)]   # name -> shares
    G = [dict() for _ in range(na)]      # total growth (for interval-accumulation arguments)
    tr = Tracker()

    def emit(o):
        ops.append(o)

    def handle(a, kind):
        h = r.below(2)
        f = r.chance(1, 2)
        if not tr.in_domain(a, h, f, kind) and not stale_ok:
            f = True
        return h, f

    def ia_arg(a):
        # interval accumulation: usually <= current value componentwise, sometimes above / negative
        out = []
        for d in ds:
            if r.chance(1, 4):
                continue
            g = G[a].get(d, 0)
            x = r.below(20)
            if x < 10:
                v = g
            elif x < 16:
                v = r.range(0, g) if g > 0 else 0
            elif x < 18:
                v = -gen_amount(r)
            else:
                v = g + gen_amount(r)
            out.append([d, v])
        return out

    for a in range(na):
        if r.chance(4, 5):
            emit({"k": "make", "a": a, "bad": False})
            exists[a] = True
    while len(ops) < nops:
        a = r.below(na)
        x = r.below(100)
        if not exists[a]:
            if x < 50:
                bad = r.chance(1, 6)
                emit({"k": "make", "a": a, "bad": bad})
                exists[a] = exists[a] or not bad
                continue
        elif x < 2:
            emit({"k": "make", "a": a, "bad": r.chance(1, 3)})
            continue
        invalid = r.below(100) < p_invalid
        names = list(range(nn))
        lv = [n for n in names if n in live[a]]
        dead = [n for n in names if n not in live[a]]
        x = r.below(100)
        o = None
        if x < 25:
            kind = "grow"
            o = {"k": kind, "c": gen_coins(r, ds, huge)}
            if neg_growth and o["c"] and r.chance(1, 6):
                o["c"][r.below(len(o["c"]))][1] = -gen_amount(r, False)   # outside the quantifier: correspondence only
        elif x < 42:
            kind = "newia" if (ia_mode and r.chance(1, 2)) else "new"
            if invalid and lv and dup_ok:
                n = r.choice(lv)
            elif dead:
                n = r.choice(dead)
            else:
                continue
            s = gen_amount(r, True, huge)
            if invalid and dup_ok and r.chance(1, 8):
                s = -s
            o = {"k": kind, "n": n, "s": s}
        elif x < 70:
            base = r.choice(["add", "rem", "upd"])
            kind = base + "ia" if (ia_mode and r.chance(1, 2)) else base
            if invalid and (dead and r.chance(1, 3)):
                n = r.choice(dead)
                s = gen_amount(r, False, huge)
            elif lv:
                n = r.choice(lv)
                sh = live[a][n]
                if invalid:
                    if base == "rem":
                        s = r.choice([0, -1, -P18, sh + 1, sh + gen_amount(r, False), -sh])
                    elif base == "add":
                        s = r.choice([0, -1, -P18, -gen_amount(r, False)])
                    else:
                        s = r.choice([0, -(sh + 1), -(sh + gen_amount(r, False))])
                else:
                    if base == "add":
                        s = gen_amount(r, False, huge)
                    elif base == "rem":
                        if sh <= 0:
                            continue
                        s = r.choice([sh, sh, 1, r.range(1, sh), (sh // 2) or 1])
                    else:
                        if sh > 0 and r.chance(1, 2):
                            s = -r.choice([sh, 1, r.range(1, sh)])
                        else:
                            s = gen_amount(r, False, huge)
            else:
                continue
            o = {"k": kind, "n": n, "s": s}
        elif x < 86:
            kind = "claim"
            n = r.choice(dead) if (invalid and dead) else (r.choice(lv) if lv else None)
            if n is None:
                continue
            o = {"k": kind, "n": n}
        elif x < 92:
            kind = "del"
            n = r.choice(dead) if (invalid and dead) else (r.choice(lv) if lv else None)
            if n is None:
                continue
            o = {"k": kind, "n": n}
        elif x < 97 or not ia_mode:
            kind = "unc"
            n = r.choice(dead) if (invalid and dead) else (r.choice(lv) if lv else None)
            if n is None:
                continue
            c = gen_coins(r, ds, huge)
            if invalid and c and r.chance(1, 2):
                c[r.below(len(c))][1] = -gen_amount(r, False)
            o = {"k": kind, "n": n, "c": c}
        else:
            kind = "setia"
            n = r.choice(dead) if (invalid and dead) else (r.choice(lv) if lv else None)
            if n is None:
                continue
            o = {"k": kind, "n": n}
        if kind in IA_OPS:
            o["c"] = ia_arg(a)
        h, f = handle(a, kind)
        o.update({"a": a, "h": h, "f": f})
        if kind in ("new", "newia") and r.chance(1, 5):
            o["opt"] = True
        emit(o)
        # generator-side bookkeeping (shares only; rewards are the oracle's business)
        if not exists[a]:
            continue
        tr.touch(a, h, f)
        ok = True
        n = o.get("n")
        if kind == "grow":
            for d, v in o["c"]:
                G[a][d] = G[a].get(d, 0) + v
        elif kind in ("new", "newia"):
            live[a][n] = o["s"]
        elif n not in live[a]:
            ok = False
        elif kind in ("add", "addia"):
            ok = o["s"] > 0
            if ok:
                live[a][n] += o["s"]
        elif kind in ("rem", "remia"):
            ok = 0 < o["s"] <= live[a][n]
            if ok:
                live[a][n] -= o["s"]
        elif kind in ("upd", "updia"):
            ok = o["s"] != 0 and -o["s"] <= live[a][n]
            if ok:
                live[a][n] += o["s"]
        elif kind == "claim":
            if live[a][n] == 0:
                del live[a][n]
        elif kind == "del":
            del live[a][n]
        elif kind == "unc":
            ok = all(v >= 0 for _, v in o["c"])
        tr.after(a, h, kind, 0 if ok else 1)
    # final sweep: every accumulator, every name claims through a fresh handle (exposes lost/extra rewards)
    for a in range(na):
        for n in range(nn):
            emit({"k": "claim", "a": a, "h": 0, "f": True, "n": n})
    return {"nn": nn, "na": na, "ops": ops}


def wire(c):
    """JSON for the driver: integers as decimal strings"""
    ops = []
    for o in c["ops"]:
        o = dict(o)
        if "s" in o:
            o["s"] = str(o["s"])
        if "c" in o:
            o["c"] = [[str(d), str(v)] for d, v in o["c"]]
        ops.append(o)
    return {"nn": c["nn"], "na": c["na"], "tricky": bool(c.get("tricky")), "ops": ops}


# ---------------------------------------------------------------------------------------------
# Coq case writer
# ---------------------------------------------------------------------------------------------
def coq_coins(c):
    return "[" + "; ".join("(%s, %s)" % (zlit(d), zlit(v)) for d, v in c) + "]"


def coq_op(o):
    k = o["k"]
    if k == "make":
        return "WMake %d %s" % (o["a"], "true" if o.get("bad") else "false")
    n = zlit(o.get("n", 0))
    s = zlit(o.get("s", 0))
    c = coq_coins(o.get("c", []))
    body = {
        "grow": "OGrow %s" % c, "new": "ONew %s %s" % (n, s), "newia": "ONewIA %s %s %s" % (n, s, c),
        "add": "OAdd %s %s" % (n, s), "addia": "OAddIA %s %s %s" % (n, s, c),
        "rem": "ORemove %s %s" % (n, s), "remia": "ORemoveIA %s %s %s" % (n, s, c),
        "upd": "OUpdate %s %s" % (n, s), "updia": "OUpdateIA %s %s %s" % (n, s, c),
        "setia": "OSetIA %s %s" % (n, c), "claim": "OClaim %s" % n, "del": "ODelete %s" % n,
        "unc": "OAddUnclaimed %s %s" % (n, c),
    }[k]
    return "WOp %d %d %s (%s)" % (o["a"], o["h"], "true" if o["f"] else "false", body)


HM = 2 ** 512 - 1
HB = 65537


def zhash(flat):
    """the digest of Corr.v's zhash"""
    h = 7
    for x in flat:
        h = (h * HB + x + 1) & HM
    return h


def coq_case(c, flat):
    return "mkCase %d%%nat %d%%nat [%s] %s" % (c["nn"], c["na"], "; ".join(coq_op(o) for o in c["ops"]), zlit(zhash(flat)))


# ---------------------------------------------------------------------------------------------
# observation parser
# ---------------------------------------------------------------------------------------------
class Cur:
    def __init__(self, flat):
        self.f = flat
        self.i = 0

    def get(self):
        v = self.f[self.i]
        self.i += 1
        return v

    def coins(self):
        n = self.get()
        out = []
        for _ in range(n):
            d = self.get()
            out.append((d, self.get()))
        return out

    def recv(self):
        if self.get() == 0:
            return None
        t = self.get()
        return (t, self.coins())

    def store(self, nn):
        rv = self.recv()
        pos = []
        for _ in range(nn):
            tag = self.get()
            if tag == 0:
                pos.append(None)
            elif tag == 1:
                sh = self.get()
                snap = self.coins()
                unc = self.coins()
                pos.append((sh, snap, unc))
            else:
                pos.append("inconsistent")
        return (rv, pos)


def parse(c, flat):
    """-> per op dict(code, ret, handle, store), final stores"""
    cur = Cur(flat)
    steps = []
    for o in c["ops"]:
        ix = {"code": cur.i}
        code = cur.get()
        tag = cur.get()
        ret = None
        if tag == 1:
            ix["ret"] = cur.i
            ret = ("claim", cur.coins(), cur.coins())
        elif tag == 2:
            ix["ret"] = cur.i
            ret = ("del", cur.coins())
        hd = None
        if o["k"] != "make":
            hd = cur.recv()
        ix["store"] = cur.i
        st = cur.store(c["nn"])
        steps.append({"code": code, "ret": ret, "handle": hd, "store": st, "ix": ix})
    assert cur.get() == -2
    final = [cur.store(c["nn"]) for _ in range(c["na"])]
    assert cur.i == len(flat)
    return steps, final


# ---------------------------------------------------------------------------------------------
# oracle: the property's own predicates, exact rationals, written from the property text
# ---------------------------------------------------------------------------------------------
def well_formed(cs):
    """a DecCoins value as the SDK keeps it: strictly sorted denominations, no zero entry"""
    return all(v != 0 for _, v in cs) and all(cs[i][0] < cs[i + 1][0] for i in range(len(cs) - 1))


def oracle(c, flat, checked=None):
    """checked (optional list): receives the indices of the calls whose outcome the oracle fully judged"""
    try:
        steps, final = parse(c, flat)
    except Exception as ex:  # malformed observation
        return [{"what": "unparsable observation: %r" % (ex,), "rec": {"kind": "malformed"}}]
    nn, na = c["nn"], c["na"]
    V = []

    def bad(kind, i, msg, **kw):
        rec = {"kind": kind}
        rec.update(kw)
        V.append({"what": "op %d %s: %s" % (i, json.dumps(c["ops"][i]) if i is not None and i < len(c["ops"]) else "", msg), "rec": rec})

    tolerant = any(abs(o.get("s", 0)) >= HUGE or any(abs(v) >= HUGE for _, v in o.get("c", [])) for o in c["ops"])
    empty = (None, [None] * nn)
    last = [empty for _ in range(na)]           # last observed store of each accumulator
    exists = [False] * na
    tainted = [False] * na
    G = [dict() for _ in range(na)]            # exact total growth per denom (raw units)
    pos = [dict() for _ in range(na)]          # name -> dict(shares, snap{d}, acc{d}: Fraction, k)
    tr = Tracker()

    def claimable(a, n):
        p = pos[a][n]
        out = {}
        for d in set(G[a]) | set(p["snap"]) | set(p["acc"]):
            diff = G[a].get(d, 0) - p["snap"].get(d, 0)
            out[d] = p["acc"].get(d, Fraction(0)) + Fraction(diff * p["shares"], P18)
        return out

    def diff_nonneg(a, n):
        p = pos[a][n]
        return all(G[a].get(d, 0) - p["snap"].get(d, 0) >= 0 for d in set(G[a]) | set(p["snap"]))

    def settle(a, n):
        p = pos[a][n]
        cl = claimable(a, n)
        p["acc"] = cl
        p["k"] += 1

    for i, (o, s) in enumerate(zip(c["ops"], steps)):
        a = o["a"]
        k = o["k"]
        code = s["code"]
        before = last[a]
        after = s["store"]
        last[a] = after
        if tainted[a]:
            continue
        if "inconsistent" in after[1]:
            bad("has_vs_get", i, "HasPosition and GetPosition disagree")
            continue
        if k == "make":
            if exists[a] or o.get("bad"):
                if code == 0:
                    bad("make_should_fail", i, "MakeAccumulator succeeded on an existing / ill-named accumulator")
                if after != before:
                    bad("error_has_effect", i, "failed MakeAccumulator changed the store", op=k)
            else:
                if code != 0:
                    bad("valid_op_failed", i, "MakeAccumulator failed with code %d" % code, op=k)
                else:
                    exists[a] = True
                    if after[0] != (0, []) or any(p is not None for p in after[1]):
                        bad("make_not_empty", i, "fresh accumulator is not empty: %s" % (after,))
            continue
        if not exists[a]:
            if code == 0:
                bad("no_accum_should_fail", i, "operation on a non-existent accumulator succeeded")
            if after != before:
                bad("error_has_effect", i, "operation on a non-existent accumulator changed the store", op=k)
            continue
        h, f = o["h"], o["f"]
        if not tr.in_domain(a, h, f, k):
            tainted[a] = True           # a stale AccumulatorObject was used where its copy matters: outside the quantifier
            continue
        tr.touch(a, h, f)
        n = o.get("n")
        P = pos[a]
        # ---- is the call one that the property says must fail? -----------------------------------
        must_fail = None
        may_panic = False
        if k in POS_OPS and k not in ("new", "newia"):
            if n not in P:
                must_fail = "unknown position"
        if must_fail is None:
            if k in ("new", "newia"):
                if n in P or o["s"] < 0:
                    tainted[a] = True    # duplicate creation / negative shares: outside the quantifier
                    continue
            elif k in ("add", "addia"):
                if o["s"] <= 0:
                    must_fail = "non-positive share change"
            elif k in ("rem", "remia"):
                if o["s"] <= 0:
                    must_fail = "non-positive share change"
                elif o["s"] > P[n]["shares"]:
                    must_fail = "removing more than held"
            elif k in ("upd", "updia"):
                if o["s"] == 0:
                    must_fail = "zero share change"
                elif -o["s"] > P[n]["shares"]:
                    must_fail = "removing more than held"
            elif k == "unc":
                if any(v < 0 for _, v in o["c"]):
                    must_fail = "negative rewards"
            if k == "grow" and any(v < 0 for _, v in o["c"]):
                tainted[a] = True
                continue
        if must_fail is None and k in ("add", "addia", "rem", "remia", "upd", "updia", "claim", "del"):
            # interval accumulation above the accumulator value: the library panics (transaction abort)
            if not diff_nonneg(a, n):
                may_panic = True
        if must_fail is not None:
            if code == 0:
                bad("invalid_op_succeeded", i, "%s but the call succeeded" % must_fail, op=k, why=must_fail)
            if after != before:
                bad("error_has_effect", i, "%s: the failed call changed the state\n before %s\n after  %s" % (must_fail, before, after), op=k)
            tr.after(a, h, k, code if code != 0 else 1)
            if checked is not None:
                checked.append(i)
            continue
        if code != 0:
            if code == 99 and (tolerant or may_panic):
                if after != before:
                    bad("error_has_effect", i, "aborted call changed the state", op=k)
            elif may_panic:
                if after != before:
                    bad("error_has_effect", i, "failed call changed the state", op=k)
            else:
                bad("valid_op_failed", i, "a valid call failed with code %d" % code, op=k)
                tainted[a] = True
            tr.after(a, h, k, code)
            continue
        if may_panic:
            bad("negative_growth_accepted", i, "rewards computed from a snapshot above the accumulator value", op=k)
            tainted[a] = True
            continue
        tr.after(a, h, k, 0)
        # ---- a valid call that succeeded: replay "growth x shares held" exactly ---------------------
        def snapshot_arg():
            if k in IA_OPS:
                return {d: v for d, v in o["c"]}
            return dict(G[a])
        if k == "grow":
            for d, v in o["c"]:
                G[a][d] = G[a].get(d, 0) + v
        elif k in ("new", "newia"):
            P[n] = {"shares": o["s"], "snap": snapshot_arg(), "acc": {}, "k": 0}
        elif k in ("add", "addia", "rem", "remia", "upd", "updia"):
            settle(a, n)
            delta = o["s"] if k[:3] != "rem" else -o["s"]
            P[n]["shares"] += delta
            P[n]["snap"] = snapshot_arg()
        elif k == "setia":
            P[n]["snap"] = snapshot_arg()
        elif k == "unc":
            for d, v in o["c"]:
                P[n]["acc"][d] = P[n]["acc"].get(d, Fraction(0)) + v
        elif k in ("claim", "del"):
            exact = claimable(a, n)
            kk = P[n]["k"] + 1
            ret = s["ret"]
            got = {}
            if ret is None or ret[0] != k:
                bad("claim_shape", i, "no return value")
            elif k == "claim":
                _, ci, du = ret
                for d, v in ci:
                    if v <= 0:
                        bad("claim_shape", i, "non-positive integer coin %s" % v)
                    got[d] = got.get(d, 0) + v * P18
                for d, v in du:
                    if not (0 < v < P18):
                        bad("claim_shape", i, "dust %s is not a proper fraction" % v)
                    got[d] = got.get(d, 0) + v
                if not (well_formed(ci) and well_formed(du)):
                    bad("claim_shape", i, "returned coins are not sorted / contain zero entries: %s %s" % (ci, du))
            else:
                for d, v in ret[1]:
                    got[d] = got.get(d, 0) + v
            for d in set(got) | set(exact):
                e = exact.get(d, Fraction(0))
                g = got.get(d, 0)
                if abs(g - e) > Fraction(kk, 2):
                    bad("claim_amount", i, "denom %d: claimed %s (raw 1e-18 units), exact growth x shares = %s, bound %d/2 ulp over %d intervals"
                        % (d, g, e, kk, kk), op=k)
            sh = P[n]["shares"]
            if k == "del" or sh == 0:
                del P[n]
            else:
                P[n].update({"snap": dict(G[a]), "acc": {}, "k": 0})
            # claiming resets exactly the claimer: every other record, the value and (for a claim) the total stay
            for m in range(nn):
                if m != n and before[1][m] != after[1][m]:
                    bad("claim_touches_other", i, "record of name %d changed: %s -> %s" % (m, before[1][m], after[1][m]), op=k)
            if before[0] is not None and after[0] is not None:
                if before[0][1] != after[0][1]:
                    bad("claim_touches_value", i, "accumulator value changed: %s -> %s" % (before[0][1], after[0][1]), op=k)
                if k == "claim" and before[0][0] != after[0][0]:
                    bad("claim_touches_total", i, "total shares changed by a claim: %s -> %s" % (before[0][0], after[0][0]), op=k)
            if n in P and after[1][n] is not None and after[1][n][2] != []:
                bad("claim_not_reset", i, "claimer keeps unclaimed rewards %s" % (after[1][n][2],), op=k)
        # ---- state predicates after every successful call -------------------------------------------
        if after[0] is None:
            bad("accum_vanished", i, "accumulator no longer readable")
            continue
        if checked is not None:
            checked.append(i)
        tot = after[0][0]
        osum = 0
        for m in range(nn):
            rec = after[1][m]
            if (rec is not None) != (m in P):
                if rec is None:
                    bad("position_missing", i, "name %d should exist" % m, op=k)
                else:
                    bad("position_not_removed", i, "name %d should have disappeared but has record %s" % (m, rec), op=k)
                continue
            if rec is not None:
                osum += rec[0]
                if rec[0] != P[m]["shares"]:
                    bad("shares_wrong", i, "name %d holds %s shares, history says %s" % (m, rec[0], P[m]["shares"]), op=k)
        if tot != osum:
            bad("total_shares", i, "recorded total shares %s != sum of position shares %s" % (tot, osum), op=k)
    if c.get("tricky"):
        # names chosen to probe the key layout of prefix.go: whatever goes wrong here is the key collision
        for v in V:
            v["rec"] = {"kind": "key_collision", "fn": "accum.FormatPositionPrefixKey",
                        "input_class": "accum_name_ends_and_position_name_starts_with_separator_char", "seen_as": v["rec"]["kind"]}
    return V


# ---------------------------------------------------------------------------------------------
# running
# ---------------------------------------------------------------------------------------------
def nontrivial(c, steps):
    """a successful claim/delete that paid a non-zero amount, after at least one successful share change"""
    paid = any(s["code"] == 0 and s["ret"] and any(v != 0 for _, v in s["ret"][1]) for s in steps)
    changed = any(s["code"] == 0 and o["k"] in ("add", "addia", "rem", "remia", "upd", "updia") for o, s in zip(c["ops"], steps))
    return paid and changed


def first_difference(c, flat):
    """ask Coq for the model's full observation list of one case and name the first call where it differs"""
    import re
    try:
        v = ("From Coq Require Import ZArith List Bool. Import ListNotations.\n"
             "From Osmo Require Import Base.Obs C15.Model C15.Corr.\nOpen Scope Z_scope.\n"
             "Definition c := %s.\nDefinition M := Eval vm_compute in model_obs c.\nPrint M.\n" % coq_case(c, flat))
        rc, o = common.coq_eval("C15_diff_%d" % (zhash(flat) % 10 ** 9), v)
        m = re.search(r"M\s*=\s*\[(.*?)\]", o.replace("\n", " "))
        mod = [int(x) for x in re.findall(r"-?\d+", m.group(1))]
        steps, _ = parse(c, flat)
        for i, (o_, s_) in enumerate(zip(c["ops"], steps)):
            a = s_["ix"]["code"]
            b = steps[i + 1]["ix"]["code"] if i + 1 < len(steps) else len(flat)
            if flat[a:b] != mod[a:b]:
                return ": first difference at call %d %s: implementation %s, model %s" % (i, json.dumps(o_), flat[a:b][:40], mod[a:b][:40])
        return ": difference in the final dump"
    except Exception as ex:
        return " (could not localise: %r)" % (ex,)


def selftest(good, out):
    """unit check of the machinery on this run's own data: hand-perturbed observations must be flagged by the
    oracle, and their digests must be rejected by case_ok.  Returns the perturbed (case, flat) pairs for Coq."""
    want = {"total_shares": None, "claim_amount": None, "invalid_op_succeeded": None, "error_has_effect": None}
    pert = []
    for c, flat in good[:400]:
        judged = []
        if oracle(c, flat, judged):
            continue
        steps, _ = parse(c, flat)
        for i, (o, s) in enumerate(zip(c["ops"], steps)):
            k = o["k"]
            if i not in judged:
                continue
            if want["total_shares"] is None and s["code"] == 0 and k in ("add", "new") and s["store"][0] is not None:
                f2 = list(flat)
                f2[s["ix"]["store"] + 1] += 1                       # recorded total shares off by one ulp
                want["total_shares"] = (c, f2)
            if want["claim_amount"] is None and s["code"] == 0 and k == "claim" and s["ret"] and s["ret"][1]:
                f2 = list(flat)
                f2[s["ix"]["ret"] + 2] += 1                         # one more whole coin paid
                want["claim_amount"] = (c, f2)
            if want["invalid_op_succeeded"] is None and s["code"] in (4, 5, 6, 7, 8) and k != "claim":
                f2 = list(flat)
                f2[s["ix"]["code"]] = 0                             # the failing call reported as success
                want["invalid_op_succeeded"] = (c, f2)
            if want["error_has_effect"] is None and s["code"] in (4, 5, 6, 7, 8) and s["store"][0] is not None:
                f2 = list(flat)
                f2[s["ix"]["store"] + 1] += 1                       # a failed call that changed the total
                want["error_has_effect"] = (c, f2)
        if all(v is not None for v in want.values()):
            break
    ok = True
    for kind, cf in want.items():
        if cf is None:
            out.notes.append("self-test: no case to perturb for %s" % kind)
            continue
        kinds = {v["rec"]["kind"] for v in oracle(cf[0], cf[1])}
        if kind not in kinds:
            ok = False
            out.mismatches.append({"what": "self-test failed: the oracle did not flag a perturbed observation (%s); flagged %s" % (kind, sorted(kinds)), "case": None})
        pert.append(cf)
    if ok and pert:
        out.notes.append("self-test: the oracle flagged all %d hand-perturbed observations (%s)" % (len(pert), ", ".join(k for k, v in want.items() if v)))
    return pert


def minimise(c, kind, binary, rounds=80):
    """greedy one-call-at-a-time reduction of a violating history, keeping a violation of the same kind"""
    cur = c
    for _ in range(rounds):
        cands = []
        for i in range(len(cur["ops"])):
            d = dict(cur)
            d["ops"] = cur["ops"][:i] + cur["ops"][i + 1:]
            cands.append(d)
        if not cands:
            break
        obs = common.run_driver(binary, [wire(x) for x in cands], shards=4)
        nxt = None
        for x, o in zip(cands, obs):
            if o.get("err"):
                continue
            if any(v["rec"].get("kind") == kind or v["rec"].get("seen_as") == kind for v in oracle(x, o["flat"])):
                nxt = x
                break
        if nxt is None:
            break
        cur = nxt
    return cur


def exhaustive_cases(maxlen):
    """every sequence of up to maxlen calls over one accumulator, two names, one denomination, three amount
    classes (1 ulp, 1/2, 1), each followed by the claim sweep"""
    amts = [1, P18 // 2, P18]
    alpha = []
    for a in amts:
        alpha.append({"k": "grow", "c": [[0, a]]})
    for n in (0, 1):
        for a in [0] + amts[1:]:
            alpha.append({"k": "new", "n": n, "s": a})
        for a in amts[1:] + [0]:
            alpha.append({"k": "add", "n": n, "s": a})
        for a in amts[1:]:
            alpha.append({"k": "rem", "n": n, "s": a})
        alpha.append({"k": "upd", "n": n, "s": -(P18 // 2)})
        alpha.append({"k": "claim", "n": n})
        alpha.append({"k": "del", "n": n})
    out = []

    def rec(prefix):
        if prefix:
            ops = [{"k": "make", "a": 0, "bad": False}]
            for j, o in enumerate(prefix):
                o = dict(o)
                o.update({"a": 0, "h": j % 2, "f": j % 3 != 2})
                ops.append(o)
            for n in (0, 1):
                ops.append({"k": "claim", "a": 0, "h": 0, "f": True, "n": n})
            out.append({"nn": 2, "na": 1, "ops": ops})
        if len(prefix) < maxlen:
            for o in alpha:
                rec(prefix + [o])
    rec([])
    return out


def run_cases(cases, model_ok, out, tag, per_file=12, model_every=1):
    binary = common.go_build("c15drv")
    obs = common.run_driver(binary, [wire(c) for c in cases], shards=8)
    good = []
    for c, o in zip(cases, obs):
        out.evaluations += 1
        if o.get("err"):
            out.oracle_violations.append({"what": o["err"], "rec": {"kind": "driver_panic"}, "case": c})
            continue
        flat = o["flat"]
        if not c.get("tricky") and out.evaluations % model_every == 0:
            # (tricky: the model keeps accumulators apart by construction, see known finding C15-F1)
            good.append((c, flat))
        for v in oracle(c, flat):
            v["case"] = c
            if len(out.oracle_violations) < 3 and not c.get("tricky"):
                try:
                    small = minimise(c, v["rec"]["kind"], binary)
                    if len(small["ops"]) < len(c["ops"]):
                        o2 = common.run_driver(binary, [wire(small)])[0]
                        v2 = [x for x in oracle(small, o2["flat"]) if x["rec"].get("kind") == v["rec"]["kind"]]
                        if v2:
                            v = dict(v2[0], case=small, original_case=c)
                except Exception as ex:   # minimisation is a convenience only
                    out.notes.append("minimisation failed: %r" % (ex,))
            out.oracle_violations.append(v)
        try:
            steps, _ = parse(c, flat)
            if nontrivial(c, steps):
                out.nontrivial.add(json.dumps(c, sort_keys=True))
        except Exception:
            pass
    if not model_ok:
        out.model_ran = False
        return
    perturbed = selftest(good, out) if tag == "q" else []
    items = []
    for fi in range(0, len(good), per_file):
        chunk = good[fi:fi + per_file]
        body = ";\n  ".join(coq_case(c, fl) for c, fl in chunk)
        v = ("From Coq Require Import ZArith List Bool. Import ListNotations.\n"
             "From Osmo Require Import Base.Obs C15.Model C15.Corr.\nOpen Scope Z_scope.\n"
             "Definition cases : list case := [\n  %s ].\n"
             "Definition M := Eval vm_compute in mismatches case_ok cases.\nPrint M.\n" % body)
        items.append(("C15_%s_%d" % (tag, fi // per_file), v))
    res = common.coq_eval_many(items)
    for (name, _), (rc, o), fi in zip(items, res, range(0, len(good), per_file)):
        mm = common.parse_nat_list(o)
        if rc != 0 or mm is None:
            out.mismatches.append({"what": "model evaluation failed: " + o[-500:], "case": None})
            continue
        for idx in mm:
            c, fl = good[fi + idx]
            out.mismatches.append({"what": "C15 model_obs differs from implementation observations" + first_difference(c, fl), "case": c,
                                   "impl_flat": [str(x) for x in fl]})
    if perturbed:
        body = ";\n  ".join(coq_case(c, fl) for c, fl in perturbed)
        v = ("From Coq Require Import ZArith List Bool. Import ListNotations.\n"
             "From Osmo Require Import Base.Obs C15.Model C15.Corr.\nOpen Scope Z_scope.\n"
             "Definition cases : list case := [\n  %s ].\n"
             "Definition M := Eval vm_compute in mismatches case_ok cases.\nPrint M.\n" % body)
        rc, o = common.coq_eval("C15_%s_selftest" % tag, v)
        mm = common.parse_nat_list(o)
        if rc != 0 or mm != list(range(len(perturbed))):
            out.mismatches.append({"what": "self-test failed: case_ok accepted a perturbed expectation (rejected %s of %d)" % (mm, len(perturbed)), "case": None})
        else:
            out.notes.append("self-test: case_ok rejected all %d perturbed expectations" % len(perturbed))


def correspond(tier, seed, model_ok):
    out = Outcome()
    r = Rng(seed)
    n = 2000 if tier == "quick" else 40000
    cases = [gen_case(r.fork(i), tier) for i in range(n)]
    corpus = common.load_corpus(PROP)
    run_cases(corpus + cases, model_ok, out, "q")
    nex = 0
    if tier != "quick":
        ex3 = exhaustive_cases(3)
        run_cases(ex3, model_ok, out, "x3", per_file=60)
        ex4 = [c for c in exhaustive_cases(4) if len(c["ops"]) == 1 + 4 + 2]
        run_cases(ex4, model_ok, out, "x4", per_file=60, model_every=10)
        nex = len(ex3) + len(ex4)
        out.notes.append("exhaustive: all %d call sequences of length <= 3 (model compared on all) and all %d of length 4 (model compared on every 10th) "
                         "over 1 accumulator, 2 names, 1 denomination, amounts {1 ulp, 1/2, 1}" % (len(ex3), len(ex4)))
    out.rule = ("cases = histories of 5-60 calls (+ a final claim sweep) over 1-4 accumulators, 1-6 names, 1-3 denominations, two AccumulatorObject "
                "handles per accumulator (fresh or reused), amounts from {0, 1 ulp, integers, 18-decimal fractions, 10^30, rarely 10^70}; "
                "non-trivial = some claim/delete paid a non-zero amount after at least one successful share change; distinct = distinct case JSON")
    out.samples = [{"nn": c["nn"], "na": c["na"], "ops": wire(c)["ops"][:8]} for c in cases[:3]]
    kinds = {}
    for c in cases:
        for o in c["ops"]:
            kinds[o["k"]] = kinds.get(o["k"], 0) + 1
    out.distribution = {"op_kinds": kinds, "ops_total": sum(len(c["ops"]) for c in cases),
                        "accumulators_hist": {str(k): sum(1 for c in cases if c["na"] == k) for k in range(1, 5)},
                        "corpus_cases": len(corpus), "exhaustive_cases": nex}
    return out


def search(tier, seed, out):
    """targeted search after a proof/correspondence break: many more histories, oracle only"""
    o2 = Outcome()
    r = Rng(seed + 7919)
    cases = [gen_case(r.fork(i), "thorough") for i in range(6000)]
    for m in out.mismatches[:20]:
        if m.get("case"):
            cases.append(m["case"])
    run_cases(cases, False, o2, "s")
    return o2.oracle_violations[0] if o2.oracle_violations else None


def replay(path):
    d = json.load(open(path))
    c = d["case"].get("case") if isinstance(d.get("case"), dict) else None
    if not c:
        print("replay names a proof obligation / correspondence, not an input:", d.get("what"))
        return 1
    out = Outcome()
    run_cases([c], True, out, "r")
    for v in out.oracle_violations:
        print("oracle:", v["what"])
    for m in out.mismatches:
        print("mismatch:", m["what"])
    return 1 if (out.oracle_violations or out.mismatches) else 0


SCOPE = ("full: C15_full_holds and its twelve component theorems in Properties/C15.v are proved for every history (any length, any number of names "
         "and denominations, plain and interval API, stale AccumulatorObjects where the code tolerates them), axiom-free; statements are about calls "
         "that return (a panicking call - LegacyDec overflow, negative DecCoins.Sub - is a transaction abort with no effect); absence of such panics "
         "is not claimed")
EXPLANATION = ("Gallina model C15/Model.v of osmoutils/accum (all exported methods, receiver object separate from the store so that the re-read of "
               "total shares matters) and of the DecCoins/Coins operations it calls (safeAdd merge, Sub with its negativity panic, MulDec half-even, "
               "TruncateDecimal, range assertions). Ghost spec C15/Spec.v defined on the call history alone: intervals of constant shares, "
               "claimable = sum MulDec(growth in interval, shares) + added. Two invariants by induction over histories (records mirror liveness/"
               "shares, total = sum; value = total growth, record = (reference point, settled rewards)), from which: ClaimRewards pays trunc(claimable) "
               "with the fractional part as dust, DeletePosition pays claimable, claims frame everything else, zero-share claims and deletions remove "
               "the record, error <=> the call is one the property lists and then nothing changes, |claimable - exact rational| <= 1/2 ulp per interval. "
               "The model is tied to /repo by running harness/c15drv (real package over an IAVL store) on generated histories and comparing, after "
               "every call, the return value / error enum, the handle's and a fresh handle's value and total shares, and every name's record; an "
               "independent exact-rational oracle replays growth x shares from the property text.")
TRUSTED = [
    "hand-written model coq/theories/C15/Model.v (osmoutils/accum + the sdk.DecCoins/Coins operations it calls), tied to /repo by the correspondence run (harness/c15drv)",
    "harness/c15drv (Go), props/c15.py (generator, flattening, oracle), Coq vm_compute evaluation of generated case files",
    "modelled not verified: KVStore get/set/delete and the protobuf round trip of AccumulatorContent/Record (identity on in-range decimals); a panicking call aborts the transaction (writes discarded)",
]
ASSUMPTIONS = [
    "caller-supplied DecCoins are sorted by denomination without duplicates (the SDK's own contract for DecCoins.Add); caller-supplied decimals are in LegacyDec's valid range",
    "each position name is created at most once while it exists; the AccumulatorObject used holds the accumulator's current value (and current total shares for AddToAccumulator / DeletePosition)",
]
TECHNIQUE = "Coq proof by induction over operation histories on a Gallina model of osmoutils/accum; model tied to the Go package by differential correspondence (vm_compute) + exact-rational oracle"
LEVEL_TEXT = ("Machine-checked theorems (Coq 8.16.1, axiom-free) over all finite histories of the accumulator API: total shares = sum of position "
              "shares; records exist exactly for live names with the history's share counts; ClaimRewards/DeletePosition pay (the truncation of) the "
              "history-defined claimable amount, which is within 1/2*10^-18 per interval of the exact rational growth x shares; a claim changes only the "
              "claimer; deletions and zero-share claims remove the record; exactly the listed invalid calls return an error and then nothing changes. "
              "The hand-written model is checked against the real Go package on ~2000 generated histories per run (every observable after every call) "
              "and an independent Fraction oracle evaluates the property's own predicates on the implementation's outputs.")
LEVEL_NOTE = ("Trusted: Coq kernel (vm_compute), no axioms; hand-written model C15/Model.v (incl. its reading of the SDK's DecCoins/LegacyDec code and "
              "the identity protobuf round trip); Go driver and python glue; observation lists are compared through a 512-bit polynomial digest. "
              "Panics are modelled as transaction aborts; their absence is not proved. Known finding C15-F1: position keys of different accumulators "
              "can collide when names contain '|' next to the separator - the model keeps accumulators apart by construction.")
