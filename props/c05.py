"""C05 - swap router: multi-hop = composition, estimate = execution, split = sum, limits.
Case generator, Coq case writer (table-driven pools), oracle."""
import json
import sys

from lib import common
from lib.common import Rng, Outcome, zlit, zlist

PROP = "C05"
GO_PKGS = [("routerdrv", True)]
MODEL_VO = ["theories/C05/Corr.vo"]
ALLOWED_AXIOMS = []

DENOMS = ["uosmo", "foo", "bar", "baz", "eth", "usdc"]
ND = len(DENOMS)
HUGE = 1 << 200
P18 = 10 ** 18


# ---------------------------------------------------------------------------------------------
# generator
# ---------------------------------------------------------------------------------------------
def gen_pools(r):
    npools = r.range(3, 6)
    pools = []
    for i in range(npools):
        t = r.choice(["bal", "bal", "ss", "cl", "cl"]) if i >= 3 else ["bal", "ss", "cl"][i]
        if t == "bal":
            n = r.choice([2, 2, 3, 4])
            ds = pick_denoms(r, n)
            mag = r.choice([10 ** 6, 10 ** 8, 10 ** 10, 10 ** 12])
            pools.append({"t": "bal", "d": ds, "amt": [str(r.range(mag, 20 * mag)) for _ in ds],
                          "w": [r.choice([1, 1, 2, 3, 10, 50, r.range(1, 1000)]) for _ in ds],
                          "spread": r.choice(["0", "0.001", "0.003", "0.01", "0.0025", "0.000123"])})
        elif t == "ss":
            n = r.choice([2, 2, 3])
            ds = pick_denoms(r, n)
            mag = r.choice([10 ** 7, 10 ** 9, 10 ** 10])
            sf = [1] * n if r.chance(2, 3) else [r.choice([1, 2, 10]) for _ in ds]
            pools.append({"t": "ss", "d": ds, "amt": [str(r.range(mag, 2 * mag) * f) for f in sf], "sf": sf,
                          "spread": r.choice(["0", "0.0003", "0.001", "0.003"])})
        else:
            ds = pick_denoms(r, 2)
            mag = r.choice([10 ** 8, 10 ** 10, 10 ** 12])
            pos = []
            for _ in range(r.range(0, 2)):
                pos.append({"lo": -r.range(1, 9) * 1000000, "hi": r.range(1, 9) * 1000000,
                            "a0": str(r.range(mag // 10, mag)), "a1": str(r.range(mag // 10, mag))})
            pools.append({"t": "cl", "d": ds, "amt": [str(r.range(mag, 4 * mag)), str(r.range(mag, 4 * mag))],
                          "spread": r.choice(["0", "0.0001", "0.0005", "0.001", "0.002", "0.003", "0.005"]),
                          "ts": r.choice([1, 10, 100, 1000]), "pos": pos})
    return pools


def pick_denoms(r, n):
    ds = list(range(ND))
    out = []
    for _ in range(n):
        out.append(ds.pop(r.below(len(ds))))
    return out


def reserve(pool, d):
    return int(pool["amt"][pool["d"].index(d)])


def walk(r, pools, nh, start, distinct, end=None):
    """random walk of nh hops: returns (denoms d0..dn, pool indices) or None"""
    for _ in range(40):
        ds, ps = [start], []
        ok = True
        for h in range(nh):
            cands = [(i, d) for i, p in enumerate(pools) if ds[-1] in p["d"] and not (distinct and i in ps)
                     for d in p["d"] if d != ds[-1]]
            if end is not None and h == nh - 1:
                cands = [c for c in cands if c[1] == end]
            if not cands:
                ok = False
                break
            i, d = r.choice(cands)
            ps.append(i)
            ds.append(d)
        if ok:
            return ds, ps
    return None


def route_base(pools, ds, ps):
    """smallest reserve met along a walk (so that most generated trades are executable on every hop)"""
    return min(min(reserve(pools[p], ds[i]), reserve(pools[p], ds[i + 1])) for i, p in enumerate(ps))


def gen_amount(r, base):
    x = r.below(100)
    if x < 4:
        return r.range(1, 10)
    if x < 6:
        return base * r.range(2, 10)
    if x < 8:
        return base - r.range(0, 2)
    e = r.range(1, 6)
    return max(1, base * r.range(1, 99) // (10 ** e * 2))


def gen_limit(r, run, exact_in):
    x = r.below(100)
    if x < 25:
        run["lim"] = "1" if exact_in else str(HUGE)
    elif x < 70:
        run["lim_num"], run["lim_den"] = 1, 1
        run["lim_add"] = r.choice([0, 0, 1, -1, 2, -2, 5, -5, r.range(-300, 300)])
    else:
        run["lim_num"], run["lim_den"] = r.choice([(99, 100), (101, 100), (1, 2), (2, 1), (999, 1000), (1001, 1000), (9, 10), (11, 10)])
        run["lim_add"] = 0


def gen_case(r, tier):
    pools = gen_pools(r)
    c = {"denoms": DENOMS, "pools": pools, "prior": [], "fee_default": "0", "fee_pairs": [], "wl": r.chance(1, 8)}
    for _ in range(r.range(0, 5)):
        p = r.below(len(pools))
        din, dout = pick2(r, pools[p]["d"])
        c["prior"].append({"p": p, "in": din, "out": dout, "amt": str(max(1, reserve(pools[p], din) * r.range(1, 50) // 1000))})
    kind = r.choice(["in"] * 7 + ["out"] * 7 + ["split_in"] * 3 + ["split_out"] * 3)
    distinct = not r.chance(1, 7)
    run = None
    for _ in range(30):
        nh = r.choice([1, 1, 2, 2, 3, 3, 4])
        w = walk(r, pools, nh, r.below(ND), distinct)
        if not w:
            continue
        ds, ps = w
        if kind == "in":
            run = {"k": "in", "route": [{"p": ps[i], "d": ds[i + 1]} for i in range(nh)], "d": ds[0],
                   "amt": str(gen_amount(r, route_base(pools, ds, ps)))}
        elif kind == "out":
            run = {"k": "out", "route": [{"p": ps[i], "d": ds[i]} for i in range(nh)], "d": ds[-1],
                   "amt": str(gen_amount(r, route_base(pools, ds, ps)))}
        else:
            legs, seen = [], set()
            for _k in range(r.range(2, 3)):
                for _t in range(10):
                    w2 = walk(r, pools, r.choice([1, 2, 2, 3]), ds[0], distinct, end=ds[-1])
                    if w2 and (tuple(w2[0]), tuple(w2[1])) not in seen:
                        seen.add((tuple(w2[0]), tuple(w2[1])))
                        d2, p2 = w2
                        if kind == "split_in":
                            legs.append({"route": [{"p": p2[i], "d": d2[i + 1]} for i in range(len(p2))],
                                         "amt": str(gen_amount(r, route_base(pools, d2, p2)))})
                        else:
                            legs.append({"route": [{"p": p2[i], "d": d2[i]} for i in range(len(p2))],
                                         "amt": str(gen_amount(r, route_base(pools, d2, p2)))})
                        break
            if len(legs) < 2 and not r.chance(1, 4):
                continue
            if not legs:
                continue
            run = {"k": kind, "legs": legs, "d": ds[0] if kind == "split_in" else ds[-1]}
        break
    if run is None:
        p0 = pools[0]
        run = {"k": "in", "route": [{"p": 0, "d": p0["d"][1]}], "d": p0["d"][0], "amt": "1000"}
    exact_in = run["k"] in ("in", "split_in")
    gen_limit(r, run, exact_in)
    # taker fees: 3 settings (all zero / default only / default + per-pair overrides on the route's own pairs)
    mode = r.below(3)
    if mode >= 1:
        c["fee_default"] = r.choice(["0.001", "0.0015", "0.01", "0.0005", "0.1"])
    if mode == 2:
        pairs = route_pairs(run)
        for _ in range(r.range(1, 4)):
            a, b = r.choice(pairs) if pairs and r.chance(4, 5) else tuple(pick2(r, list(range(ND))))
            if r.chance(1, 3):
                a, b = b, a
            c["fee_pairs"].append([str(a), str(b), r.choice(["0", "0.0025", "0.02", "0.000001", "0.5", "0.003333333333333333"])])
    # taker-fee share agreements on some of the route's denoms (TakerFeeSkim fails a swap when they add up to > 100 %)
    c["skim"] = []
    if r.chance(1, 5):
        ds = sorted(set([a for a, _ in route_pairs(run)] + [b for _, b in route_pairs(run)]))
        for d in ds:
            if r.chance(1, 2):
                c["skim"].append([str(d), r.choice(["0.1", "0.3", "0.6", "0.5", "1", "0", "0.45"])])
    # funds: rich, except a small under-funded stream (with loose limits, so that only one check can fail)
    funds = [10 ** 30] * ND
    if r.chance(1, 12):
        for k in ("lim_num", "lim_den", "lim_add"):
            run.pop(k, None)
        run["lim"] = "1" if exact_in else str(HUGE)
        d_first = run["d"] if exact_in else (run["route"][0]["d"] if "route" in run else run["legs"][0]["route"][0]["d"])
        base = int(run.get("amt", "0") or 0) if exact_in and "amt" in run else 10 ** 6
        funds[d_first] = r.choice([0, max(0, base - 1), base // 2, base, base + 1])
        if r.chance(1, 2) and "route" in run and len(run["route"]) > 1:
            funds = [r.choice([0, 10, 10 ** 30]) if i != d_first else funds[i] for i in range(ND)]
    c["funds"] = [str(x) for x in funds]
    c["run"] = run
    # malformed stream
    if r.chance(1, 14):
        m = r.below(8)
        rt = run.get("route")
        if m == 0 and rt is not None:
            run["route"] = []
        elif m == 1 and rt:
            rt[r.below(len(rt))]["p"] = 99
        elif m == 2 and rt:
            i = r.below(len(rt))
            rt[i]["d"] = run["d"] if (exact_in and i == 0) or (not exact_in and i == len(rt) - 1) else rt[i]["d"]
        elif m == 3 and "amt" in run:
            run["amt"] = "0"
        elif m == 4:
            for k in ("lim_num", "lim_den", "lim_add"):
                run.pop(k, None)
            run["lim"] = "0"
        elif m == 5 and rt:
            rt[r.below(len(rt))]["d"] = r.below(ND)
        elif m == 6 and "legs" in run:
            run["legs"].append(json.loads(json.dumps(run["legs"][0])))
        elif m == 7 and "legs" in run:
            lg = run["legs"][-1]["route"]
            if exact_in:
                lg[-1]["d"] = (lg[-1]["d"] + 1) % ND
            else:
                lg[0]["d"] = (lg[0]["d"] + 1) % ND
    return c


def pick2(r, ds):
    a = r.choice(ds)
    b = r.choice([d for d in ds if d != a])
    return a, b


def route_pairs(run):
    """ordered (denom in, denom out) pairs of the hops of a run"""
    out = []

    def one(route, d, exact_in):
        if exact_in:
            cur = d
            for h in route:
                out.append((cur, h["d"]))
                cur = h["d"]
        else:
            for i, h in enumerate(route):
                nxt = route[i + 1]["d"] if i + 1 < len(route) else d
                out.append((h["d"], nxt))
    exact_in = run["k"] in ("in", "split_in")
    if "route" in run:
        one(run["route"], run["d"], exact_in)
    for lg in run.get("legs", []):
        one(lg["route"], run["d"], exact_in)
    return out


# ---------------------------------------------------------------------------------------------
# Coq case writer
# ---------------------------------------------------------------------------------------------
def zi(s):
    return int(s) if s not in ("", None) else 0


def coq_route(route):
    return "[" + "; ".join("(%s, %s)" % (zlit(h["p"]), zlit(h["d"])) for h in route) + "]"


def coq_legs(legs):
    return "[" + "; ".join("(%s, %s)" % (coq_route(l["route"]), zlit(zi(l["amt"]))) for l in legs) + "]"


def coq_op(o):
    k = o["k"]
    t = "(Trader 0)"
    if k == "in":
        return "OMsg (MSwapIn %s %s %s %s %s)" % (t, coq_route(o.get("route", [])), zlit(o["d"]), zlit(zi(o["amt"])), zlit(zi(o["lim"])))
    if k == "out":
        return "OMsg (MSwapOut %s %s %s %s %s)" % (t, coq_route(o.get("route", [])), zlit(zi(o["lim"])), zlit(o["d"]), zlit(zi(o["amt"])))
    if k == "split_in":
        return "OMsg (MSplitIn %s %s %s %s)" % (t, coq_legs(o.get("legs", [])), zlit(o["d"]), zlit(zi(o["lim"])))
    if k == "split_out":
        return "OMsg (MSplitOut %s %s %s %s)" % (t, coq_legs(o.get("legs", [])), zlit(o["d"]), zlit(zi(o["lim"])))
    if k == "est_in":
        return "OEstIn %s %s %s" % (coq_route(o.get("route", [])), zlit(o["d"]), zlit(zi(o["amt"])))
    if k == "est_out":
        return "OEstOut %s %s %s" % (coq_route(o.get("route", [])), zlit(o["d"]), zlit(zi(o["amt"])))
    raise ValueError(k)


def table_of(log):
    """the pool-interface calls of one sub-run -> table entries (op, pool, n, x, amt, y, spread, ok, r1, r2)"""
    cnt = {}
    out = []
    for e in log:
        n = cnt.get(e["pool"], 0)
        if e["op"] in ("si", "so"):
            ok = e["perr"] == 0
            out.append((0 if e["op"] == "si" else 1, e["pool"], n, e["x"], zi(e["amt"]), e["y"], zi(e["spread"]), ok,
                        zi(e["p1"]) if ok else 0, zi(e["p2"]) if ok else 0))
            if e["err"] == 0:
                cnt[e["pool"]] = n + 1
        else:
            ok = e["err"] == 0
            out.append((2 if e["op"] == "co" else 3, e["pool"], n, e["x"], zi(e["amt"]), e["y"], zi(e["spread"]), ok,
                        zi(e["r1"]) if ok else 0, 0))
    return out


def expect_of(sr):
    flat = []
    for o in sr["ops"]:
        flat += [o["err"], zi(o["res"]) if o["err"] == 0 else 0]
    flat.append(-1)
    for row in sr["bal1"]:
        flat += [int(x) for x in row]
    return flat


def coq_case(c, obs, sr, expect=None):
    tbl = "[" + ";\n     ".join("mkTE %s %s %s %s %s %s %s %s %s %s" % (zlit(a), zlit(b), zlit(n), zlit(x), zlit(amt), zlit(y), zlit(sp),
                                                                   "true" if ok else "false", zlit(r1), zlit(r2))
                                for (a, b, n, x, amt, y, sp, ok, r1, r2) in table_of(sr["log"])) + "]"
    bal0 = "[" + "; ".join(zlist(row) for row in sr["bal0"]) + "]"
    ops = "[" + ";\n     ".join(coq_op(o) for o in sr["ops"]) + "]"
    return "mkCase %d %s %s %s %s\n    %s\n    %s\n    %s\n    %s" % (
        ND, zlist(obs["spreads"]), zlist(obs["fees"]), "true" if c["wl"] else "false", zlist(obs["skims"]), bal0, tbl, ops,
        zlist(expect if expect is not None else expect_of(sr)))


# ---------------------------------------------------------------------------------------------
# oracle: the property's own predicates on the implementation's observations
# ---------------------------------------------------------------------------------------------
def fee_of(obs, a, b):
    return int(obs["fees"][a * ND + b])


def oracle(c, obs):
    v = []
    runs = {sr["name"]: sr for sr in obs["runs"]}
    run = c["run"]
    kind = run["k"]
    ex, comp, est = runs.get("exec"), runs.get("comp"), runs.get("est")
    if ex is None or not ex["ops"]:
        return v
    E = ex["ops"][0]
    lim = zi(E["lim"])
    exact_in = kind in ("in", "split_in")
    pairs = route_pairs(run)
    fees_zero = all(fee_of(obs, a, b) == 0 for a, b in pairs)
    charged = (not c["wl"]) and not fees_zero          # does the trader pay a taker fee somewhere on the route?
    feecls = "nonzero" if charged else "zero"

    rd = set([a for a, _ in pairs] + [b for _, b in pairs])
    skim_total = sum(int(obs["skims"][d]) for d in rd if int(obs["skims"][d]) >= 0)
    cause = "share_agreements_over_100" if skim_total > P18 else "other"

    def viol(k, what, **kw):
        rec = {"kind": k, "mode": kind, "taker_fee": feecls, "sender_whitelisted": "true" if c["wl"] else "false",
               "route_taker_fee": "zero" if fees_zero else "nonzero", "cause": cause}
        rec.update(kw)
        v.append({"what": what, "rec": rec})
    # ---- limits: respected, or the whole swap fails without any balance change
    if E["err"] == 0:
        res = zi(E["res"])
        if exact_in and res < lim:
            viol("min_out", "swap succeeded with token out %d below the caller's minimum %d" % (res, lim))
        if not exact_in and res > lim:
            viol("max_in_exceeded", "swap succeeded charging token in %d above the caller's maximum %d (taker fee on the route: %s)" % (res, lim, feecls))
    else:
        if ex["bal1"] != ex["bal0"]:
            viol("partial_failure", "a failed swap changed balances")
    # ---- composition / split = sum of legs: same result and the same balance of every account, bit for bit
    if comp is not None:
        cops = comp["ops"]
        msgs = [o for o in cops if o["k"] in ("in", "out")]
        nmsg = len(run.get("route", [])) if kind in ("in", "out") else len(run.get("legs", []))
        all_ok = nmsg > 0 and all(o["err"] == 0 for o in cops) and len(msgs) == nmsg
        if kind in ("in", "out"):
            rp = [h["p"] for h in run.get("route", [])]
            if kind == "out" and E["err"] != 0 and len(set(rp)) != len(rp):
                pass    # exact-out over a repeated pool: the router's internal per-hop maxima (computed on the initial state) may
                        # stop a trade whose hops succeed one by one; only "routed ok => hop-by-hop ok and equal" is claimed
            elif (E["err"] == 0) != all_ok:
                viol("composition", "routed swap %s but the hop-by-hop sequence %s" % ("succeeded" if E["err"] == 0 else "failed", "succeeded" if all_ok else "failed"))
            elif all_ok:
                r2 = zi(msgs[-1]["res"]) if kind == "in" else zi(msgs[0]["res"])
                if r2 != zi(E["res"]):
                    viol("composition", "routed result %s differs from hop-by-hop result %d" % (E["res"], r2))
                if comp["bal1"] != ex["bal1"]:
                    viol("composition", "balances after the routed swap differ from the balances after the hop-by-hop sequence")
        elif valid_split(run):
            tot = sum(zi(o["res"]) for o in msgs) if all_ok else None
            expect_ok = all_ok and lim >= 1 and tot > 0 and (tot >= lim if exact_in else tot <= lim)
            if (E["err"] == 0) != expect_ok:
                viol("split", "split route %s but its legs give %s (total %s, limit %d)" % ("succeeded" if E["err"] == 0 else "failed", "ok" if all_ok else "an error", tot, lim))
            elif expect_ok:
                if tot != zi(E["res"]):
                    viol("split", "split result %s differs from the sum of its legs %d" % (E["res"], tot))
                if comp["bal1"] != ex["bal1"]:
                    viol("split", "balances after the split swap differ from the balances after its legs")
    # ---- estimates: never change state; equal the execution whenever it succeeds (each pool visited at most once).
    #      (for a whitelisted sender with a taker fee on the route this fails: known finding C05-F2)
    for sr in obs["runs"]:
        for o in sr["ops"]:
            if o["k"].startswith("est") and o["pure"] != 1:
                viol("estimate_mutates", "an estimate query changed the state")
    if est is not None and E["err"] == 0:
        if kind in ("in", "out"):
            ps = [h["p"] for h in run["route"]]
            if kind == "out" or len(set(ps)) == len(ps):
                e0 = est["ops"][0]
                if e0["err"] != 0 or zi(e0["res"]) != zi(E["res"]):
                    viol("estimate", "swap executed with %s but the estimate on the same state gave %s" % (E["res"], e0["res"] if e0["err"] == 0 else "an error"))
        elif comp is not None:
            ps = [h["p"] for l in run["legs"] for h in l["route"]]
            if len(set(ps)) == len(ps):
                for e0, m in zip(est["ops"], comp["ops"]):
                    if e0["err"] != 0 or zi(e0["res"]) != zi(m["res"]):
                        viol("estimate", "leg executed with %s but its estimate gave %s" % (m["res"], e0["res"] if e0["err"] == 0 else "an error"))
    return v


def valid_split(run):
    """a split message the router accepts at all (types/routes.go): legs non-empty, adjacent legs different, same end denom"""
    legs = run.get("legs", [])
    if not legs or any(not l["route"] for l in legs):
        return False
    keys = [json.dumps(l["route"], sort_keys=True) for l in legs]
    if any(a == b for a, b in zip(keys, keys[1:])):      # the code only rejects ADJACENT duplicate legs
        return False
    ends = set((l["route"][-1]["d"] if run["k"] == "split_in" else l["route"][0]["d"]) for l in legs)
    return len(ends) == 1


def law_notes(obs):
    """the Section hypotheses measured on the real pools: a swap that succeeded gave what its limit-free probe gave;
    an estimate-run calc on the untouched pool equals the first swap on it with the same arguments"""
    bad = 0
    runs = {sr["name"]: sr for sr in obs["runs"]}
    calc = {}
    if "est" in runs:
        for e in runs["est"]["log"]:
            calc[(e["op"], e["pool"], e["x"], e["amt"], e["y"], e["spread"])] = e
    for sr in obs["runs"]:
        seen = set()
        for e in sr["log"]:
            if e["op"] in ("si", "so"):
                if e["err"] == 0 and (e["perr"] != 0 or e["r1"] != e["p1"] or e["r2"] != e["p2"]):
                    bad += 1
                if e["pool"] not in seen and e["err"] == 0:
                    k = ("co" if e["op"] == "si" else "ci", e["pool"], e["x"], e["amt"], e["y"], e["spread"])
                    if k in calc and (calc[k]["err"] != 0 or calc[k]["r1"] != (e["r2"] if e["op"] == "si" else e["r1"])):
                        bad += 1
                if e["err"] == 0:
                    seen.add(e["pool"])
    return bad


# ---------------------------------------------------------------------------------------------
def run_cases(cases, model_ok, out, tag, selftest=False):
    binary = common.go_build("routerdrv", test=True)
    obs = common.run_driver(binary, cases, args="-test.run ^TestDriver$", shards=12)
    items = []      # (case index, sub-run name, coq text)
    laws_bad = 0
    for ci, (c, o) in enumerate(zip(cases, obs)):
        out.evaluations += 1
        if o.get("fatal"):
            out.oracle_violations.append({"what": "driver: " + o["fatal"], "rec": {"kind": "driver_fatal"}, "case": c})
            continue
        for vv in oracle(c, o):
            vv["case"] = c
            vv["impl"] = {"runs": [{"name": sr["name"], "ops": sr["ops"]} for sr in o["runs"]]}
            out.oracle_violations.append(vv)
        laws_bad += law_notes(o)
        ex = [sr for sr in o["runs"] if sr["name"] == "exec"]
        if ex and ex[0]["ops"] and ex[0]["ops"][0]["err"] == 0:
            out.nontrivial.add(json.dumps(c, sort_keys=True))
        for sr in o["runs"]:
            items.append((ci, sr["name"], coq_case(c, o, sr)))
    out.traces += len(items)
    if laws_bad:
        out.notes.append("pool-interface laws (calc = swap, probe = swap) failed on %d logged calls of the real pools" % laws_bad)
    if not model_ok:
        out.model_ran = False
        return obs
    per_file = 24
    files = []
    for fi in range(0, len(items), per_file):
        chunk = items[fi:fi + per_file]
        body = ";\n  ".join(t for (_, _, t) in chunk)
        files.append(("C05_%s_%d" % (tag, fi // per_file), coq_file(body)))
    if selftest and items:
        # machinery self-check: a perturbed expectation must be rejected by case_ok
        ci, name, _ = items[0]
        sr = [s for s in obs[ci]["runs"] if s["name"] == name][0]
        exp = expect_of(sr)
        exp[-1] += 1
        files.append(("C05_%s_selftest" % tag, coq_file(coq_case(cases[ci], obs[ci], sr, expect=exp))))
    res = common.coq_eval_many([(n, v) for n, v in files])
    for k, ((name, _), (rc, txt)) in enumerate(zip(files, res)):
        mm = common.parse_nat_list(txt)
        if name.endswith("_selftest"):
            if rc != 0 or mm != [0]:
                out.mismatches.append({"what": "self-check failed: case_ok accepted a perturbed expectation (%s)" % txt[-300:], "case": None})
            else:
                out.notes.append("self-check: case_ok rejects a perturbed expectation")
            continue
        if rc != 0 or mm is None:
            out.mismatches.append({"what": "model evaluation failed: " + txt[-600:], "case": None})
            continue
        chunk = items[k * per_file:(k + 1) * per_file]
        for idx in mm:
            ci, sname, _ = chunk[idx]
            out.mismatches.append({"what": "C05 router model (table-driven pools) differs from the implementation on sub-run '%s'" % sname,
                                   "case": cases[ci], "subrun": sname})
    return obs


def coq_file(body):
    return ("From Coq Require Import ZArith List. Import ListNotations.\n"
            "From Osmo Require Import Base.Obs C05.Model C05.Corr.\nOpen Scope Z_scope.\n"
            "Definition cases : list case := [\n  %s ].\n"
            "Definition M := Eval vm_compute in mismatches case_ok cases.\nPrint M.\n" % body)


def oracle_selftest(cases, obs, out):
    """the oracle must flag a hand-perturbed observation"""
    for c, o in zip(cases, obs):
        if o.get("fatal"):
            continue
        ex = [sr for sr in o["runs"] if sr["name"] == "exec"]
        if ex and ex[0]["ops"] and ex[0]["ops"][0]["err"] == 0 and not oracle(c, o):
            o2 = json.loads(json.dumps(o))
            e2 = [sr for sr in o2["runs"] if sr["name"] == "exec"][0]
            e2["ops"][0]["res"] = str(int(e2["ops"][0]["res"]) + 1)
            o3 = json.loads(json.dumps(o))
            e3 = [sr for sr in o3["runs"] if sr["name"] == "exec"][0]
            e3["bal1"][0][0] = str(int(e3["bal1"][0][0]) + 1)
            if oracle(c, o2) and oracle(c, o3):
                out.notes.append("self-check: the oracle flags a perturbed result and a perturbed balance")
            else:
                out.mismatches.append({"what": "self-check failed: the oracle accepted a perturbed observation", "case": c})
            return


def correspond(tier, seed, model_ok):
    out = Outcome()
    r = Rng(seed)
    n = 300 if tier == "quick" else 6000
    cases = [gen_case(r.fork(i), tier) for i in range(n)]
    corpus = common.load_corpus(PROP)
    obs = run_cases(corpus + cases, model_ok, out, "q", selftest=True)
    oracle_selftest(corpus + cases, obs, out)
    out.rule = ("case = 3-6 pools (balancer 2-4 assets / stableswap 2-3 / concentrated with extra positions), 0-5 prior swaps, one of 3 taker-fee "
                "settings (zero / default / default + per-pair overrides on the route), optional whitelist, one routed trade (exact-in, exact-out, "
                "split-in, split-out; 1-4 hops; limits loose / estimate+-k / estimate*ratio) run as estimate, routed message, hop-by-hop messages; "
                "non-trivial = the routed message executed successfully; distinct = distinct case JSON")
    out.samples = [{"pools": [(p["t"], p["d"]) for p in c["pools"]], "fee_default": c["fee_default"], "fee_pairs": c["fee_pairs"], "wl": c["wl"], "run": c["run"]}
                   for c in cases[:4]]
    kinds, hops, errs, ptypes = {}, {}, {}, {}
    for c, o in zip(corpus + cases, obs):
        k = c["run"]["k"]
        kinds[k] = kinds.get(k, 0) + 1
        nh = len(c["run"].get("route", [])) if "route" in c["run"] else sum(len(l["route"]) for l in c["run"].get("legs", []))
        hops[str(nh)] = hops.get(str(nh), 0) + 1
        if not o.get("fatal"):
            for sr in o["runs"]:
                if sr["name"] == "exec" and sr["ops"]:
                    e = str(sr["ops"][0]["err"])
                    errs[e] = errs.get(e, 0) + 1
                    for l in sr["log"]:
                        if l["op"] in ("si", "so") and 0 <= l["pool"] < len(c["pools"]):
                            t = c["pools"][l["pool"]]["t"]
                            ptypes[t] = ptypes.get(t, 0) + 1
    out.distribution = {"run_kinds": kinds, "total_hops_hist": hops, "exec_result(0 ok,1 limit,2 other)": errs, "pool_types_swapped": ptypes,
                        "whitelisted": sum(1 for c in cases if c["wl"]), "fee_settings": {"zero": sum(1 for c in cases if c["fee_default"] == "0" and not c["fee_pairs"]),
                                                                                          "default_only": sum(1 for c in cases if c["fee_default"] != "0" and not c["fee_pairs"]),
                                                                                          "with_pairs": sum(1 for c in cases if c["fee_pairs"])},
                        "corpus_cases": len(corpus)}
    return out


def search(tier, seed, out):
    o2 = Outcome()
    r = Rng(seed + 7919)
    cases = [gen_case(r.fork(i), "thorough") for i in range(1500)]
    for m in out.mismatches[:20]:
        if m.get("case"):
            cases.append(m["case"])
    run_cases(cases, False, o2, "s")
    findings = common.load_findings(PROP)
    for v in o2.oracle_violations:
        if not common.match_finding(findings, v.get("rec", {})):
            return v
    return None


def replay(path):
    d = json.load(open(path))
    body = d.get("case")
    c = body.get("case") if isinstance(body, dict) else None
    if not c:
        print("replay names a proof obligation / correspondence, not an input:", d.get("what"))
        return 1
    out = Outcome()
    run_cases([c], True, out, "r")
    for v in out.oracle_violations:
        print("oracle:", v["what"], v.get("impl"))
    for m in out.mismatches:
        print("mismatch:", m["what"])
    return 1 if (out.oracle_violations or out.mismatches) else 0


SCOPE = ("proved for every pool interface (parametric model, axiom-free): route_in = fold of (taker fee, pool swap) and = first-hop message then rest-of-route "
         "message; route_out = backward pre-computation then fold of (pool swap-out with per-hop maximum, taker fee on top) and = first-hop message then rest-of-route message; "
         "taker fee exactly rounded (floor / exact ceiling); split = sum of legs (iff); "
         "limits for all four messages (out >= min, in <= max incl. taker fee, else Err with state unchanged); estimates leave the state unchanged; "
         "estimate = execution for exact-in routes visiting each pool at most once and for ALL exact-out routes - for senders that pay the listed taker fee "
         "(`_partial`); REFUTED for senders on the reduced-fee whitelist under a non-zero taker fee (open finding C05-F2) and, as documented, for repeated pools; "
         "message-level composition carries the TakerFeeSkim condition (share agreements of the route <= 100 %), refuted without it (open finding C05-F3). "
         "The two pool laws are hypotheses of the parametric theorems, proved for a concrete constant-product pool (C05/Instance.v) and measured on the real pools.")
EXPLANATION = ("Gallina model C05/Model.v of x/poolmanager router.go / taker_fee.go / msg_server.go / types/routes.go + the pool-module wrapper of x/gamm/keeper/swap.go, "
               "parametric in the pool math (PoolIface). Tie to /repo: harness/routerdrv runs the real router on a second poolmanager.Keeper (exported NewKeeper over the "
               "same stores) whose pool modules are recording proxies; the Coq router is run with a table-driven pool replaying the logged pool answers, and its results, "
               "error classes and every bank balance (trader, pools, taker-fee collector, community pool) are compared with the implementation for the estimate, the routed "
               "message and the hop-by-hop messages of every case. The Python oracle checks execution = composition = estimate, split = sum, limits-or-whole-failure on the "
               "implementation's observations only.")
TRUSTED = [
    "hand-written model coq/theories/C05/Model.v, tied to x/poolmanager + x/gamm/keeper/swap.go by the correspondence run (harness/routerdrv against /repo's working tree)",
    "harness/routerdrv (Go: recording proxies, probes on throw-away branches), props/c05.py (generator, table construction, oracle), Coq vm_compute evaluation of generated case files",
    "modelled not verified: SDK bank keeper (send = subtract then add, insufficient funds, invalid non-positive coin sets), CacheContext atomicity of messages (DESIGN 1.5)",
    "not modelled: trackVolume, the accumulators bumped by TakerFeeSkim (its validation of the route's share agreements IS modelled; registered alloyed-asset pools assumed absent), events, gas, cosmwasm pools/hooks",
]
ASSUMPTIONS = [
    "the pool math reads only the pool's own record (not bank balances) - true of balancer, stableswap and concentrated pools",
    "amounts stay far below 2^256 (no Int / LegacyDec overflow panics); taker fees in [0, 1)",
    "the two pool-interface laws (calc = fst of swap, calc leaves the pool unchanged) for the estimate theorems: proved for the constant-product instance, measured on the real pools on every run (reported in notes when they fail)",
]
TECHNIQUE = "Coq proofs over a router model parametric in a pool interface; model tied to the real router by differential correspondence through a table-driven pool (vm_compute) + independent oracle"
LEVEL_TEXT = ("Machine-checked theorems (Coq 8.16.1, axiom-free) for all routes, amounts, taker-fee tables and pool interfaces: composition (exact-in and exact-out), split = sum, "
              "limits with atomic failure, estimate purity, estimate = execution (`_partial`: fee-paying senders; refuted for whitelisted senders = open finding C05-F2). "
              "The model is checked against the real x/poolmanager router on generated routes over real balancer / stableswap / concentrated pools on every run.")
LEVEL_NOTE = ("Trusted: Coq kernel (vm_compute, no native_compute), no axioms; hand-written model; Go driver + python glue; SDK bank / CacheContext semantics. "
              "The real pools' own math is outside C05 (C03/C04): it enters only through the logged pool answers.")

if __name__ == "__main__":
    # python3 -m props.c05 gen SEED  -> one generated case as JSON
    if len(sys.argv) >= 3 and sys.argv[1] == "gen":
        print(json.dumps(gen_case(Rng(int(sys.argv[2])), "quick")))
