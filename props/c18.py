"""C18 - minting follows the emission schedule and every minted coin is allocated:
case generator, Coq case writer, oracle (exact integers / Fractions, from the property text)."""
import json
from fractions import Fraction

from lib import common
from lib.common import Rng, Outcome, zlit, zlist

PROP = "C18"
GO_PKGS = [("c18drv", True)]
MODEL_VO = ["theories/C18/Corr.vo"]
ALLOWED_AXIOMS = []
P = 10 ** 18

F3_REC = {"fn": "mint.distributeDeveloperRewards", "kind": "supply_delta", "deficit_class": "lt_num_receivers"}
F9_REC = {"fn": "poolincentives.AllocateAsset", "kind": "hook_panic", "cause": "rounded_record_weights_over_allocate"}


# ---------------------------------------------------------------------------------------------
# generator
# ---------------------------------------------------------------------------------------------
def split_unit(r, n, positive):
    """n raw decimals on the 10^-18 grid summing to exactly 1 (each > 0 if positive)"""
    if n == 1:
        return [P]
    mode = r.below(5)
    if mode == 0:      # equal parts, remainder on the last
        q = P // n
        return [q] * (n - 1) + [P - q * (n - 1)]
    if mode == 1:      # coarse grid
        g = r.choice([10, 100, 1000, 10 ** 6])
        cuts = sorted(r.range(1 if positive else 0, g - 1) for _ in range(n - 1))
        parts = [b - a for a, b in zip([0] + cuts, cuts + [g])]
        if positive and min(parts) == 0:
            return split_unit(r, n, positive)
        return [p * (P // g) for p in parts]
    if mode == 2:      # a few ulps on some parts
        small = [r.range(1, 9) for _ in range(n - 1)]
        return small + [P - sum(small)]
    cuts = sorted(r.range(1, P - 1) for _ in range(n - 1))
    parts = [b - a for a, b in zip([0] + cuts, cuts + [P])]
    if positive and min(parts) == 0:
        return split_unit(r, n, positive)
    return parts


def gen_props(r):
    m = r.below(10)
    if m == 0:
        return [4 * P // 10, 3 * P // 10, 2 * P // 10, P // 10]
    if m == 1:      # osmosis mainnet
        return [25 * P // 100, 45 * P // 100, 25 * P // 100, 5 * P // 100]
    if m == 2:      # some proportions zero
        k = r.range(1, 3)
        nz = split_unit(r, 4 - k, True)
        out = [0] * 4
        idx = list(range(4))
        for _ in range(k):
            idx.pop(r.below(len(idx)))
        for i, v in zip(idx, nz):
            out[i] = v
        return out
    if m == 3:      # everything to one recipient
        out = [0] * 4
        out[r.below(4)] = P
        return out
    return split_unit(r, 4, False)


def gen_case(r, tier, force=None):
    props = gen_props(r)
    nrecv = r.choice([0, 0, 1, 2, 3, 3, 4, 5, 6, 7, 8])
    na = max(1, r.range(1, max(1, nrecv)))
    weights = split_unit(r, nrecv, True) if nrecv else []
    blocked = r.chance(1, 30)
    recv = []
    for i, w in enumerate(weights):
        if r.chance(1, 4):
            a = -1
        elif blocked and r.chance(1, 3):
            a = -2
        else:
            a = r.below(na)
        recv.append({"a": a, "w": str(w)})
    factor = r.choice([P // 2, P, 2 * P // 3, P - 1, 1, 9 * P // 10, r.range(1, P), r.range(1, P), 0 if r.chance(1, 4) else P // 2])
    period = r.range(1, 10)
    start = r.range(0, 5)
    # provisions: 1 .. 10^30, integers and non-integers, plus a few below 1
    pm = r.below(10)
    if pm == 0:
        prov = r.range(1, 10 ** 6) * P
    elif pm == 1:
        prov = r.range(0, 3 * P)                       # around / below one base unit
    elif pm == 2:
        prov = 10 ** r.range(0, 30) * P + r.range(-5, 5)  # a power of ten +- a few ulps
    else:
        e = r.range(0, 30)
        prov = r.range(10 ** e, 10 ** (e + 1)) * P // r.choice([1, 3, 7, 10, 1000]) + r.range(0, P - 1)
    prov = max(0, min(prov, 10 ** 30 * P))
    if r.chance(1, 10):
        # ties of the 18-decimal rounding in NextEpochProvisions: factor 1/2 (or 1/10) and a raw provision ending in an odd digit (or 5)
        if r.chance(2, 3):
            factor, prov = P // 2, (prov | 1)
        else:
            factor, prov = P // 10, prov - prov % 10 + 5
    ncalls = r.range(1, 40 if tier != "tiny" else 6)
    last = 0 if r.chance(4, 5) else r.range(0, 6)
    hist = r.below(10)
    if hist <= 6:
        e0 = r.range(0, start) if r.chance(3, 4) else r.range(-2, start + 1)
        calls = [{"e": e0 + i, "id": 0} for i in range(ncalls)]
    elif hist == 7:          # consecutive, with calls for another identifier in between
        e0 = r.range(0, start)
        calls = []
        for i in range(ncalls):
            if r.chance(1, 3):
                calls.append({"e": e0 + i, "id": 1})
            calls.append({"e": e0 + i, "id": 0})
    elif hist == 8:          # begins after the start epoch
        e0 = start + r.range(1, 12)
        calls = [{"e": e0 + i, "id": 0} for i in range(ncalls)]
    else:                    # gaps and repeats
        e = r.range(0, start + 1)
        calls = []
        for i in range(ncalls):
            calls.append({"e": e, "id": 0 if r.chance(9, 10) else 1})
            e += r.choice([0, 1, 1, 1, 2, r.range(1, 12)])
    # developer vesting balance: mostly sufficient (genesis funds it with 225e12), a few starved
    dev_share = (prov // P) * props[2] // P
    need = dev_share * len(calls)
    vm = r.below(12)
    if vm == 0:
        vest = dev_share * r.range(0, len(calls)) + r.range(0, max(dev_share - 1, 0))   # runs dry on the way
    elif vm == 1:
        vest = r.choice([0, 1, max(dev_share - 1, 0), dev_share])
    else:
        vest = max(225 * 10 ** 12, need + r.range(0, 10 ** 6))
    # pool-incentives distribution records
    dm = r.below(20)
    if dm < 5:
        distr = []
    elif dm < 13:
        distr = [{"g": 1, "w": str(r.choice([1, 100, r.range(1, 10 ** 6)]))}]
    elif dm < 15:
        distr = [{"g": 0, "w": str(r.range(1, 1000))}]
    else:
        gs = sorted(set(r.range(0, 4) for _ in range(r.range(2, 4))))
        distr = [{"g": g, "w": str(r.choice([1, 2, 3, 5, 7, r.range(1, 1000)]))} for g in gs]
    case = {"props": [str(x) for x in props], "factor": str(factor), "period": period, "start": start, "recv": recv,
            "prov": str(prov), "last": last, "vest": str(vest), "na": na, "distr": distr, "calls": calls}
    if r.chance(1, 10):      # the pool-incentives account already holds something (the hook distributes its whole balance)
        case["poolpre"] = str(r.choice([1, 7, r.range(1, 10 ** 6), r.range(1, 10 ** 20)]))
    return case


# the witness of Properties/C18.v supply_exact_refuted (finding F3), replayed on the implementation on every run
WITNESS = {"props": [str(4 * P // 10), str(3 * P // 10), str(2 * P // 10), str(P // 10)], "factor": str(P // 2), "period": 156, "start": 0,
           "recv": [{"a": 0, "w": "333333333333333333"}, {"a": 1, "w": "333333333333333333"}, {"a": 2, "w": "333333333333333334"}],
           "prov": str(10000037 * P // 10), "last": 0, "vest": str(225 * 10 ** 12), "na": 3, "distr": [],
           "calls": [{"e": e, "id": 0} for e in range(1, 5)]}


# the witness of C18/Liveness.v f9_witness (finding F9): three pool-incentives records 535/2/3, provisions 10^19
WITNESS_F9 = {"props": ["120000000000000000", "480000000000000000", "110000000000000000", "290000000000000000"], "factor": "900000000000000000",
              "period": 4, "start": 2, "recv": [], "prov": str(10 ** 19 * P), "last": 0, "vest": "4070000000000000000000000200350", "na": 1,
              "distr": [{"g": 1, "w": "535"}, {"g": 2, "w": "2"}, {"g": 4, "w": "3"}], "calls": [{"e": 2, "id": 0}, {"e": 3, "id": 0}]}


# ---------------------------------------------------------------------------------------------
# observation vectors
# ---------------------------------------------------------------------------------------------
def vec_len(c):
    return 11 + c["na"]


class V:
    """named view of one observation vector"""

    def __init__(self, c, v):
        na = c["na"]
        (self.mint, self.fee, self.pool, self.inc, self.distr, self.cpool, self.vest) = v[0:7]
        self.recv = v[7:7 + na]
        self.supply, self.offset, self.prov, self.last = v[7 + na:11 + na]


def parse_obs(c, o):
    init = [int(x) for x in o["init"]]
    steps = [[int(x) for x in s] for s in o["steps"]]
    return init, steps


def flat_expect(steps):
    out = []
    for s in steps:
        out.extend(s)
    return out


# ---------------------------------------------------------------------------------------------
# Coq case writer
# ---------------------------------------------------------------------------------------------
def coq_cfg(c):
    rs = []
    for rc in c["recv"]:
        a = "RAEmpty" if rc["a"] == -1 else ("RABlocked" if rc["a"] == -2 else "RAAddr %d%%nat" % rc["a"])
        rs.append("(%s, %s)" % (a, zlit(int(rc["w"]))))
    ds = ["(%s, %s)" % (zlit(d["g"]), zlit(int(d["w"]))) for d in c["distr"]]
    total = sum(int(d["w"]) for d in c["distr"])
    p = [int(x) for x in c["props"]]
    return "(mkConfig %s %s %s %s %s %s %s [%s] [%s] %s)" % (
        zlit(p[0]), zlit(p[1]), zlit(p[2]), zlit(p[3]), zlit(int(c["factor"])), zlit(c["period"]), zlit(c["start"]),
        "; ".join(rs), "; ".join(ds), zlit(total))


def coq_case(c, init, expect):
    calls = "[" + "; ".join("(%s, %s)" % ("true" if cl["id"] == 0 else "false", zlit(cl["e"])) for cl in c["calls"]) + "]"
    return "mkCase %s %d%%nat %s %s %s" % (coq_cfg(c), c["na"], zlist(init), calls, zlist(expect))


# ---------------------------------------------------------------------------------------------
# oracle: the property's own predicates on the implementation's observations
# ---------------------------------------------------------------------------------------------
def fl(x):
    """integer part of a non-negative Fraction"""
    return x.numerator // x.denominator


def over_allocates(distr, asset):
    """classification of finding F9 only: the sum over the records of trunc(asset * (weight/total to 18 decimals)) exceeds the asset"""
    total = sum(int(d["w"]) for d in distr)
    if len(distr) < 2 or total == 0 or asset == 0:
        return False
    s = 0
    for d in distr:
        q = (int(d["w"]) * P * P) // total
        lo, rem = divmod(q, P)
        if rem * 2 > P or (rem * 2 == P and lo % 2 == 1):
            lo += 1
        s += max(0, asset * lo // P)
    return s > asset


def oracle(c, init, steps):
    v = []

    def bad(kind, what, **extra):
        rec = {"fn": "mint.AfterEpochEnd", "kind": kind}
        rec.update(extra)
        v.append({"what": what, "rec": rec})

    ps, pp, pd, pc = [Fraction(int(x), P) for x in c["props"]]
    factor = Fraction(int(c["factor"]), P)
    period, start = c["period"], c["start"]
    ws = [(rc["a"], Fraction(int(rc["w"]), P)) for rc in c["recv"]]
    nrecv = len(ws)
    has_blocked = any(a == -2 for a, _ in ws)
    single_sink = len(c["distr"]) <= 1      # the whole pool-incentives share is forwarded to one place
    prev = V(c, init)
    ulp = Fraction(1, P)
    # closed form of the schedule applies to consecutive histories of the mint identifier that begin no later than the start epoch
    # (or within the first period after it with the marker still on the start epoch)
    mint_calls = [cl["e"] for cl in c["calls"] if cl["id"] == 0]
    consecutive = (bool(mint_calls) and all(b == a + 1 for a, b in zip(mint_calls, mint_calls[1:])) and
                   (mint_calls[0] <= start or (mint_calls[0] <= start + period and prev.last == start)))
    failed_before = False
    for j, (cl, st) in enumerate(zip(c["calls"], steps)):
        status, cur = st[0], V(c, st[1:])
        e = cl["e"]
        tag = "call %d (epoch %d, %s identifier)" % (j, e, "mint" if cl["id"] == 0 else "other")
        unchanged = st[1:] == ([prev.mint, prev.fee, prev.pool, prev.inc, prev.distr, prev.cpool, prev.vest] + prev.recv +
                               [prev.supply, prev.offset, prev.prov, prev.last])
        if cl["id"] != 0 or e < start:
            # nothing happens before the start epoch / for other identifiers
            if status != 0 or not unchanged:
                bad("nothing_before_start", "%s: status %d, state changed=%s, but epoch < start %d or foreign identifier" % (tag, status, not unchanged, start))
            prev = cur
            continue
        # ---- a mint epoch end at or after the start epoch ----
        # schedule: the provision is multiplied by the factor exactly once every period, counted from the start epoch
        last_ref = e if e == start else prev.last
        due = e >= period + last_ref
        if consecutive and not failed_before:
            due_closed = e > start and (e - start) % period == 0
            if due != due_closed:
                bad("reduction_epoch", "%s: the last-reduction marker %d makes a reduction %s, the schedule start+k*period says %s" % (tag, last_ref, due, due_closed))
                due = due_closed
        prov_prev = Fraction(prev.prov, P)
        prov_exp = prov_prev * factor if due else prov_prev
        # a failing call (insufficient vesting balance, receiver that cannot be credited) leaves everything as it was
        minted_try = fl(prov_exp)           # +-1 ulp of rounding cannot be resolved here; handled below
        if status != 0:
            failed_before = True
            dev_try = fl(minted_try * pd)
            excusable = prev.vest < dev_try + (1 if due else 0) or has_blocked
            if not unchanged:
                bad("failed_call_changed_state", "%s failed (status %d) but the state changed" % (tag, status))
            cands = [minted_try] + ([fl(prov_exp + ulp), fl(max(prov_exp - ulp, 0))] if due else [])
            if not excusable and status == 2 and any(over_allocates(c["distr"], prev.pool + fl(m_ * pp)) for m_ in cands):
                v.append({"what": "%s panicked: the pool-incentives hook allocates more than the %d it holds (record weights %s rounded to 18 decimals sum to more than 1); nothing was minted"
                                  % (tag, prev.pool + fl(minted_try * pp), [d_["w"] for d_ in c["distr"]]), "rec": dict(F9_REC)})
            elif not excusable:
                bad("unexpected_failure", "%s failed (status %d) although the vesting account holds %d >= developer share %d and every receiver can be credited"
                    % (tag, status, prev.vest, dev_try), status=status, distr_records=len(c["distr"]))
            prev = cur
            continue
        prov_cur = Fraction(cur.prov, P)
        if due:
            if abs(prov_cur - prov_exp) >= ulp or (prov_exp.denominator == 1 and False):
                bad("reduction_epoch", "%s: provisions %s -> %s, expected multiplication by %s (= %s up to rounding at 10^-18)" % (tag, prov_prev, prov_cur, factor, prov_exp))
            if cur.last != e:
                bad("reduction_epoch", "%s: reduction applied but last-reduction epoch is %d" % (tag, cur.last))
        else:
            if prov_cur != prov_prev:
                bad("reduction_epoch", "%s: provisions changed %s -> %s although no reduction is due (start %d, period %d, last reduction %d)"
                    % (tag, prov_prev, prov_cur, start, period, last_ref))
            if cur.last != last_ref:
                bad("reduction_epoch", "%s: last-reduction epoch %d, expected %d" % (tag, cur.last, last_ref))
        # exactly the integer part of the *current* provision is put into circulation
        minted = fl(prov_cur)
        s_amt = fl(minted * ps)
        p_amt = fl(minted * pp)
        dev = fl(minted * pd)
        portions = [fl(dev * w) for _, w in ws]
        comm = minted - s_amt - p_amt - dev
        if comm < fl(minted * pc):
            bad("split", "%s: community remainder %d below its own truncated share" % (tag, comm))
        paid = sum(portions) if nrecv else dev
        to_cp_from_dev = (sum(x for (a, _), x in zip(ws, portions) if a == -1)) if nrecv else dev
        d = lambda name: getattr(cur, name) - getattr(prev, name)
        if cur.mint != 0:
            bad("mint_account_nonempty", "%s: mint module account holds %d afterwards" % (tag, cur.mint))
        if d("fee") != s_amt:
            bad("split", "%s: staking rewards (fee collector) got %d, truncated share of %d is %d" % (tag, d("fee"), minted, s_amt))
        for i in range(c["na"]):
            exp_i = sum(x for (a, _), x in zip(ws, portions) if a == i)
            got = cur.recv[i] - prev.recv[i]
            if got != exp_i:
                bad("split", "%s: developer receiver %d got %d, truncated weighted share of %d is %d" % (tag, i, got, dev, exp_i))
        if -d("vest") != paid:
            bad("split", "%s: vesting account paid %d, expected %d" % (tag, -d("vest"), paid))
        if d("distr") != d("cpool"):
            bad("split", "%s: distribution module balance moved by %d but its community pool entry by %d" % (tag, d("distr"), d("cpool")))
        # pool incentives: the share arrives in the module account and is forwarded by the module's own hook
        # (gauges -> incentives module, community record / no records -> community pool); nothing may be lost on the way
        moved = d("pool") + d("inc") + d("cpool")
        if moved != p_amt + comm + to_cp_from_dev:
            bad("split", "%s: pool-incentives + incentives + community pool moved by %d, expected pool share %d + community remainder %d + developer part for the community pool %d"
                % (tag, moved, p_amt, comm, to_cp_from_dev))
        if d("cpool") < comm + to_cp_from_dev or d("inc") < 0 or cur.pool < 0:
            bad("split", "%s: community pool got %d < remainder %d + %d" % (tag, d("cpool"), comm, to_cp_from_dev))
        if single_sink and prev.pool >= 0:
            to_gauge = bool(c["distr"]) and c["distr"][0]["g"] != 0
            fwd = p_amt + prev.pool          # the module forwards everything it holds
            exp_inc = fwd if to_gauge else 0
            exp_cp = comm + to_cp_from_dev + (0 if to_gauge else fwd)
            if d("inc") != exp_inc or d("cpool") != exp_cp or cur.pool != 0:
                bad("split", "%s: pool incentives share %d: incentives module +%d (expected %d), community pool +%d (expected %d), left in the module %d"
                    % (tag, p_amt, d("inc"), exp_inc, d("cpool"), exp_cp, cur.pool))
        # supply
        if d("supply") != minted - dev:
            bad("bank_supply", "%s: bank supply moved by %d, expected minted %d - developer share %d (paid from the vesting account)" % (tag, d("supply"), minted, dev))
        rep = d("supply") + d("offset")
        deficit = minted - rep
        if deficit < 0:
            bad("supply_delta", "%s: reported supply grew by %d > minted %d" % (tag, rep, minted), deficit_class="negative")
        elif deficit > 0:
            if deficit < nrecv:
                v.append({"what": "%s: reported supply (supply + offset) grew by %d, minted %d: deficit %d < %d receivers" % (tag, rep, minted, deficit, nrecv),
                          "rec": dict(F3_REC)})
            else:
                bad("supply_delta", "%s: reported supply grew by %d, minted %d: deficit %d >= %d receivers" % (tag, rep, minted, deficit, nrecv),
                    deficit_class="ge_num_receivers")
        prev = cur
    return v


def nontrivial(c, init, steps):
    """some call minted a positive amount (status ok, supply moved)"""
    prev = init
    for cl, st in zip(c["calls"], steps):
        if st[0] == 0 and cl["id"] == 0 and cl["e"] >= c["start"] and st[1:] != prev and int(st[1 + 9 + c["na"]]) >= P:
            return True
        prev = st[1:]
    return False


# ---------------------------------------------------------------------------------------------
# running
# ---------------------------------------------------------------------------------------------
_bin = None


def driver():
    global _bin
    if _bin is None:
        _bin = common.go_build("c18drv", test=True)
    return _bin


def run_impl(cases, batch=1600):
    """the test binary keeps every chain it created alive until it exits, so large runs are fed in batches"""
    out = []
    for i in range(0, len(cases), batch):
        out += common.run_driver(driver(), cases[i:i + batch], args="-test.run ^TestDriver$", shards=8)
    return out


def coq_file(rows):
    body = ";\n  ".join(rows)
    return ("From Coq Require Import ZArith List. Import ListNotations.\n"
            "From Osmo Require Import Base.Obs C18.Model C18.Corr.\nOpen Scope Z_scope.\n"
            "Definition cases : list case := [\n  %s ].\n"
            "Definition M := Eval vm_compute in mismatches case_ok cases.\nPrint M.\n" % body)


def run_cases(cases, model_ok, out, tag, per_file=20):
    obs = run_impl(cases)
    good = []
    for c, o in zip(cases, obs):
        out.evaluations += 1
        if o.get("err") or o.get("msgs"):
            out.oracle_violations.append({"what": "driver: %s %s" % (o.get("err"), o.get("msgs")), "rec": {"kind": "driver_error"}, "case": c})
            if o.get("err"):
                continue
        init, steps = parse_obs(c, o)
        for viol in oracle(c, init, steps):
            viol["case"] = c
            out.oracle_violations.append(viol)
        if nontrivial(c, init, steps):
            out.nontrivial.add(json.dumps(c, sort_keys=True))
        good.append((c, init, steps))
    if not model_ok:
        out.model_ran = False
        return good
    items = []
    for fi in range(0, len(good), per_file):
        rows = [coq_case(c, init, flat_expect(steps)) for c, init, steps in good[fi:fi + per_file]]
        items.append(("C18_%s_%d" % (tag, fi // per_file), coq_file(rows)))
    res = common.coq_eval_many(items)
    for k, ((name, _), (rc, o)) in enumerate(zip(items, res)):
        mm = common.parse_nat_list(o)
        if rc != 0 or mm is None:
            out.mismatches.append({"what": "model evaluation failed: " + o[-500:], "case": None})
            continue
        for idx in mm:
            c, init, steps = good[k * per_file + idx]
            out.mismatches.append({"what": "C18 model_obs differs from implementation observations", "case": c,
                                   "impl": {"init": [str(x) for x in init], "steps": [[str(x) for x in s] for s in steps]}})
    return good


def selftest(good, out):
    """unit check of the machinery itself: the oracle must flag hand-perturbed observations and case_ok must reject
    perturbed expectations (run on a few cases of this very run)"""
    picked = [g for g in good if nontrivial(*g) and not oracle(*g)][:6]
    if not picked:
        out.notes.append("selftest skipped: no clean non-trivial case in this run")
        return
    flagged = 0
    total = 0
    rows = []
    for c, init, steps in picked:
        na = c["na"]
        # index of the first minting step
        prev = init
        k = None
        for j, st in enumerate(steps):
            if st[0] == 0 and st[1:] != prev:
                k = j
                break
            prev = st[1:]
        # perturb, one at a time: mint account, fee collector, community pool (+module), vesting, supply, offset, provisions, last reduction
        for pos, delta in [(0, 1), (1, -1), (1, 1), (6, 1), (7 + na, 1), (8 + na, -1), (8 + na, 1), (8 + na, max(len(c["recv"]), 1)), (9 + na, 1), (10 + na, 1)]:
            st2 = [list(s) for s in steps]
            st2[k][1 + pos] += delta
            total += 1
            vs = oracle(c, init, st2)
            if any(x["rec"] not in (F3_REC, F9_REC) for x in vs):
                flagged += 1
            rows.append(coq_case(c, init, flat_expect(st2)))
        st2 = [list(s) for s in steps]
        st2[k][1 + 4] += 1
        st2[k][1 + 5] += 1
        total += 1
        if any(x["rec"] not in (F3_REC, F9_REC) for x in oracle(c, init, st2)):
            flagged += 1
        rows.append(coq_case(c, init, flat_expect(st2)))
        # schedule: a reduction that is not applied / applied one epoch late, and a reduction where none is due
        ip = 1 + 9 + na
        prevs = [init] + [s_[1:] for s_ in steps]
        red = [j for j, s_ in enumerate(steps) if s_[0] == 0 and s_[ip] != prevs[j][ip - 1]]
        nored = [j for j, s_ in enumerate(steps) if s_[0] == 0 and s_[1:] != prevs[j] and s_[ip] == prevs[j][ip - 1] and s_[ip] > P]
        variants = []
        if red:
            j = red[0]
            st2 = [list(s_) for s_ in steps]
            st2[j][ip], st2[j][ip + 1] = prevs[j][ip - 1], prevs[j][ip]
            variants.append(("reduction_epoch", st2))
        if nored and int(c["factor"]) < P:
            j = nored[-1]
            st2 = [list(s_) for s_ in steps]
            st2[j][ip] = st2[j][ip] * int(c["factor"]) // P
            st2[j][ip + 1] = c["calls"][j]["e"]
            variants.append(("reduction_epoch", st2))
        for kind, st2 in variants:
            total += 1
            if any(x["rec"].get("kind") == kind for x in oracle(c, init, st2)):
                flagged += 1
            rows.append(coq_case(c, init, flat_expect(st2)))
    rc, o = common.coq_eval("C18_selftest", coq_file(rows))
    mm = common.parse_nat_list(o)
    if rc != 0 or mm is None:
        raise RuntimeError("C18 selftest: model evaluation failed: " + o[-400:])
    if flagged != total or len(mm) != len(rows):
        raise RuntimeError("C18 selftest failed: oracle flagged %d of %d perturbed observations, case_ok rejected %d of %d perturbed expectations"
                           % (flagged, total, len(mm), len(rows)))
    out.notes.append("selftest: oracle flagged %d/%d hand-perturbed observations as real violations; case_ok rejected %d/%d perturbed expectations"
                     % (flagged, total, len(mm), len(rows)))


def correspond(tier, seed, model_ok):
    out = Outcome()
    r = Rng(seed)
    n = 300 if tier == "quick" else 5000
    cases = [gen_case(r.fork(i), tier) for i in range(n)]
    corpus = common.load_corpus(PROP)
    good = run_cases([WITNESS, WITNESS_F9] + corpus + cases, model_ok, out, "q")
    findings = common.load_findings(PROP)
    if model_ok and not out.mismatches and all(common.match_finding(findings, v.get("rec", {})) for v in out.oracle_violations):
        selftest(good, out)
    out.rule = ("cases = (4 proportions on the 10^-18 grid summing to 1, 0-8 weighted receivers incl. empty / repeated / blocked addresses, factor in [0,1], "
                "period 1-10, start epoch 0-5, provisions 0..10^30 incl. non-integers, vesting balance sufficient / running dry / empty, pool-incentives "
                "records none / one gauge / community / several, 1-40 AfterEpochEnd calls: consecutive, interleaved with a foreign identifier, late start, gaps and repeats); "
                "non-trivial = at least one call minted >= 1 base unit and succeeded; distinct = distinct case JSON")
    out.samples = [dict(c, calls=c["calls"][:4]) for c in cases[:3]]
    hist = {"calls_total": sum(len(c["calls"]) for c in cases), "corpus_cases": len(corpus)}
    for name, f in [("receivers", lambda c: len(c["recv"])), ("distr_records", lambda c: len(c["distr"])), ("period", lambda c: c["period"]),
                    ("start", lambda c: c["start"]), ("prov_digits", lambda c: len(str(int(c["prov"]) // P)))]:
        h = {}
        for c in cases:
            h[str(f(c))] = h.get(str(f(c)), 0) + 1
        hist[name] = h
    st = {"ok": 0, "error": 0, "panic": 0}
    for c, init, steps in good:
        for s in steps:
            st[["ok", "error", "panic"][s[0]]] += 1
    hist["call_status"] = st
    out.distribution = hist
    return out


def search(tier, seed, out):
    """after a proof/correspondence break: many more histories through the oracle, concentrated around the disagreeing cases"""
    o2 = Outcome()
    r = Rng(seed + 7919)
    cases = []
    for m in out.mismatches[:20]:
        c = m.get("case")
        if not c:
            continue
        cases.append(c)
        for k in range(40):          # same configuration, other provisions / histories
            rr = r.fork(("near", k))
            c2 = gen_case(rr, "quick")
            c3 = dict(c)
            c3["prov"] = c2["prov"]
            c3["vest"] = str(max(int(c2["vest"]), int(c["vest"])))
            if k % 2:
                c3["calls"] = c2["calls"]
                c3["start"], c3["period"], c3["last"] = c2["start"], c2["period"], c2["last"]
            cases.append(c3)
    cases += [gen_case(r.fork(i), "quick") for i in range(3000)]
    run_cases(cases, False, o2, "s")
    findings = common.load_findings(PROP)
    for v in o2.oracle_violations:
        if not common.match_finding(findings, v.get("rec", {})):
            return v
    return None


def replay(path):
    d = json.load(open(path))
    c = d["case"].get("case") if isinstance(d.get("case"), dict) else None
    if not c:
        print("replay names a proof obligation / correspondence, not an input:", d.get("what"))
        return 1
    out = Outcome()
    run_cases([c], True, out, "r")
    findings = common.load_findings(PROP)
    real = 0
    for v in out.oracle_violations:
        f = common.match_finding(findings, v.get("rec", {}))
        print("oracle%s: %s" % (" (known finding %s)" % f["id"] if f else "", v["what"]))
        real += 0 if f else 1
    for m in out.mismatches:
        print("mismatch:", m["what"])
    return 1 if (real or out.mismatches) else 0


SCOPE = ("partial: C18_full (Properties/C18.v) minus its last conjunct is proved for every valid configuration, initial state and history (C18_partial: "
         "every call is a no-op before the start epoch / a rolled-back failure / a minted epoch with the exact split; mint account empty; reductions exactly at "
         "start + k*period over consecutive successful epochs) together with bank_supply_delta, supply_growth_partial (supply + offset grows by minted - r, "
         "0 <= r < #receivers, r = 0 without receivers) and the cumulative version; what is missing is 'the reported supply grows by exactly the minted amount', "
         "which is false of the faithful model: supply_exact_refuted / C18_full_refuted (finding F3, witness replayed on the implementation on every run). "
         "Not proved: that a call with sufficient vesting balance never fails (finding F9 shows the pool-incentives hook can panic); Int/Dec overflow is outside the model")
EXPLANATION = ("Axiom-free Coq theorems over the Gallina model C18/Model.v (AfterEpochEnd, DistributeMintedCoin, distributeDeveloperRewards, getProportions, "
               "the pool-incentives AllocateAsset hook, over a small bank with balances / supply / supply offset / community pool) by induction over call histories. "
               "The model is tied to /repo on every run: the real mint keeper of the full app is driven with generated parameter sets and histories and every observable "
               "(nine account classes, supply, offset, provisions, last-reduction epoch, call status) is compared after every call; an independent exact-integer oracle "
               "evaluates the property's predicates on the implementation's observations.")
TRUSTED = [
    "hand-written model coq/theories/C18/Model.v (x/mint hooks/keeper, bank/distribution/pool-incentives as far as the mint denom is concerned), tied to /repo by the correspondence run (harness/c18drv, full app)",
    "harness/c18drv + harness/apph (Go), props/c18.py (generator, flattening, oracle), Coq vm_compute evaluation of generated case files",
    "modelled not verified: SDK bank / auth / distribution keepers, params subspace, store; sdk.Int / LegacyDec overflow panics (2^256 / 2^316) are outside the model",
]
ASSUMPTIONS = [
    "parameters pass Params.Validate (proportions sum to 1, weights positive and sum to 1, factor in [0,1], period > 0, start >= 0)",
    "each AfterEpochEnd call is atomic (cache context written back only on success, DESIGN 1.5)",
    "amounts stay below the sdk.Int / LegacyDec overflow bounds; epoch numbers are non-negative int64",
]
TECHNIQUE = "Coq proof over a Gallina model of AfterEpochEnd/DistributeMintedCoin; model tied to the full app by differential correspondence (vm_compute) + exact-integer oracle"
LEVEL_TEXT = ("Machine-checked theorems (Coq 8.16.1, axiom-free) for all valid parameter sets, initial provisions and call histories: exact split with the community "
              "pool taking the remainder, mint account empty, nothing before the start epoch, reductions exactly at start + k*period, bank supply +minted-dev, reported "
              "supply +minted-r with the tight bound on r; the exact-growth clause of the property is refuted by a vm_compute witness (finding F3). The model is hand-written "
              "and checked against the real keeper (full app) on generated histories on every run, plus an independent oracle.")
LEVEL_NOTE = ("Trusted: Coq kernel (vm_compute, no native_compute), no axioms; hand-written model C18/Model.v; Go driver harness/c18drv (full app through apph, params "
              "installed through the keeper's InitGenesis) and python glue; SDK bank/distribution/params keepers modelled only as far as the mint denom's balances, supply, "
              "offset and community pool entry; sdk.Int/LegacyDec overflow and gas not modelled.")

# ---------------------------------------------------------------------------------------------
# development aid: a python re-implementation of the mint epoch with seeded faults, to unit-check that the oracle flags
# the kind of source changes the check is meant to catch (run: python3 -m props.c18 mutants [n]).  Not used by ./check.
# ---------------------------------------------------------------------------------------------
def _rhe(n, d):
    q, r = divmod(n, d)
    if 2 * r > d or (2 * r == d and q % 2 == 1):
        q += 1
    return q


MUTANTS = ["none", "reduce_gt", "round_minted", "round_share", "community_truncated", "no_burn", "offset_sign", "no_start_marker",
           "any_identifier", "start_lte", "mint_before_reduction", "vest_lte", "ratio_gte", "marker_every_epoch", "minter_not_saved",
           "dev_from_mint", "pool_share_to_fee", "offset_full_dev", "empty_to_first_receiver", "hook_skipped", "hook_all_to_community",
           "hook_all_to_gauges", "empty_gets_whole_dev"]


def sim(c, init, mut):
    """observations (steps) a keeper with the seeded fault [mut] would produce from the observed initial vector"""
    na = c["na"]
    st = {"mint": init[0], "fee": init[1], "pool": init[2], "inc": init[3], "distr": init[4], "cpool": init[5], "vest": init[6],
          "recv": list(init[7:7 + na]), "supply": init[7 + na], "offset": init[8 + na], "prov": init[9 + na], "last": init[10 + na]}
    props = [int(x) for x in c["props"]]
    factor, period, start = int(c["factor"]), c["period"], c["start"]
    total = sum(int(d["w"]) for d in c["distr"])

    def vec(s):
        return [s["mint"], s["fee"], s["pool"], s["inc"], s["distr"], s["cpool"], s["vest"]] + s["recv"] + [s["supply"], s["offset"], s["prov"], s["last"]]

    def share(a, r, mode="trunc"):
        if mut == "ratio_gte" and r >= P:
            raise ValueError("ratio")
        return _rhe(a * r, P) if mode == "round" else a * r // P

    steps = []
    for cl in c["calls"]:
        s = json.loads(json.dumps(st))
        try:
            e = cl["e"]
            if cl["id"] != 0 and mut != "any_identifier":
                raise StopIteration
            if e < start or (mut == "start_lte" and e == start):
                raise StopIteration
            if e == start or mut == "marker_every_epoch":
                if mut != "no_start_marker":
                    s["last"] = e
            old_prov = s["prov"]
            due = e > period + s["last"] if mut == "reduce_gt" else e >= period + s["last"]
            if due:
                s["prov"] = _rhe(s["prov"] * factor, P)
                s["last"] = e
            base = old_prov if mut == "mint_before_reduction" else s["prov"]
            if mut == "minter_not_saved" and due:
                s["prov"] = old_prov
            minted = _rhe(base, P) if mut == "round_minted" else base // P
            s["mint"] += minted
            s["supply"] += minted
            mode = "round" if mut == "round_share" else "trunc"
            sa = share(minted, props[0], mode)
            pa = share(minted, props[1], mode)
            if mut == "pool_share_to_fee":
                s["fee"] += sa + pa
                s["mint"] -= sa + pa
            else:
                s["fee"] += sa
                s["pool"] += pa
                s["mint"] -= sa + pa
            dev = share(minted, props[2], mode)
            vest_before = s["vest"]
            if vest_before < dev or (mut == "vest_lte" and vest_before <= dev):
                raise ValueError("vesting")
            if mut != "no_burn":
                s["mint"] -= dev
                s["supply"] -= dev
            src = "mint" if mut == "dev_from_mint" else "vest"
            if not c["recv"]:
                s[src] -= dev
                s["distr"] += dev
                s["cpool"] += dev
            for rc in c["recv"]:
                por = share(dev, int(rc["w"]))
                if rc["a"] == -2:
                    raise ValueError("blocked")
                if mut == "empty_gets_whole_dev" and rc["a"] == -1:      # seeded change C18a
                    por = dev
                if s[src] < por:
                    raise ValueError("funds")
                s[src] -= por
                if rc["a"] == -1 and not (mut == "empty_to_first_receiver" and na > 0):
                    s["distr"] += por
                    s["cpool"] += por
                elif rc["a"] == -1:
                    s["recv"][0] += por
                else:
                    s["recv"][rc["a"]] += por
            if mut == "offset_sign":
                s["offset"] -= vest_before - s["vest"]
            elif mut == "offset_full_dev":
                s["offset"] += dev
            else:
                s["offset"] += vest_before - s["vest"]
            comm = share(minted, props[3], mode) if mut == "community_truncated" else minted - sa - pa - dev
            if comm < 0 or s["mint"] < comm:
                raise ValueError("funds")
            s["mint"] -= comm
            s["distr"] += comm
            s["cpool"] += comm
            # hook
            asset = s["pool"]
            if mut == "hook_skipped":
                asset = 0
            if mut == "hook_all_to_gauges" and asset != 0:
                s["pool"] -= asset
                s["inc"] += asset
                asset = 0
            if asset != 0:
                if total == 0 or mut == "hook_all_to_community":
                    s["pool"] -= asset
                    s["distr"] += asset
                    s["cpool"] += asset
                else:
                    for d in c["distr"]:
                        q = _rhe((int(d["w"]) * P * P) // total, P)
                        amt = asset * q // P
                        if amt <= 0:
                            continue
                        if s["pool"] < amt:
                            raise KeyError("hook")
                        s["pool"] -= amt
                        if d["g"] == 0:
                            s["distr"] += amt
                            s["cpool"] += amt
                        else:
                            s["inc"] += amt
            st = s
            steps.append([0] + vec(st))
        except StopIteration:
            steps.append([0] + vec(st))
        except ValueError:
            steps.append([1] + vec(st))
        except KeyError:
            steps.append([2] + vec(st))
    return steps


def mutant_selftest(n=300, seed=1):
    r = Rng(seed)
    cases = [gen_case(r.fork(i), "quick") for i in range(n)]
    obs = run_impl(cases)
    findings = common.load_findings(PROP)
    data = [(c,) + parse_obs(c, o) for c, o in zip(cases, obs) if not o.get("err")]
    res = {}
    for mut in MUTANTS:
        differs = flagged = 0
        kinds = {}
        for c, init, steps in data:
            sm = sim(c, init, mut)
            if sm != steps:
                differs += 1
                real = [v for v in oracle(c, init, sm) if not common.match_finding(findings, v.get("rec", {}))]
                if real:
                    flagged += 1
                    k = real[0]["rec"].get("kind")
                    kinds[k] = kinds.get(k, 0) + 1
        res[mut] = (differs, flagged, kinds)
        print("%-26s behaviour differs in %3d cases, oracle flags %3d  %s" % (mut, differs, flagged, kinds))
    return res


if __name__ == "__main__":
    import sys
    if len(sys.argv) > 1 and sys.argv[1] == "mutants":
        mutant_selftest(int(sys.argv[2]) if len(sys.argv) > 2 else 300)
        sys.exit(0)
    o = Outcome()
    r = Rng(1)
    cs = [gen_case(r.fork(i), "quick") for i in range(int(sys.argv[1]) if len(sys.argv) > 1 else 20)]
    run_cases(cs, True, o, "dbg")
    print(len(o.oracle_violations), "violations", len(o.mismatches), "mismatches", len(o.nontrivial), "nontrivial of", o.evaluations)
    for v in o.oracle_violations[:10]:
        print(v["rec"], v["what"])
    for m in o.mismatches[:3]:
        print(json.dumps(m)[:3000])
