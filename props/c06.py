"""C06 - lockup: locked funds are safe, time-locked, exactly indexed: case generator, Coq case writer, oracle."""
import json
import multiprocessing
import os

from lib import common
from lib.common import Rng, Outcome, zlit, zlist

PROP = "C06"
GO_PKGS = [("c06drv", True)]
MODEL_VO = ["theories/C06/Corr.vo"]
ALLOWED_AXIOMS = []
BASE = 1_700_000_000 * 10**9          # unix ns of relative time 0
DENOMS = ["udenoma", "udenomb", "xdenomc"]
PREFIX_DENOMS = ["gamm/pool/1", "gamm/pool/10", "xdenomc"]
NACC = 4                              # accounts 1..3 lock; account 4 is a bystander (reward receiver, wrong sender)

# ---------------------------------------------------------------------------------------------
# translator: literals and inventories of the Go source the model depends on (regenerated on every run)
# ---------------------------------------------------------------------------------------------
MSG_HANDLERS = ["LockTokens", "BeginUnlocking", "BeginUnlockingAll", "ExtendLockup", "ForceUnlock", "SetRewardReceiverAddress"]
KEY_PREFIXES = {"KeyLastLockID": 0x01, "KeyPrefixPeriodLock": 0x02, "KeyPrefixNotUnlocking": 0x03, "KeyPrefixUnlocking": 0x04,
                "KeyPrefixTimestamp": 0x05, "KeyPrefixDuration": 0x06, "KeyPrefixLockDuration": 0x07, "KeyPrefixAccountLockDuration": 0x08,
                "KeyPrefixDenomLockDuration": 0x09, "KeyPrefixAccountDenomLockDuration": 0x0A, "KeyPrefixLockTimestamp": 0x0B,
                "KeyPrefixAccountLockTimestamp": 0x0C, "KeyPrefixDenomLockTimestamp": 0x0D, "KeyPrefixAccountDenomLockTimestamp": 0x0E,
                "KeyPrefixSyntheticLockup": 0x0F, "KeyPrefixSyntheticLockTimestamp": 0x10, "KeyPrefixLockAccumulation": 0x20,
                "KeyIndexSeparator": 0xFF}


def translate():
    import re
    root = os.path.join(common.REPO, "x", "lockup")
    abci = open(os.path.join(root, "abci.go")).read()
    m1 = re.search(r"ctx\.BlockHeight\(\)\s*%\s*(\d+)\s*==\s*0", abci)
    m2 = re.search(r"numLocksToDelete\s*=\s*([\d_]+)", abci)
    if not m1 or not m2:
        raise ValueError("x/lockup/abci.go: EndBlocker no longer has the shape `if ctx.BlockHeight()%N == 0 { ... WithdrawMaturedLocks(ctx, numLocksToDelete) }`")
    if not re.search(r"k\.WithdrawMaturedLocks\(ctx,\s*numLocksToDelete\)", abci):
        raise ValueError("x/lockup/abci.go: EndBlocker does not call WithdrawMaturedLocks(ctx, numLocksToDelete)")
    period, ndel = int(m1.group(1)), int(m2.group(1).replace("_", ""))
    ms = open(os.path.join(root, "keeper", "msg_server.go")).read()
    handlers = re.findall(r"^func \(server msgServer\) (\w+)\(", ms, flags=re.M)
    if sorted(handlers) != sorted(MSG_HANDLERS):
        raise ValueError("x/lockup/keeper/msg_server.go: message handlers are %s, the model covers %s" % (sorted(handlers), sorted(MSG_HANDLERS)))
    keys = open(os.path.join(root, "types", "keys.go")).read()
    found = {n: int(v, 16) for n, v in re.findall(r"^\s*(Key\w+)\s*=\s*\[\]byte\{0x([0-9A-Fa-f]{2})\}", keys, flags=re.M)}
    if found != KEY_PREFIXES:
        raise ValueError("x/lockup/types/keys.go: store key prefixes changed: %s" % {k: v for k, v in found.items() if KEY_PREFIXES.get(k) != v})
    if len(set(found.values())) != len(found):
        raise ValueError("x/lockup/types/keys.go: store key prefixes are not pairwise distinct")
    lk = open(os.path.join(root, "keeper", "lock.go")).read()
    m3 = re.search(r"sumtree\.NewTree\(prefix\.NewStore\(ctx\.KVStore\(k\.storeKey\), accumulationStorePrefix\(denom\)\), (\d+)\)", lk)
    if not m3:
        raise ValueError("x/lockup/keeper/lock.go: accumulationStore is no longer a sumtree over the per-denomination prefix store")
    txt = """(* GENERATED on every run by props/c06.py translate() from /repo/x/lockup/{abci.go, keeper/msg_server.go, keeper/lock.go, types/keys.go}.
   Do not edit: the C06 model is stated against these names, so a changed literal re-checks model, proofs and correspondence.
   The translator also checks shapes the model assumes and fails otherwise: the six message handlers of msg_server.go,
   the store key prefixes of keys.go (pairwise distinct single bytes, separator 0xFF), accumulationStore = sumtree per denomination. *)
From Coq Require Import ZArith.
Open Scope Z_scope.
(* abci.go EndBlocker: matured locks are withdrawn when BlockHeight %% endblock_period == 0, at most num_locks_to_delete of them *)
Definition endblock_period : Z := %d.
Definition num_locks_to_delete : Z := %d.
(* msg_server.go: number of message handlers (LockTokens, BeginUnlocking, BeginUnlockingAll, ExtendLockup, ForceUnlock, SetRewardReceiverAddress) *)
Definition msg_handler_count : Z := %d.
(* lock.go accumulationStore: fan-out of the per-denomination sum-tree (not used by the model, which abstracts the tree as a sorted map) *)
Definition sumtree_fanout : Z := %d.
""" % (period, ndel, len(handlers), int(m3.group(1)))
    return {"Gen/C06_consts.v": txt}


# ---------------------------------------------------------------------------------------------
# query families: (name, signature) in the order of harness/c06drv and C06/Corr.v
#   U: unlocking flag (false, true)  A: account  N: denomination  D: duration  T: time
#   result kinds: "ids" -> [n, sorted ids]; "coins" -> amounts per denomination + [number of foreign denoms]; "val" -> [x]
# ---------------------------------------------------------------------------------------------
FAMILIES = [
    ("LockIteratorAfterTime", "T", "ids"), ("LockIteratorBeforeTime", "T", "ids"), ("LockIterator", "U", "ids"),
    ("LockIteratorAfterTimeDenom", "NT", "ids"), ("LockIteratorBeforeTimeDenom", "NT", "ids"),
    ("LockIteratorLongerThanDurationDenom", "UND", "ids"), ("LockIteratorDenom", "UN", "ids"),
    ("AccountLockIteratorAfterTime", "AT", "ids"), ("AccountLockIteratorBeforeTime", "AT", "ids"),
    ("AccountLockIterator", "UA", "ids"), ("AccountLockIteratorAfterTimeDenom", "ANT", "ids"),
    ("AccountLockIteratorBeforeTimeDenom", "ANT", "ids"), ("AccountLockIteratorDenom", "UAN", "ids"),
    ("AccountLockIteratorLongerDuration", "UAD", "ids"), ("AccountLockIteratorDuration", "UAD", "ids"),
    ("AccountLockIteratorShorterThanDuration", "UAD", "ids"), ("AccountLockIteratorLongerDurationDenom", "UAND", "ids"),
    ("AccountLockIteratorDurationDenom", "UAND", "ids"),
    ("GetAccountUnlockableCoins", "A", "coins"), ("GetAccountUnlockingCoins", "A", "coins"), ("GetAccountLockedCoins", "A", "coins"),
    ("GetAccountLockedPastTime", "AT", "ids"), ("GetAccountLockedPastTimeNotUnlockingOnly", "AT", "ids"),
    ("GetAccountUnlockedBeforeTime", "AT", "ids"), ("GetAccountLockedPastTimeDenom", "ANT", "ids"),
    ("GetAccountLockedDurationNotUnlockingOnly", "AND", "ids"), ("GetAccountLockedLongerDuration", "AD", "ids"),
    ("GetAccountLockedDuration", "AD", "ids"), ("GetAccountLockedLongerDurationNotUnlockingOnly", "AD", "ids"),
    ("GetAccountLockedLongerDurationDenom", "AND", "ids"), ("GetAccountLockedLongerDurationDenomNotUnlockingOnly", "AND", "ids"),
    ("GetLocksPastTimeDenom", "NT", "ids"), ("GetLocksDenom", "N", "ids"), ("GetLocksLongerThanDurationDenom", "ND", "ids"),
    ("GetPeriodLocks", "", "ids"), ("GetAccountPeriodLocks", "A", "ids"), ("GetModuleLockedCoins", "", "coins"),
    ("HasLock", "AND", "val"), ("GetLockedDenom", "ND", "val"),
]


def spec_pred(name, now):
    """the definitional meaning of a query family: predicate on (lock, u, a, n, d, t). A lock is a dict
    owner/denom/amt/dur/end; it is unlocking iff end != 0. Written from the doc comments of store.go / iterator.go:
    'after time' = unlock time strictly after t, 'before time' = unlock time <= t, 'longer' = duration >= d,
    'shorter' = duration < d; a not-unlocking lock counts for a time query as if it started unlocking now."""
    def unl(l):
        return l["end"] != 0

    def past(l, t):       # unlock time beyond t
        if unl(l):
            return l["end"] > t
        return l["dur"] >= (t - now if t > now else 0)

    def before(l, t):     # unlocked before t
        if unl(l):
            return l["end"] <= t
        return t >= now and l["dur"] < t - now
    P = {
        "LockIteratorAfterTime": lambda l, u, a, n, d, t: unl(l) and l["end"] > t,
        "LockIteratorBeforeTime": lambda l, u, a, n, d, t: unl(l) and l["end"] <= t,
        "LockIterator": lambda l, u, a, n, d, t: unl(l) == u,
        "LockIteratorAfterTimeDenom": lambda l, u, a, n, d, t: unl(l) and l["denom"] == n and l["end"] > t,
        "LockIteratorBeforeTimeDenom": lambda l, u, a, n, d, t: unl(l) and l["denom"] == n and l["end"] <= t,
        "LockIteratorLongerThanDurationDenom": lambda l, u, a, n, d, t: unl(l) == u and l["denom"] == n and l["dur"] >= d,
        "LockIteratorDenom": lambda l, u, a, n, d, t: unl(l) == u and l["denom"] == n,
        "AccountLockIteratorAfterTime": lambda l, u, a, n, d, t: unl(l) and l["owner"] == a and l["end"] > t,
        "AccountLockIteratorBeforeTime": lambda l, u, a, n, d, t: unl(l) and l["owner"] == a and l["end"] <= t,
        "AccountLockIterator": lambda l, u, a, n, d, t: unl(l) == u and l["owner"] == a,
        "AccountLockIteratorAfterTimeDenom": lambda l, u, a, n, d, t: unl(l) and l["owner"] == a and l["denom"] == n and l["end"] > t,
        "AccountLockIteratorBeforeTimeDenom": lambda l, u, a, n, d, t: unl(l) and l["owner"] == a and l["denom"] == n and l["end"] <= t,
        "AccountLockIteratorDenom": lambda l, u, a, n, d, t: unl(l) == u and l["owner"] == a and l["denom"] == n,
        "AccountLockIteratorLongerDuration": lambda l, u, a, n, d, t: unl(l) == u and l["owner"] == a and l["dur"] >= d,
        "AccountLockIteratorDuration": lambda l, u, a, n, d, t: unl(l) == u and l["owner"] == a and l["dur"] == d,
        "AccountLockIteratorShorterThanDuration": lambda l, u, a, n, d, t: unl(l) == u and l["owner"] == a and l["dur"] < d,
        "AccountLockIteratorLongerDurationDenom": lambda l, u, a, n, d, t: unl(l) == u and l["owner"] == a and l["denom"] == n and l["dur"] >= d,
        "AccountLockIteratorDurationDenom": lambda l, u, a, n, d, t: unl(l) == u and l["owner"] == a and l["denom"] == n and l["dur"] == d,
        "GetAccountUnlockableCoins": lambda l, u, a, n, d, t: l["owner"] == a and unl(l) and l["end"] <= now,
        "GetAccountUnlockingCoins": lambda l, u, a, n, d, t: l["owner"] == a and unl(l) and l["end"] > now,
        "GetAccountLockedCoins": lambda l, u, a, n, d, t: l["owner"] == a and (not unl(l) or l["end"] > now),
        "GetAccountLockedPastTime": lambda l, u, a, n, d, t: l["owner"] == a and past(l, t),
        "GetAccountLockedPastTimeNotUnlockingOnly": lambda l, u, a, n, d, t: l["owner"] == a and not unl(l) and past(l, t),
        "GetAccountUnlockedBeforeTime": lambda l, u, a, n, d, t: l["owner"] == a and before(l, t),
        "GetAccountLockedPastTimeDenom": lambda l, u, a, n, d, t: l["owner"] == a and l["denom"] == n and past(l, t),
        "GetAccountLockedDurationNotUnlockingOnly": lambda l, u, a, n, d, t: l["owner"] == a and l["denom"] == n and not unl(l) and l["dur"] == d,
        "GetAccountLockedLongerDuration": lambda l, u, a, n, d, t: l["owner"] == a and l["dur"] >= d,
        "GetAccountLockedDuration": lambda l, u, a, n, d, t: l["owner"] == a and l["dur"] == d,
        "GetAccountLockedLongerDurationNotUnlockingOnly": lambda l, u, a, n, d, t: l["owner"] == a and not unl(l) and l["dur"] >= d,
        "GetAccountLockedLongerDurationDenom": lambda l, u, a, n, d, t: l["owner"] == a and l["denom"] == n and l["dur"] >= d,
        "GetAccountLockedLongerDurationDenomNotUnlockingOnly": lambda l, u, a, n, d, t: l["owner"] == a and l["denom"] == n and not unl(l) and l["dur"] >= d,
        "GetLocksPastTimeDenom": lambda l, u, a, n, d, t: l["denom"] == n and past(l, t),
        "GetLocksDenom": lambda l, u, a, n, d, t: l["denom"] == n,
        "GetLocksLongerThanDurationDenom": lambda l, u, a, n, d, t: l["denom"] == n and l["dur"] >= d,
        "GetPeriodLocks": lambda l, u, a, n, d, t: True,
        "GetAccountPeriodLocks": lambda l, u, a, n, d, t: l["owner"] == a,
        "GetModuleLockedCoins": lambda l, u, a, n, d, t: not unl(l) or l["end"] > now,
        "HasLock": lambda l, u, a, n, d, t: l["owner"] == a and l["denom"] == n and not unl(l) and l["dur"] == d,
        "GetLockedDenom": lambda l, u, a, n, d, t: l["denom"] == n and l["dur"] >= d,
    }
    return P[name]


def arg_tuples(sig, q):
    us = [False, True] if "U" in sig else [False]
    as_ = q["a"] if "A" in sig else [0]
    ns = q["n"] if "N" in sig else [0]
    ds = q["d"] if "D" in sig else [0]
    ts = q["t"] if "T" in sig else [0]
    return [(u, a, n, d, t) for u in us for a in as_ for n in ns for d in ds for t in ts]


# ---------------------------------------------------------------------------------------------
# generator
# ---------------------------------------------------------------------------------------------
DUR_POOLS = [
    [1, 2, 3, 5], [1, 255, 256, 65536], [10**9, 2 * 10**9, 60 * 10**9, 3600 * 10**9],
    [86400 * 10**9, 7 * 86400 * 10**9, 14 * 86400 * 10**9, 21 * 86400 * 10**9], [3, 4, 4 * 2**32, 2**40 + 1],
    [7, 8, 9, 10**6],
]


def r_sample(r, n, k):
    """k distinct numbers from 1..n"""
    xs = list(range(1, n + 1))
    out = []
    for _ in range(min(k, n)):
        out.append(xs.pop(r.below(len(xs))))
    return out


class Tracker:
    """the generator's own rough picture of the chain, used only to pick mostly-valid operations"""

    def __init__(self, c):
        self.now = c["t0"]
        self.last = 0
        self.locks = {}
        if c.get("gen"):
            self.last = c["gen"]["last"]
            for g in c["gen"]["locks"]:
                self.locks[g["id"]] = {"owner": g["o"], "denom": g["n"], "amt": g["amt"], "dur": g["dur"], "end": g["end"]}
        self.bal = [[c["fund"][a][n] for n in range(3)] for a in range(NACC)]
        self.force = set(c["force"])
        self.ends = []

    def apply(self, o):
        k = o["k"]
        L = self.locks
        if k == "time":
            self.now = max(self.now, o["t"])
        elif k == "lock":
            if o["dur"] <= 0 or o["amt"] <= 0 or self.bal[o["o"] - 1][o["n"] - 1] < o["amt"]:
                return
            self.bal[o["o"] - 1][o["n"] - 1] -= o["amt"]
            ex = sorted(i for i, l in L.items() if l["owner"] == o["o"] and l["denom"] == o["n"] and l["dur"] == o["dur"] and l["end"] == 0)
            if ex:
                L[ex[0]]["amt"] += o["amt"]
            else:
                self.last += 1
                L[self.last] = {"owner": o["o"], "denom": o["n"], "amt": o["amt"], "dur": o["dur"], "end": 0}
        elif k == "add":
            l = L.get(o["id"])
            if l and l["owner"] == o["o"] and self.bal[o["o"] - 1][l["denom"] - 1] >= o["amt"] >= 0:
                self.bal[o["o"] - 1][l["denom"] - 1] -= o["amt"]
                l["amt"] += o["amt"]
        elif k == "extend":
            l = L.get(o["id"])
            if l and l["owner"] == o["o"] and l["end"] == 0 and o["dur"] > l["dur"]:
                l["dur"] = o["dur"]
        elif k == "begin":
            l = L.get(o["id"])
            if l and l["owner"] == o["o"] and l["end"] == 0 and (o["amt"] == 0 or (o["n"] == l["denom"] and 0 < o["amt"] <= l["amt"])):
                if o["amt"] == 0 or o["amt"] == l["amt"]:
                    l["end"] = self.now + l["dur"]
                else:
                    l["amt"] -= o["amt"]
                    self.last += 1
                    L[self.last] = {"owner": l["owner"], "denom": l["denom"], "amt": o["amt"], "dur": l["dur"], "end": self.now + l["dur"]}
                self.ends.append(self.now + l["dur"])
        elif k == "beginall":
            for l in L.values():
                if l["owner"] == o["o"] and l["end"] == 0:
                    l["end"] = self.now + l["dur"]
                    self.ends.append(l["end"])
        elif k in ("unlock", "withdraw", "endblock"):
            if k == "endblock" and o["h"] % 120 != 0:
                return
            ids = sorted((l["end"], i) for i, l in L.items() if l["end"] != 0 and l["end"] <= self.now)
            if k == "unlock":
                ids = [x for x in ids if x[1] == o["id"]]
            if k == "withdraw" and o["cnt"] > 0:
                ids = ids[:o["cnt"]]
            for _, i in ids:
                l = L.pop(i)
                self.bal[l["owner"] - 1][l["denom"] - 1] += l["amt"]
        elif k == "force":
            l = L.get(o["id"])
            if l and l["owner"] == o["o"] and o["o"] in self.force and (o["amt"] == 0 or (o["n"] == l["denom"] and 0 < o["amt"] <= l["amt"])):
                amt = l["amt"] if o["amt"] == 0 else o["amt"]
                if amt == l["amt"]:
                    L.pop(o["id"])
                else:
                    l["amt"] -= amt
                    self.last += 1
                self.bal[l["owner"] - 1][l["denom"] - 1] += amt


def gen_case(r, tier, nops=None, all_full=False):
    durs = sorted(r.choice(DUR_POOLS))
    unit = r.choice(durs)
    # one history in eight locks under many distinct durations, so that the accumulation sum-trees (fan-out 10) grow inner nodes
    lockdurs = list(durs)
    if r.chance(1, 8):
        step = r.choice([1, 3, 10**9, 86400 * 10**9])
        lockdurs = sorted(set(durs + [step * k + r.choice([0, 0, 1]) for k in r_sample(r, 40, r.range(12, 24))]))
    t0 = r.choice([1, 10, 10**9, r.range(1, 10**12)])
    rich = r.chance(3, 4)
    fund = [[(r.choice([0, 1, 50, 1000, 10**6, 10**12]) if not rich else r.choice([10**6, 10**9, 10**12])) for _ in range(3)] for _ in range(NACC)]
    force = [a for a in (1, 2, 3) if r.chance(1, 3)]
    adurs = sorted(set([0] + [d + e for d in lockdurs for e in (-1, 0, 1)]))
    c = {"base": BASE, "t0": t0, "denoms": DENOMS, "nacc": NACC, "fund": fund, "force": force, "adurs": adurs, "durs": durs, "lockdurs": lockdurs, "ops": []}
    if r.chance(1, 4):
        # a genesis with locks (keeper.InitGenesis: SetLastLockID + InitializeAllLocks): unique ids with gaps, some unlocking, some matured
        ids = sorted(r_sample(r, 12, r.range(1, 6)))
        gl = []
        for i_ in ids:
            d = r.choice(lockdurs)
            end = 0 if r.chance(1, 2) else max(1, t0 + r.choice([-d, -1, 0, 1, d - 1, d, 2 * d]))
            o_ = r.range(1, 3)
            gl.append({"id": i_, "o": o_, "n": r.range(1, 3), "amt": r.choice([1, 7, 1000, r.range(1, 10**5)]), "dur": d, "end": end,
                       "rr": r.choice([0, 0, r.choice([x for x in (1, 2, 3, 4) if x != o_])])})
        c["gen"] = {"last": ids[-1] + r.choice([0, 0, 3]), "locks": gl}
    tr = Tracker(c)
    if c.get("gen"):
        tr.ends += [g["end"] for g in c["gen"]["locks"] if g["end"]]
    if nops is None:
        nops = r.range(20, 80) if tier == "quick" else r.range(20, 120)
    pfull = 8
    for i in range(nops):
        x = r.below(100)
        o = None
        foc = None    # focus (account, denom, duration, time) of the light query sweep
        live = sorted(tr.locks)
        nu = [i_ for i_ in live if tr.locks[i_]["end"] == 0]
        un = [i_ for i_ in live if tr.locks[i_]["end"] != 0]
        malformed = r.chance(1, 12)

        def pick(ids):
            if ids and not malformed:
                return r.choice(ids)
            return r.choice([0, tr.last + 1, r.range(1, max(1, tr.last))] + live)
        if x < (22 if len(lockdurs) == len(durs) else 40) or not live:
            a = r.range(1, 3)
            n = r.range(1, 3) if len(lockdurs) == len(durs) or r.chance(1, 4) else 1
            d = r.choice(lockdurs)
            amt = r.choice([1, 2, 10, 999, r.range(1, 10**5)])
            if malformed:
                amt, d = r.choice([(0, d), (amt, 0), (amt, -1), (10**13, d), (amt, d + 1)])
            o = {"k": "lock", "o": a, "n": n, "amt": amt, "dur": d}
            foc = (a, n, d, tr.now + max(d, 0))
        elif x < 28:
            i_ = pick(live)
            l = tr.locks.get(i_)
            a = l["owner"] if l and not malformed else r.range(1, 4)
            o = {"k": "add", "o": a, "id": i_, "amt": r.choice([0, 1, 5, r.range(1, 10**4)])}
        elif x < 36:
            i_ = pick(nu)
            l = tr.locks.get(i_)
            a = l["owner"] if l and not malformed else r.range(1, 4)
            bigger = [d for d in lockdurs if l and d > l["dur"]]
            # prefer a duration under which the same owner already holds the same denomination: two locks then share one key
            twin = [x["dur"] for x in tr.locks.values() if l and x is not l and x["owner"] == l["owner"] and x["denom"] == l["denom"] and x["end"] == 0 and x["dur"] > l["dur"]]
            if twin and r.chance(1, 2):
                bigger = twin
            d = r.choice(bigger) if bigger and not malformed else r.choice(durs + [0, (l["dur"] if l else 1), (l["dur"] + 1 if l else 2)])
            o = {"k": "extend", "o": a, "id": i_, "dur": d}
            if l:
                foc = (l["owner"], l["denom"], d, tr.now + max(d, 0))
        elif x < 54:
            i_ = pick(nu)
            l = tr.locks.get(i_)
            a = l["owner"] if l and not malformed else r.range(1, 4)
            n = l["denom"] if l and not r.chance(1, 15) else r.range(1, 3)
            m = l["amt"] if l else 5
            amt = r.choice([0, 0, m, max(1, m // 2), 1, max(1, m - 1), r.range(1, max(1, m))])
            if malformed:
                amt = r.choice([m + 1, amt, -1])
            o = {"k": "begin", "o": a, "id": i_, "n": n, "amt": amt}
        elif x < 58:
            o = {"k": "beginall", "o": r.range(1, 4)}
            foc = (o["o"], r.range(1, 3), r.choice(durs), tr.now + r.choice(durs))
        elif x < 66:
            mat = [i_ for i_ in un if tr.locks[i_]["end"] <= tr.now]
            i_ = pick(mat if mat and not r.chance(1, 4) else un)
            o = {"k": "unlock", "id": i_}
        elif x < 72:
            o = {"k": "withdraw", "cnt": r.choice([0, 0, 1, 2, 1000])}
        elif x < 75:
            o = {"k": "endblock", "h": r.choice([120, 240, 0, 121, 119])}
        elif x < 76:
            o = {"k": "rebuild", "n": r.range(1, 3)}
        elif x < 80:
            i_ = pick(live)
            l = tr.locks.get(i_)
            a = l["owner"] if l and not malformed else r.range(1, 4)
            o = {"k": "setrr", "o": a, "id": i_, "rr": r.range(1, 4)}
        elif x < 85:
            i_ = pick(live)
            l = tr.locks.get(i_)
            a = l["owner"] if l and not malformed else r.range(1, 4)
            n = l["denom"] if l and not r.chance(1, 15) else r.range(1, 3)
            m = l["amt"] if l else 5
            amt = r.choice([0, m, max(1, m // 2), 1, r.range(1, max(1, m)), m + 1])
            o = {"k": "force", "o": a, "id": i_, "n": n, "amt": amt}
        else:
            pend = sorted(set(l["end"] for l in tr.locks.values() if l["end"] > tr.now))
            steps = [0, 1, unit - 1, unit, unit + 1, r.choice(durs), r.choice(durs) + r.choice([-1, 0, 1]), 2 * unit, sum(durs)]
            if pend and r.chance(1, 2):
                t = r.choice(pend) + r.choice([-1, 0, 0, 1])
            else:
                t = tr.now + max(0, r.choice(steps))
            if malformed and r.chance(1, 3):
                t = tr.now - 1
            o = {"k": "time", "t": max(t, 1)}
        if foc is None:
            l = tr.locks.get(o.get("id", -1))
            if l:
                foc = (l["owner"], l["denom"], l["dur"], l["end"] if l["end"] else tr.now + l["dur"])
            else:
                foc = (r.range(1, 3), r.range(1, 3), r.choice(durs), tr.now + r.choice(durs))
        tr.apply(o)
        full = all_full or (i == nops - 1) or r.chance(1, pfull)
        now = tr.now
        if full:
            # durations: 0, a negative one, every universe duration and a neighbour; times: one long past, now, now -+ 1, recent end times -+ 1
            qd = [0, r.choice([-1, -10**9])]
            for d in durs + ([r.choice(lockdurs), r.choice(lockdurs)] if len(lockdurs) > len(durs) else []):
                qd += [d, d + r.choice([-1, 1])]
            qt = [1, now, now + r.choice([-1, 1])]
            for e in sorted(set(tr.ends[-3:] + [l["end"] for l in tr.locks.values() if l["end"]]))[-4:]:
                qt.append(e + r.choice([-1, 0, 0, 1]))
            q = {"a": [1, 2, 3] + ([4] if r.chance(1, 4) else []), "n": [1, 2, 3], "d": sorted(set(qd)), "t": sorted(set(max(1, t) for t in qt))}
        else:
            a, n, d, e = foc
            qd = [max(0, d), max(0, d + r.choice([-1, 1]))]
            if r.chance(1, 2):
                qd.append(r.choice(durs))
            qt = [now, e, e + r.choice([-1, 1])]
            q = {"a": [a], "n": [n], "d": sorted(set(qd)), "t": sorted(set(max(1, t) for t in qt))}
        o["q"] = q
        c["ops"].append(o)
    return c


# ---------------------------------------------------------------------------------------------
# Coq case writer
# ---------------------------------------------------------------------------------------------
def coq_op(o):
    k = o["k"]
    z = zlit
    if k == "lock":
        return "OLock %s %s %s %s" % (z(o["o"]), z(o["n"]), z(o["amt"]), z(o["dur"]))
    if k == "add":
        return "OAdd %s %s %s" % (z(o["o"]), z(o["id"]), z(o["amt"]))
    if k == "extend":
        return "OExtend %s %s %s" % (z(o["o"]), z(o["id"]), z(o["dur"]))
    if k == "begin":
        return "OBegin %s %s %s %s" % (z(o["o"]), z(o["id"]), z(o["n"]), z(o["amt"]))
    if k == "beginall":
        return "OBeginAll %s" % z(o["o"])
    if k == "unlock":
        return "OUnlock %s" % z(o["id"])
    if k == "withdraw":
        return "OWithdraw %s" % z(o["cnt"])
    if k == "endblock":
        return "OEndBlock %s" % z(o["h"])
    if k == "setrr":
        return "OSetRR %s %s %s" % (z(o["o"]), z(o["id"]), z(o["rr"]))
    if k == "force":
        return "OForce %s %s %s %s" % (z(o["o"]), z(o["id"]), z(o["n"]), z(o["amt"]))
    if k == "time":
        return "OTime %s" % z(o["t"])
    raise ValueError(k)


def coq_xop(o):
    if o["k"] == "rebuild":
        return "XRebuild %s" % zlit(o["n"])
    return "XOp (%s)" % coq_op(o)


def coq_q(q, keep):
    if q is None or not keep:
        return "None"
    return "Some (mkQ %s %s %s %s)" % (zlist(q["a"]), zlist(q["n"]), zlist(q["d"]), zlist(q["t"]))


def coq_case(c, expect, keep=None):
    ops = ";\n    ".join("(%s, %s)" % (coq_xop(o), coq_q(o.get("q"), True if keep is None else keep[i])) for i, o in enumerate(c["ops"]))
    fund = "[" + "; ".join(zlist(row) for row in c["fund"]) + "]"
    g = c.get("gen") or {"last": 0, "locks": []}
    gl = "[" + "; ".join("mkLock %s %s %s %s %s %s %s" % tuple(zlit(x[k]) for k in ("id", "o", "n", "amt", "dur", "end", "rr")) for x in g["locks"]) + "]"
    return "mkCase %s %d %d %s %s %s %s %s\n   [%s]\n   %s" % (zlit(c["t0"]), len(c["denoms"]), c["nacc"], fund, zlist(c["force"]), zlist(c["adurs"]),
                                                                  zlit(g["last"]), gl, ops, zlist(expect))


# ---------------------------------------------------------------------------------------------
# oracle: the property's own predicates on the implementation's observations
# ---------------------------------------------------------------------------------------------
def parse_obs(c, o, flat):
    """split one observation vector; returns dict(now,last,mod,nmod,bal,locks,acc,queries) - queries as list of (family, args, result)"""
    nd = len(c["denoms"])
    p = 0
    now = flat[p]; p += 1
    last = flat[p]; p += 1
    mod = flat[p:p + nd]; p += nd
    nmod = flat[p]; p += 1
    bal = []
    for a in range(c["nacc"]):
        bal.append(flat[p:p + nd]); p += nd
    locks = {}
    bad = []
    for i in range(1, last + 2):
        tag = flat[p]; p += 1
        if tag == 0:
            continue
        if tag == 9:
            bad.append((i, flat[p])); p += 1
            continue
        assert tag == 1, "unknown lock record tag %d" % tag
        owner, denom, amt, dur, end, rr, rre = flat[p:p + 7]; p += 7
        locks[i] = {"id": i, "owner": owner, "denom": denom, "amt": amt, "dur": dur, "end": end, "rr": rr, "rre": rre}
    acc = []
    junk = (p, p + len(c["adurs"]))     # the store of the empty denomination (AddTokensToLockByID's "synthetic denom" without synthetic lock)
    for n in range(nd + 1):
        acc.append(flat[p:p + len(c["adurs"])]); p += len(c["adurs"])
    queries = []
    q = o.get("q")
    if q:
        for name, sig, kind in FAMILIES:
            for args in arg_tuples(sig, q):
                if kind == "ids":
                    k = flat[p]; p += 1
                    res = flat[p:p + k]; p += k
                elif kind == "coins":
                    res = flat[p:p + nd + 1]; p += nd + 1
                else:
                    res = flat[p:p + 1]; p += 1
                queries.append((name, kind, args, res))
    assert p == len(flat), "observation vector has %d numbers, parsed %d" % (len(flat), p)
    return {"now": now, "last": last, "mod": mod, "nmod": nmod, "bal": bal, "locks": locks, "bad": bad, "acc": acc, "queries": queries, "junk": junk}


def check_state(c, ob):
    """predicates on one observed state: module balance, accumulation, every query = definitional filter of the lock table"""
    v = []
    nd = len(c["denoms"])
    locks = list(ob["locks"].values())
    for i, k in ob["bad"]:
        v.append({"what": "lock %d holds %d coins" % (i, k), "rec": {"kind": "lock_record"}})
    for l in locks:
        if l["amt"] <= 0 or not (1 <= l["owner"] <= c["nacc"]) or not (1 <= l["denom"] <= nd) or l["dur"] <= 0 or l["end"] < 0:
            v.append({"what": "malformed lock record %s" % l, "rec": {"kind": "lock_record"}})
        if l["rre"] != (l["rr"] if l["rr"] else l["owner"]):
            v.append({"what": "reward receiver of lock %d: stored %d, reported %d, owner %d" % (l["id"], l["rr"], l["rre"], l["owner"]), "rec": {"kind": "lock_record"}})
    for n in range(1, nd + 1):
        tot = sum(l["amt"] for l in locks if l["denom"] == n)
        if ob["mod"][n - 1] != tot:
            v.append({"what": "module account holds %d of denom %d, live locks hold %d" % (ob["mod"][n - 1], n, tot), "rec": {"kind": "module_balance"}})
        for j, d in enumerate(c["adurs"]):
            exp = sum(l["amt"] for l in locks if l["denom"] == n and l["dur"] >= d)
            if ob["acc"][n][j] != exp:
                v.append({"what": "accumulation(denom %d, duration >= %d) = %d, live locks give %d" % (n, d, ob["acc"][n][j], exp),
                          "rec": {"kind": "accumulation", "fn": "GetPeriodLocksAccumulation"}})
    if ob["nmod"] != sum(1 for x in ob["mod"] if x != 0):
        v.append({"what": "module account holds %d denominations, %d of them known" % (ob["nmod"], sum(1 for x in ob["mod"] if x != 0)), "rec": {"kind": "module_balance"}})
    preds = {}
    for name, kind, args, res in ob["queries"]:
        pr = preds.get(name)
        if pr is None:
            pr = preds[name] = spec_pred(name, ob["now"])
        u, a, n, d, t = args
        m = [l for l in locks if pr(l, u, a, n, d, t)]
        if kind == "ids":
            exp = sorted(l["id"] for l in m)
        elif kind == "coins":
            exp = [sum(l["amt"] for l in m if l["denom"] == k) for k in range(1, nd + 1)] + [0]
        elif name == "HasLock":
            exp = [1 if m else 0]
        elif d < 0:
            continue      # GetLockedDenom with a negative duration: not a duration (the code casts it to uint64; pinned by the model only)
        else:
            exp = [sum(l["amt"] for l in m)]
        if list(res) != exp:
            rec = {"kind": "query", "fn": name}
            if kind == "ids" and 1 <= n <= nd:
                # C06-F1: an iterator over a denomination also returns the locks of denominations that extend it (gamm/pool/1 -> gamm/pool/10)
                extra = [i for i in res if i not in exp]
                dq = c["denoms"][n - 1]
                if extra and all(i in res for i in exp) and all(
                        i in ob["locks"] and 1 <= ob["locks"][i]["denom"] <= nd and c["denoms"][ob["locks"][i]["denom"] - 1] != dq
                        and c["denoms"][ob["locks"][i]["denom"] - 1].startswith(dq) for i in extra):
                    rec["class"] = "denom_prefix_leak"
            v.append({"what": "%s(unlocking=%s, account=%d, denom=%d '%s', duration=%d, time=%d) at block time %d returned %s, the lock table gives %s"
                      % (name, u, a, n, c["denoms"][n - 1] if 1 <= n <= nd else "", d, t, ob["now"], list(res), exp), "rec": rec})
    return v


def locked(ob, a, n):
    return sum(l["amt"] for l in ob["locks"].values() if l["owner"] == a and l["denom"] == n)


def check_step(c, o, code, prev, cur):
    """predicates on one transition: conservation, release only to the owner and only when matured, end time = begin + duration,
    immutable owner / denomination, fresh ids, splits preserve the sum"""
    v = []
    nd = len(c["denoms"])
    if code != 0:
        same = all(prev[k] == cur[k] for k in ("now", "last", "mod", "bal", "locks", "acc") if prev[k] is not None)
        if not same:
            v.append({"what": "operation %s failed (code %d) but the state changed" % (o["k"], code), "rec": {"kind": "atomicity"}})
        return v
    if cur["now"] < prev["now"]:
        v.append({"what": "block time went backwards", "rec": {"kind": "time"}})
    for a in range(1, c["nacc"] + 1):
        for n in range(1, nd + 1):
            b0, b1 = prev["bal"][a - 1][n - 1] + locked(prev, a, n), cur["bal"][a - 1][n - 1] + locked(cur, a, n)
            if b0 != b1:
                v.append({"what": "account %d denom %d: balance + locked went from %d to %d during %s" % (a, n, b0, b1, o["k"]), "rec": {"kind": "conservation", "op": o["k"]}})
    if cur["last"] < prev["last"]:
        v.append({"what": "last lock id decreased", "rec": {"kind": "fresh_id"}})
    forced = o["k"] == "force" and o["o"] in c["force"]
    now = cur["now"]
    new = {i: l for i, l in cur["locks"].items() if i not in prev["locks"]}
    for i, l in new.items():
        if i <= prev["last"] or i > cur["last"]:
            v.append({"what": "new lock %d is not fresh (last id before %d, after %d)" % (i, prev["last"], cur["last"]), "rec": {"kind": "fresh_id"}})
        if l["end"] != 0 and l["end"] != now + l["dur"]:
            v.append({"what": "new unlocking lock %d ends at %d, block time %d + duration %d" % (i, l["end"], now, l["dur"]), "rec": {"kind": "end_time"}})
    for i, l in prev["locks"].items():
        l1 = cur["locks"].get(i)
        if l1 is None:
            matured = l["end"] != 0 and now >= l["end"]
            if not matured and not (forced and o["id"] == i and l["owner"] == o["o"]):
                v.append({"what": "lock %d (end %d, duration %d) was released at block time %d by %s" % (i, l["end"], l["dur"], now, o["k"]),
                          "rec": {"kind": "early_release", "op": o["k"]}})
            continue
        if l1["owner"] != l["owner"] or l1["denom"] != l["denom"]:
            v.append({"what": "lock %d changed owner/denomination" % i, "rec": {"kind": "lock_mutation"}})
        if l["end"] != 0 and (l1["end"] != l["end"] or l1["dur"] != l["dur"]):
            v.append({"what": "unlocking lock %d changed end time/duration: %s -> %s" % (i, l, l1), "rec": {"kind": "end_time"}})
        if l["end"] == 0 and l1["end"] != 0 and (l1["end"] != now + l1["dur"] or l1["dur"] != l["dur"]):
            v.append({"what": "lock %d began unlocking at %d with duration %d but ends at %d" % (i, now, l["dur"], l1["end"]), "rec": {"kind": "end_time"}})
        if l1["dur"] < l["dur"]:
            v.append({"what": "lock %d duration shortened %d -> %d" % (i, l["dur"], l1["dur"]), "rec": {"kind": "end_time"}})
        if l1["amt"] < l["amt"]:
            # only a split may take coins out of a live lock: the difference sits in fresh locks of the same owner/denom/duration
            # (or, for a whitelisted force-unlock, was paid out - conservation above makes sure it went to the owner)
            parts = sum(x["amt"] for x in new.values() if x["owner"] == l["owner"] and x["denom"] == l["denom"] and x["dur"] == l["dur"])
            if parts != l["amt"] - l1["amt"] and not (forced and o["id"] == i):
                v.append({"what": "lock %d shrank from %d to %d during %s; fresh locks of the same owner/denom/duration hold %d" % (i, l["amt"], l1["amt"], o["k"], parts),
                          "rec": {"kind": "split", "op": o["k"]}})
    return v


def oracle_case(c, obs):
    v = []
    nd = len(c["denoms"])
    prev = {"now": c["t0"], "last": 0, "mod": [0] * nd, "nmod": 0, "bal": [list(r) for r in c["fund"]], "locks": {}, "bad": [], "acc": [[0] * len(c["adurs"])] * (nd + 1), "queries": []}
    if c.get("gen"):
        # the genesis is the given starting point: its locks are live, the module account was funded with their coins
        prev["last"] = c["gen"]["last"]
        for g in c["gen"]["locks"]:
            prev["locks"][g["id"]] = {"id": g["id"], "owner": g["o"], "denom": g["n"], "amt": g["amt"], "dur": g["dur"], "end": g["end"], "rr": g["rr"],
                                      "rre": g["rr"] or g["o"]}
            prev["mod"][g["n"] - 1] += g["amt"]
        prev["acc"] = None
    stats = {"ok": {}, "err": {}, "released": 0, "splits": 0, "queries": 0}
    for i, (o, code, flat) in enumerate(zip(c["ops"], obs["codes"], obs["flat"])):
        cur = parse_obs(c, o, flat)
        for x in check_state(c, cur) + check_step(c, o, code, prev, cur):
            x["op_index"] = i
            v.append(x)
        stats["queries"] += len(cur["queries"])
        if code == 0:
            stats["ok"][o["k"]] = stats["ok"].get(o["k"], 0) + 1
            stats["released"] += sum(1 for j in prev["locks"] if j not in cur["locks"])
            if o["k"] in ("begin", "force") and cur["last"] > prev["last"]:
                stats["splits"] += 1
        else:
            key = "%s:%d" % (o["k"], code)
            stats["err"][key] = stats["err"].get(key, 0) + 1
        prev = cur
        if len([x for x in v if x["rec"].get("class") != "denom_prefix_leak"]) > 5 or len(v) > 400:
            break
    return v, stats


# ---------------------------------------------------------------------------------------------
# running
# ---------------------------------------------------------------------------------------------
def _shard(args):
    """one worker: drive its share of the cases in small batches (bounded memory, bounded time per driver process), run the
    oracle on every observation and keep only digests, statistics and violations"""
    binary, allcases = args
    out = []
    for b in range(0, len(allcases), 24):
        out += _batch(binary, allcases[b:b + 24])
    return out


def _batch(binary, cases):
    obs = common.run_driver(binary, cases, args="-test.run ^TestDriver$", shards=1, timeout=7200)
    out = []
    for c, o in zip(cases, obs):
        if o.get("err") or len(o.get("codes", [])) != len(c["ops"]):
            out.append({"err": o.get("err") or "driver returned %d observations for %d operations" % (len(o.get("codes", [])), len(c["ops"])), "msgs": o.get("msgs")})
            continue
        try:
            v, stats = oracle_case(c, o)
        except AssertionError as ex:
            out.append({"err": "observation vector malformed: %s" % ex})
            continue
        for x in v:
            k = x.get("op_index", 0)
            x["impl_flat"] = o["flat"][k][:400]
        # keep the first violations, and one representative per (kind, fn, class)
        keep, seen = [], set()
        for x in v:
            key = json.dumps(x["rec"], sort_keys=True)
            if key not in seen or len(keep) < 3:
                keep.append(x)
            seen.add(key)
        out.append({"codes": o["codes"], "hs": o["hs"], "hs0": o["hs0"], "viol": keep[:12], "stats": stats, "msgs": o.get("msgs")})
    return out


def run_impl(cases, nshards=None):
    binary = common.go_build("c06drv", test=True)
    nshards = nshards or max(1, min(12, common.NPROC - 2, len(cases)))
    chunks = [cases[i::nshards] for i in range(nshards)]
    if nshards == 1:
        res = [_shard((binary, chunks[0]))]
    else:
        with multiprocessing.Pool(nshards) as pool:
            res = pool.map(_shard, [(binary, ch) for ch in chunks])
    out = [None] * len(cases)
    for i in range(nshards):
        for j, r in enumerate(res[i]):
            out[i + j * nshards] = r
    return out


def coq_keep(c, tier):
    """which operations keep their query sweep in the Coq comparison (the oracle sees every sweep): all light (focus) sweeps and
    the full sweep after the last operation; for the other full sweeps the digest of the state part is compared"""
    keep = []
    n = len(c["ops"])
    for i, o in enumerate(c["ops"]):
        q = o.get("q")
        if q is None:
            keep.append(False)
        elif len(q["a"]) >= 3 and i != n - 1:
            keep.append(False)
        else:
            keep.append(True)
    return keep


def run_cases(cases, model_ok, out, tag, tier="quick", per_file=8):
    res = run_impl(cases)
    good = []
    for c, r in zip(cases, res):
        out.evaluations += 1
        if r.get("err"):
            out.oracle_violations.append({"what": "driver: " + r["err"], "rec": {"kind": "unexpected_panic"}, "case": c})
            continue
        for v in r["viol"]:
            v["case"] = c
            out.oracle_violations.append(v)
        st = r["stats"]
        if st["ok"].get("lock", 0) > 0 and st["ok"].get("begin", 0) + st["ok"].get("beginall", 0) > 0 and st["released"] > 0:
            out.nontrivial.add(json.dumps(c, sort_keys=True))
        for k, n in st["ok"].items():
            out.distribution.setdefault("ok_ops", {})
            out.distribution["ok_ops"][k] = out.distribution["ok_ops"].get(k, 0) + n
        for k, n in st["err"].items():
            out.distribution.setdefault("failed_ops(kind:code)", {})
            out.distribution["failed_ops(kind:code)"][k] = out.distribution["failed_ops(kind:code)"].get(k, 0) + n
        for k in ("released", "splits", "queries"):
            out.distribution[k] = out.distribution.get(k, 0) + st[k]
        good.append((c, r))
    if not model_ok:
        out.model_ran = False
        return
    # where the Coq comparison drops a sweep, the digest of the state part alone (hs0) is the expectation
    reduced = []
    res2 = []
    for c, r in good:
        keep = coq_keep(c, tier)
        reduced.append(dict(c, ops=[dict(o, q=(o.get("q") if k else None)) for o, k in zip(c["ops"], keep)]))
        res2.append({"codes": r["codes"], "hs": [h if k else h0 for h, h0, k in zip(r["hs"], r["hs0"], keep)]})
    items = []
    groups = []
    for fi in range(0, len(reduced), per_file):
        chunk = [(c2, r2, c) for (c2, r2, (c, _)) in zip(reduced[fi:fi + per_file], res2[fi:fi + per_file], good[fi:fi + per_file]) if r2 is not None]
        body = ";\n  ".join(coq_case(c2, [x for pair in zip(r2["codes"], r2["hs"]) for x in pair]) for c2, r2, _ in chunk)
        v = ("From Coq Require Import ZArith List. Import ListNotations.\n"
             "From Osmo Require Import Base.Obs C06.Model C06.Corr.\nOpen Scope Z_scope.\n"
             "Definition cases : list case := [\n  %s ].\n"
             "Definition M := Eval vm_compute in mismatches case_ok cases.\nPrint M.\n" % body)
        items.append(("C06_%s_%d" % (tag, fi // per_file), v))
        groups.append(chunk)
    evres = common.coq_eval_many(items)
    for (name, _), (rc, o), chunk in zip(items, evres, groups):
        mm = common.parse_nat_list(o)
        if rc != 0 or mm is None:
            out.mismatches.append({"what": "model evaluation failed: " + o[-500:], "case": None})
            continue
        for idx in mm:
            c2, r2, c = chunk[idx]
            out.mismatches.append({"what": "C06 model observations differ from the implementation's (result codes / digests per operation)", "case": c,
                                   "impl_codes": r2["codes"]})


def correspond(tier, seed, model_ok):
    out = Outcome()
    r = Rng(seed)
    n = 300 if tier == "quick" else 4000
    cases = [gen_case(r.fork(i), tier) for i in range(n)]
    corpus = common.load_corpus(PROP)
    run_cases(corpus + cases, model_ok, out, "q", tier)
    # a small stream with denominations one of which extends another (as gamm/pool/1 and gamm/pool/10 do on the chain): outside the
    # model's scope (see ASSUMPTIONS), so implementation + oracle only
    rp = Rng(seed + 31337)
    pcases = []
    for i in range(8 if tier == "quick" else 160):
        c = gen_case(rp.fork(i), tier, nops=rp.range(20, 50), all_full=True)
        c["denoms"] = PREFIX_DENOMS
        pcases.append(c)
    run_cases(pcases, False, out, "p", tier)
    out.model_ran = model_ok
    out.distribution["prefix_denom_histories(oracle only)"] = len(pcases)
    out.rule = ("cases = histories of 20-%d lockup operations (lock / add-to-lock / extend / full and partial begin-unlock / begin-unlock-all / unlock / "
                "withdraw-matured / end-block / set-reward-receiver / force-unlock / block-time advance) by 3 owners over 3 denominations and 4 durations, "
                "one history in four from a genesis with 1-6 locks (InitializeAllLocks), an occasional RebuildAccumulationStoreForDenom, about 1 in 12 operations deliberately malformed; non-trivial = at least one successful lock, one successful begin-unlock and one lock released "
                "after maturity or by force; distinct = distinct case JSON" % (80 if tier == "quick" else 120))
    out.samples = [{"t0": c["t0"], "durs": c["durs"], "fund": c["fund"], "force": c["force"], "ops": [{k: v for k, v in o.items() if k != "q"} for o in c["ops"][:8]]} for c in cases[:3]]
    out.distribution["histories"] = len(cases)
    out.distribution["ops_total"] = sum(len(c["ops"]) for c in cases)
    out.distribution["corpus_cases"] = len(corpus)
    return out


def search(tier, seed, out):
    """targeted search after a proof/correspondence break: many more histories through the oracle only, starting with the disagreeing ones"""
    o2 = Outcome()
    r = Rng(seed + 7919)
    cases = [m["case"] for m in out.mismatches[:40] if m.get("case")]
    cases += [gen_case(r.fork(i), "thorough") for i in range(600)]
    run_cases(cases, False, o2, "s", tier)
    return o2.oracle_violations[0] if o2.oracle_violations else None


def explain_mismatch(c):
    """run one case through the implementation and through the model's full observation vectors (Corr.model_full) and
    describe the first difference (development / replay aid)"""
    import re
    binary = common.go_build("c06drv", test=True)
    o = common.run_driver(binary, [c], args="-test.run ^TestDriver$", shards=1)[0]
    if o.get("err"):
        return "driver: " + o["err"]
    v = ("From Coq Require Import ZArith List. Import ListNotations.\nFrom Osmo Require Import Base.Obs C06.Model C06.Corr.\nOpen Scope Z_scope.\n"
         "Definition c : case := %s.\nDefinition F := Eval vm_compute in model_full c.\nPrint F.\n" % coq_case(c, []))
    rc, out = common.coq_eval("C06_explain", v)
    m = re.search(r"F\s*=\s*(\[.*\])\s*:\s*list \(list Z\)", out.replace("\n", " "))
    if rc != 0 or not m:
        return "model evaluation failed: " + out[-400:]
    rows = [[int(x) for x in re.findall(r"-?\d+", row)] for row in re.findall(r"\[([^\[\]]*)\]", m.group(1))]
    if len(rows) != len(c["ops"]):
        return "could not parse the model's output (%d rows for %d operations)" % (len(rows), len(c["ops"]))
    for i, (op, code, flat, row) in enumerate(zip(c["ops"], o["codes"], o["flat"], rows)):
        mc, mf = row[0], row[1:]
        if not (mc == code or (code == 13 and mc != 0)):
            return "op %d %s: result code implementation %d, model %d" % (i, {k: v for k, v in op.items() if k != "q"}, code, mc)
        if mf != list(flat):
            j = next((k for k in range(min(len(mf), len(flat))) if mf[k] != flat[k]), min(len(mf), len(flat)))
            return ("op %d %s: observation vectors differ at position %d (implementation %s, model %s; lengths %d / %d); state part = block time, last id, "
                    "module balances, #denoms, account balances, lock records, accumulations; then the query sweep"
                    % (i, {k: v for k, v in op.items() if k != "q"}, j, flat[j:j + 6], mf[j:j + 6], len(flat), len(mf)))
    return "no difference found"


def replay(path):
    d = json.load(open(path))
    c = d["case"].get("case") if isinstance(d.get("case"), dict) else None
    if not c:
        print("replay names a proof obligation / correspondence, not an input:", d.get("what"))
        return 1
    out = Outcome()
    run_cases([c], True, out, "r")
    for v in out.oracle_violations:
        print("oracle:", v["what"])
    for m in out.mismatches:
        print("mismatch:", m["what"])
        print("  ", explain_mismatch(c))
    return 1 if (out.oracle_violations or out.mismatches) else 0


SCOPE = ("full for the modelled scope: all 21 theorems of Properties/C06.v are proved for every history of the eleven modelled operations (axiom-free): "
         "module balance = sum of live locks; accumulation(>= d) = sum over live locks for every denomination and d >= 0; reference entries exact and every "
         "iterator = definitional filter (store.go composites = concatenation of their iterators, never failing); conservation; owner-only / not-early "
         "(balance growth per operation bounded by the account's own matured locks, force-unlock guarded by owner + allow-list); lawful evolution of every "
         "lock record (end time set once to block time + duration); per-lock release only when matured, and the trace-level time-lock (release time >= "
         "begin-unlock block time + duration); the same from any well-formed genesis with locks (InitializeAllLocks); split preserves sum/owner/duration with a fresh id. Not modelled: synthetic locks "
         "(C11), multi-coin locks, CL share denominations, the sum-tree behind the accumulation store (C16)")
EXPLANATION = ("Theorems over the Gallina model C06/Model.v (lockup keeper + msg server + EndBlocker over a small bank, reference indexes as the set of "
               "(structured key, id) store entries, accumulation store as a sorted map) by invariants over operation histories with monotone block times. "
               "The model is tied to /repo by running the real full app through the lockup MsgServer / keeper / EndBlocker (atomic execution) on generated "
               "histories and comparing after every operation: result code, last lock id, module and owner balances, every lock record, "
               "GetPeriodLocksAccumulation for every universe duration +-1 ns on every denomination, and (on a per-operation focus sweep plus periodic full sweeps) "
               "all 18 iterators of iterator.go and 21 query functions of store.go/lock.go over the argument universe - as 50-bit digests of the observation vectors. "
               "An independent Python oracle evaluates the property's predicates (balances, accumulation, every query = filter of the lock table, conservation, "
               "release only when matured and only to the owner, end time = begin time + duration, fresh ids, split sums) on every implementation observation.")
TRUSTED = [
    "hand-written model coq/theories/C06/Model.v, tied to x/lockup by the correspondence run (harness/c06drv against /repo's working tree)",
    "harness/c06drv (Go), props/c06.py (generator, flattening, oracle), Coq vm_compute evaluation of generated case files; 50-bit digests of the per-operation observation vectors",
    "modelled not verified: SDK bank keeper (single-coin sends, insufficient-funds check), KV store iteration order, osmoutils/sumtree (abstracted as a sorted map; C16), hooks of other modules (no-ops without synthetic locks)",
]
ASSUMPTIONS = [
    "no superfluid / synthetic locks and no concentrated-liquidity share denominations exist (C11)",
    "a lock holds one coin (MsgLockTokens.ValidateBasic) and AddTokensToLockByID is called with the lock's own denomination (its only caller does)",
    "account addresses have equal length and no denomination is a proper prefix of another (the exported but unused iterators LockIteratorDenom / *BeforeTimeDenom would otherwise also return locks of the longer denomination)",
    "message handlers run atomically (DESIGN 1.5); block times are monotone and later than Go's zero time",
]
TECHNIQUE = "Coq proof by induction over operation histories on a Gallina model of the lockup keeper and msg server; model tied to x/lockup by differential correspondence (vm_compute) + oracle"
LEVEL_TEXT = ("Machine-checked theorems (Coq 8.16.1, axiom-free) for all finite histories of lock / add-to-lock / extend / begin-unlock (full, partial = split) / "
              "begin-unlock-all / unlock / withdraw-matured / end-block / set-reward-receiver / force-unlock / block-time advance by any senders with any arguments: "
              "module balance, accumulation totals, exact reference indexes and iterators, conservation, owner-only and not-early release, lawful lock evolution, "
              "split preservation. The model is hand-written and checked against the real x/lockup code (full app) on generated histories on every run; "
              "an independent oracle evaluates the property's predicates on the implementation's observations.")
LEVEL_NOTE = ("Trusted: Coq kernel (vm_compute, no native_compute), no axioms; hand-written model C06/Model.v; Go driver harness/c06drv and python glue; "
              "SDK bank / KV store / sum-tree (abstracted), hooks of other modules, baseapp atomicity. Scope: single-coin locks, no synthetic locks, "
              "denominations that are not prefixes of one another.")


def selftest(seed=1, n=6):
    """development aid (python3 -c 'from props import c06; c06.selftest()'): the oracle must flag hand-perturbed observations and
    case_ok must reject perturbed expectations / perturbed model inputs"""
    import copy
    r = Rng(seed)
    cases = [gen_case(r.fork(i), "quick") for i in range(n)]
    binary = common.go_build("c06drv", test=True)
    obs = common.run_driver(binary, cases, args="-test.run ^TestDriver$", shards=1)
    ok = True
    for c, o in zip(cases, obs):
        v, _ = oracle_case(c, o)
        assert not v, v
    # 1. oracle: perturb single numbers of the observation vectors
    nd = len(DENOMS)
    kinds = {}
    rr = Rng(seed + 1)
    for trial in range(200):
        ci = rr.below(n)
        c, o = cases[ci], copy.deepcopy(obs[ci])
        k = rr.below(len(o["flat"]))
        f = o["flat"][k]
        j = rr.range(1, len(f) - 1)          # not the block time
        jr = parse_obs(c, c["ops"][k], f)["junk"]
        if jr[0] <= j < jr[1]:
            continue                         # the accumulation store of the empty denomination is not covered by the property
        f[j] += rr.choice([1, -1]) if f[j] > 0 else 1
        try:
            v, _ = oracle_case(c, o)
        except AssertionError:
            v = [{"rec": {"kind": "malformed"}}]
        except Exception as ex:   # a perturbed count can make the parse run off the end
            v = [{"rec": {"kind": "malformed:" + type(ex).__name__}}]
        if not v:
            ob = parse_obs(c, c["ops"][k], obs[ci]["flat"][k])
            # the stored reward-receiver field may name the owner explicitly instead of "" - not covered by the property
            pos = 3 + nd * (c["nacc"] + 1)
            rrpos = set()
            for i in range(1, ob["last"] + 2):
                if i in ob["locks"]:
                    rrpos.add(pos + 6)
                    pos += 8
                else:
                    pos += 1
            if j in rrpos:
                continue
            print("NOT FLAGGED: case %d op %d position %d of %d" % (ci, k, j, len(f)))
            ok = False
        else:
            kk = v[0]["rec"]["kind"]
            kinds[kk] = kinds.get(kk, 0) + 1
    print("oracle self-test: perturbations flagged as", kinds)
    # 2. case_ok: perturbed expectation / perturbed model input
    body = []
    for i, (c, o) in enumerate(zip(cases, obs)):
        keep = coq_keep(c, "quick")
        c2 = dict(c, ops=[dict(op, q=(op.get("q") if k else None)) for op, k in zip(c["ops"], keep)])
        hs = [h if k else h0 for h, h0, k in zip(o["hs"], o["hs0"], keep)]
        codes = list(o["codes"])
        if i == 1:
            hs[len(hs) // 2] ^= 1
        if i == 2:
            codes[3] = 0 if codes[3] else 2
        if i == 3:
            for op, code in zip(c2["ops"], codes):
                if op["k"] == "lock" and op["amt"] > 0 and code == 0:
                    op["amt"] += 1
                    break
        body.append(coq_case(c2, [x for p in zip(codes, hs) for x in p]))
    v = ("From Coq Require Import ZArith List. Import ListNotations.\nFrom Osmo Require Import Base.Obs C06.Model C06.Corr.\nOpen Scope Z_scope.\n"
         "Definition cases : list case := [\n  %s ].\nDefinition M := Eval vm_compute in mismatches case_ok cases.\nPrint M.\n" % ";\n  ".join(body))
    rc, out = common.coq_eval("C06_selftest", v)
    mm = common.parse_nat_list(out)
    print("case_ok self-test: mismatching cases", mm, "(expected [1, 2, 3])")
    return ok and mm == [1, 2, 3]
