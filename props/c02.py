"""C02 - classic pools and the swap router neither create nor lose funds.
History generator, Coq case writer (table-driven pool math), oracle (the four equalities of the property text)."""
import json
import sys

from lib import common
from lib.common import Rng, Outcome, zlit, zlist

PROP = "C02"
GO_PKGS = [("routerdrv", True)]
MODEL_VO = ["theories/C02/Corr.vo"]
ALLOWED_AXIOMS = []

# ordinary denominations, in lexicographic order of their names (sdk.Coins order = index order)
DENOMS = ["atom", "bar", "baz", "eth", "foo", "uosmo", "usdc", "wbtc"]
ND = len(DENOMS)
UOSMO = DENOMS.index("uosmo")
NPOOL = 4
NACC = 3


# ---------------------------------------------------------------------------------------------
# generator
# ---------------------------------------------------------------------------------------------
def pick(r, xs, n):
    xs = list(xs)
    out = []
    for _ in range(min(n, len(xs))):
        out.append(xs.pop(r.below(len(xs))))
    return out


def gen_create(r, a):
    t = "bal" if r.chance(3, 5) else "ss"
    n = r.choice([2, 2, 2, 3, 3, 4, 5, 6, 7, 8])
    ds = pick(r, range(ND), n)
    if t == "bal":
        mag = r.choice([10 ** 6, 10 ** 8, 10 ** 10, 10 ** 12])
        return {"k": "create", "a": a, "t": "bal", "d": ds, "amt": [str(r.range(mag, 20 * mag)) for _ in ds],
                "w": [r.choice([1, 1, 2, 3, 10, 50, r.range(1, 1000), 1048575, r.range(1, 1048575)]) for _ in ds],
                "spread": r.choice(["0", "0.001", "0.003", "0.01", "0.0025", "0.000123", "0.5", "0.99"])}
    mag = r.choice([10 ** 7, 10 ** 9, 10 ** 10])
    sf = [1] * n if r.chance(2, 3) else [r.choice([1, 2, 10, 1000, 10 ** 6]) for _ in ds]
    return {"k": "create", "a": a, "t": "ss", "d": ds, "amt": [str(r.range(mag, 2 * mag) * f) for f in sf], "sf": sf,
            "spread": r.choice(["0", "0.0003", "0.001", "0.003"])}


def frac(r):
    x = r.below(100)
    if x < 70:
        return r.range(1, 99), 10 ** r.range(2, 5)
    if x < 85:
        return r.range(1, 9), 10
    if x < 92:
        return 1, 1
    if x < 96:
        return r.range(2, 5), 1
    return 1, 10 ** 9


def walk(r, pools, nh, distinct):
    """pools: list of denom lists; returns (denoms, pool indices) or None"""
    for _ in range(30):
        live = [i for i, p in enumerate(pools) if p]
        if not live:
            return None
        i0 = r.choice(live)
        ds, ps = [r.choice(pools[i0])], []
        ok = True
        for _h in range(nh):
            cands = [(i, d) for i in live if ds[-1] in pools[i] and not (distinct and i in ps) for d in pools[i] if d != ds[-1]]
            if not cands:
                ok = False
                break
            i, d = r.choice(cands)
            ps.append(i)
            ds.append(d)
        if ok:
            return ds, ps
    return None


def gen_case(r, tier):
    nops = 30 if tier == "quick" else 40
    c = {"denoms": DENOMS, "fee_default": "0", "fee_pairs": [], "wl": [], "exempt": []}
    mode = r.below(3)
    if mode >= 1:
        c["fee_default"] = r.choice(["0.001", "0.0015", "0.01", "0.0005", "0.1"])
    if mode == 2:
        for _ in range(r.range(1, 5)):
            a, b = pick(r, range(ND), 2)
            c["fee_pairs"].append([str(a), str(b), r.choice(["0", "0.0025", "0.02", "0.000001", "0.5", "0.003333333333333333"])])
    c["skim"] = []
    if r.chance(1, 6):
        for d in pick(r, range(ND), r.range(1, 3)):
            c["skim"].append([str(d), r.choice(["0.1", "0.3", "0.6", "0.5", "1", "0"])])
    if r.chance(1, 4):
        c["wl"] = [r.below(NACC)]
    if r.chance(1, 5):
        c["exempt"] = [r.below(NACC)]
    funds = [[10 ** 16] * ND for _ in range(NACC)]
    if r.chance(1, 3):      # a poor actor
        a = r.below(NACC)
        funds[a] = [r.choice([0, 10 ** 5, 10 ** 8, 10 ** 16]) for _ in range(ND)]
        funds[a][UOSMO] = r.choice([0, 999999999, 1000000000, 10 ** 10])
    c["funds"] = [[str(x) for x in row] for row in funds]
    ops = []
    pools = []      # believed denoms of the pools created so far (the driver resolves selectors against the real list)
    ncreate = r.range(1, 3)
    for i in range(nops):
        a = r.below(NACC)
        if i < ncreate or (len(pools) < NPOOL and r.chance(1, 18)):
            op = gen_create(r, a)
            ops.append(op)
            pools.append(list(op["d"]))
            continue
        if not pools:
            pools.append([])
        p = r.below(len(pools))
        pd = pools[p] or [0, 1]
        x = r.below(100)
        num, den = frac(r)
        if x < 12:
            op = {"k": "join", "a": a, "p": p, "num": num, "den": den, "cm": r.choice([0, 0, 1, 1, 2, 3, 4])}
        elif x < 22:
            op = {"k": "join_extern", "a": a, "p": p, "dn": r.choice(pd), "num": num, "den": den, "lm": r.choice([0, 0, 1, 2, 3])}
        elif x < 30:
            op = {"k": "join_share_out", "a": a, "p": p, "dn": r.choice(pd), "num": num, "den": den, "lm": r.choice([0, 0, 1, 2, 3])}
        elif x < 42:
            op = {"k": "exit", "a": a, "p": p, "num": num, "den": max(den, 2) if not r.chance(1, 10) else 1, "cm": r.choice([0, 0, 1, 1, 2, 3, 4])}
        elif x < 49:
            op = {"k": "exit_share_in", "a": a, "p": p, "dn": r.choice(pd), "num": num, "den": max(den, 2), "lm": r.choice([0, 0, 1, 2, 3])}
        elif x < 56:
            op = {"k": "exit_extern_out", "a": a, "p": p, "dn": r.choice(pd), "num": num, "den": den, "lm": r.choice([0, 0, 1, 2, 3])}
        elif x < 87:
            kind = r.choice(["swap_in"] * 5 + ["swap_out"] * 4 + ["split_in"] * 2 + ["split_out"] * 2)
            w = walk(r, pools, r.choice([1, 1, 2, 2, 3, 4]), not r.chance(1, 6))
            if not w:
                continue
            ds, ps = w
            if kind == "swap_in":
                op = {"k": kind, "a": a, "route": [{"p": ps[j], "d": ds[j + 1]} for j in range(len(ps))], "dn": ds[0],
                      "num": num, "den": den * 10, "lm": r.choice([0, 0, 1, 1, 2, 3]), "gamm": r.chance(1, 4)}
            elif kind == "swap_out":
                op = {"k": kind, "a": a, "route": [{"p": ps[j], "d": ds[j]} for j in range(len(ps))], "dn": ds[-1],
                      "num": num, "den": den * 10, "lm": r.choice([0, 0, 1, 1, 2, 3]), "gamm": r.chance(1, 4)}
            else:
                legs = []
                for _k in range(r.range(1, 3)):
                    ps2, ds2 = ps, ds
                    if legs:
                        w2 = None
                        for _t in range(8):
                            w2 = walk(r, pools, r.choice([1, 2, 3]), True)
                            if w2 and w2[0][0] == ds[0] and w2[0][-1] == ds[-1]:
                                break
                            w2 = None
                        if not w2:
                            continue
                        ds2, ps2 = w2
                    amt = str(r.choice([10 ** 3, 10 ** 4, 10 ** 5, r.range(1, 10 ** 6)]))
                    if kind == "split_in":
                        legs.append({"route": [{"p": ps2[j], "d": ds2[j + 1]} for j in range(len(ps2))], "amt": amt})
                    else:
                        legs.append({"route": [{"p": ps2[j], "d": ds2[j]} for j in range(len(ps2))], "amt": amt})
                op = {"k": kind, "a": a, "legs": legs, "dn": ds[0] if kind == "split_in" else ds[-1], "lm": r.choice([0, 0, 1, 2, 3])}
        elif x < 94:
            to_pool = r.chance(1, 2)
            op = {"k": "send", "a": a, "to": p if to_pool else r.below(NACC), "to_pool": to_pool, "dn": r.choice(pd) if r.chance(3, 4) else r.below(ND),
                  "val": str(r.choice([1, 777, 10 ** 6, r.range(1, 10 ** 9)]))}
        else:       # malformed / edge
            m = r.below(7)
            if m == 0:
                op = {"k": "join", "a": a, "p": 77, "lit": True, "val": "1000", "cm": 0}
            elif m == 1:
                op = {"k": "exit", "a": a, "p": p, "val": "0", "cm": 0}
            elif m == 2:
                op = {"k": "join_extern", "a": a, "p": p, "dn": r.below(ND), "val": r.choice(["0", "1", "2"]), "lm": 0}
            elif m == 3:
                op = gen_create(r, a)
                op["d"] = op["d"][:1]
                op["amt"] = op["amt"][:1]
                if "w" in op:
                    op["w"] = op["w"][:1]
                if "sf" in op:
                    op["sf"] = op["sf"][:1]
            elif m == 4:
                op = {"k": "exit", "a": a, "p": p, "val": str(10 ** 30), "cm": 0}
            elif m == 5:
                op = {"k": "swap_in", "a": a, "route": [], "dn": 0, "val": "1000", "lm": 0}
            else:
                op = {"k": "exit_extern_out", "a": a, "p": p, "dn": r.choice(pd), "num": 1, "den": 1, "lm": 0}
        ops.append(op)
    c["ops"] = ops
    return c


# ---------------------------------------------------------------------------------------------
# Coq case writer
# ---------------------------------------------------------------------------------------------
def zi(s):
    return int(s) if s not in ("", None) else 0


def coins(ps):
    return "[" + "; ".join("(%s, %s)" % (zlit(int(d)), zlit(int(a))) for d, a in ps) + "]"


def route(rt):
    return "[" + "; ".join("(%s, %s)" % (zlit(h["p"]), zlit(h["d"])) for h in (rt or [])) + "]"


def legs(ls):
    return "[" + "; ".join("(%s, %s)" % (route(l["route"]), zlit(zi(l["amt"]))) for l in (ls or [])) + "]"


def coq_msg(rop):
    k = rop["k"]
    t = "(Trader %d)" % rop["a"]
    if k == "create":
        return "GCreate %s %s %s %s %s" % (t, "true" if rop["ext"] else "false", coins(rop["assets"]), zlit(zi(rop["spread"])), zlit(zi(rop["exit"])))
    if k == "join":
        return "GJoin %s %s %s %s" % (t, zlit(rop["p"]), zlit(zi(rop["shares"])), coins(sorted(rop["maxs"], key=lambda x: int(x[0]))))
    if k == "join_extern":
        return "GJoinExtern %s %s %s %s %s" % (t, zlit(rop["p"]), zlit(rop["d"]), zlit(zi(rop["amt"])), zlit(zi(rop["lim"])))
    if k == "join_share_out":
        return "GJoinShareOut %s %s %s %s %s" % (t, zlit(rop["p"]), zlit(rop["d"]), zlit(zi(rop["shares"])), zlit(zi(rop["lim"])))
    if k == "exit":
        return "GExit %s %s %s %s" % (t, zlit(rop["p"]), zlit(zi(rop["shares"])), coins(sorted(rop["mins"], key=lambda x: int(x[0]))))
    if k == "exit_share_in":
        return "GExitShareIn %s %s %s %s %s" % (t, zlit(rop["p"]), zlit(rop["d"]), zlit(zi(rop["shares"])), zlit(zi(rop["lim"])))
    if k == "exit_extern_out":
        return "GExitExternOut %s %s %s %s %s" % (t, zlit(rop["p"]), zlit(rop["d"]), zlit(zi(rop["amt"])), zlit(zi(rop["lim"])))
    if k in ("swap_in", "swap_out", "split_in", "split_out"):
        kind = rop["kind"]
        if kind == "in":
            return "GSwap (MSwapIn %s %s %s %s %s)" % (t, route(rop["route"]), zlit(rop["d"]), zlit(zi(rop["amt"])), zlit(zi(rop["lim"])))
        if kind == "out":
            return "GSwap (MSwapOut %s %s %s %s %s)" % (t, route(rop["route"]), zlit(zi(rop["lim"])), zlit(rop["d"]), zlit(zi(rop["amt"])))
        if kind == "split_in":
            return "GSwap (MSplitIn %s %s %s %s)" % (t, legs(rop["legs"]), zlit(rop["d"]), zlit(zi(rop["lim"])))
        return "GSwap (MSplitOut %s %s %s %s)" % (t, legs(rop["legs"]), zlit(rop["d"]), zlit(zi(rop["lim"])))
    if k == "send":
        to = "(PoolAcc %d)" % rop["to_pool"] if rop.get("to_pool") else "(Trader %d)" % rop.get("to", 0)
        return "GSend %s %s %s %s" % (t, to, zlit(rop["d"]), zlit(zi(rop["amt"])))
    raise ValueError(k)


def table_of(obs):
    out = []
    for i, st in enumerate(obs["steps"]):
        ver = {}
        for e in st["tbl"]:
            n = ver.get(e["pool"], 0)
            op = e["op"]
            if op in (0, 2):        # out given in: swap (r = token in taken, r2 = token out) or calc (r = token out)
                out.append((i, 0, e["pool"], n, e["a"], zi(e["b"]), e["c"], zi(e["s"]), [], e["ok"], zi(e.get("r2")) if op == 0 else zi(e["r"]), []))
            elif op in (1, 3):      # in given out: swap (r = token in) or calc (r = token in)
                out.append((i, 1, e["pool"], n, e["a"], zi(e["b"]), e["c"], zi(e["s"]), [], e["ok"], zi(e["r"]), []))
            elif op == 4:
                out.append((i, 4, e["pool"], n, 0, 0, 0, 0, [zi(x) for x in e.get("v") or []], e["ok"], zi(e["r"]), [zi(x) for x in e.get("rv") or []]))
            elif op == 7:
                out.append((i, 7, e["pool"], n, 0, zi(e["b"]), 0, 0, [], e["ok"], 0, [zi(x) for x in e.get("rv") or []]))
            else:
                out.append((i, op, e["pool"], n, e["a"], zi(e["b"]), 0, 0, [], e["ok"], zi(e["r"]), []))
            if e.get("mut"):
                ver[e["pool"]] = n + 1
    return out


def flat_step(st):
    f = [st["err"], zi(st["val"]) if st["err"] == 0 else 0]
    for row in st["bal"]:
        f += [int(x) for x in row]
    for l, sh in zip(st["liq"], st["sh"]):
        f += [int(x) for x in l] + [int(sh)]
    f += [int(x) for x in st["sup"]]
    return f


def expect_of(obs):
    f = []
    for st in obs["steps"]:
        f += flat_step(st)
    return f


def coq_case(c, obs, expect=None):
    tbl = "[" + ";\n     ".join("mkGE %s %s %s %s %s %s %s %s %s %s %s %s" % (
        zlit(m), zlit(op), zlit(pool), zlit(n), zlit(a), zlit(b), zlit(cc), zlit(s), zlist(v), "true" if ok else "false", zlit(rr), zlist(rv))
        for (m, op, pool, n, a, b, cc, s, v, ok, rr, rv) in table_of(obs)) + "]"
    bal0 = "[" + "; ".join(zlist(row) for row in obs["init"]["bal"]) + "]"
    msgs = "[" + ";\n     ".join(coq_msg(st["rop"]) for st in obs["steps"]) + "]"
    return "mkGCase %s %s %s %s %s\n    %s\n    %s\n    %s\n    %s\n    %s" % (
        zlist(obs["fees"]), zlist(c["wl"]), zlist(obs["skims"]), zlist(c["exempt"]), zlist(obs["cfee"]), bal0, zlist(obs["init"]["sup"]), tbl, msgs,
        zlist(expect if expect is not None else expect_of(obs)))


# ---------------------------------------------------------------------------------------------
# oracle: the four equalities of the property text, after every message, on the implementation's observations
# ---------------------------------------------------------------------------------------------
def oracle(c, obs):
    v = []
    ncol = ND + NPOOL
    direct = [[0] * ncol for _ in range(NPOOL)]
    prev = obs["init"]
    sup0 = [int(x) for x in obs["init"]["sup"]]

    def viol(i, k, what, **kw):
        rec = {"kind": k, "op": obs["steps"][i]["rop"]["k"] if i >= 0 else "init"}
        rec.update(kw)
        v.append({"what": "after message %d (%s): %s" % (i, rec["op"], what), "rec": rec})
    for i, st in enumerate(obs["steps"]):
        rop = st["rop"]
        bal = [[int(x) for x in row] for row in st["bal"]]
        pbal = [[int(x) for x in row] for row in prev["bal"]]
        sup = [int(x) for x in st["sup"]]
        psup = [int(x) for x in prev["sup"]]
        npools = len(st["pools"])
        if st["err"] == 0 and rop["k"] == "send" and rop.get("to_pool"):
            slot = st["pools"].index(rop["to_pool"])
            direct[slot][rop["d"]] += zi(rop["amt"])
        # (1) tokens held by each pool's account = the reserves the pool reports (+ direct sends)
        for s in range(npools):
            for d in range(ncol):
                rep = int(st["liq"][s][d]) if d < ND else 0
                if bal[NACC + s][d] != rep + direct[s][d]:
                    viol(i, "pool_bank_ne_reserves", "pool %d holds %d of denom %d but reports %d (+%d sent to it directly)" % (st["pools"][s], bal[NACC + s][d], d, rep, direct[s][d]))
        # (2) circulating supply of each share token = the share total the pool reports
        for s in range(npools):
            if sup[ND + s] != int(st["sh"][s]):
                viol(i, "share_supply_ne_total_shares", "pool %d: share supply %d but the pool reports %d shares" % (st["pools"][s], sup[ND + s], int(st["sh"][s])))
        # (3) the total supply of every non-share token is unchanged
        for d in range(ND):
            if sup[d] != sup0[d]:
                viol(i, "non_share_supply_changed", "supply of denom %d changed from %d to %d" % (d, sup0[d], sup[d]))
        # (4) payer accounting: the deltas of the sender, all pools, the collector and the community pool cancel per denom
        #     (up to minted / burnt shares); nobody else is touched; a failed message touches nobody
        a = rop["a"]
        others = [x for x in range(NACC) if x != a and not (rop["k"] == "send" and st["err"] == 0 and not rop.get("to_pool") and x == rop.get("to"))]
        for d in range(ncol):
            delta = [bal[r_][d] - pbal[r_][d] for r_ in range(len(bal))]
            if st["err"] != 0:
                if any(delta) or sup[d] != psup[d]:
                    viol(i, "failed_message_moved_funds", "a failed message changed a balance or the supply of denom %d" % d)
                continue
            if any(delta[x] for x in others):
                viol(i, "bystander_touched", "an account that is neither sender nor recipient changed in denom %d" % d)
            tot = sum(delta[x] for x in range(len(delta)) if x not in others)
            if tot != sup[d] - psup[d]:
                viol(i, "payer_accounting", "denom %d: deltas of sender + pools + collector + community pool sum to %d, supply changed by %d" % (d, tot, sup[d] - psup[d]))
        # every unit of tokenIn of a routed exact-in swap is in a pool or with the taker-fee collector
        if st["err"] == 0 and rop["k"] == "swap_in" and rop.get("kind") == "in":
            ds = [rop["d"]] + [h["d"] for h in rop["route"]]
            if ds.count(rop["d"]) == 1:
                d = rop["d"]
                paid = pbal[a][d] - bal[a][d]
                landed = sum(bal[r_][d] - pbal[r_][d] for r_ in range(NACC, NACC + NPOOL + 1))
                if paid != zi(rop["amt"]) or landed != paid:
                    viol(i, "token_in_accounting", "trader paid %d of denom %d for tokenIn %s; pools + collector received %d" % (paid, d, rop["amt"], landed))
        prev = st
    return v


# ---------------------------------------------------------------------------------------------
def coq_file(body):
    return ("From Coq Require Import ZArith List. Import ListNotations.\n"
            "From Osmo Require Import Base.Obs C05.Model C02.Model C02.Corr.\nOpen Scope Z_scope.\n"
            "Definition cases : list gcase := [\n  %s ].\n"
            "Definition M := Eval vm_compute in mismatches case_ok cases.\nPrint M.\n" % body)


def run_cases(cases, model_ok, out, tag, selftest=False):
    binary = common.go_build("routerdrv", test=True)
    obs = common.run_driver(binary, cases, args="-test.run ^TestDriverC02$", shards=14)
    items = []
    for ci, (c, o) in enumerate(zip(cases, obs)):
        out.evaluations += 1
        if o.get("fatal"):
            out.oracle_violations.append({"what": "driver: " + o["fatal"], "rec": {"kind": "driver_fatal"}, "case": c})
            continue
        for vv in oracle(c, o)[:3]:
            vv["case"] = c
            out.oracle_violations.append(vv)
        out.traces += len(o["steps"])
        if sum(1 for st in o["steps"] if st["err"] == 0) >= 5:
            out.nontrivial.add(json.dumps(c, sort_keys=True))
        items.append((ci, coq_case(c, o)))
    if not model_ok:
        out.model_ran = False
        return obs
    per_file = 4
    files = []
    for fi in range(0, len(items), per_file):
        files.append(("C02_%s_%d" % (tag, fi // per_file), coq_file(";\n  ".join(t for (_, t) in items[fi:fi + per_file]))))
    if selftest and items:
        ci = items[0][0]
        exp = expect_of(obs[ci])
        exp[-1] += 1
        files.append(("C02_%s_selftest" % tag, coq_file(coq_case(cases[ci], obs[ci], expect=exp))))
    res = common.coq_eval_many(files)
    for k, ((name, _), (rc, txt)) in enumerate(zip(files, res)):
        mm = common.parse_nat_list(txt)
        if name.endswith("_selftest"):
            if rc != 0 or mm != [0]:
                out.mismatches.append({"what": "self-check failed: case_ok accepted a perturbed expectation (%s)" % txt[-300:], "case": None})
            else:
                out.notes.append("self-check: case_ok rejects a perturbed expectation")
            continue
        if rc != 0 or mm is None:
            out.mismatches.append({"what": "model evaluation failed: " + txt[-600:], "case": None})
            continue
        chunk = items[k * per_file:(k + 1) * per_file]
        for idx in mm:
            ci = chunk[idx][0]
            out.mismatches.append({"what": "C02 gamm keeper / router model (table-driven pool math) differs from the implementation", "case": cases[ci]})
    return obs


def oracle_selftest(cases, obs, out):
    for c, o in zip(cases, obs):
        if o.get("fatal") or oracle(c, o):
            continue
        good = [i for i, st in enumerate(o["steps"]) if st["err"] == 0 and st["pools"]]
        if not good:
            continue
        i = good[-1]
        flagged = 0
        for mut in range(4):
            o2 = json.loads(json.dumps(o))
            st = o2["steps"][i]
            if mut == 0:
                st["bal"][NACC][[k for k, x in enumerate(st["liq"][0]) if int(x) > 0][0]] = str(int(st["bal"][NACC][[k for k, x in enumerate(st["liq"][0]) if int(x) > 0][0]]) + 1)
            elif mut == 1:
                st["sh"][0] = str(int(st["sh"][0]) + 1)
            elif mut == 2:
                st["sup"][0] = str(int(st["sup"][0]) + 1)
            else:
                st["bal"][0][1] = str(int(st["bal"][0][1]) - 1)
            if oracle(c, o2):
                flagged += 1
        if flagged == 4:
            out.notes.append("self-check: the oracle flags a perturbed pool balance, share total, supply and actor balance")
        else:
            out.mismatches.append({"what": "self-check failed: the oracle accepted %d of 4 perturbed observations" % (4 - flagged), "case": c})
        return


def correspond(tier, seed, model_ok):
    out = Outcome()
    r = Rng(seed)
    n = 150 if tier == "quick" else 1500
    cases = [gen_case(r.fork(i), tier) for i in range(n)]
    corpus = common.load_corpus(PROP)
    obs = run_cases(corpus + cases, model_ok, out, "q", selftest=True)
    oracle_selftest(corpus + cases, obs, out)
    out.rule = ("case = a history of %d messages by 3 actors: 1-4 pool creations (balancer / stableswap, 2-8 assets), all-asset / single-asset / exact-shares joins, "
                "proportional / single-asset exits, routed swaps (exact-in, exact-out, split; 1-4 hops), bank sends (also to pool addresses), one of 3 taker-fee settings, "
                "optional whitelists, amounts and limits relative to the live state; non-trivial = at least 5 messages of the history succeeded; distinct = distinct case JSON"
                % (30 if tier == "quick" else 40))
    out.samples = [{"fee_default": c["fee_default"], "fee_pairs": c["fee_pairs"], "wl": c["wl"], "ops": c["ops"][:5]} for c in cases[:3]]
    kinds, errs, nassets = {}, {}, {}
    for c, o in zip(corpus + cases, obs):
        if o.get("fatal"):
            continue
        for st in o["steps"]:
            k = st["rop"]["k"] + ("(gamm msg)" if st["rop"].get("via") == "gamm" else "")
            kinds[k] = kinds.get(k, 0) + 1
            e = "%s:%d" % (k, st["err"])
            errs[e] = errs.get(e, 0) + 1
            if k == "create" and st["err"] == 0:
                na = str(len(st["rop"]["assets"]))
                nassets[na] = nassets.get(na, 0) + 1
    out.distribution = {"message_kinds": kinds, "kind:result(0 ok,1 limit,2 other)": errs, "assets_of_created_pools": nassets, "corpus_cases": len(corpus)}
    return out


def search(tier, seed, out):
    o2 = Outcome()
    r = Rng(seed + 7919)
    cases = [gen_case(r.fork(i), "thorough") for i in range(600)]
    for m in out.mismatches[:20]:
        if m.get("case"):
            cases.append(m["case"])
    run_cases(cases, False, o2, "s")
    findings = common.load_findings(PROP)
    for v in o2.oracle_violations:
        if not common.match_finding(findings, v.get("rec", {})):
            return v
    return None


def replay(path):
    d = json.load(open(path))
    body = d.get("case")
    c = body.get("case") if isinstance(body, dict) else None
    if not c:
        print("replay names a proof obligation / correspondence, not an input:", d.get("what"))
        return 1
    out = Outcome()
    run_cases([c], True, out, "r")
    for v in out.oracle_violations:
        print("oracle:", v["what"])
    for m in out.mismatches:
        print("mismatch:", m["what"])
    return 1 if (out.oracle_violations or out.mismatches) else 0


SCOPE = ("proved for every pool math satisfying MathLaws (no remainder on the all-asset join of exactly the needed liquidity; exits never take a whole reserve) and "
         "every finite history of create / join (3 kinds) / exit (3 kinds) / routed swap (4 messages, any hops) / bank send messages by ordinary accounts, by "
         "induction over the history, axiom-free: pool bank balance = reported reserves + direct sends; share supply = reported total shares; every non-share "
         "supply constant; per message the deltas of sender + pools + taker-fee collector + community pool cancel against minted / burnt shares and nobody else is "
         "touched; each unit of an exact-in hop's tokenIn is in the pool or with the collector; a failed message changes nothing. MathLaws are proved for a concrete "
         "math (C02/Instance.v) and are what the oracle measures on the real pools.")
EXPLANATION = ("Gallina model C02/Model.v of x/gamm/keeper pool_service.go / share.go / swap.go, the record updates of balancer/pool.go and stableswap/pool.go and "
               "x/poolmanager/create_pool.go, on top of the C05 router model; the pool math is a parameter. Tie to /repo: harness/routerdrv TestDriverC02 runs histories through "
               "the gamm, balancer, stableswap and (recording) poolmanager MsgServers under baseapp atomicity, probing on throw-away branches what the real pool computes for each "
               "call; the Coq model replays those amounts (table-driven math) and every bank balance, pool record, share total, supply, result class and value is compared after "
               "every message. The Python oracle checks the four equalities of the property text on the implementation's observations.")
TRUSTED = [
    "hand-written model coq/theories/C02/Model.v (+ C05/Model.v), tied to x/gamm and x/poolmanager by the correspondence run (harness/routerdrv c02_test.go against /repo's working tree)",
    "harness/routerdrv (Go: probes with a rich account on discarded branches, recording proxies), props/c02.py (generator, table construction, oracle), Coq vm_compute evaluation of generated case files",
    "modelled not verified: SDK bank keeper (send / mint / burn, insufficient funds, invalid coin sets), distribution FundCommunityPool (= send to the module account), CacheContext atomicity of messages",
    "not modelled: hooks (twap, pool-incentives, protorev), events, gas, total-liquidity counters, scaling-factor governance, pool asset denoms that are themselves pool shares",
]
ASSUMPTIONS = [
    "messages are signed by ordinary accounts (pool / module accounts have no keys); pool assets are ordinary (non-share) denoms",
    "pool creation messages carry well-formed weights / scaling factors / spread factor (they only matter to the math); exit fee must be 0 as InitializePool demands",
    "MathLaws of the pool math: proved for the instance PM; on the real pools they are exactly what the oracle's equality (1) observes after every join / exit",
]
TECHNIQUE = "Coq proofs by induction over message histories on a keeper model parametric in the pool math; model tied to x/gamm + x/poolmanager by differential correspondence (table-driven math, vm_compute) + independent oracle"
LEVEL_TEXT = ("Machine-checked theorems (Coq 8.16.1, axiom-free) for all histories, amounts, taker-fee tables and pool maths satisfying two stated laws: the four conservation "
              "statements of the property plus atomic failure. The model is checked against the real gamm keeper and router after every message of generated histories on every run.")
LEVEL_NOTE = ("Trusted: Coq kernel (vm_compute, no native_compute), no axioms; hand-written model; Go driver + python glue; SDK bank / CacheContext semantics. "
              "The pools' own math is outside C02 (C04): it enters through the probed amounts and the two MathLaws.")
