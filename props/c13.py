"""C13 - approximate math functions (osmomath exp2 / log / pow / sqrt / sigfig / binary search):
translator (Gen/C13_consts.v from the Go literals), case generator, Coq case writer, oracle."""
import json
import math
import os
import re
from fractions import Fraction

from lib import common
from lib.common import Rng, Outcome, zlit, zlist
from props import _c13_ref as ref

PROP = "C13"
GO_PKGS = [("c13drv", False)]
MODEL_VO = ["theories/C13/Corr.vo"]
# Print Assumptions of Properties/C13.v: the integer-only theorems (square roots, SigFigRound, Compare*, binary searches,
# fail-loudly lemmas) are closed under the global context; the theorems over the reals report the standard library's
# real-number axioms, and - through Coq-Interval's BigZ floating-point computations - the kernel's primitive 63-bit
# integers and their specification (prefix match).
# coqchk re-checks Interval.Tactic's functor instances without the VM for hours: the installed library is taken as checked
COQCHK_ADMIT = ["Interval.Tactic"]
ALLOWED_AXIOMS = ["ClassicalDedekindReals.sig_forall_dec", "ClassicalDedekindReals.sig_not_dec", "Classical_Prop.classic",
                  "FunctionalExtensionality.functional_extensionality_dep", "PrimInt63.", "Uint63."]

P18 = 10 ** 18
P36 = 10 ** 36

# status enum shared with harness/c13drv (classify) and C13/Common.v (err_code)
ST = {"ok": 0, "neg_sqrt": 1, "neg_exponent": 2, "exp_too_large": 3, "log_domain": 4, "log_base": 5, "pow_base_le0": 6,
      "pow_base_ge2": 7, "pow_iter_limit": 8, "overflow": 9, "div_zero": 10, "no_converge": 11, "func_error": 12,
      "int64_range": 13, "exp_contract": 14, "driver": 98, "other": 99}

# op name -> (code in C13/Corr.v, relative vm_compute cost)
OPS = {"sqrt": (1, 1), "sqrt_bd": (2, 2), "sigfig": (3, 1), "cmp_int": (4, 1), "cmp_bd": (5, 1),
       "cmp_dec": (6, 1), "bsearch": (7, 6), "bsearch_bd": (8, 20), "exp2": (9, 3), "log2": (10, 500), "ln": (11, 500),
       "ticklog": (12, 500), "customlog": (13, 1000), "pow": (14, 30), "powapprox": (15, 30), "bd_power": (16, 3)}
# ops whose Coq model exists (the others are run through the implementation and the oracle only)
MODELLED = {"sqrt", "sqrt_bd", "sigfig", "cmp_int", "cmp_bd", "cmp_dec", "bsearch", "bsearch_bd", "exp2", "bd_power",
            "log2", "ln", "ticklog", "customlog", "pow", "powapprox"}
POW_PRECISION = 10 ** 10          # the documented power precision 0.00000001 as a raw Dec
MAX_EXP2 = 512 * P36


# ---------------------------------------------------------------------------------------------
# translator: Go literals -> coq/theories/Gen/C13_consts.v
# ---------------------------------------------------------------------------------------------
class ShapeError(Exception):
    pass


def _src(rel):
    return open(os.path.join(common.REPO, rel)).read()


def _strip_comments(s):
    s = re.sub(r"/\*.*?\*/", "", s, flags=re.S)
    return re.sub(r"//[^\n]*", "", s)


def _declit(s, prec):
    """decimal literal text -> raw mantissa with `prec` decimals (exact; more decimals than prec is a shape error)"""
    m = re.fullmatch(r"(-?)(\d+)(?:\.(\d+))?", s)
    if not m:
        raise ShapeError("not a decimal literal: %r" % s)
    frac = m.group(3) or ""
    if len(frac) > prec:
        raise ShapeError("literal %r has more than %d decimals" % (s, prec))
    v = int(m.group(2) + frac.ljust(prec, "0"))
    return -v if m.group(1) else v


def _one(pat, src, what):
    ms = re.findall(pat, src, flags=re.S)
    if len(ms) != 1:
        raise ShapeError("%s: expected exactly one match of /%s/, found %d" % (what, pat, len(ms)))
    return ms[0]


def _coeff_block(src, name):
    body = _one(name + r"\s*=\s*\[\]BigDec\{(.*?)\n\t\}", src, name)
    entries = []
    rest = body
    for m in re.finditer(r'(OneBigDec\(\)|MustNewBigDecFromStr\("([0-9.]+)"\))(\.Neg\(\))?\s*,', body):
        v = P36 if m.group(1).startswith("OneBigDec") else _declit(m.group(2), 36)
        entries.append(-v if m.group(3) else v)
        rest = rest.replace(m.group(0), "", 1)
    if rest.strip():
        raise ShapeError("%s: unrecognised entry text %r" % (name, rest.strip()[:80]))
    return entries


def read_consts():
    exp2 = _strip_comments(_src("osmomath/exp2.go"))
    decimal = _strip_comments(_src("osmomath/decimal.go"))
    mathgo = _strip_comments(_src("osmomath/math.go"))
    sqrt = _strip_comments(_src("osmomath/sqrt.go"))
    sigfig = _strip_comments(_src("osmomath/sigfig_round.go"))
    c = {}
    c["num"] = _coeff_block(exp2, "numeratorCoefficients13Param")
    c["den"] = _coeff_block(exp2, "denominatorCoefficients13Param")
    if len(c["num"]) != 7 or len(c["den"]) != 7:
        raise ShapeError("exp2: expected 7+7 coefficients, found %d+%d" % (len(c["num"]), len(c["den"])))
    b, p = _one(r'maxSupportedExponent\s*=\s*MustNewBigDecFromStr\("([0-9.]+)"\)\.PowerInteger\((\d+)\)', exp2, "maxSupportedExponent")
    c["max_exp_base"], c["max_exp_power"] = _declit(b, 36), int(p)
    if int(_one(r"BigDecPrecision\s*=\s*(\d+)", decimal, "BigDecPrecision")) != 36:
        raise ShapeError("BigDecPrecision is not 36")
    c["max_log2_iter"] = int(_one(r"maxLog2Iterations\s*=\s*(\d+)", decimal, "maxLog2Iterations"))
    c["log_of_e_base2"] = _declit(_one(r'logOfEbase2\s*=\s*MustNewBigDecFromStr\("([0-9.]+)"\)', decimal, "logOfEbase2"), 36)
    c["tick_log_of_2"] = _declit(_one(r'tickLogOf2\s*=\s*MustNewBigDecFromStr\("([0-9.]+)"\)', decimal, "tickLogOf2"), 36)
    c["two_bigdec"] = _declit(_one(r'twoBigDec\s+BigDec\s*=\s*MustNewBigDecFromStr\("([0-9.]+)"\)', decimal, "twoBigDec"), 36)
    _one(r"oneHalfBigDec\s+BigDec\s*=\s*oneBigDec\.Quo\(twoBigDec\)", decimal, "oneHalfBigDec")
    c["pow_precision"] = _declit(_one(r'powPrecision,\s*_\s*=\s*NewDecFromStr\("([0-9.]+)"\)', mathgo, "powPrecision"), 18)
    c["pow_iter_limit"] = int(_one(r"const\s+powIterationLimit\s*=\s*([0-9_]+)", mathgo, "powIterationLimit").replace("_", ""))
    c["one_half"] = _declit(_one(r'one_half\s+Dec\s*=\s*MustNewDecFromStr\("([0-9.]+)"\)', mathgo, "one_half"), 18)
    c["two_dec"] = _declit(_one(r'\btwo\s+Dec\s*=\s*MustNewDecFromStr\("([0-9.]+)"\)', mathgo, "two"), 18)
    t18 = _one(r"tenTo18\s*=\s*big\.NewInt\(([0-9e]+)\)", sqrt, "tenTo18")
    m = re.fullmatch(r"(\d+)e(\d+)", t18)
    c["sqrt_scale_dec"] = int(m.group(1)) * 10 ** int(m.group(2)) if m else int(t18)
    _one(r"tenTo36\s*=\s*big\.NewInt\(0\)\.Mul\(tenTo18,\s*tenTo18\)", sqrt, "tenTo36")
    c["sigfig_point_one_div"] = int(_one(r"pointOne\s*=\s*OneDec\(\)\.QuoInt64\((\d+)\)", sigfig, "pointOne"))
    c["sigfig_step"] = int(_one(r"dTimesK\.MulInt64Mut\((\d+)\)", sigfig, "sigfig loop multiplier"))
    c["sigfig_base"] = int(_one(r"tenToK\s*:=\s*NewInt\((\d+)\)\.ToLegacyDec\(\)\.Power\(k\)", sigfig, "tenToK"))
    return c


def translate():
    c = read_consts()
    zl = lambda xs: "[" + ";\n   ".join(zlit(x) for x in xs) + "]"
    txt = """(* GENERATED on every run by props/c13.py translate() from /repo/osmomath/{exp2,decimal,math,sqrt,sigfig_round}.go.
   Do not edit: the C13 model and theorems are stated against these names, so a changed literal re-checks them. *)
From Coq Require Import ZArith List.
Import ListNotations.
Open Scope Z_scope.

(* exp2.go: numeratorCoefficients13Param / denominatorCoefficients13Param (raw x 10^36, with the .Neg() signs) *)
Definition exp2_num_coeffs : list Z :=
  %s.
Definition exp2_den_coeffs : list Z :=
  %s.
(* exp2.go: maxSupportedExponent = MustNewBigDecFromStr(base).PowerInteger(power) *)
Definition max_supported_exponent_base : Z := %s.
Definition max_supported_exponent_power : Z := %d.
(* decimal.go *)
Definition max_log2_iterations : nat := %d.
Definition log_of_e_base2 : Z := %s.
Definition tick_log_of_2 : Z := %s.
Definition two_bigdec : Z := %s.
(* math.go *)
Definition pow_precision : Z := %s.
Definition pow_iteration_limit : Z := %d.
Definition pow_one_half : Z := %s.
Definition pow_two : Z := %s.
(* sqrt.go: tenTo18, tenTo36 = tenTo18 * tenTo18 *)
Definition sqrt_scale_dec : Z := %s.
Definition sqrt_scale_bigdec : Z := sqrt_scale_dec * sqrt_scale_dec.
(* sigfig_round.go: pointOne = OneDec().QuoInt64(n); loop multiplier; NewInt(base) *)
Definition sigfig_point_one_div : Z := %d.
Definition sigfig_step : Z := %d.
Definition sigfig_base : Z := %d.
""" % (zl(c["num"]), zl(c["den"]), zlit(c["max_exp_base"]), c["max_exp_power"], c["max_log2_iter"], zlit(c["log_of_e_base2"]),
       zlit(c["tick_log_of_2"]), zlit(c["two_bigdec"]), zlit(c["pow_precision"]), c["pow_iter_limit"], zlit(c["one_half"]),
       zlit(c["two_dec"]), zlit(c["sqrt_scale_dec"]), c["sigfig_point_one_div"], c["sigfig_step"], c["sigfig_base"])
    return {"Gen/C13_consts.v": txt}


# ---------------------------------------------------------------------------------------------
# cases
# ---------------------------------------------------------------------------------------------
def mk(op, *args):
    return {"op": op, "a": [str(int(x)) for x in args]}


def args_of(c):
    return [int(x) for x in c["a"]]


def flat_of(o):
    return [0] + [int(x) for x in o["v"]] if o["st"] == 0 else [o["st"]]


def key_of(c):
    return c["op"] + ":" + ",".join(c["a"])


def loguniform(r, lo_bits, hi_bits):
    """a positive integer whose bit length is uniform in [lo_bits, hi_bits]"""
    b = r.range(lo_bits, hi_bits)
    if b <= 1:
        return 1
    return (1 << (b - 1)) | r.below(1 << (b - 1))


def around(vals, lo=None, hi=None):
    out = []
    for v in vals:
        for d in (-1, 0, 1):
            w = v + d
            if (lo is None or w >= lo) and (hi is None or w <= hi):
                out.append(w)
    return out


def gen_sqrt(r, n, op):
    """inputs of MonotonicSqrt (prec 18) / MonotonicSqrtBigDec (prec 36): raw mantissas"""
    p = P18 if op == "sqrt" else P36
    maxbits = 256 + 60 if op == "sqrt" else 1144
    top = (2 ** 256 * P18 - 1) if op == "sqrt" else (2 ** 1144 - 1)
    vals = around([0, 1, 2, 4, p, 2 * p, 4 * p, p // 4, p // 100, 10 ** (len(str(p)) // 2), top - 1], lo=None, hi=top)
    vals += [-1, -2, -p, -top]
    # exact squares (j^2 as a value has root j exactly) and their neighbours, where the round-up correction flips
    for _ in range(n // 6):
        j = loguniform(r, 1, maxbits // 2 - 61 if op == "sqrt" else (500 if r.chance(1, 10) else 100))
        vals += around([j * j * p // r.choice([1, p])], lo=0, hi=top)
    # raw values v with v*p a perfect square: v = m^2 / p needs p | m^2: m = j * sqrt(p)
    rootp = math.isqrt(p)
    for _ in range(n // 6):
        j = loguniform(r, 1, 200)
        vals += around([j * j], lo=0, hi=top) if rootp * rootp == p else []
    while len(vals) < n - n // 20:
        v = loguniform(r, 1, maxbits if op == "sqrt" or r.chance(1, 10) else 300)
        if v <= top:
            vals.append(v)
            if r.chance(1, 3):
                vals.append(v + 1)      # adjacent inputs for the monotonicity predicate
    while len(vals) < n:
        vals.append(-loguniform(r, 1, maxbits))
    return [mk(op, v) for v in vals]


def gen_sigfig(r, n):
    """SigFigRound(d, tenToSigFig): d raw 18-decimal; tenToSigFig mostly 10^s"""
    out = []
    ds = around([0, 1, 5, 10, P18 // 10, P18, P18 // 2, 10 ** 16, 10 ** 17 - 10 ** 9, 2 ** 256 * P18 - 2])
    for d in ds:
        for s_ in (0, 1, 2, 8, 17, 18, 19, 40, 76, 77):
            out.append(mk("sigfig", d, 10 ** s_))
    while len(out) < n:
        x = r.below(100)
        s_ = r.choice([r.range(0, 8), r.range(0, 20), r.range(0, 80)])
        S = 10 ** s_
        if x < 40:      # exactly on / next to a rounding tie of the kept digit
            digits = r.range(1, 18)
            lead = r.range(10 ** (digits - 1), 10 ** digits - 1)           # the kept digits
            shift = r.range(0, 18)
            d = (lead * 10 + 5) * 10 ** shift + r.choice([0, 0, 1, -1, 10 ** max(shift - 1, 0)])
            s_ = digits if r.chance(2, 3) else r.range(0, 20)
            S = 10 ** s_
        elif x < 85:
            d = loguniform(r, 1, 256 + 59)
        elif x < 90:
            d = -loguniform(r, 1, 256 + 59)
        elif x < 95:
            d = loguniform(r, 1, 200)
            S = r.choice([0, 2, 3, 250, 999, -10, 10 ** s_ + 1, 2 ** 255, 2 ** 256 - 1])
        else:
            d = r.choice([10 ** r.range(0, 40), 10 ** r.range(0, 40) - 1, 10 ** r.range(0, 18) + 1])
        if abs(S).bit_length() > 256:
            continue
        out.append(mk("sigfig", d, S))
    return out


def gen_tol(r, unit, near=None):
    """(hasAdd, add, hasMul, mul, dir): Dec tolerances (raw x 10^18); near = a |diff| (in Dec raw units) to sit next to"""
    x = r.below(10)
    has_add = 0 if x < 2 else 1
    add = r.choice([0, 0, 1, P18, P18 // 2, 10 ** r.range(0, 30), r.range(0, 10 ** 20)])
    if near is not None and r.chance(1, 3):
        add = max(0, near + r.range(-1, 1))
    has_mul = 1 if r.chance(1, 2) else 0
    mul = r.choice([0, 1, 10 ** 10, 10 ** 15, 10 ** r.range(0, 19), r.range(0, P18)])
    d = r.choice([0, 0, 1, 2, 1, 2, 3])
    return [has_add, add, has_mul, mul, d]


def gen_cmp(r, n, op):
    """ErrTolerance.Compare / CompareBigDec / CompareDec (expected, actual, tolerance)"""
    unit = {"cmp_int": 1, "cmp_bd": P36, "cmp_dec": P18}[op]
    bits = {"cmp_int": 255, "cmp_bd": 1100 if r.chance(1, 8) else 400, "cmp_dec": 310}[op]
    to_dec = {"cmp_int": P18, "cmp_bd": Fraction(1, P18), "cmp_dec": 1}[op]
    out = []
    while len(out) < n:
        x = r.below(100)
        if x < 10:
            e = r.choice([0, 1, -1, unit, 2 * unit])
            a = r.choice([0, 1, -1, unit, e, e + 1, -e])
        elif x < 55:    # close together, around the tolerance
            e = loguniform(r, 1, r.choice([20, 64, 128, bits])) * r.choice([1, 1, 1, -1])
            rel = r.choice([0, 1, 2, 3, 6, 10, 15])
            a = e + r.choice([1, -1]) * (abs(e) // 10 ** rel + r.range(-2, 2)) if rel else e + r.range(-3, 3)
        elif x < 90:
            e = loguniform(r, 1, r.choice([20, 64, bits])) * r.choice([1, 1, 1, -1])
            a = loguniform(r, 1, r.choice([20, 64, bits])) * r.choice([1, 1, 1, -1])
        else:           # overflowing differences
            e = r.choice([1, -1]) * loguniform(r, bits, bits + 2)
            a = r.choice([1, -1]) * loguniform(r, bits, bits + 2)
        if op == "cmp_int" and (abs(e).bit_length() > 256 or abs(a).bit_length() > 256):
            continue
        near = int(abs(e - a) * to_dec)
        tol = gen_tol(r, unit, near)
        if r.chance(1, 4) and min(abs(e), abs(a)) > 0:     # multiplicative tolerance right at the quotient
            tol[2], tol[3] = 1, max(0, int(Fraction(abs(e - a), min(abs(e), abs(a))) * P18) + r.range(-1, 1))
        out.append(mk(op, e, a, *tol))
    return out


def py_bd_mul(a, b):
    """BigDec.Mul: product chopped to 36 decimals, half to even (re-derived here from the documented rounding, not from the Coq model)"""
    x = a * b
    q, rem = divmod(abs(x), P36)
    if 2 * rem > P36 or (2 * rem == P36 and q % 2 == 1):
        q += 1
    return q if x >= 0 else -q


def search_f(op, kind, p1, p2, p3, x):
    """the searched functions of harness/c13drv, exactly (None = the function fails there)"""
    if op == "bsearch":
        if kind == 0:
            return p1 * x + p2
        if kind == 1:
            return x * x * x * p1 + p2
        if kind == 2:
            return p2 if x < p1 else p3
        return None if x > p3 else p1 * x + p2
    if kind == 0:
        return py_bd_mul(p1, x) + p2
    if kind == 1:
        return py_bd_mul(py_bd_mul(py_bd_mul(x, x), x), p1) + p2
    return p2 if x < p1 else p3


def gen_bsearch(r, n, op):
    """kind p1 p2 p3 lo hi target hasAdd add hasMul mul dir maxIter"""
    unit = 1 if op == "bsearch" else P36
    out = []
    while len(out) < n:
        kind = r.choice([0, 0, 0, 1, 1, 2, 3]) if op == "bsearch" else r.choice([0, 0, 1, 1, 2])
        xbits = r.choice([10, 20, 40, 64]) if op == "bsearch" else r.choice([100, 125, 140, 180])
        if kind == 1:
            xbits = min(xbits, 60 if op == "bsearch" else 150)
        lo = r.choice([0, 0, 1, loguniform(r, 1, xbits), -loguniform(r, 1, xbits)])
        hi = lo + loguniform(r, 1, xbits)
        p1 = (r.range(1, 1000) if op == "bsearch" else loguniform(r, 100, 130)) * (-1 if r.chance(1, 12) else 1)
        p2 = r.range(-1000, 1000) * unit
        p3 = r.range(-1000, 1000) * unit
        xs = r.range(lo, hi) if r.chance(5, 6) else hi + r.range(1, 1000)     # a solution inside / outside the range
        if kind == 2:
            p1 = xs
        if kind == 3:
            p3 = r.choice([hi, xs + r.range(-5, 5), (lo + hi) // 2 - 1])
        fx = search_f(op, kind, p1, p2, p3, xs)
        if fx is None:
            fx = p1 * xs + p2
        target = fx + r.choice([0, 0, 0, 1, -1, r.range(-50, 50), r.range(-50, 50) * unit // 10 ** 6])
        if kind == 2 and r.chance(1, 2):
            target = r.choice([p2, p3])
        tol = gen_tol(r, unit)
        if r.chance(1, 2):      # tolerances of the size of one input step's image
            step = abs(p1) if op == "bsearch" else abs(p1) // 10 ** r.choice([18, 24, 30, 36])
            tol[0], tol[1] = 1, r.choice([0, step * (P18 if op == "bsearch" else 1) // (1 if op == "bsearch" else P18) + r.range(0, 3), r.range(0, 10 ** 6)])
        maxit = r.choice([0, 1, 3, 10, 30, 70, 70, 70, 256 if op == "bsearch" else 200, r.range(1, 100), -1])
        if r.chance(1, 40) and op == "bsearch":     # lower + upper overflows 256 bits
            hi = 2 ** 256 - 1 - r.range(0, 3)
            lo = hi - r.range(0, 100)
        if op == "bsearch" and max(abs(v).bit_length() for v in (lo, hi, target)) > 256:
            continue
        out.append(mk(op, kind, p1, p2, p3, lo, hi, target, *tol, maxit))
    return out


def gen_exp2(r, n):
    out = [mk("exp2", v) for v in around([0, P36, 2 * P36, P36 // 2, 511 * P36, MAX_EXP2, 513 * P36, 1024 * P36]) + [-P36, -(10 ** 30), 2 ** 1100]]
    for k in range(0, 513, max(1, 513 * 4 // n)):                       # integer exponents and their neighbours
        out += [mk("exp2", v) for v in around([k * P36]) if 0 <= v]
    while len(out) < n:
        x = r.below(100)
        if x < 55:
            v = r.range(0, 512) * P36 + r.below(P36)                      # uniform fractional part
        elif x < 70:
            v = r.below(P36)                                              # [0,1)
        elif x < 80:
            v = r.range(0, 512) * P36 + r.choice([1, -1]) * loguniform(r, 1, 119)   # just above / below an integer
        elif x < 90:
            v = loguniform(r, 1, 129)                                     # log-uniform over the whole domain
        elif x < 95:
            v = MAX_EXP2 + r.choice([1, -1]) * loguniform(r, 1, 125)      # around the maximum exponent
        else:
            v = -loguniform(r, 1, 130) if r.chance(1, 2) else MAX_EXP2 + loguniform(r, 1, 200)
        out.append(mk("exp2", v))
    return out


def gen_log_x(r, n):
    """arguments of LogBase2 and the derived logarithms (raw x 10^36)"""
    vals = around([1, 2, 3, P36, 2 * P36, 4 * P36, P36 // 2, 10 * P36, 2718281828459045235360287471352662498, 2 ** 1144 - 2])
    vals += [0, -1, -P36, -(2 ** 1000)]
    for k in (-119, -100, -60, -10, -3, -2, -1, 1, 2, 3, 10, 64, 100, 512, 1000, 1023):     # powers of two +-1 ulp
        v = (P36 << k) if k >= 0 else (P36 >> -k)
        vals += around([v], lo=1)
    while len(vals) < n:
        x = r.below(100)
        if x < 40:
            vals.append(loguniform(r, 1, 240))
        elif x < 55:
            vals.append(P36 + r.choice([1, -1]) * loguniform(r, 1, 118))       # close to 1
        elif x < 70:
            vals.append(r.range(P36, 2 * P36))                                   # mantissa range [1,2)
        elif x < 80:
            vals.append(loguniform(r, 240, 1144))
        elif x < 92:
            k = r.range(-110, 900)
            v = (P36 << k) if k >= 0 else (P36 >> -k)
            vals.append(max(1, v + r.choice([1, -1]) * loguniform(r, 1, max(2, v.bit_length() // 2))))
        else:
            vals.append(-loguniform(r, 1, 300) if r.chance(1, 2) else 0)
    return vals[:n] if n >= 60 else vals[:60]


def gen_customlog(r, n):
    bases = around([P36, 2 * P36, 10 * P36, P36 // 2, P36 + 10 ** 32, 1000100000000000000000000000000000000]) + [0, -P36, 1, P36 + 10 ** 18]
    out = [mk("customlog", r.choice([P36, 8 * P36, 1234 * P36 // 10, 3]), b) for b in bases]
    while len(out) < n:
        x = gen_log_x(r, 60)[r.below(60)] if r.chance(1, 4) else loguniform(r, 1, 260)
        b = r.choice([2 * P36, 10 * P36, 1000100000000000000000000000000000000, loguniform(r, 100, 140), P36 + loguniform(r, 60, 118),
                      P36 - loguniform(r, 60, 118), loguniform(r, 1, 119)])
        out.append(mk("customlog", x, b))
    return out


def gen_pow_args(r):
    x = r.below(100)
    if x < 8:
        base = r.choice(around([0, 1, P18 // 2, P18, 2 * P18, P18 * 43 // 100]) + [-P18, 3 * P18, 2 ** 255])
    elif x < 55:
        base = r.range(P18 // 2, 3 * P18 // 2)                                    # the range balancer pools reach
    elif x < 75:
        base = r.range(3 * P18 // 2, 199 * P18 // 100)
    elif x < 80:
        base = 2 * P18 - loguniform(r, 1, 56)                                      # close to 2: slow convergence / iteration limit
    elif x < 92:
        base = r.range(1, P18 // 2)                                                # below 0.5 (finding F4)
    else:
        base = loguniform(r, 1, 59)
    y = r.below(100)
    if y < 10:
        e = r.choice([0, 1, P18 // 2, P18, 2 * P18, P18 // 4, P18 // 3, 2 * P18 // 3, 3 * P18 // 2, 4 * P18, P18 // 10, P18 - 1, P18 + 1])
    elif y < 60:
        e = r.below(P18)
    elif y < 85:
        e = r.range(0, 12) * P18 + r.below(P18)
    elif y < 93:
        e = r.range(0, 600) * P18 + r.choice([0, r.below(P18)])
    elif y < 97:
        e = loguniform(r, 1, 62)
    else:
        e = -r.choice([P18, P18 // 2, 3 * P18 // 10, 23 * P18 // 10, loguniform(r, 1, 64)])
    return base, e


def est_pow_iters(base, e, prec):
    """rough number of series rounds PowApprox will make (float simulation) - only used to keep the cost of evaluating the
    Coq model (about 2 ms per round in vm_compute) within the tier's budget; never used by the oracle"""
    if base <= 0 or base > 3 * P18:
        return 1
    frac = abs(e) % P18
    if frac == 0 or frac == P18 // 2:
        return 10
    x = abs(base - P18)
    a = frac if e >= 0 else -frac
    term, i = P18, 1
    while term >= prec and i <= 150000:
        c = abs(a - (i - 1) * P18)
        term = (((term * c + P18 // 2) // P18) * x + P18 // 2) // P18      # rounded like the Dec products (ties aside)
        term = (2 * term * P18 + i * P18) // (2 * i * P18)
        if term == 0:
            break
        i += 1
    return i


def budget_pow(cases, n):
    """mark the cases whose model evaluation would be too slow for the tier as oracle-only ("nomodel"): at most 3000 rounds per
    case and 60 rounds per case on average in the quick tier (thorough: 150000 / 600)"""
    per_case, avg = (3000, 100) if n <= 1000 else (150000, 200)
    total = 0
    for c in cases:
        a = args_of(c)
        est = est_pow_iters(a[0], a[1], a[2] if c["op"] == "powapprox" else POW_PRECISION)
        if est > per_case or total + est > avg * n:
            c["nomodel"] = 1
        else:
            total += est
    return cases


def gen_pow(r, n):
    out = []
    while len(out) < n:
        out.append(mk("pow", *gen_pow_args(r)))
    return budget_pow(out, n)


def gen_powapprox(r, n):
    out = []
    while len(out) < n:
        b, e = gen_pow_args(r)
        if r.chance(4, 5):
            e = e % P18
        prec = r.choice([POW_PRECISION] * 6 + [10 ** 12, 10 ** 8, 10 ** 14, 1, 0, -5, 10 ** 17])
        out.append(mk("powapprox", b, e, prec))
    return budget_pow(out, n)


def gen_bd_power(r, n):
    out = [mk("bd_power", 2 * P36, 9), mk("bd_power", 2 * P36, 0), mk("bd_power", 2 * P36, 1), mk("bd_power", 2 * P36, 2), mk("bd_power", 2 * P36, 3)]
    while len(out) < n:
        out.append(mk("bd_power", r.choice([1, -1]) * loguniform(r, 100, 130), r.choice([r.range(0, 12), r.range(0, 300), 2 ** 64 - 1])))
    return out


GENERATORS = {
    "exp2": gen_exp2,
    "log2": lambda r, n: [mk("log2", v) for v in gen_log_x(r, n)],
    "ln": lambda r, n: [mk("ln", v) for v in gen_log_x(r, n)],
    "ticklog": lambda r, n: [mk("ticklog", v) for v in gen_log_x(r, n)],
    "customlog": gen_customlog,
    "pow": gen_pow,
    "powapprox": gen_powapprox,
    "bd_power": gen_bd_power,
    "sigfig": gen_sigfig,
    "cmp_int": lambda r, n: gen_cmp(r, n, "cmp_int"),
    "cmp_bd": lambda r, n: gen_cmp(r, n, "cmp_bd"),
    "cmp_dec": lambda r, n: gen_cmp(r, n, "cmp_dec"),
    "bsearch": lambda r, n: gen_bsearch(r, n, "bsearch"),
    "bsearch_bd": lambda r, n: gen_bsearch(r, n, "bsearch_bd"),
    "sqrt": lambda r, n: gen_sqrt(r, n, "sqrt"),
    "sqrt_bd": lambda r, n: gen_sqrt(r, n, "sqrt_bd"),
}
COUNTS = {"quick": {"sqrt": 1500, "sqrt_bd": 1500, "sigfig": 2500, "cmp_int": 1000, "cmp_bd": 1000, "cmp_dec": 1000,
                    "bsearch": 1500, "bsearch_bd": 800, "exp2": 1500, "log2": 220, "ln": 70, "ticklog": 70, "customlog": 50,
                    "pow": 300, "powapprox": 200, "bd_power": 200},
          "thorough": {"sqrt": 20000, "sqrt_bd": 20000, "sigfig": 30000, "cmp_int": 15000, "cmp_bd": 15000, "cmp_dec": 15000,
                       "bsearch": 15000, "bsearch_bd": 8000, "exp2": 40000, "log2": 3000, "ln": 1000, "ticklog": 1000,
                       "customlog": 700, "pow": 4000, "powapprox": 3000, "bd_power": 2000}}


def gen_cases(seed, tier, ops=None, scale=1):
    r = Rng(seed)
    cases = []
    for op in OPS:
        if ops and op not in ops:
            continue
        n = COUNTS[tier].get(op, 0) * scale
        if n:
            cs = GENERATORS[op](r.fork(op), n)
            seen = set()
            for c in cs:
                k = key_of(c)
                if k not in seen:
                    seen.add(k)
                    cases.append(c)
    return cases


# ---------------------------------------------------------------------------------------------
# oracle: the property's own predicates on the implementation's observations (exact integers / Fractions;
# independent of the Coq model)
# ---------------------------------------------------------------------------------------------
def viol(c, o, what, **rec):
    rec.setdefault("op", c["op"])
    return {"what": "%s(%s): %s" % (c["op"], ", ".join(c["a"]), what), "rec": rec, "case": c, "impl": o}


def oracle_sqrt(c, o, prec):
    d = args_of(c)[0]
    if d < 0:
        if o["st"] == 0:
            return [viol(c, o, "negative input returned a value %s instead of failing" % o["v"], kind="fail_loudly")]
        return []
    if o["st"] != 0:
        return [viol(c, o, "non-negative input failed: %s" % o.get("msg"), kind="unexpected_error")]
    r = int(o["v"][0])
    s = d * prec
    if r < 0 or r * r < s:
        return [viol(c, o, "root %d squared is below the input (r^2 - d*10^k = %d)" % (r, r * r - s), kind="sqrt_not_upper")]
    if r > 0 and (r - 1) * (r - 1) >= s:
        return [viol(c, o, "root %d is not the least representable value whose square is at least the input" % r, kind="sqrt_not_least")]
    return []


def is_pow10(x):
    return x > 0 and str(x) == "1" + "0" * (len(str(x)) - 1)


def oracle_sigfig(c, o):
    """moves a value by at most half a unit of the last kept digit; the kept digits: with k the least k >= 0 such that
    |d|*10^k >= 0.1, the last kept digit has unit 10^-(k+s) for tenToSigFig = 10^s"""
    d, S = args_of(c)
    if o["st"] != 0:
        # loud failure is only expected outside the documented use (d < 0, tenToSigFig not a positive power of ten, or overflow)
        if d > 0 and is_pow10(S) and d * S < 2 ** 255 * P18 and S * 10 ** 17 < 2 ** 255:
            return [viol(c, o, "in-domain input failed: %s" % o.get("msg"), kind="unexpected_error")]
        return []
    r = int(o["v"][0])
    if d == 0:
        return [] if r == 0 else [viol(c, o, "zero moved to %d" % r, kind="sigfig_zero")]
    if not is_pow10(S):
        return []
    k = 0
    while abs(d) * 10 ** k < P18 // 10:
        k += 1
    D = S * 10 ** k
    out = []
    if 2 * abs(r - d) * D > P18:
        out.append(viol(c, o, "moved by %s units of the last kept digit (more than one half): result %d" % (Fraction(abs(r - d) * D, P18), r), kind="sigfig_half_unit"))
    if P18 % D == 0 and r % (P18 // D) != 0:
        out.append(viol(c, o, "result %d keeps digits below the last kept digit (unit 10^18/%d)" % (r, D), kind="sigfig_not_rounded"))
    return out


def tol_verdict(unit, e, a, tol):
    """does `a` meet the tolerance around the expected value `e` on the requested side?  e, a raw integers of a type with
    `unit` raw units per 1; tol = (hasAdd, add, hasMul, mul, dir) with Dec tolerances.  Returns None if it does, else the reason.
    The implementation rounds the relative error to the type's precision before comparing: one ulp of slack there."""
    has_add, add, has_mul, mul, d = tol
    if d == 2 and e < a:
        return "wrong side: RoundDown requires expected >= actual"
    if d == 1 and e > a:
        return "wrong side: RoundUp requires expected <= actual"
    if e == a:
        return None
    diff = Fraction(abs(e - a), unit)
    if has_add and diff > Fraction(add, P18):
        return "|expected - actual| = %s exceeds the additive tolerance %s" % (float(diff), float(Fraction(add, P18)))
    if has_mul and mul != 0:
        mn = min(abs(e), abs(a))
        if mn == 0:
            return "relative error undefined (one side is zero, the other is not)"
        slack = Fraction(1, P18 if unit in (1, P18) else P36)
        if Fraction(abs(e - a), mn) > Fraction(mul, P18) + slack:
            return "relative error %s exceeds the multiplicative tolerance %s" % (float(Fraction(abs(e - a), mn)), float(Fraction(mul, P18)))
    return None


def oracle_cmp(c, o, unit):
    a = args_of(c)
    e, act, tol = a[0], a[1], a[2:7]
    if o["st"] != 0:
        return []               # range panics are loud
    res = int(o["v"][0])
    if res == 0:
        why = tol_verdict(unit, e, act, tol)
        if why:
            return [viol(c, o, "Compare returned 0 (within tolerance) but " + why, kind="compare_accepts")]
    elif (res > 0 and e < act) or (res < 0 and e > act) or res not in (-1, 1):
        return [viol(c, o, "Compare returned %d for expected %s actual" % (res, "<" if e < act else ">"), kind="compare_sign")]
    return []


def oracle_bsearch(c, o):
    op = c["op"]
    unit = 1 if op == "bsearch" else P36
    a = args_of(c)
    kind, p1, p2, p3, lo, hi, target = a[:7]
    tol, maxit = a[7:12], a[12]
    if o["st"] != 0:
        return []               # non-convergence / function error / range panic: reported, not a wrong answer
    x = int(o["v"][0])
    out = []
    if lo <= hi and not (lo <= x <= hi):
        out.append(viol(c, o, "returned input %d outside [lowerbound, upperbound]" % x, kind="search_out_of_range"))
    if maxit <= 0:
        out.append(viol(c, o, "returned a value with maxIterations = %d" % maxit, kind="search_iterations"))
    fx = search_f(op, kind, p1, p2, p3, x)
    if fx is None:
        out.append(viol(c, o, "returned input %d where the searched function fails" % x, kind="search_f_error"))
        return out
    why = tol_verdict(unit, target, fx, tol)
    if why:
        out.append(viol(c, o, "returned input %d with image %d, target %d: %s" % (x, fx, target, why), kind="search_tolerance"))
    return out


def fx(v):
    """a reference fixed-point integer (ref.PREC fractional bits) as a Fraction"""
    return Fraction(v, ref.ONE)


def oracle_exp2(c, o):
    e = args_of(c)[0]
    outside = e < 0 or e > MAX_EXP2
    if o["st"] != 0:
        return [] if outside else [viol(c, o, "in-domain exponent failed: %s" % o.get("msg"), kind="unexpected_error")]
    res = Fraction(int(o["v"][0]), P36)
    true = ref.to_fraction(*ref.exp2_frac(Fraction(e, P36)))
    rel = abs(res / true - 1)
    if rel > Fraction(1, 10 ** 18):
        if outside:
            return [viol(c, o, "exponent outside [0, 512] returned the wrong number %s (relative error %.3e) instead of failing" % (o["v"][0], float(rel)),
                         kind="fail_loudly")]
        return [viol(c, o, "2^x off by a relative %.3e (> 1e-18): got %s, 2^x = %.40g" % (float(rel), o["v"][0], float(true)), kind="exp2_bound",
                     rel_err="%.3e" % float(rel))]
    return []


LOG_ABS = Fraction(1, 10 ** 32)      # the documented accuracy of LogBase2
ULP36 = Fraction(1, P36)


def oracle_log(c, o):
    """log2 to an absolute 1e-32; derived logs: (log2 x +- 1e-32) / (log2 base +- eps_b), eps_b = 1e-36 for the stored
    constants (Ln, TickLog), 1e-32 for a computed base logarithm (CustomBaseLog); plus one ulp for the final rounding"""
    a = args_of(c)
    x = a[0]
    op = c["op"]
    base_bad = op == "customlog" and (a[1] <= 0 or a[1] == P36)
    if x <= 0 or base_bad:
        if o["st"] == 0:
            return [viol(c, o, "argument outside the domain returned %s instead of failing" % o["v"], kind="fail_loudly")]
        return []
    lx = fx(ref.log2_frac(Fraction(x, P36)))
    if op == "log2":
        lb, eps_b = Fraction(1), Fraction(0)
    elif op == "ln":
        lb, eps_b = Fraction(ref.ONE, ref.ln2()), ULP36
    elif op == "ticklog":
        lb, eps_b = fx(ref.log2_frac(Fraction(10001, 10000))), ULP36
    else:
        lb, eps_b = fx(ref.log2_frac(Fraction(a[1], P36))), LOG_ABS
    if o["st"] != 0:
        if op == "customlog" and abs(lb) < 10 ** 3 * LOG_ABS:
            return []           # base so close to 1 that its computed log2 may be 0: division by zero is a loud failure
        return [viol(c, o, "in-domain argument failed: %s" % o.get("msg"), kind="unexpected_error")]
    res = Fraction(int(o["v"][0]), P36)
    true = lx / lb
    if abs(lb) <= 2 * eps_b:
        return []               # no meaningful bound
    bound = (LOG_ABS + abs(true) * eps_b) / (abs(lb) - eps_b) + (ULP36 if op != "log2" else 0)
    err = abs(res - true)
    if err > bound:
        return [viol(c, o, "off by %.3e, allowed %.3e (log2 accurate to 1e-32, scaled by the base change): got %s" % (float(err), float(bound), o["v"][0]),
                     kind="log_bound", err="%.3e" % float(err))]
    return []


def pow_rec(base, e):
    return {"op": "Pow", "base_class": "lt_0.5" if base < P18 // 2 else "ge_0.5"}


def oracle_pow(c, o):
    """documented domain 0 < base < 2 (PowApprox: <= 2), exponent >= 0.  |result - base^exp| <= powPrecision, the precision
    applying to the fractional power (so scaled by the integer power when that exceeds 1)."""
    a = args_of(c)
    base, e = a[0], a[1]
    approx = c["op"] == "powapprox"
    prec = a[2] if approx else POW_PRECISION
    if base <= 0:
        if o["st"] == 0:
            return [viol(c, o, "base outside the domain returned %s instead of failing" % o["v"], kind="fail_loudly", op="Pow", base_class="out_of_domain")]
        return []
    out_of_domain = (base >= 2 * P18 and not approx) or (base > 2 * P18 and approx)
    if o["st"] != 0:
        return []                   # iteration limit / overflow: loud
    if approx and not (0 <= e < P18 and 10 ** 8 <= prec <= 10 ** 14):
        return []                   # outside PowApprox's contract / precisions for which no bound is claimed
    res = Fraction(int(o["v"][0]), P18)
    true = ref.to_fraction(*ref.pow_frac(Fraction(base, P18), Fraction(e, P18)))
    err = abs(res - true)
    if e <= -P18:
        # negative exponent with a non-zero integer part: uint64(integer.TruncateInt64()) wraps around, base.Power(2^64-n) is 0
        # for base < 1 (and panics "Int overflow" for base > 1): a wrong number instead of a loud failure
        if err > Fraction(prec, P18) * max(1, true):
            return [viol(c, o, "negative exponent: returned %s, base^exp = %.12g (error %.3e)" % (o["v"][0], float(true), float(err)),
                         kind="pow_negative_exponent", op="Pow", exp_class="negative_with_integer_part")]
        return []
    ipow = Fraction(base, P18) ** (e // P18) if e >= 0 else Fraction(1)
    bound = (Fraction(prec, P18) + Fraction(1, 10 ** 12)) * max(1, ipow)
    if err > bound:
        if out_of_domain:
            # "outside the domain the functions fail loudly instead of returning a wrong number": a value was returned and it is wrong
            return [viol(c, o, "base outside the domain returned the wrong number %s (base^exp = %.20g) instead of failing" % (o["v"][0], float(true)),
                         kind="fail_loudly", op="Pow", base_class="out_of_domain")]
        rec = pow_rec(base, e)
        return [viol(c, o, "off by %.3e, documented precision %.1e (x integer power %.3g): got %s, base^exp = %.20g"
                     % (float(err), float(Fraction(prec, P18)), float(max(1, ipow)), o["v"][0], float(true)), kind="pow_bound", fn=c["op"], **rec)]
    return []


def oracle_bd_power(c, o):
    d, n = args_of(c)
    if o["st"] != 0 or n > 300:
        return []
    res = Fraction(int(o["v"][0]), P36)
    true = Fraction(d, P36) ** n
    # square-and-multiply with rounded products: relative error about 2n ulps of the operands
    if abs(res - true) > (abs(true) * 4 * (n + 1) + 4 * (n + 1)) * ULP36 * max(1, abs(Fraction(d, P36))) ** n:
        return [viol(c, o, "PowerInteger off: got %s, exact %.30g" % (o["v"][0], float(true)), kind="power_integer")]
    return []


ORACLES = {
    "exp2": oracle_exp2,
    "log2": oracle_log, "ln": oracle_log, "ticklog": oracle_log, "customlog": oracle_log,
    "pow": oracle_pow, "powapprox": oracle_pow,
    "bd_power": oracle_bd_power,
    "sigfig": oracle_sigfig,
    "cmp_int": lambda c, o: oracle_cmp(c, o, 1),
    "cmp_bd": lambda c, o: oracle_cmp(c, o, P36),
    "cmp_dec": lambda c, o: oracle_cmp(c, o, P18),
    "bsearch": oracle_bsearch,
    "bsearch_bd": oracle_bsearch,
    "sqrt": lambda c, o: oracle_sqrt(c, o, P18),
    "sqrt_bd": lambda c, o: oracle_sqrt(c, o, P36),
}


def oracle_monotone(cases, obs, op):
    """monotonicity of the square roots on all generated inputs, sorted (so in particular on the adjacent pairs v, v+1)"""
    pts = sorted((args_of(c)[0], int(o["v"][0]), c, o) for c, o in zip(cases, obs) if c["op"] == op and o["st"] == 0)
    out = []
    for (d1, r1, c1, o1), (d2, r2, c2, o2) in zip(pts, pts[1:]):
        if r2 < r1:
            v = viol(c2, o2, "not monotone: input %d -> %d but the smaller input %d -> %d" % (d2, r2, d1, r1), kind="sqrt_not_monotone")
            v["case"] = dict(c2, also=[c1])
            out.append(v)
    return out


def run_oracle(cases, obs):
    out = []
    for c, o in zip(cases, obs):
        if o["st"] == ST["driver"]:
            out.append(viol(c, o, "driver error: %s" % o.get("msg"), kind="driver_error"))
            continue
        # st 99 = the call failed loudly with a text the driver does not recognise: a failure like any other for the oracle
        out += ORACLES[c["op"]](c, o)
    for op in ("sqrt", "sqrt_bd"):
        out += oracle_monotone(cases, obs, op)
    return out


# ---------------------------------------------------------------------------------------------
# correspondence: model (Coq vm_compute) vs implementation, bit-exact
# ---------------------------------------------------------------------------------------------
def coq_case(c, flat):
    return "mkCase %d %s %s" % (OPS[c["op"]][0], zlist(args_of(c)), zlist(flat))


def model_compare(cases, obs, tag):
    """-> list of indices into cases where model_obs differs from the implementation's flat observation, and error notes"""
    nsh = max(1, min(common.NPROC, len(cases) // 4))
    if len(cases) > 2500 * common.NPROC:          # thorough tier: keep each generated Coq file below ~2500 cases
        nsh = common.NPROC * (-(-len(cases) // (2500 * common.NPROC)))
    order = sorted(range(len(cases)), key=lambda i: -OPS[cases[i]["op"]][1])
    shards = [[] for _ in range(nsh)]
    load = [0] * nsh
    for i in order:                      # greedy balancing by estimated vm_compute cost
        k = load.index(min(load))
        shards[k].append(i)
        load[k] += OPS[cases[i]["op"]][1]
    items = []
    for k, sh in enumerate(shards):
        body = ";\n  ".join(coq_case(cases[i], flat_of(obs[i])) for i in sh)
        v = ("From Coq Require Import ZArith List. Import ListNotations.\n"
             "From Osmo Require Import Base.Obs C13.Corr.\nOpen Scope Z_scope.\n"
             "Definition cases : list case := [\n  %s ].\n"
             "Definition M := Eval vm_compute in mismatches case_ok cases.\nPrint M.\n" % body)
        items.append(("C13_%s_%d_%d" % (tag, os.getpid(), k), v))     # pid: concurrent runs of this check must not share file names
    res = common.coq_eval_many(items)
    bad, notes = [], []
    for sh, (rc, o) in zip(shards, res):
        mm = common.parse_nat_list(o)
        if rc != 0 or mm is None:
            notes.append("model evaluation failed: " + o[-600:])
            continue
        bad += [sh[j] for j in mm]
    return sorted(bad), notes


def run_cases(cases, model_ok, out, tag):
    binary = common.go_build("c13drv")
    obs = common.run_driver(binary, cases, shards=common.NPROC)
    out.evaluations += len(cases)
    for v in run_oracle(cases, obs):
        out.oracle_violations.append(v)
    for c, o in zip(cases, obs):
        if o["st"] == 0:
            out.nontrivial.add(key_of(c))
    if model_ok:
        idx = [i for i, c in enumerate(cases) if c["op"] in MODELLED and not c.get("nomodel")]
        bad, notes = model_compare([cases[i] for i in idx], [obs[i] for i in idx], tag)
        for n in notes:
            out.mismatches.append({"what": n, "case": None})
        for j in bad:
            i = idx[j]
            out.mismatches.append({"what": "C13 model_obs differs from the implementation for op %s" % cases[i]["op"],
                                   "case": cases[i], "impl_flat": [str(x) for x in flat_of(obs[i])]})
    else:
        out.model_ran = False
    return obs


def correspond(tier, seed, model_ok):
    out = Outcome()
    cases = gen_cases(seed, tier)
    corpus = common.load_corpus(PROP)
    obs = run_cases(corpus + cases, model_ok, out, "q")
    out.rule = ("one case = one call of one function on raw mantissas (edges 0, 1 ulp, 1, 2, max exponent, largest representable, +-1 ulp "
                "around each; exact squares and their neighbours; log-uniform interior; a small out-of-domain stream); non-trivial = the "
                "implementation returned a value (not an error/panic); distinct = distinct (function, arguments)")
    out.samples = [dict(c, impl=o) for c, o in list(zip(corpus + cases, obs))[:: max(1, len(cases) // 5)]][:5]
    hist, errs = {}, {}
    for c, o in zip(corpus + cases, obs):
        hist[c["op"]] = hist.get(c["op"], 0) + 1
        k = [n for n, v in ST.items() if v == o["st"]][0]
        errs[k] = errs.get(k, 0) + 1
    out.distribution = {"ops": hist, "status": errs, "corpus_cases": len(corpus)}
    return out


def search(tier, seed, out):
    """after a proof / correspondence break with a quiet oracle: oracle only, many more cases, concentrated on the disagreeing ops"""
    ops = sorted({m["case"]["op"] for m in out.mismatches if m.get("case")}) or None
    o2 = Outcome()
    cases = gen_cases(seed + 7919, "quick", ops=ops, scale=8)
    for m in out.mismatches[:50]:
        if m.get("case"):
            cases.append(m["case"])
    run_cases(cases, False, o2, "s")
    return o2.oracle_violations[0] if o2.oracle_violations else None


def replay(path):
    d = json.load(open(path))
    body = d.get("case") or {}
    c = body.get("case") if isinstance(body, dict) else None
    if not c:
        print("replay names a proof obligation / correspondence break, not an input:", d.get("what"))
        return 1
    cases = [{"op": c["op"], "a": c["a"]}] + [{"op": x["op"], "a": x["a"]} for x in c.get("also", [])]
    out = Outcome()
    obs = run_cases(cases, True, out, "r")
    for cc, o in zip(cases, obs):
        print("impl:", json.dumps(cc), "->", json.dumps(o))
    for v in out.oracle_violations:
        print("oracle:", v["what"])
    for m in out.mismatches:
        print("mismatch:", m["what"])
    return 1 if (out.oracle_violations or out.mismatches) else 0


# ---------------------------------------------------------------------------------------------
# unit check of this machinery (development aid):  python3 -c "from props import c13; c13.selftest()"
# the oracle must flag a hand-perturbed observation; case_ok must reject a perturbed expectation
# ---------------------------------------------------------------------------------------------
def _bump(o, delta):
    return dict(o, v=[str(int(o["v"][0]) + delta)] + o["v"][1:])


PERTURB = {   # op -> list of (label, function(case, obs) -> perturbed obs or None)
    "sqrt": [("root+1", lambda c, o: _bump(o, 1)), ("root-1", lambda c, o: _bump(o, -1) if int(o["v"][0]) > 0 else None)],
    "sqrt_bd": [("root+1", lambda c, o: _bump(o, 1)), ("root-1", lambda c, o: _bump(o, -1) if int(o["v"][0]) > 0 else None)],
    "sigfig": [("two more units of the kept digit", lambda c, o: _sigfig_perturb(c, o))],
    "cmp_int": [("non-zero verdict replaced by 0", lambda c, o: _cmp_perturb(c, o, 1))],
    "cmp_bd": [("non-zero verdict replaced by 0", lambda c, o: _cmp_perturb(c, o, P36))],
    "cmp_dec": [("non-zero verdict replaced by 0", lambda c, o: _cmp_perturb(c, o, P18))],
    "exp2": [("result * (1 + 2e-18)", lambda c, o: _bump(o, int(o["v"][0]) * 2 // 10 ** 18 + 1)),
             ("result * (1 - 2e-18)", lambda c, o: _bump(o, -(int(o["v"][0]) * 2 // 10 ** 18) - 1))],
    "log2": [("result + 2e-32", lambda c, o: _bump(o, 2 * 10 ** 4)), ("result - 2e-32", lambda c, o: _bump(o, -2 * 10 ** 4))],
    "ln": [("result + 2e-32", lambda c, o: _bump(o, 2 * 10 ** 4))],
    "ticklog": [("result * (1 + 1e-30) + 1e-27", lambda c, o: _bump(o, abs(int(o["v"][0])) // 10 ** 30 + 10 ** 9))],
    "customlog": [("result * (1 + 1e-6)", lambda c, o: _customlog_perturb(c, o))],
    "pow": [("result + 3e-8 (x integer power)", lambda c, o: _pow_perturb(c, o))],
    "powapprox": [("result + 3 * precision", lambda c, o: _pow_perturb(c, o))],
    "bsearch": [("returned input moved off the solution", lambda c, o: _search_perturb(c, o))],
    "bsearch_bd": [("returned input moved off the solution", lambda c, o: _search_perturb(c, o))],
}


def _customlog_perturb(c, o):
    x, b = args_of(c)
    if abs(b - P36) < 10 ** 20 or int(o["v"][0]) == 0:
        return None
    return _bump(o, abs(int(o["v"][0])) // 10 ** 6 + 10 ** 12)


def _pow_perturb(c, o):
    a = args_of(c)
    prec = a[2] if c["op"] == "powapprox" else POW_PRECISION
    if a[1] < 0 or (c["op"] == "powapprox" and not (0 <= a[1] < P18 and 10 ** 8 <= prec <= 10 ** 14)):
        return None
    ipow = max(1, (a[0] ** (a[1] // P18)) // P18 ** (a[1] // P18) + 1)
    return _bump(o, 3 * prec * ipow)


def _cmp_perturb(c, o, unit):
    a = args_of(c)
    if int(o["v"][0]) == 0 or tol_verdict(unit, a[0], a[1], a[2:7]) is None:
        return None     # (a non-zero verdict on values that do meet the tolerance, e.g. Compare(0,0): nothing to flag)
    return dict(o, v=["0"])


def _search_perturb(c, o):
    a = args_of(c)
    unit = 1 if c["op"] == "bsearch" else P36
    for delta in (1, -1, 1000, -1000, unit, -unit, 10 ** 6 * unit):
        x = int(o["v"][0]) + delta
        fx = search_f(c["op"], a[0], a[1], a[2], a[3], x)
        if fx is None or tol_verdict(unit, a[6], fx, a[7:12]) is not None or not (a[4] <= x <= a[5]):
            return dict(o, v=[str(x)])
    return None


def _sigfig_perturb(c, o):
    d, S = args_of(c)
    if d <= 0 or not is_pow10(S) or S * 10 ** 17 > P18:
        return None
    k = 0
    while d * 10 ** k < P18 // 10:
        k += 1
    if P18 // (S * 10 ** k) == 0:
        return None
    return _bump(o, 2 * (P18 // (S * 10 ** k)))      # two units: one unit from a rounding tie is still within half a unit


def selftest(n=60):
    binary = common.go_build("c13drv")
    ok = True
    assert ref.selfcheck()
    for op in OPS:
        if op not in MODELLED:
            continue
        cases = [c for c in GENERATORS[op](Rng(5).fork(op), 400) if not c.get("nomodel")]
        obs = common.run_driver(binary, cases)
        good = [(c, o) for c, o in zip(cases, obs) if o["st"] == 0]
        step = max(1, len(good) // n)
        good = good[::step][:n]
        for label, f in PERTURB.get(op, []):
            pert = [(c, f(c, o)) for c, o in good]
            pert = [(c, o) for c, o in pert if o is not None]
            flagged = sum(1 for c, o in pert if ORACLES[c["op"]](c, o))
            bad, notes = model_compare([c for c, _ in pert], [o for _, o in pert], "selftest")
            print("selftest %-10s %-34s oracle flagged %d/%d, case_ok rejected %d/%d %s"
                  % (op, label, flagged, len(pert), len(bad), len(pert), notes[:1] or ""))
            if flagged != len(pert) or len(bad) != len(pert) or not pert:
                ok = False
        # error observations: an out-of-domain input that returns a number must be flagged
        errs = [(c, o) for c, o in zip(cases, obs) if o["st"] != 0][:n]
        if errs:
            fake = [(c, {"st": 0, "v": ["1"]}) for c, _ in errs]
            bad, notes = model_compare([c for c, _ in fake], [o for _, o in fake], "selftest")
            print("selftest %-10s %-34s case_ok rejected %d/%d" % (op, "error replaced by a value", len(bad), len(fake)))
            if len(bad) != len(fake):
                ok = False
            # a failure whose text the driver does not recognise (generic code 99) is compatible with any predicted failure ...
            gen = [(c, {"st": ST["other"], "v": []}) for c, _ in errs]
            bad, notes = model_compare([c for c, _ in gen], [o for _, o in gen], "selftest")
            flagged = sum(1 for c, o in gen if ORACLES[c["op"]](c, o))
            print("selftest %-10s %-34s case_ok rejected %d/%d, oracle flagged %d (both must be 0)" % (op, "failure with unrecognised text", len(bad), len(gen), flagged))
            if bad or flagged or notes:
                ok = False
        # ... but not with a value
        if good:
            gen = [(c, {"st": ST["other"], "v": []}) for c, _ in good[:10]]
            bad, notes = model_compare([c for c, _ in gen], [o for _, o in gen], "selftest")
            print("selftest %-10s %-34s case_ok rejected %d/%d" % (op, "value replaced by a generic failure", len(bad), len(gen)))
            if len(bad) != len(gen):
                ok = False
    print("selftest", "ok" if ok else "FAILED")
    return ok


SCOPE = ("partial: proved in full - monotone square roots (least upper root, monotone, negative fails), SigFigRound (half unit of the last kept "
         "digit), Compare*/BinarySearch/BinarySearchBigDec for every searched function (tolerance met on the requested side, in range, "
         "non-convergence only after maxIterations failed probes), Exp2 (relative 1e-19 on the whole domain 0..512, domain failures), LogBase2 "
         "(3.3e-33 for every representable positive argument) and Ln/TickLog/CustomBaseLog (that error scaled by the base change), all domain "
         "failures, in-domain totality of Exp2 and LogBase2 (no range panic inside the domain), and Pow/PowApprox on 1/2 <= base < 2: "
         "|PowApprox - base^exp| <= precision + 1e-12 for every exponent in [0,1) incl. the ApproxSqrt shortcut (within 5 ulp of sqrt), lifted to Pow "
         "for integer parts <= 2^28 (product form beyond), with the binomial series identity proved.  NOT proved: the exact documented 1e-8 without the "
         "1e-12 rounding allowance, and which bases close to 2 hit the iteration limit (a loud failure).  Refuted with witnesses: the "
         "documented Pow precision for base < 0.5 (finding F4) and 'fails loudly' for Pow exponents <= -1 (finding F9).")
EXPLANATION = ("Gallina model of osmomath's exp2/log/pow/sqrt/sigfig/binary-search code on raw mantissas (C13/*.v over Base/DecModel.v), with every "
               "panic/error as an explicit error value.  Integer-only theorems are axiom-free; error bounds against exp/ln use the standard "
               "library reals: Coq-Interval proves |h/(p 2^x) - 1| <= 1e-20 on [0,1] for the coefficient literals regenerated from exp2.go on every "
               "run, and that the stored log2(e), log2(1.0001) literals are correctly rounded; hand proofs bound the fixed-point rounding (33 ulps "
               "for the rational function, 3300 ulps for the 300-round logarithm incl. up to 1144 normalisation shifts).  The model is tied to /repo "
               "by bit-exact comparison of every function on structured inputs (domain edges, +-1 ulp, log-uniform interior, malformed stream), and an "
               "independent 700-bit big-integer oracle checks the property's bounds on the implementation's outputs.")
TRUSTED = [
    "hand-written model coq/theories/C13/{Common,Sqrt,SigFig,BinSearch,Exp2,Log2,Pow}.v over Base/DecModel.v, tied to /repo/osmomath (and to "
    "cosmossdk.io/math v1.5.3 LegacyDec/Int for Pow, SigFigRound, Compare) by the bit-exact correspondence run (harness/c13drv)",
    "translator props/c13.py translate(): regexes over the Go literals of exp2.go, decimal.go, math.go, sqrt.go, sigfig_round.go -> Gen/C13_consts.v; "
    "every constant it emits is exercised by the correspondence",
    "harness/c13drv (Go), props/c13.py + props/_c13_ref.py (generator, 700-bit integer reference for 2^x / log2 / x^y, oracle), Coq vm_compute "
    "evaluation of generated case files",
    "axioms (exactly those printed by Print Assumptions for the real-analysis theorems; the integer-only theorems are closed): "
    "ClassicalDedekindReals.sig_forall_dec, ClassicalDedekindReals.sig_not_dec, Classical_Prop.classic, "
    "FunctionalExtensionality.functional_extensionality_dep (Coq standard library reals), and the kernel's primitive 63-bit integers with their "
    "specification axioms PrimInt63.* / Uint63.* (used by Coq-Interval's BigZ floating-point arithmetic; primitive floats are NOT used)",
    "Coq-Interval 4.x / Flocq / Coquelicot / Bignums libraries as installed (checked by the kernel; no native_compute)",
]
ASSUMPTIONS = [
    "Go big.Int Quo/Rem/QuoRem = truncated division, Sqrt = floor square root, Lsh = *2^n, Rsh = floor(/2^n) also for negative values",
    "representable BigDec argument = mantissa of at most 1144 bits (osmomath's maxDecBitLen); Dec values within LegacyDec's 2^256 range",
    "documented domains: Exp2 0..2^9; LogBase2 x > 0; CustomBaseLog base > 0, base <> 1; Pow 0 < base < 2, exponent >= 0, precision 1e-8 (scaled by the "
    "integer power); SigFigRound d >= 0 with tenToSigFig a power of ten",
    "derived logarithms: '1e-32 scaled by the base change' is read as (1e-32 + |result| * eps_b) / (|log2 base| - eps_b) + 1 ulp, eps_b = 1e-36 for the "
    "stored constants and 1e-32 for a computed base logarithm",
]
TECHNIQUE = ("Coq proof over a Gallina model of osmomath's approximation functions (Coq-Interval for the real-analysis lemma on the generated "
             "coefficients, hand-written fixed-point error analysis); model tied to the Go code by bit-exact differential correspondence "
             "(vm_compute) + 700-bit rational oracle")
LEVEL_TEXT = ("Machine-checked theorems (Coq 8.16.1) over a hand-written model: square roots, SigFigRound, tolerance comparison and both binary "
              "searches (for every searched function) are proved in full and axiom-free; Exp2 (relative 1e-19) and LogBase2/Ln/TickLog/CustomBaseLog "
              "(3.3e-33 scaled by the base change) are proved for all inputs of their domains over the standard-library reals with Coq-Interval; "
              "Pow's documented precision is refuted for base < 0.5 and its fail-loudly claim for exponents <= -1 (known findings F4, F9); for "
              "1/2 <= base < 2 the bound |PowApprox - base^exp| <= precision + 1e-12 (all exponents in [0,1) incl. the ApproxSqrt shortcut) and its "
              "lift to Pow (integer part <= 2^28, product form beyond) are proved over the reals with the binomial series identity discharged "
              "(C13_pow_approx_bound, C13_pow_bound, C13_pow_parts_bound).  The model is checked bit-exact against the real code on "
              "every run, and an independent big-integer oracle evaluates the property's bounds on the implementation's outputs.")
LEVEL_NOTE = ("Trusted: Coq kernel (vm_compute; no native_compute); real-number axioms of the standard library and the primitive-integer axioms used "
              "by Coq-Interval (listed verbatim in trusted_base); hand-written model C13/*.v and Base/DecModel.v; translator regexes; Go driver "
              "harness/c13drv; python generator/oracle/reference.  The Pow bound on [1/2,2) is proved with a 1e-12 rounding allowance on top of the documented 1e-8; totality of Pow near base 2 (iteration limit) is a loud failure, not claimed.")
