"""C01 - concentrated-liquidity pools stay solvent under every operation history: generator, oracle, correspondence."""
import copy
import json
from fractions import Fraction

from lib import common
from lib.common import Rng, Outcome
from props import _cl, _clr, c08

PROP = "C01"
GO_PKGS = [("clrdrv", True)]
MODEL_VO = ["theories/CLR/RCorr.vo"]
ALLOWED_AXIOMS = []
translate = _clr.translate

P18 = 10**18


# ---------------------------------------------------------------------------------------------
# generator: the history grammar of the property (create / add / partial and full withdraw / swaps both ways and kinds /
# reward collections / incentive creations / time advances) by 3 accounts; plus an adversarial stream (dust amounts,
# ranges one tick wide, repeated there-and-back swaps)
# ---------------------------------------------------------------------------------------------
def gen_case(r, nops, K):
    mode = r.below(10)
    if mode < 7:
        c = c08.gen_case(r, nops, K, exits=True, mode=r.range(1, 7))
        if r.chance(1, 3):      # forfeits in several uptime accumulators at one withdrawal (re-deposit path)
            at = r.range(1, max(1, min(len(c["ops"]), nops - 8)))
            c["ops"][at:at] = c08.forfeit_block(r, c["ops"][0])
            c["ops"] = c["ops"][:nops]
    else:
        # adversarial: narrow ranges around the price, dust, there-and-back swaps
        c = _cl.gen_case(r, 6, K, weights={"time": 4})
        sp = c["spacing"]
        first = c["ops"][0]
        mid = (first["lo"] + first["hi"]) // 2 // sp * sp
        ops = [first]
        while len(ops) < nops:
            x = r.below(100)
            a = r.below(3)
            if x < 18:
                lo = _cl.clamp_tick(mid + r.range(-4, 3) * sp, sp, K)
                ops.append({"k": "create", "a": a, "lo": lo, "hi": lo + sp * r.choice([1, 1, 2]), "amt0": str(r.choice([1, 2, 7, 1000, int(first["amt0"])])),
                            "amt1": str(r.choice([1, 3, 11, 1000, int(first["amt1"])])), "min0": "0", "min1": "0"})
            elif x < 50:
                zfo = r.chance(1, 2)
                amt = r.choice([1, 2, 3, 10, 1000, max(1, int(first["amt0" if zfo else "amt1"]) // r.choice([1, 3, 10, 1000]))])
                ops.append({"k": "swap_in", "a": a, "zfo": zfo, "amt": str(amt), "lim": "1"})
                if r.chance(1, 2):
                    ops.append({"k": "swap_to_tick", "a": a, "zfo": not zfo, "n": r.choice([1, 2]), "delta": r.choice([0, 0, 1, -1])})
            elif x < 60:
                zfo = r.chance(1, 2)
                ops.append({"k": "swap_out", "a": a, "zfo": zfo, "amt": str(r.choice([1, 2, 5, 100, 10**6])), "lim": str(10**40)})
            elif x < 72:
                num, den = r.choice([(1, 1), (1, 2), (1, 3), (1, 10**6), (999999, 10**6)])
                ops.append({"k": "withdraw", "a": a, "sel": r.below(64), "own": True, "num": num, "den": den})
            elif x < 78:
                ops.append({"k": "add", "a": a, "sel": r.below(64), "own": True, "amt0": str(r.choice([0, 1, 5, 1000])), "amt1": str(r.choice([0, 1, 5, 1000])), "min0": "0", "min1": "0"})
            elif x < 84:
                ops.append({"k": "incentive", "a": a, "d": r.below(2), "amt": str(r.choice([1, 2, 1000, 10**9])), "rate": str(r.choice([1, 10**17, 10**18, 7 * 10**18, 10**27])),
                            "u": r.choice([0, 1, 2, 3]), "dt": r.choice([0, 0, 5])})
            elif x < 92:
                ops.append({"k": "time", "dt": r.choice([1, 7, 60, 3600, 86400])})
            elif x < 96:
                ops.append({"k": "collect_spread", "a": a, "sel": r.below(64), "own": True})
            else:
                ops.append({"k": "collect_inc", "a": a, "sel": r.below(64), "own": True})
        if r.chance(2, 3):      # boundary coincidences: positions whose lower / upper tick is the current tick, then small swaps
            ops = c08.boundary_blocks(r, ops, nops)
        c["ops"] = ops[:nops]
        c["spread_scaled"] = r.chance(1, 2)
        c["inc_scaled"] = r.chance(1, 2)
        c["exits"] = True
    return c


# ---------------------------------------------------------------------------------------------
# oracle = the property itself: after every operation every open position can be withdrawn in full and all rewards
# collected, in either order, every exit succeeds, and what is left in the three accounts is non-negative dust
# ---------------------------------------------------------------------------------------------
def oracle(c, obs, K):
    V = []

    def viol(step, kind, what, **rec):
        r = {"kind": kind}
        r.update(rec)
        V.append({"what": "after op %s (%s): %s" % (step, obs["steps"][step]["rop"]["k"], what), "rec": r, "step": step})

    for n, st in enumerate(obs["steps"]):
        bal = st["bal"]
        pool_bal = [int(bal[0][0]), int(bal[0][1])]
        sp_bal = [int(bal[1][0]), int(bal[1][1])]
        inc_bal = [int(bal[2][0]), int(bal[2][1])]
        # the accounts cover what the queries promise
        for d in (0, 1):
            tot = sum(int(p[6 + d]) for p in st["pos"] if p[6] != "")
            if tot > sp_bal[d]:
                viol(n, "spread_insolvent", "claimable spread rewards %d exceed the spread-reward account %d (denom %d)" % (tot, sp_bal[d], d))
            toti = sum(int(p[d]) + int(p[2 + d]) for p in st["pos_inc"] if p[0] != "")
            rem = sum(Fraction(int(r[2]), P18) for r in st["recs_now"] if int(r[1]) == d)
            if toti + rem > inc_bal[d]:
                viol(n, "incentive_insolvent", "claimable incentives %d + undistributed %s exceed the incentive account %d (denom %d)" % (toti, float(rem), inc_bal[d], d))
        for p in st["pos"]:
            if p[6] == "":
                viol(n, "claim_query_failed", "claimable spread rewards query failed for position %s" % p[0])
        for p, pi in zip(st["pos"], st["pos_inc"]):
            if pi[0] == "":
                viol(n, "claim_query_failed", "claimable incentives query failed for position %s" % p[0])
        for e in st.get("exit") or []:
            order = e["order"]
            for a in e["acts"]:
                if a[2] != "0":
                    viol(n, "exit_failed", "order %d: %s of position %s failed (%s)" % (order, {"cs": "collecting spread rewards", "ci": "collecting incentives", "w": "full withdrawal", "panic": "experiment"}.get(a[0], a[0]),
                                                                                   a[1], a[-1] if len(a) > 5 or a[0] == "panic" else "error"), order=order, act=a[0])
            if e["left"] != 0:
                viol(n, "exit_incomplete", "order %d: %d positions still open after everybody exited" % (order, e["left"]), order=order)
            for acc, name in ((0, "pool"), (1, "spread-reward"), (2, "incentive")):
                for d in (0, 1):
                    left = int(e["bal"][acc][d])
                    if acc == 2:
                        left = left - Fraction(int(e["recs"][d]), P18)
                    if left < 0:
                        viol(n, "negative_leftover", "order %d: %s account is short by %s after everybody exited (denom %d)" % (order, name, float(-left), d), order=order)
            # exiting pays each position at least what the queries promised before (per position, both kinds)
            if order == 0:
                for a in e["acts"]:
                    if a[0] == "cs" and a[2] == "0":
                        q = next((p for p in st["pos"] if p[0] == a[1]), None)
                        if q and q[6] != "" and [int(a[3]), int(a[4])] != [int(q[6]), int(q[7])]:
                            # later exits may have re-deposited dust: never less than promised
                            if int(a[3]) < int(q[6]) or int(a[4]) < int(q[7]):
                                viol(n, "paid_less_than_promised", "order 0: position %s collected %s spread rewards, the query promised %s" % (a[1], a[3:5], q[6:8]))
    return V


def nontrivial(obs):
    ok_lp = sum(1 for s in obs["steps"] if s["err"] == 0 and s["rop"]["k"] in ("create", "withdraw", "add"))
    swaps = sum(1 for s in obs["steps"] if s["err"] == 0 and s["rop"]["k"] in ("swap_in", "swap_out"))
    exits = sum(1 for s in obs["steps"] for e in (s.get("exit") or []) if len(e["acts"]) >= 2)
    return ok_lp >= 2 and swaps >= 1 and exits >= 2


def selftest(pairs, K, out):
    pick = None
    for c, o in pairs:
        for n, s in enumerate(o["steps"]):
            ex = s.get("exit") or []
            if ex and len(ex[0]["acts"]) >= 3 and s["err"] == 0:
                pick = (c, o, n)
                break
        if pick:
            break
    if not pick:
        out.notes.append("self-test skipped: no step with an exit experiment")
        return
    c, o, n = pick
    o2 = copy.deepcopy(o)
    o2["steps"][n]["exit"][1]["acts"][-1][2] = "1"            # the last withdrawal of the second order fails
    kinds = {v["rec"]["kind"] for v in oracle(c, o2, K)}
    if "exit_failed" not in kinds:
        out.mismatches.append({"what": "self-test: the oracle did not flag a failed exit", "case": None})
    o3 = copy.deepcopy(o)
    a = o3["steps"][n]["exit"][0]["acts"][-1]
    a[3] = str(int(a[3]) + 1)                                  # one unit more withdrawn than the model pays
    bad, errs = _clr.eval_cases("C01_self", [(c, o), (c, o3)], K, per_file=2)
    if errs or bad != [1]:
        out.mismatches.append({"what": "self-test: rcase_ok did not reject exactly the perturbed expectation (got %s %s)" % (bad, errs[:1]), "case": None})
    else:
        out.notes.append("self-test passed: oracle flags a failed exit; rcase_ok rejects an exit amount off by one and accepts the original")


def run_cases(cases, model_ok, out, tag, K, selft=False):
    obs = _clr.run_clrdrv(cases)
    pairs = []
    for c, o in zip(cases, obs):
        out.evaluations += 1
        if o.get("fatal"):
            out.oracle_violations.append({"what": "driver: " + o["fatal"], "rec": {"kind": "driver_fatal"}, "case": c})
            continue
        for v in oracle(c, o, K):
            v["case"] = c
            out.oracle_violations.append(v)
        if nontrivial(o):
            out.nontrivial.add(json.dumps(c, sort_keys=True))
        pairs.append((c, o))
    if model_ok and pairs:
        bad, errs = _clr.eval_cases("C01_" + tag, pairs, K)
        for fi, txt in errs:
            out.mismatches.append({"what": "model evaluation failed: " + txt, "case": None})
        for i in bad:
            out.mismatches.append({"what": "CLR model observables (incl. every exit amount) differ from the implementation's", "case": pairs[i][0]})
        if selft:
            selftest(pairs, K, out)
    elif not model_ok:
        out.model_ran = False
    return pairs


def correspond(tier, seed, model_ok):
    out = Outcome()
    K = _cl.consts()
    r = Rng(seed)
    n, nops = (44, 22) if tier == "quick" else (500, 50)
    cases = [gen_case(r.fork(i), nops if not r.chance(1, 10) else nops // 3, K) for i in range(n)]
    corpus = common.load_corpus(PROP)
    pairs = run_cases(corpus + cases, model_ok, out, "q", K, selft=True)
    out.rule = ("case = one pool (authorised tick spacing / spread factor, both sides of the accumulator scaling migration) + a history from the property's grammar "
                "(create / add / partial and full withdraw / transfer / swaps of both kinds and directions incl. crossings / collect spread rewards / collect incentives / "
                "create incentive / time advance) by 3 accounts, 70% general histories, 30% adversarial (dust amounts, one-spacing-wide ranges, there-and-back swaps); after EVERY "
                "operation, on discarded branches of state, every open position is fully withdrawn and all its rewards collected in two different orders; every exit amount, "
                "the three account balances afterwards and the whole state are compared with the model; non-trivial = >= 2 successful LP operations, >= 1 successful swap and "
                ">= 2 exit experiments with at least two actions; distinct = distinct case JSON")
    out.samples = [{"spacing": c["spacing"], "spread": c["spread"], "ops": c["ops"][:4]} for c in cases[:3]]
    hist, errs = {}, {}
    nexit = nacts = 0
    maxdust = [0, 0, 0]
    for c, o in pairs:
        for s in o["steps"]:
            k = s["rop"]["k"] + (":ok" if s["err"] == 0 else ":rejected" if s["err"] == 1 else ":panic")
            hist[k] = hist.get(k, 0) + 1
            if s["err"]:
                errs[s["etyp"][:48]] = errs.get(s["etyp"][:48], 0) + 1
            for e in s.get("exit") or []:
                nexit += 1
                nacts += len(e["acts"])
                for acc in range(3):
                    maxdust[acc] = max(maxdust[acc], int(e["bal"][acc][0]), int(e["bal"][acc][1]))
    out.distribution = {"ops": hist, "error_kinds": errs, "exit_experiments": nexit, "exit_actions": nacts,
                        "largest_leftover_units": {"pool": str(maxdust[0]), "spread": str(maxdust[1]), "incentive_incl_undistributed": str(maxdust[2])},
                        "corpus_cases": len(corpus)}
    out.traces = sum(len(o["steps"]) for _, o in pairs)
    return out


def search(tier, seed, out):
    o2 = Outcome()
    K = _cl.consts()
    r = Rng(seed + 32452843)
    cases = [gen_case(r.fork(i), 40, K) for i in range(600)]
    for m in out.mismatches[:20]:
        if m.get("case"):
            cases.append(m["case"])
    run_cases(cases, False, o2, "s", K)
    found = [v for v in o2.oracle_violations if not common.match_finding(common.load_findings(PROP), v.get("rec", {}))]
    return found[0] if found else None


def replay(path):
    d = json.load(open(path))
    c = d["case"].get("case") if isinstance(d.get("case"), dict) else None
    if not c:
        print("replay names a proof obligation / correspondence, not an input:", d.get("what"))
        return 1
    out = Outcome()
    run_cases([c], True, out, "r", _cl.consts())
    for v in out.oracle_violations:
        print("oracle:", v["what"])
    for m in out.mismatches:
        print("mismatch:", m["what"])
    return 1 if (out.oracle_violations or out.mismatches) else 0


SCOPE = "see coq/theories/C01/STATUS.md"
EXPLANATION = ("Solvency invariants over the Gallina models CL/*.v (pool, ticks, positions, swaps) and CLR/*.v (reward accounts); the models are tied to /repo by running the real "
               "MsgServers / keeper (full app, baseapp atomicity) on generated histories and comparing the whole state after every operation AND every amount of the "
               "'everybody exits' experiment (two orders, on discarded branches); the oracle is the property itself: all exits succeed, leftovers are non-negative.")
TRUSTED = c08.TRUSTED
ASSUMPTIONS = c08.ASSUMPTIONS
TECHNIQUE = "Coq invariant proofs over operation histories on Gallina models of the concentrated-liquidity keeper and its reward bookkeeping; differential correspondence (vm_compute) of every operation and of the everybody-exits experiment + the property as oracle"
LEVEL_TEXT = ("Machine-checked solvency statements (Coq 8.16.1, axiom-free) about the models; the models are hand-written and checked against the real keeper after every "
              "operation of generated histories on every run, including every amount paid when all positions exit in two different orders; the oracle demands that every "
              "exit succeeds and that the leftovers of the three pool accounts are non-negative.")
LEVEL_NOTE = ("Trusted: Coq kernel (vm_compute, no native_compute), no axioms; hand-written models CL/*.v and CLR/*.v; translators for the literals; Go driver harness/clrdrv "
              "and python glue; SDK bank/store semantics. See coq/theories/C01/STATUS.md for which theorems are full and which are _partial.")
