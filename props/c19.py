"""C19 - state is a deterministic function of history and survives export/import.

Dynamic part: every generated workload (signed transactions of many modules, epoch boundaries, begin/end
blockers, commits) is executed by harness/c19drv in TWO FRESH PROCESSES; the oracle is the property itself:
equal app hash / store hashes / block events / transaction results and events after every block, and at the
export points equal per-module genesis after export -> InitChain -> export plus equal results of the remaining
history.  Static part: see translate() (map-iteration sites) and coq/theories/C19/*.v.
"""
import json
import os
import re
import subprocess
import threading

from lib import common
from lib.common import Rng, Outcome

PROP = "C19"
GO_PKGS = [("c19drv", True)]
MODEL_VO = ["theories/C19/Corr.vo", "theories/C19/Classify.vo"]
ALLOWED_AXIOMS = []

DENOMS = ["stake", "uosmo", "uion", "foo", "bar", "baz", "usdc", "eth"]
GAS = 6000000
DAY = 86400
LOCK_DURS = [1, 3600, 10800, 25200]


# ---------------------------------------------------------------------------------------------
# translator: inventory of the map-iteration sites of /repo -> Gen/C19_sites.v
# ---------------------------------------------------------------------------------------------
SCAN_ROOTS = ["x", "app", "osmoutils"]
SCAN_PATTERNS = ["./x/...", "./app/...", "github.com/osmosis-labs/osmosis/x/epochs/...",
                 "github.com/osmosis-labs/osmosis/x/ibc-hooks/...", "github.com/osmosis-labs/osmosis/osmoutils/..."]


def _source_fingerprint():
    import hashlib
    h = hashlib.sha256()
    for root in SCAN_ROOTS:
        for dp, dn, fs in os.walk(os.path.join(common.REPO, root)):
            dn.sort()
            for f in sorted(fs):
                if f.endswith(".go") and not f.endswith("_test.go"):
                    st = os.stat(os.path.join(dp, f))
                    h.update(("%s|%d|%d\n" % (os.path.join(dp, f), st.st_mtime_ns, st.st_size)).encode())
    for f in ("main.go",):
        h.update(open(os.path.join(common.HARNESS, "c19scan", f), "rb").read())
    return h.hexdigest()


def scan_sites():
    """-> (sites, error text). Cached on the (path, mtime, size) fingerprint of /repo's non-test Go files."""
    cache = os.path.join(common.BUILD, "c19scan.cache.json")
    fp = _source_fingerprint()
    if os.path.exists(cache):
        try:
            c = json.load(open(cache))
            if c.get("fp") == fp and "caches" in c:
                return c["sites"], c.get("err", ""), c["caches"]
        except Exception:  # noqa
            pass
    sites, err, caches = [], "", []
    try:
        common.ensure_gowork()
        os.makedirs(os.path.join(common.BUILD, "bin"), exist_ok=True)
        binary = os.path.join(common.BUILD, "bin", "c19scan")
        with common.Lock("go"):
            rc, o = common.sh("go build -o %s ./c19scan" % binary, cwd=common.HARNESS, env=common.go_env(), timeout=600)
        if rc != 0:
            raise RuntimeError("go build c19scan: " + o[-1500:])
        # own overlay file (lib.common.go_build rewrites the shared one for whichever /repo it is building against)
        statik = os.path.join(common.REPO, "client/docs/statik/statik.go")
        flags = "-tags=verif"
        if os.path.exists(statik) and os.path.getsize(statik) == 0:
            overlay = os.path.join(common.BUILD, "c19scan.overlay.json")
            open(overlay, "w").write(json.dumps({"Replace": {statik: os.path.join(common.HARNESS, "overlay", "statik.go")}}))
            flags += " -overlay=" + overlay
        env = dict(os.environ)
        env.update(common.go_env())
        env["GOFLAGS"] = flags
        for attempt in (0, 1):
            with common.Lock("go"):
                p = subprocess.run([binary, common.REPO] + SCAN_PATTERNS, stdout=subprocess.PIPE, stderr=subprocess.PIPE, text=True, env=env, timeout=1500)
            if p.returncode != 0:
                raise RuntimeError("c19scan failed: " + p.stderr[-1500:])
            res = json.loads(p.stdout)
            sites = res["sites"]
            caches = [{k: c[k] for k in ("file", "owner", "type", "hash", "writes")} for c in res.get("caches", [])]
            # packages that do not type-check (export data of a dependency missing while the build cache is being filled
            # by a concurrent build, or a /repo that does not compile): try once more, then give up loudly
            if not res.get("type_errors"):
                break
            if attempt == 1:
                raise RuntimeError("packages do not type-check: %s; %s" % (", ".join(res["type_errors"][:8]), p.stderr[-600:]))
        if len(sites) < 10:
            raise RuntimeError("c19scan found only %d map-iteration sites" % len(sites))
    except Exception as ex:  # noqa
        err = "%s" % (ex,)
    if not err:  # never cache a failed scan: the failure may be transient (build cache being filled, disk full)
        try:
            json.dump({"fp": fp, "sites": sites, "err": err, "caches": caches}, open(cache, "w"))
        except Exception:  # noqa
            pass
    return sites, err, caches


SCANNER_EXPECT = {"copyMap": "pure", "namedMap": "pure", "sortedKeys": "collect_sorted", "sortedLater": "escaping", "sum": "escaping",
                  "unsortedKeys": "escaping", "writes": "escaping", "first": "escaping"}


def scanner_selftest():
    """the scanner on a synthetic package with one loop of every shape (harness/c19scan/testdata/scantest) -> error text or ''"""
    try:
        binary = os.path.join(common.BUILD, "bin", "c19scan")
        if not os.path.exists(binary):
            return ""
        d = os.path.join(common.HARNESS, "c19scan", "testdata", "scantest")
        env = dict(os.environ)
        env.update({"GOWORK": "off", "GOFLAGS": "", "GOPROXY": "off", "GOSUMDB": "off", "GOTOOLCHAIN": "local"})
        p = subprocess.run([binary, d, "./..."], stdout=subprocess.PIPE, stderr=subprocess.PIPE, text=True, env=env, timeout=300, cwd=d)
        if p.returncode != 0:
            return "scanner self-test failed to run: " + p.stderr[-400:]
        got = {x["func"]: x["class"] for x in json.loads(p.stdout)["sites"]}
        if got != SCANNER_EXPECT:
            return "scanner self-test: classified %r, expected %r" % (got, SCANNER_EXPECT)
    except Exception as ex:  # noqa
        return "scanner self-test: %r" % (ex,)
    return ""


def coq_str(t):
    return '"' + t.replace('"', '""') + '"'


def _func_body(src, name):
    m = re.search(r"^func \(k Keeper\) %s\(.*?\) .*?\{\n(.*?)^\}\n" % name, src, flags=re.S | re.M)
    return m.group(1) if m else None


def lockup_shape():
    """which duration expression keys the read, the write and the initial literal of the duration -> amount map that
    InitializeAllLocks / InitializeAllSyntheticLocks accumulate before writing the accumulation store (identifier-agnostic:
    the locals are resolved to 'the range variable' / 'the lock fetched by GetLockByID'). Anything unexpected -> KUnknown,
    which breaks the shape lemma of C19/LockupGenesis.v (never raises: every property's check runs every translator)."""
    vals = {}
    try:
        src = open(os.path.join(common.REPO, "x/lockup/keeper/lock.go")).read()
        for fn, prefix in (("InitializeAllLocks", "locks"), ("InitializeAllSyntheticLocks", "synth")):
            body = _func_body(src, fn) or ""
            rng = re.search(r"for \w+, (\w+) := range (\w+) \{", body)
            rangevar = rng.group(1) if rng else None
            fetched = re.search(r"(\w+), err := k\.GetLockByID\(ctx, %s\.UnderlyingLockId\)" % re.escape(rangevar or "?"), body)
            lockvar = fetched.group(1) if fetched else None

            def classify(ident):
                if fn == "InitializeAllLocks":
                    return "KUnder" if ident == rangevar else "KUnknown"
                if ident == rangevar:
                    return "KSynth"
                if ident == lockvar:
                    return "KUnder"
                return "KUnknown"
            reads = re.findall(r"if \w+, ok := (\w+)\[(\w+)\.Duration\]; ok \{", body)
            writes = re.findall(r"^\s*(\w+)\[(\w+)\.Duration\] = (\w+)\s*$", body, flags=re.M)
            inits = re.findall(r"= map\[time\.Duration\]osmomath\.Int\{(\w+)\.Duration: (\w+)\.Amount\}", body)
            denomkey = re.findall(r"if \w+, ok := accumulationStoreEntries\[(\w+)\.(\w+)\]; ok \{", body)
            incr = re.findall(r"\.Increase\(accumulationKey\((\w+)\), (\w+)\)", body) if fn == "InitializeAllSyntheticLocks" else [("d", "amt")]
            ok = len(reads) == 1 and len(writes) == 1 and len(inits) == 1 and len(denomkey) == 1 and len(incr) == 1
            vals[prefix + "_read_key"] = classify(reads[0][1]) if ok else "KUnknown"
            vals[prefix + "_write_key"] = classify(writes[0][1]) if ok else "KUnknown"
            vals[prefix + "_init_key"] = classify(inits[0][0]) if ok else "KUnknown"
            want_denom = ("coin", "Denom") if fn == "InitializeAllLocks" else (rangevar, "SynthDenom")
            vals[prefix + "_denom_ok"] = "true" if ok and denomkey[0] == want_denom else "false"
            # the accumulated sum is the current amount plus the amount found under the read key
            adds = re.search(r"newAmt := coin\.Amount\s*\n\s*if curAmt, ok := \w+\[\w+\.Duration\]; ok \{\s*\n\s*newAmt = newAmt\.Add\(curAmt\)", body)
            vals[prefix + "_adds_found"] = "true" if adds else "false"
    except Exception:  # noqa
        pass
    names = ["locks_read_key", "locks_write_key", "locks_init_key", "synth_read_key", "synth_write_key", "synth_init_key"]
    flags = ["locks_denom_ok", "locks_adds_found", "synth_denom_ok", "synth_adds_found"]
    txt = ("(* GENERATED by props/c19.py translate() from /repo/x/lockup/keeper/lock.go - do not edit. The duration expression that keys\n"
           "   the read / the write / the initial literal of the per-denom duration -> amount map in InitializeAllLocks and\n"
           "   InitializeAllSyntheticLocks: KUnder = Duration of the (underlying) period lock, KSynth = Duration of the synthetic lock. *)\n"
           "From Osmo Require Import C19.LockupShapeTypes.\n\n")
    for n in names:
        txt += "Definition %s : kexpr := %s.\n" % (n, vals.get(n, "KUnknown"))
    for n in flags:
        txt += "Definition %s : bool := %s.\n" % (n, vals.get(n, "false"))
    return txt


def translate():
    """never raises (every property's check runs every translator): a failed scan yields scan_ok = false, which only
    breaks C19's own classification lemma"""
    sites, err, caches = scan_sites()
    cls = {"pure": "Pure", "collect_sorted": "CollectSorted", "escaping": "Escaping"}
    rows = ["  mkSite %s %s %s %s" % (coq_str(x["file"]), coq_str(x["func"]), coq_str(x["hash"]), cls[x["class"]]) for x in sites]
    txt = ("(* GENERATED by props/c19.py translate() from /repo's sources (harness/c19scan: go/types over the export data of\n"
           "   `go list -export`) - do not edit. One row per `range` over a map-typed expression in non-test, non-generated code\n"
           "   under /repo/x, /repo/app and /repo/osmoutils (simulation, client/cli, testutil, mocks excluded). *)\n"
           "From Coq Require Import String List.\nImport ListNotations.\nFrom Osmo Require Import C19.SiteTypes.\nOpen Scope string_scope.\n\n"
           "Definition scan_ok : bool := %s.\n\n"
           "Definition sites : list site := [\n%s\n].\n" % ("false" if err else "true", ";\n".join(rows)))
    crow = ["  mkCSite %s %s %s" % (coq_str(c["file"]), coq_str(c["owner"]), coq_str(c["hash"])) for c in caches]
    ctxt = ("(* GENERATED by props/c19.py translate() from /repo's sources (harness/c19scan) - do not edit. In-memory state that outlives a\n"
            "   transaction: struct fields of map / sync.Map type and package-level variables that are written inside function bodies\n"
            "   (file of the declaration, Type.field or variable, hash of the normalised list of writing statements). *)\n"
            "From Coq Require Import String List.\nImport ListNotations.\nFrom Osmo Require Import C19.SiteTypes.\nOpen Scope string_scope.\n\n"
            "Definition caches : list csite := [\n%s\n].\n" % ";\n".join(crow))
    return {"Gen/C19_sites.v": txt, "Gen/C19_caches.v": ctxt, "Gen/C19_lockup_shape.v": lockup_shape()}


# ---------------------------------------------------------------------------------------------
# workload generator (all randomness from Rng)
# ---------------------------------------------------------------------------------------------
def coin(d, a):
    return {"denom": d, "amount": str(a)}


def gen_setup(r):
    def amt(lo=10**9, hi=10**11):
        return str(r.range(lo, hi))
    pools = [
        {"kind": "balancer", "denoms": ["stake", "foo"], "amts": [amt(), amt()], "weights": [1, 1], "spread": r.choice(["0.003", "0.001", "0"]), "exit": "0"},
        {"kind": "balancer", "denoms": ["stake", "bar", "baz"], "amts": [amt(), amt(), amt()], "weights": [r.range(1, 5), r.range(1, 5), r.range(1, 5)], "spread": "0.002", "exit": "0"},
        {"kind": "stable", "denoms": ["bar", "baz"], "amts": [amt(), amt()], "spread": "0.001", "exit": "0"},
        {"kind": "cl", "denoms": ["eth", "usdc"], "amts": [amt(10**8, 10**9), amt(10**9, 10**10)], "spread": r.choice(["0.001", "0.003", "0"]), "tick": r.choice([1, 10, 100])},
        {"kind": "cl", "denoms": ["stake", "usdc"], "amts": [amt(), amt()], "spread": "0.0005", "tick": 100},
        {"kind": "balancer", "denoms": ["stake", "uion"], "amts": [amt(), amt()], "weights": [1, 1], "spread": "0.003", "exit": "0"},
        {"kind": "balancer", "denoms": ["foo", "bar"], "amts": [amt(), amt()], "weights": [1, 2], "spread": "0.001", "exit": "0"},
        {"kind": "balancer", "denoms": ["uosmo", "foo"], "amts": [amt(), amt()], "weights": [1, 1], "spread": "0.002", "exit": "0"},
        {"kind": "balancer", "denoms": ["uosmo", "bar"], "amts": [amt(), amt()], "weights": [1, 1], "spread": "0.002", "exit": "0"},
        {"kind": "balancer", "denoms": ["uosmo", "stake"], "amts": [amt(), amt()], "weights": [1, 1], "spread": "0.002", "exit": "0"},
        {"kind": "cl", "denoms": ["uosmo", "usdc"], "amts": [amt(), amt()], "spread": "0.002", "tick": 100},
    ]
    return {"denoms": DENOMS, "fund": str(10**15), "pools": pools,
            "fee_tokens": [["foo", "1"], ["uion", "6"]], "min_distr": "1",
            "protorev": [["uosmo", "foo", "8"], ["uosmo", "bar", "9"], ["uosmo", "stake", "10"], ["uosmo", "usdc", "11"]],
            "superfluid": ["gamm/pool/1", "gamm/pool/6", "cl/pool/5"],
            "taker_fee": r.choice(["0.001", "0.0015", "0.01"]), "taker_share": [["foo", "0.1", "1"], ["usdc", "0.05", "2"]], "extra_vals": 2}


POOLS = {1: ["stake", "foo"], 2: ["stake", "bar", "baz"], 3: ["bar", "baz"], 4: ["eth", "usdc"], 5: ["stake", "usdc"],
         6: ["stake", "uion"], 7: ["foo", "bar"], 8: ["uosmo", "foo"], 9: ["uosmo", "bar"], 10: ["uosmo", "stake"], 11: ["uosmo", "usdc"]}
GAMM_POOLS = [1, 2, 3, 6, 7, 8, 9, 10]
CL_POOLS = [4, 5, 11]
REWARD_DENOMS = ["uosmo", "foo", "bar", "stake", "usdc"]


def route_for(r, hops):
    """a route through distinct pools; returns (token_in_denom, [(pool, out_denom)])"""
    p = r.choice(list(POOLS))
    d_in = r.choice(POOLS[p])
    cur = d_in
    out = []
    used = set()
    for _ in range(hops):
        cands = [q for q in POOLS if cur in POOLS[q] and q not in used]
        if not cands:
            break
        q = r.choice(cands)
        used.add(q)
        nxt = r.choice([d for d in POOLS[q] if d != cur])
        out.append((q, nxt))
        cur = nxt
    return d_in, out


def gen_msg(r, acc, nacc, state):
    """one message (proto-JSON with placeholders) of a random kind for account `acc`"""
    A = "$ACC(%d)" % acc
    other = "$ACC(%d)" % ((acc + 1 + r.below(nacc - 1)) % nacc)
    st = state.setdefault(acc, {"tf": [], "locks": 0, "shares": [], "pos": 0, "deleg": False, "minted": []})
    k = r.choice(["send", "send", "lock", "lock", "unlock", "unlock_all", "extend", "swap_in", "swap_in", "swap_in", "swap_out",
                  "split_in", "join", "exit", "join_extern", "cl_create", "cl_create", "cl_withdraw", "cl_add", "cl_collect",
                  "cl_collect_inc", "gauge", "gauge", "add_gauge", "tf_create", "tf_mint", "tf_mint", "tf_burn", "tf_force", "tf_force_mod",
                  "tf_admin", "delegate", "withdraw_rewards", "multisend", "gamm_swap", "malformed",
                  "sf_lock_delegate", "sf_lock_delegate", "sf_undelegate", "sf_unbond", "sf_cl_delegate", "sf_undelegate_unbond",
                  "create_bal", "create_cl", "vs_set", "vs_delegate", "vs_undelegate", "vs_withdraw"])
    # steer towards messages that can succeed in the state the history has built so far (a tenth stays unsteered)
    if not r.chance(1, 10):
        if k in ("unlock", "unlock_all", "extend") and not st["locks"]:
            k = "lock"
        if k == "exit" and not st["shares"]:
            k = "join"
        if k in ("cl_withdraw", "cl_add", "cl_collect", "cl_collect_inc") and not st["pos"]:
            k = "cl_create"
        if k in ("tf_mint", "tf_burn", "tf_force", "tf_force_mod", "tf_admin") and not st["tf"]:
            k = "tf_create"
        if k in ("tf_burn", "tf_force", "tf_force_mod") and not st["minted"]:
            k = "tf_mint"
        if k == "withdraw_rewards" and not st["deleg"]:
            k = "delegate"
        if k in ("vs_delegate", "vs_undelegate", "vs_withdraw") and not st.get("vs"):
            k = "vs_set"
        if k in ("vs_undelegate", "vs_withdraw") and not st.get("vsd"):
            k = "vs_delegate"
        if k in ("sf_undelegate", "sf_unbond", "sf_undelegate_unbond") and not st.get("sf"):
            k = "sf_lock_delegate"
        if k == "sf_lock_delegate" and acc != 0 and not [q for q in st["shares"] if q in (1, 6)]:
            k = "join"
    pend = state.setdefault("pending", [])
    small = r.choice([1, 7, 1000, 10**5, 10**6, r.range(1, 10**7)])
    if k == "send":
        return k, {"@type": "/cosmos.bank.v1beta1.MsgSend", "from_address": A, "to_address": other,
                   "amount": [coin(r.choice(DENOMS), small)]}
    if k == "multisend":
        a1, a2 = r.range(1, 10**5), r.range(1, 10**5)
        d = r.choice(DENOMS)
        return k, {"@type": "/cosmos.bank.v1beta1.MsgMultiSend", "inputs": [{"address": A, "coins": [coin(d, a1 + a2)]}],
                   "outputs": [{"address": other, "coins": [coin(d, a1)]}, {"address": "$ACC(%d)" % r.below(nacc), "coins": [coin(d, a2)]}]}
    if k == "lock":
        own = ["gamm/pool/%d" % q for q in st["shares"]] + ["foo", "uion"]
        if acc == 0:
            own += ["gamm/pool/%d" % q for q in GAMM_POOLS]
        d = r.choice(own)
        pend.append((acc, "locks", 1))
        return k, {"@type": "/osmosis.lockup.MsgLockTokens", "owner": A, "duration": "%ds" % r.choice(LOCK_DURS + [DAY, 14 * DAY]),
                   "coins": [coin(d, r.choice([10**6, 10**9, r.range(1, 10**10)]))]}
    if k == "unlock":
        m = {"@type": "/osmosis.lockup.MsgBeginUnlocking", "owner": A, "ID": "$LOCKOF(%d,%d)" % (acc, r.below(8)), "coins": []}
        return k, m
    if k == "unlock_all":
        return k, {"@type": "/osmosis.lockup.MsgBeginUnlockingAll", "owner": A}
    if k == "extend":
        return k, {"@type": "/osmosis.lockup.MsgExtendLockup", "owner": A, "ID": "$LOCKOF(%d,%d)" % (acc, r.below(8)),
                   "duration": "%ds" % r.choice([3600, 25200, 14 * DAY])}
    if k in ("swap_in", "gamm_swap"):
        d_in, rt = route_for(r, r.range(1, 3))
        t = "/osmosis.poolmanager.v1beta1.MsgSwapExactAmountIn" if k == "swap_in" else "/osmosis.gamm.v1beta1.MsgSwapExactAmountIn"
        return k, {"@type": t, "sender": A, "routes": [{"pool_id": str(p), "token_out_denom": d} for p, d in rt],
                   "token_in": coin(d_in, r.choice([10**4, 10**6, 10**8, r.range(1, 10**9)])), "token_out_min_amount": "1"}
    if k == "swap_out":
        d_in, rt = route_for(r, r.range(1, 2))
        # exact-out routes name the token-in denom of every hop; the final out denom is the last hop's output
        hops = []
        cur = d_in
        for p, d in rt:
            hops.append({"pool_id": str(p), "token_in_denom": cur})
            cur = d
        return k, {"@type": "/osmosis.poolmanager.v1beta1.MsgSwapExactAmountOut", "sender": A, "routes": hops,
                   "token_in_max_amount": str(10**12), "token_out": coin(cur, r.choice([10**3, 10**5, r.range(1, 10**7)]))}
    if k == "split_in":
        d_in, rt1 = route_for(r, 1)
        p1, d_out = rt1[0]
        others = [q for q in POOLS if q != p1 and d_in in POOLS[q] and d_out in POOLS[q]]
        routes = [{"pools": [{"pool_id": str(p1), "token_out_denom": d_out}], "token_in_amount": str(r.range(1, 10**7))}]
        if others:
            routes.append({"pools": [{"pool_id": str(others[0]), "token_out_denom": d_out}], "token_in_amount": str(r.range(1, 10**7))})
        return k, {"@type": "/osmosis.poolmanager.v1beta1.MsgSplitRouteSwapExactAmountIn", "sender": A, "routes": routes,
                   "token_in_denom": d_in, "token_out_min_amount": "1"}
    if k == "join":
        p = r.choice(GAMM_POOLS)
        pend.append((acc, "shares", p))
        return k, {"@type": "/osmosis.gamm.v1beta1.MsgJoinPool", "sender": A, "pool_id": str(p),
                   "share_out_amount": str(r.choice([10**15, 10**17, 10**18])), "token_in_maxs": []}
    if k == "exit":
        p = r.choice(st["shares"] or GAMM_POOLS)
        return k, {"@type": "/osmosis.gamm.v1beta1.MsgExitPool", "sender": A, "pool_id": str(p),
                   "share_in_amount": str(r.choice([10**14, 10**16, 10**17])), "token_out_mins": []}
    if k == "join_extern":
        p = r.choice([1, 2, 6, 7, 8, 9, 10])
        pend.append((acc, "shares", p))
        return k, {"@type": "/osmosis.gamm.v1beta1.MsgJoinSwapExternAmountIn", "sender": A, "pool_id": str(p),
                   "token_in": coin(r.choice(POOLS[p]), r.range(1, 10**8)), "share_out_min_amount": "1"}
    if k == "cl_create":
        p = r.choice(CL_POOLS)
        lo = r.range(-300, 200) * 100
        hi = lo + r.range(1, 400) * 100
        d0, d1 = POOLS[p]
        toks = sorted([coin(d0, r.range(10**3, 10**9)), coin(d1, r.range(10**3, 10**9))], key=lambda c: c["denom"])
        if r.chance(1, 6):
            toks = toks[:1]
        pend.append((acc, "pos", 1))
        return k, {"@type": "/osmosis.concentratedliquidity.v1beta1.MsgCreatePosition", "pool_id": str(p), "sender": A,
                   "lower_tick": str(lo), "upper_tick": str(hi), "tokens_provided": toks, "token_min_amount0": "0", "token_min_amount1": "0"}
    if k == "cl_withdraw":
        return k, {"@type": "/osmosis.concentratedliquidity.v1beta1.MsgWithdrawPosition", "position_id": "$POSOF(%d,%d)" % (acc, r.below(6)),
                   "sender": A, "liquidity_amount": r.choice(["1000.000000000000000000", "1.000000000000000000", "%d.500000000000000000" % r.range(1, 10**7)])}
    if k == "cl_add":
        return k, {"@type": "/osmosis.concentratedliquidity.v1beta1.MsgAddToPosition", "position_id": "$POSOF(%d,%d)" % (acc, r.below(6)),
                   "sender": A, "amount0": str(r.range(1000, 10**7)), "amount1": str(r.range(1000, 10**7)), "token_min_amount0": "0", "token_min_amount1": "0"}
    if k == "cl_collect":
        return k, {"@type": "/osmosis.concentratedliquidity.v1beta1.MsgCollectSpreadRewards", "sender": A,
                   "position_ids": ["$POSOF(%d,%d)" % (acc, r.below(6))]}
    if k == "cl_collect_inc":
        return k, {"@type": "/osmosis.concentratedliquidity.v1beta1.MsgCollectIncentives", "sender": A,
                   "position_ids": ["$POSOF(%d,%d)" % (acc, r.below(6))]}
    if k == "gauge":
        perpetual = r.chance(1, 3)
        d = r.choice(["gamm/pool/%d" % r.choice(GAMM_POOLS), "gamm/pool/1", "gamm/pool/8", "foo", "uion"])
        coins = sorted([coin(x, r.range(10**4, 10**9)) for x in set([r.choice(REWARD_DENOMS) for _ in range(r.range(1, 3))])], key=lambda c: c["denom"])
        return k, {"@type": "/osmosis.incentives.MsgCreateGauge", "is_perpetual": perpetual, "owner": A,
                   "distribute_to": {"lock_query_type": "ByDuration", "denom": d, "duration": "%ds" % r.choice(LOCK_DURS), "timestamp": "1970-01-01T00:00:00Z"},
                   "coins": coins, "start_time": "2024-01-01T00:00:00Z", "num_epochs_paid_over": "1" if perpetual else str(r.range(1, 5)), "pool_id": "0"}
    if k == "add_gauge":
        return k, {"@type": "/osmosis.incentives.MsgAddToGauge", "owner": A, "gauge_id": "$GAUGE(%d)" % r.below(50),
                   "rewards": [coin(r.choice(REWARD_DENOMS), r.range(10**4, 10**8))]}
    sub = "t%d" % r.below(3)
    if k != "tf_create" and st["tf"] and not r.chance(1, 10):
        sub = r.choice(st["tf"])
    tfd = "factory/%s/%s" % (A, sub)
    if k == "tf_create":
        pend.append((acc, "tf", sub))
        return k, {"@type": "/osmosis.tokenfactory.v1beta1.MsgCreateDenom", "sender": A, "subdenom": sub}
    if k == "tf_mint":
        pend.append((acc, "minted", sub))
        return k, {"@type": "/osmosis.tokenfactory.v1beta1.MsgMint", "sender": A, "amount": coin(tfd, r.range(10**5, 10**9)),
                   "mintToAddress": r.choice(["", A, A, other])}
    if k == "tf_burn":
        return k, {"@type": "/osmosis.tokenfactory.v1beta1.MsgBurn", "sender": A, "amount": coin(tfd, r.range(1, 10**5)),
                   "burnFromAddress": r.choice(["", A, A, other])}
    if k == "tf_force":
        return k, {"@type": "/osmosis.tokenfactory.v1beta1.MsgForceTransfer", "sender": A, "amount": coin(tfd, r.range(1, 10**4)),
                   "transferFromAddress": r.choice([A, A, other]), "transferToAddress": "$ACC(%d)" % r.below(nacc)}
    if k == "tf_force_mod":
        mod = "$MOD(%s)" % r.choice(["gamm", "lockup", "incentives", "mint", "distribution", "bonded_tokens_pool", "txfees", "protorev", "superfluid", "poolincentives"])
        fr, to = (mod, A) if r.chance(1, 2) else (A, mod)
        return k, {"@type": "/osmosis.tokenfactory.v1beta1.MsgForceTransfer", "sender": A, "amount": coin(tfd, r.range(1, 10**4)),
                   "transferFromAddress": fr, "transferToAddress": to}
    if k == "tf_admin":
        return k, {"@type": "/osmosis.tokenfactory.v1beta1.MsgChangeAdmin", "sender": A, "denom": tfd, "new_admin": other}
    if k == "delegate":
        pend.append((acc, "deleg", True))
        return k, {"@type": "/cosmos.staking.v1beta1.MsgDelegate", "delegator_address": A, "validator_address": "$VAL(%d)" % r.below(3),
                   "amount": coin("stake", r.range(10**6, 10**9))}
    if k == "create_bal":
        ds = []
        while len(ds) < 2:
            d = r.choice(["stake", "uosmo", "foo", "bar", "baz", "uion", "usdc"])
            if d not in ds:
                ds.append(d)
        assets = sorted([{"token": coin(d, r.range(10**6, 10**9)), "weight": str(r.range(1, 9))} for d in ds], key=lambda x: x["token"]["denom"])
        return k, {"@type": "/osmosis.gamm.poolmodels.balancer.v1beta1.MsgCreateBalancerPool", "sender": A,
                   "pool_params": {"swap_fee": r.choice(["0.003", "0.01", "0"]), "exit_fee": "0"}, "pool_assets": assets, "future_pool_governor": ""}
    if k == "create_cl":
        return k, {"@type": "/osmosis.concentratedliquidity.poolmodel.concentrated.v1beta1.MsgCreateConcentratedPool", "sender": A,
                   "denom0": r.choice(["foo", "bar", "baz", "uion"]), "denom1": r.choice(["usdc", "stake", "uosmo"]),
                   "tick_spacing": str(r.choice([1, 10, 100])), "spread_factor": r.choice(["0.001", "0.003", "0"])}
    if k == "vs_set":
        pend.append((acc, "vs", 1))
        ws = r.choice([["1"], ["0.5", "0.5"], ["0.5", "0.3", "0.2"], ["0.333333", "0.333333", "0.333334"]])
        return k, {"@type": "/osmosis.valsetpref.v1beta1.MsgSetValidatorSetPreference", "delegator": A,
                   "preferences": [{"val_oper_address": "$VAL(%d)" % i, "weight": wt} for i, wt in enumerate(ws)]}
    if k == "vs_delegate":
        pend.append((acc, "vsd", 1))
        return k, {"@type": "/osmosis.valsetpref.v1beta1.MsgDelegateToValidatorSet", "delegator": A, "coin": coin("stake", r.range(10**6, 10**9))}
    if k == "vs_undelegate":
        return k, {"@type": "/osmosis.valsetpref.v1beta1.MsgUndelegateFromValidatorSet", "delegator": A, "coin": coin("stake", r.range(10**3, 10**6))}
    if k == "vs_withdraw":
        return k, {"@type": "/osmosis.valsetpref.v1beta1.MsgWithdrawDelegationRewards", "delegator": A}
    if k == "sf_lock_delegate":
        pend.append((acc, "locks", 1))
        pend.append((acc, "sf", 1))
        q = r.choice([x for x in st["shares"] if x in (1, 6)] or [1, 6])
        return k, {"@type": "/osmosis.superfluid.MsgLockAndSuperfluidDelegate", "sender": A,
                   "coins": [coin("gamm/pool/%d" % q, r.choice([10**15, 10**16, r.range(10**12, 10**17)]))], "val_addr": "$VAL(0)"}
    if k == "sf_cl_delegate":
        pend.append((acc, "locks", 1))
        pend.append((acc, "sf", 1))
        pend.append((acc, "pos", 1))
        return k, {"@type": "/osmosis.superfluid.MsgCreateFullRangePositionAndSuperfluidDelegate", "sender": A,
                   "coins": [coin("stake", r.range(10**5, 10**8)), coin("usdc", r.range(10**5, 10**8))], "val_addr": "$VAL(0)", "pool_id": "5"}
    if k in ("sf_undelegate", "sf_unbond", "sf_undelegate_unbond"):
        t = {"sf_undelegate": "MsgSuperfluidUndelegate", "sf_unbond": "MsgSuperfluidUnbondLock", "sf_undelegate_unbond": "MsgSuperfluidUndelegateAndUnbondLock"}[k]
        m = {"@type": "/osmosis.superfluid." + t, "sender": A, "lock_id": "$LOCKOF(%d,%d)" % (acc, r.below(8))}
        if k == "sf_undelegate_unbond":
            m["coin"] = coin("gamm/pool/%d" % r.choice([1, 6]), r.range(10**10, 10**15))
        return k, m
    if k == "withdraw_rewards":
        return k, {"@type": "/cosmos.distribution.v1beta1.MsgWithdrawDelegatorReward", "delegator_address": A, "validator_address": "$VAL(0)"}
    # malformed stream: unknown pool / zero amounts / foreign lock
    return "malformed", r.choice([
        {"@type": "/osmosis.poolmanager.v1beta1.MsgSwapExactAmountIn", "sender": A, "routes": [{"pool_id": "999", "token_out_denom": "foo"}],
         "token_in": coin("stake", 5), "token_out_min_amount": "1"},
        {"@type": "/osmosis.lockup.MsgBeginUnlocking", "owner": A, "ID": "$LOCK(%d)" % r.below(40), "coins": []},
        {"@type": "/osmosis.gamm.v1beta1.MsgExitPool", "sender": A, "pool_id": "1", "share_in_amount": str(10**30), "token_out_mins": []},
        {"@type": "/cosmos.bank.v1beta1.MsgSend", "from_address": A, "to_address": other, "amount": [coin("nosuchdenom", 1)]},
    ])


UNBONDING = 1814400     # staking unbonding time of the test genesis (21 days), seconds


def inject_superfluid_scenario(r, blocks, nacc):
    """several owners lock the SAME superfluid LP denom and delegate to the SAME validator (one synthetic denom, several
    synthetic locks), with underlying locks longer than the unbonding time (lock for unbonding + 1 week, then
    MsgSuperfluidDelegate) and exactly the unbonding time (MsgLockAndSuperfluidDelegate): blocks 1-3, before every export point"""
    def tx(acc, msgs, kinds):
        return {"acc": acc, "msgs": msgs, "kinds": kinds, "gas": GAS, "fee_denom": "stake", "fee_amt": str(GAS * 3 // 100)}
    owners = [1, 2, 3][:max(2, min(3, nacc - 1))]
    pool = r.choice([1, 6])
    share = "gamm/pool/%d" % pool
    for b in (1, 2, 3):
        blocks[b]["txs"] = [t for t in blocks[b]["txs"] if t["acc"] not in owners]
        blocks[b]["dt"] = min(blocks[b]["dt"], 60)
    for i, acc in enumerate(owners):
        A = "$ACC(%d)" % acc
        blocks[1]["txs"].append(tx(acc, [{"@type": "/osmosis.gamm.v1beta1.MsgJoinPool", "sender": A, "pool_id": str(pool),
                                          "share_out_amount": str(10**18), "token_in_maxs": []}], ["join"]))
        amt = [100, 200, 400][i] * 10**12
        if i == len(owners) - 1 and r.chance(1, 2):
            blocks[2]["txs"].append(tx(acc, [{"@type": "/osmosis.superfluid.MsgLockAndSuperfluidDelegate", "sender": A,
                                              "coins": [coin(share, amt)], "val_addr": "$VAL(0)"}], ["sf_lock_delegate_exact_unbonding"]))
        else:
            blocks[2]["txs"].append(tx(acc, [{"@type": "/osmosis.lockup.MsgLockTokens", "owner": A, "duration": "%ds" % (UNBONDING + 7 * DAY),
                                              "coins": [coin(share, amt)]}], ["lock_longer_than_unbonding"]))
            blocks[3]["txs"].append(tx(acc, [{"@type": "/osmosis.superfluid.MsgSuperfluidDelegate", "sender": A,
                                              "lock_id": "$LASTLOCKOF(%d)" % acc, "val_addr": "$VAL(0)"}], ["sf_delegate_longer_lock"]))


def inject_cache_scenarios(r, blocks, nacc):
    """transactions that touch keeper-level in-memory caches and then FAIL, followed by transactions whose outcome would
    depend on a stale cache entry (a continuously running node keeps the entry, a restarted node does not):
      b   : [create balancer pool foo/usdc -> gets id N ; swap through poolmanager on pool N (caches N -> gamm) ; failing msg]
            => the whole tx is rolled back, pool N does not exist, the cache entry may survive
      b+1 : swap on pool N (must fail the same way, with the same gas, on both nodes) ; create a CONCENTRATED pool foo/usdc (gets id N)
      b+2 : position in pool N ; b+3 : swaps on pool N and on the still unused id N+1"""
    def tx(acc, msgs, kinds):
        return {"acc": acc, "msgs": msgs, "kinds": kinds, "gas": GAS, "fee_denom": "stake", "fee_amt": str(GAS * 3 // 100)}

    def strip_creates(block, keep_acc):
        block["txs"] = [t for t in block["txs"] if t["acc"] != keep_acc and not any(k in ("create_bal", "create_cl") for k in t["kinds"])]
    nsc = r.range(1, 2)
    starts = sorted(set(r.range(4, len(blocks) - 5) for _ in range(nsc)))
    for b0 in starts:
        acc = r.below(nacc)
        A = "$ACC(%d)" % acc
        for j in range(4):
            strip_creates(blocks[b0 + j], acc)
            blocks[b0 + j]["dt"] = min(blocks[b0 + j]["dt"], 60)
        create_bal = {"@type": "/osmosis.gamm.poolmodels.balancer.v1beta1.MsgCreateBalancerPool", "sender": A,
                      "pool_params": {"swap_fee": "0.003", "exit_fee": "0"},
                      "pool_assets": [{"token": coin("foo", r.range(10**7, 10**9)), "weight": "1"}, {"token": coin("usdc", r.range(10**7, 10**9)), "weight": "1"}],
                      "future_pool_governor": ""}

        def swap(pool_ph, amt, t="/osmosis.poolmanager.v1beta1.MsgSwapExactAmountIn"):
            return {"@type": t, "sender": A, "routes": [{"pool_id": pool_ph, "token_out_denom": "usdc"}],
                    "token_in": coin("foo", amt), "token_out_min_amount": "1"}
        fail = {"@type": "/cosmos.bank.v1beta1.MsgSend", "from_address": A, "to_address": "$ACC(%d)" % ((acc + 1) % nacc), "amount": [coin("nosuchdenom", 1)]}
        blocks[b0]["txs"].insert(r.below(len(blocks[b0]["txs"]) + 1),
                                 tx(acc, [create_bal, swap("$NEXTPOOL(0)", 10**5), swap("$NEXTPOOL(0)", 10**4, "/osmosis.gamm.v1beta1.MsgSwapExactAmountIn"), fail],
                                    ["create_bal", "swap_new_pool", "gamm_swap_new_pool", "failing_msg"]))
        create_cl = {"@type": "/osmosis.concentratedliquidity.poolmodel.concentrated.v1beta1.MsgCreateConcentratedPool", "sender": A,
                     "denom0": "foo", "denom1": "usdc", "tick_spacing": "100", "spread_factor": "0.001"}
        blocks[b0 + 1]["txs"].insert(0, tx(acc, [swap("$NEXTPOOL(0)", 10**4)], ["swap_unused_pool_id"]))
        acc2 = (acc + 1) % nacc
        strip_creates(blocks[b0 + 1], acc2)
        blocks[b0 + 1]["txs"].append(tx(acc2, [dict(create_cl, sender="$ACC(%d)" % acc2)], ["create_cl_reusing_id"]))
        pos = {"@type": "/osmosis.concentratedliquidity.v1beta1.MsgCreatePosition", "pool_id": "$LASTPOOL(0)", "sender": A,
               "lower_tick": "-100000", "upper_tick": "100000", "tokens_provided": [coin("foo", 10**8), coin("usdc", 10**8)],
               "token_min_amount0": "0", "token_min_amount1": "0"}
        blocks[b0 + 2]["txs"].insert(0, tx(acc, [pos], ["cl_create_reused_id"]))
        blocks[b0 + 3]["txs"].insert(0, tx(acc, [swap("$LASTPOOL(0)", 10**5), swap("$LASTPOOL(0)", 10**4, "/osmosis.gamm.v1beta1.MsgSwapExactAmountIn")],
                                           ["swap_reused_id", "gamm_swap_reused_id"]))
        strip_creates(blocks[b0 + 3], acc2)
        blocks[b0 + 3]["txs"].append(tx(acc2, [dict(swap("$NEXTPOOL(0)", 10**4), sender="$ACC(%d)" % acc2)], ["swap_unused_pool_id"]))
    return starts


def gen_workload(r, idx, tier):
    nacc = r.range(5, 8)
    nblocks = 30 if tier == "quick" else r.range(30, 50)
    setup = gen_setup(r)
    blocks = []
    state = {}
    for b in range(nblocks):
        if b > 0 and r.chance(1, 6):
            dt = DAY + r.range(1, 100)          # a day epoch ends
        elif b > 0 and r.chance(1, 25):
            dt = 7 * DAY + 5                     # a week epoch ends as well
        else:
            dt = r.choice([1, 5, 6, 60, 3700])
        accs = list(range(nacc))
        # each account signs at most one transaction per block (its sequence number is read from state)
        order = []
        while accs and len(order) < r.range(2, 7):
            order.append(accs.pop(r.below(len(accs))))
        txs = []
        for acc in order:
            msgs, kinds = [], []
            for _ in range(1 if r.chance(3, 4) else r.range(2, 3)):
                k, m = gen_msg(r, acc, nacc, state)
                msgs.append(m)
                kinds.append(k)
            fee_denom = r.choice(["stake", "stake", "stake", "foo", "uion"])
            fee = GAS * 3 // 100 if fee_denom == "stake" else GAS * 3 // 100 * 200
            if r.chance(1, 40):
                fee = 1                           # insufficient fee: rejected by the ante handler
            txs.append({"acc": acc, "msgs": msgs, "kinds": kinds, "gas": GAS, "fee_denom": fee_denom, "fee_amt": str(fee)})
        blocks.append({"dt": dt, "txs": txs})
        # what this block's messages set up becomes usable from the next block on (references are resolved against committed state)
        for acc, key, val in state.pop("pending", []):
            stt = state[acc]
            if key in ("locks", "pos", "sf", "vs", "vsd"):
                stt[key] = stt.get(key, 0) + 1
            elif False:
                stt[key] += 1
            elif key == "deleg":
                stt[key] = True
            elif val not in stt[key]:
                stt[key].append(val)
    poison_blocks = inject_cache_scenarios(r, blocks, nacc)
    inject_superfluid_scenario(r, blocks, nacc)
    exp = sorted(set([r.range(5, nblocks - 4), r.range(nblocks // 2, nblocks - 2)]))
    # node B restarts after a few random blocks and right after every block that left a rolled-back pool creation behind
    # (never after the first block: the governance messages of the late setup execute between block 1 and block 2, and a
    # message executed between process start and the first BeginBlock is something no live node does)
    restarts = sorted(set([r.range(1, nblocks - 2) for _ in range(r.range(2, 4))] + list(poison_blocks)))
    return {"name": "w%d" % idx, "nacc": nacc, "setup": setup, "blocks": blocks, "export_at": exp, "restart_at": restarts}


# ---------------------------------------------------------------------------------------------
# running: one fresh process per (workload, variant)
# ---------------------------------------------------------------------------------------------
def run_one(binary, case, timeout=1500):
    p = subprocess.run([binary, "-test.run", "^TestDriver$"], input=json.dumps(case) + "\n", stdout=subprocess.PIPE,
                       stderr=subprocess.PIPE, text=True, timeout=timeout)
    lines = [l for l in p.stdout.splitlines() if l.startswith("{")]
    if p.returncode != 0 or not lines:
        return {"err": "driver process failed rc=%s: %s" % (p.returncode, (p.stderr or p.stdout)[-1500:])}
    return json.loads(lines[0])


def run_pairs(binary, workloads, with_exports=True):
    """-> list of (obsA, obsB); A = variant 0 (with the export points), B = variant 1 (fresh process, no export)"""
    jobs = []
    for w in workloads:
        a = dict(w, variant=0, kv_known=[[k[0], k[1], k[2]] for k in KV_KNOWN], queries=True, restart_at=[])
        # B: the same history on a node that is stopped and started again after some blocks (and serves no queries)
        b = dict(w, variant=1, kv_known=[[k[0], k[1], k[2]] for k in KV_KNOWN], queries=False)
        if not with_exports:
            a["export_at"] = []
            b["export_at"] = []
        jobs.append(a)
        jobs.append(b)
    res = [None] * len(jobs)
    sem = threading.Semaphore(max(2, common.NPROC - 2))

    def work(i):
        with sem:
            try:
                res[i] = run_one(binary, jobs[i])
            except Exception as ex:  # noqa
                res[i] = {"err": "driver: %r" % (ex,)}
    ths = [threading.Thread(target=work, args=(i,)) for i in range(len(jobs))]
    [t.start() for t in ths]
    [t.join() for t in ths]
    return [(res[2 * i], res[2 * i + 1]) for i in range(len(workloads))]


# ---------------------------------------------------------------------------------------------
# oracle = the property: equal observations
# ---------------------------------------------------------------------------------------------
def first_diff_list(x, y):
    for i, (a, b) in enumerate(zip(x, y)):
        if a != b:
            return i, a, b
    if len(x) != len(y):
        i = min(len(x), len(y))
        return i, (x[i] if i < len(x) else None), (y[i] if i < len(y) else None)
    return None


def cmp_tx(ta, tb):
    """-> (what, detail) or None"""
    for f, nm in (("bad", "tx_build"), ("code", "tx_code"), ("cs", "tx_codespace"), ("data", "tx_data"), ("gu", "tx_gas_used"), ("gw", "tx_gas_wanted")):
        if ta.get(f) != tb.get(f):
            return nm, "%s: %r vs %r" % (f, ta.get(f), tb.get(f))
    d = first_diff_list(ta["ev"], tb["ev"])
    if d:
        return "tx_events", "event #%d: %s vs %s" % (d[0], str(d[1])[:300], str(d[2])[:300])
    return None


def gas_only_cause(ta, tb):
    """a transaction that fails with the same code on both nodes but with different gas: name the cause if it is the known one"""
    if ta.get("code") == 0 or ta.get("code") != tb.get("code") or ta.get("ev") != tb.get("ev") or ta.get("data") != tb.get("data"):
        return None
    la, lb = re.sub(r"\d+", "N", ta.get("log", "")), re.sub(r"\d+", "N", tb.get("log", ""))
    pair = sorted([la.split(": ")[-1], lb.split(": ")[-1]])
    if pair == sorted(["pool with ID N does not exist", "failed to find route for pool id (N)"]):
        return "stale_pool_route_cache_after_rolled_back_pool_creation"
    return None


PTR = re.compile(r"\{\d{9,}\}|0x[0-9a-f]{6,}")


def cmp_log(ta, tb):
    """the ABCI `log` of a transaction result is not covered by the results hash, but clients see it -> (rec, text) or None"""
    la, lb = ta.get("log", ""), tb.get("log", "")
    if la == lb:
        return None
    if PTR.sub("PTR", la) == PTR.sub("PTR", lb):
        m = re.search(r"message index: \d+: ([^{(]*)", la)
        return {"what": "tx_log", "cause": "heap_address_in_message", "text": re.sub(r"\d", "N", (m.group(1) if m else la[:40]).strip())}, "log: %r vs %r" % (la[:200], lb[:200])
    return {"what": "tx_log", "cause": "other"}, "log: %r vs %r" % (la[:300], lb[:300])


def cmp_blocks(ba, bb, same_chain, label, soft):
    """compare two block observations. same_chain: also app hash and store hashes (two runs of one history);
    otherwise only what a client can see (results, events). -> list of violation dicts that end the comparison of this
    history (later blocks inherit the divergence); differences confined to the `log` text go to `soft` and do not"""
    v = []
    for ti, (ta, tb) in enumerate(zip(ba["txs"], bb["txs"])):
        d = cmp_tx(ta, tb)
        if d:
            rec = {"kind": label, "what": d[0], "msgs": ",".join(sorted(set(k.split(".")[-1] for k in (ta.get("kinds") or []))))}
            item = {"what": "%s: block height %d tx %d (%s): %s" % (label, ba["h"], ti, ",".join(ta.get("kinds") or []), d[1]), "rec": rec}
            cause = gas_only_cause(ta, tb) if d[0] == "tx_gas_used" else None
            if cause:
                # same code / data / events, state untouched (the tx failed on both nodes): the history is still comparable
                rec["cause"] = cause
                item["what"] += " [both fail: %r vs %r]" % (ta.get("log", "")[-60:], tb.get("log", "")[-60:])
                soft.append(item)
                continue
            v.append(item)
            break
        d = cmp_log(ta, tb)
        if d:
            soft.append({"what": "%s: block height %d tx %d (%s): %s" % (label, ba["h"], ti, ",".join(ta.get("kinds") or []), d[1]),
                         "rec": dict(d[0], kind=label)})
    d = first_diff_list(ba["ev"], bb["ev"])
    if d:
        v.append({"what": "%s: block height %d begin/end-block event #%d: %s vs %s" % (label, ba["h"], d[0], str(d[1])[:300], str(d[2])[:300]),
                  "rec": {"kind": label, "what": "block_events", "event": str(d[1] or d[2]).split("{")[0]}})
    if ba.get("vu") != bb.get("vu"):
        v.append({"what": "%s: block height %d validator updates %s vs %s" % (label, ba["h"], ba.get("vu"), bb.get("vu")), "rec": {"kind": label, "what": "validator_updates"}})
    if same_chain:
        if ba["app"] != bb["app"]:
            stores = sorted(k for k in set(ba["stores"]) | set(bb["stores"]) if ba["stores"].get(k) != bb["stores"].get(k))
            v.append({"what": "%s: app hash after block height %d differs: %s vs %s; differing stores: %s" % (label, ba["h"], ba["app"], bb["app"], ",".join(stores)),
                      "rec": {"kind": label, "what": "app_hash", "stores": ",".join(stores)}})
    return v


def hx(t):
    return t.encode().hex()


# Raw-state differences between a chain and the chain re-imported from its exported genesis, found on the unchanged tree.
# (store, regexp on kind, regexp on key hex (prefix match), id, finding?)  finding=True: state a client can observe is lost
# or changed (listed in known_findings.json under this id); False: a representation / cache / dependency-internal
# difference without observable effect. The driver copies the original's entries over the re-imported chain's for all
# of these, so that the replay of the remaining history is exact; anything not listed here is a violation.
KV_KNOWN = [
    ("bank", "only_original", "58", "bank_supply_offset", True),
    ("concentratedliquidity", "differs.*", "0e", "cl_full_range_liquidity", True),
    ("concentratedliquidity", "differs.*", "13", "cl_total_liquidity", True),
    ("concentratedliquidity", "only_original", hx("accum||pos||"), "cl_zero_share_accum_records", False),
    ("epochs", "differs:f8", "01", "epochs_start_height", True),
    ("protorev", "differs.*", "12", "protorev_cyclic_arb_tracker_sentinels", True),
    ("ibc", "differs:f2", hx("clients/09-localhost/clientState"), "ibc_localhost_height", False),
    ("poolincentives", "only_reimported", hx("pool-incentives-pool-id/"), "poolincentives_nolock_reverse_index", False),
    ("poolmanager", "only_reimported", "03", "poolmanager_empty_volume", False),
    ("staking", "only_original", "50", "staking_historical_info", False),
    ("staking", "only_original", "61", "staking_validator_updates", False),
    ("twap", "only_original", "01$", "twap_pruning_state", False),
    ("wasm", "only_reimported", "04", "wasm_sequences", False),
    ("wasm", "only_original", "08", "wasm_tx_counter", True),
    ("incentives", "only_original", "03", "incentives_finished_gauges_dropped", True),
    ("incentives", "only_original", "0402", "incentives_finished_gauges_dropped", True),
    ("incentives", "only_original|differs.*|only_reimported", "040[01]", "incentives_upcoming_imported_as_active", True),
    # the per-denom index lists the gauge ids in insertion order (import inserts upcoming before active); it is only read
    # to sum estimates (GetRewardsEst)
    ("incentives", "differs", "0507", "incentives_gauges_by_denom_index_order", False),
    ("lockup", "only_original|differs.*|only_reimported", "20", "lockup_accumulation_tree_layout", True),
    ("protorev", "differs.*", "11", "protorev_cyclic_arb_tracker_sentinels", True),
    ("protorev", "only_original|differs.*|only_reimported", "02", "protorev_denom_pair_pools_not_exported", True),
    ("valsetpref", "only_original", "", "valsetpref_no_genesis", True),
    ("poolmanager", "only_original", "0[ab]", "poolmanager_taker_fee_share_not_exported", True),
    ("protorev", "only_original", "0[4567]", "protorev_statistics_not_exported", True),
]


# the same differences as they show in the per-module exported genesis (proto-JSON): (module, field path) -> id
JSON_KNOWN = {
    ("epochs", ".epochs[].current_epoch_start_height"): ("epochs_start_height", True),
    ("protorev", ".cyclic_arb_tracker.height_accounting_starts_from"): ("protorev_cyclic_arb_tracker_sentinels", True),
    ("protorev", ".cyclic_arb_tracker.cyclic_arb"): ("protorev_cyclic_arb_tracker_sentinels", True),
    ("protorev", ".cyclic_arb_tracker.cyclic_arb[]"): ("protorev_cyclic_arb_tracker_sentinels", True),
    # the exported gauge list is upcoming ++ active; a gauge imported as active instead of upcoming moves in the list
    ("incentives", ".gauges<order>"): ("incentives_upcoming_imported_as_active", True),
    # ibc-go's 09-localhost client records the height of the block being executed and is re-derived at import
    ("ibc", ".client_genesis.clients[].client_state.latest_height.revision_height"): ("ibc_localhost_height", False),
}


def inv_name(msg):
    if not msg:
        return ""
    m = re.search(r"(\w+): ([\w-]+) invariant", msg)
    return "%s/%s" % (m.group(1), m.group(2)) if m else "?"


def export_field(path):
    return re.sub(r"\[[^\]]*\]", "[]", path.split(":")[0])


def cmp_pair(w, oa, ob, benign=None, notes=None):
    v = []
    soft = []
    benign = benign if benign is not None else set()
    notes = notes if notes is not None else set()
    for o, nm in ((oa, "process A"), (ob, "process B")):
        if o.get("err"):
            return [{"what": "%s of workload %s failed: %s" % (nm, w["name"], o["err"][:1500]), "rec": {"kind": "driver_error"}}]
    if oa["setup_digest"] != ob["setup_digest"]:
        v.append({"what": "state after the workload's setup differs between the two processes (%s vs %s)" % (oa["setup_digest"], ob["setup_digest"]),
                  "rec": {"kind": "nondeterminism", "what": "setup"}})
    for ba, bb in zip(oa["blocks"], ob["blocks"]):
        d = cmp_blocks(ba, bb, True, "nondeterminism", soft)
        if d:
            v += d
            break                                  # later blocks inherit the divergence
    if not v and oa["final"] != ob["final"]:
        mods = sorted(k for k in oa["final"] if oa["final"][k] != ob["final"].get(k))
        v.append({"what": "final exported genesis differs between the two processes in modules %s" % mods, "rec": {"kind": "nondeterminism", "what": "final_export", "modules": ",".join(mods)}})
    for e in oa.get("exports") or []:
        if e.get("inv_orig"):
            # not this property's business (reported to the lead as a note): a registered invariant fails on the original chain
            notes.add("crisis invariant failing on the ORIGINAL chain of workload %s after block index %d: %s" % (w["name"], e["at"], " ".join(e["inv_orig"].split())[:300]))
        if e.get("init_default"):
            # InitChain with the node's default options failed. If the same genesis imports with
            # --x-crisis-skip-assert-invariants and, once all modules are initialised, the invariants are exactly as on the
            # original chain, the failure is the crisis module asserting invariants before the modules they speak about exist.
            imported_ok = not e.get("err") and inv_name(e.get("inv_reimp") or "") == inv_name(e.get("inv_orig") or "")
            cause = "invariant_asserted_before_module_import" if (imported_ok and "invariant broken" in e["init_default"] and inv_name(e["init_default"]) != inv_name(e.get("inv_orig") or "")) else "other"
            v.append({"what": "InitChain from the genesis exported after block index %d fails with the default node options: %s" % (e["at"], " ".join(e["init_default"].split())[:500]),
                      "rec": {"kind": "export_import", "what": "initchain_default_options", "cause": cause}})
        if e.get("err"):
            v.append({"what": "export/import after block index %d failed: %s" % (e["at"], e["err"][:800]), "rec": {"kind": "export_import", "what": "failed"}})
            continue
        if inv_name(e.get("inv_reimp") or "") != inv_name(e.get("inv_orig") or ""):
            v.append({"what": "the registered invariants answer differently on the chain re-imported after block index %d: original %r, re-imported %r" % (e["at"], (e.get("inv_orig") or "all hold")[:300], (e.get("inv_reimp") or "all hold")[:300]),
                      "rec": {"kind": "export_import", "what": "invariants_differ", "invariant": inv_name(e.get("inv_reimp") or e.get("inv_orig") or "")}})
        for mod, diffs in sorted((e.get("diff") or {}).items()):
            for path in diffs:
                kid, is_finding = JSON_KNOWN.get((mod, export_field(path)), ("unknown", True))
                if not is_finding:
                    benign.add(kid)
                    continue
                v.append({"what": "module %s: exported genesis changes across export -> InitChain -> export (after block index %d, height %d): %s" % (mod, e["at"], e["height"], path[:400]),
                          "rec": {"kind": "export_import", "what": "module_state", "id": kid, "module": mod, "field": export_field(path)}})
        for d in e.get("kv") or []:
            kid, is_finding = "unknown", True
            for st, kre, hre, i, f in KV_KNOWN:
                if st == d["store"] and re.match("^(?:%s)$" % kre, d["kind"]) and re.match("^(?:%s)" % hre, d["key"]):
                    kid, is_finding = i, f
                    break
            if not is_finding:
                benign.add(kid)
                continue
            rec = {"kind": "export_import", "what": "raw_state", "id": kid, "store": d["store"]}
            if kid == "unknown":
                rec.update({"diff": d["kind"], "key_prefix": d["key"][:4]})
            v.append({"what": "store %s: raw state of the re-imported chain differs from the original's (export after block index %d): %s %s" % (d["store"], e["at"], d["kind"], d["text"][:400]),
                      "rec": rec})
        expected = expected_accumulation(e["raw_orig"]["lockup"]) if e.get("raw_orig") else None
        for po, pr, when in ((e.get("probe_orig"), e.get("probe_reimp"), "right after the import"),
                             (e.get("probe_final_orig"), e.get("probe_final_reimp"), "at the end of the replayed history")):
            if po is None or pr is None:
                continue
            for key in sorted(set(po) | set(pr)):
                if po.get(key) == pr.get(key):
                    continue
                kind = key.split("|")[0]
                rec = {"kind": "export_import", "what": "query_observable", "observable": kind, "id": "unknown"}
                note = ""
                if when == "right after the import" and expected is not None and kind in ("lockup_accumulation", "superfluid_total_synthetic_locked"):
                    # the property's own reading: the accumulation of (denom, duration) is the sum over the exported (synthetic)
                    # locks of that denom with at least that duration - computed here from the exported genesis
                    want = expected(key)
                    if want is not None and str(want) == pr.get(key) and "/super" in key:
                        rec["id"] = "lockup_synthetic_accumulation_wrong_on_running_chain"
                        note = " [sum over the exported locks: %s = the re-imported chain's value]" % want
                    elif want is not None:
                        note = " [sum over the exported locks: %s]" % want
                v.append({"what": "query observable %s differs between the original and the chain re-imported after block index %d (%s): %s vs %s%s"
                                  % (key, e["at"], when, po.get(key), pr.get(key), note), "rec": rec})
        tail_a = oa["blocks"][e["at"] + 1:]
        for ba, bb in zip(tail_a, e.get("tail") or []):
            d = cmp_blocks(ba, bb, False, "export_import_replay", soft)
            if d:
                v += d
                break
        if len(tail_a) != len(e.get("tail") or []):
            v.append({"what": "re-imported chain executed %d of %d remaining blocks" % (len(e.get("tail") or []), len(tail_a)), "rec": {"kind": "export_import", "what": "replay_incomplete"}})
        for mod, diffs in sorted((e.get("final_diff") or {}).items()):
            for path in diffs:
                known_paths = [export_field(p) for p in (e.get("diff") or {}).get(mod, [])]
                if export_field(path) in known_paths:
                    continue                       # already reported at the export point
                v.append({"what": "module %s: state at the end of the history differs between the original and the re-imported chain (export after block index %d): %s" % (mod, e["at"], path[:400]),
                          "rec": {"kind": "export_import", "what": "final_state", "module": mod, "field": export_field(path)}})
    # the import path itself must be deterministic: process B exported at the same points, initialised a chain from
    # its (identical) genesis and replayed the same blocks - app hashes of the two re-imported chains must agree
    for ea, eb in zip(oa.get("exports") or [], ob.get("exports") or []):
        if ea.get("err") or eb.get("err"):
            if bool(ea.get("err")) != bool(eb.get("err")):
                v.append({"what": "export/import after block index %d fails in one process only: %r vs %r" % (ea["at"], ea.get("err"), eb.get("err")),
                          "rec": {"kind": "nondeterminism", "what": "import_failure"}})
            continue
        if ea.get("reimp") != eb.get("reimp"):
            mods = sorted(k for k in ea["reimp"] if ea["reimp"][k] != (eb.get("reimp") or {}).get(k))
            v.append({"what": "InitChain from the same exported genesis (after block index %d) yields different module state in the two processes: %s" % (ea["at"], mods),
                      "rec": {"kind": "nondeterminism", "what": "import_state", "modules": ",".join(mods)}})
        for ba, bb in zip(ea.get("tail") or [], eb.get("tail") or []):
            d = cmp_blocks(ba, bb, True, "nondeterminism_after_import", soft)
            if d:
                v += d
                break
    # one record per distinct class
    seen = set()
    out = []
    for x in v + soft:
        key = json.dumps(x["rec"], sort_keys=True)
        if key not in seen:
            seen.add(key)
            out.append(x)
    return out


# ---------------------------------------------------------------------------------------------
# model correspondence: the Coq import functions on the real exported genesis data
# ---------------------------------------------------------------------------------------------
def ts_ns(t):
    """RFC3339 -> unix nanoseconds (0001-01-01T00:00:00Z, Go's zero time, -> 0 as in the model)"""
    import datetime
    m = re.match(r"^(\d{4})-(\d\d)-(\d\d)T(\d\d):(\d\d):(\d\d)(?:\.(\d+))?Z$", t)
    y, mo, d, hh, mi, ss = (int(x) for x in m.groups()[:6])
    if y == 1:
        return 0
    frac = (m.group(7) or "").ljust(9, "0")[:9]
    days = (datetime.date(y, mo, d) - datetime.date(1970, 1, 1)).days
    return ((days * 86400 + hh * 3600 + mi * 60 + ss) * 10**9) + int(frac or 0)


def dur_ns(d):
    m = re.match(r"^(-?\d+)(?:\.(\d+))?s$", d)
    return int(m.group(1)) * 10**9 + int((m.group(2) or "").ljust(9, "0")[:9] or 0)


def coq_einfos(js):
    ids = sorted(e["identifier"] for e in js["epochs"])
    rows = []
    for e in js["epochs"]:
        rows.append("mkE %d %s %s %s %s %s %s" % (ids.index(e["identifier"]) + 1, common.zlit(ts_ns(e["start_time"])), common.zlit(dur_ns(e["duration"])),
                                                  common.zlit(int(e["current_epoch"])), common.zlit(ts_ns(e["current_epoch_start_time"])),
                                                  "true" if e.get("epoch_counting_started") else "false", common.zlit(int(e["current_epoch_start_height"]))))
    return "[" + "; ".join(rows) + "]"


def coq_locks(js):
    recs = sorted((int(l["ID"]), sum(int(c["amount"]) for c in l["coins"])) for l in js.get("locks", []))
    return "[" + "; ".join("(%d, %d)" % r for r in recs) + "]", int(js.get("last_lock_id", "0"))


def coq_lockup_case(lockup_js, probes):
    """the exported lockup genesis as a Coq lgenesis (denoms numbered) + the (denom, duration, value) probes the real re-imported chain answered"""
    ids = {}

    def dn(x):
        return ids.setdefault(x, len(ids) + 1)
    locks = "[" + "; ".join("mkL %d %d [%s]" % (int(l["ID"]), dur_ns(l["duration"]), "; ".join("(%d, %d)" % (dn(c["denom"]), int(c["amount"])) for c in l["coins"]))
                            for l in lockup_js.get("locks", [])) + "]"
    synth = "[" + "; ".join("mkSL %d %d %d" % (int(sl["underlying_lock_id"]), dn(sl["synth_denom"]), dur_ns(sl["duration"]))
                            for sl in lockup_js.get("synthetic_locks", [])) + "]"
    ps = []
    for k, v in sorted(probes.items()):
        parts = k.split("|")
        if parts[0] == "lockup_accumulation" and re.match(r"^-?\d+$", v):
            ps.append("(%d, %s, %s)" % (dn(parts[1]), common.zlit(int(parts[2])), common.zlit(int(v))))
    return "mkLCase (mkG %s %s) [%s]" % (locks, synth, "; ".join(ps)), len(ps)


def model_correspondence(pairs, workloads, out):
    ecases, kcases, owners = [], [], []
    lcases, nprobes = [], 0
    for w, (oa, ob) in zip(workloads, pairs):
        for e in (oa.get("exports") or []) if not oa.get("err") else []:
            if e.get("err") or not e.get("raw_orig"):
                continue
            ro, rr = e["raw_orig"], e["raw_reimp"]
            ecases.append("mkECase %d %d %s %s" % (e["height"], e["time_ns"], coq_einfos(ro["epochs"]), coq_einfos(rr["epochs"])))
            l1, n1 = coq_locks(ro["lockup"])
            l2, n2 = coq_locks(rr["lockup"])
            kcases.append("mkKCase %s %d %s %d" % (l1, n1, l2, n2))
            lc, npr = coq_lockup_case(ro["lockup"], e.get("probe_reimp") or {})
            lcases.append(lc)
            nprobes += npr
            owners.append((w, e["at"]))
    if not ecases:
        return 0
    v = ("From Coq Require Import ZArith List. Import ListNotations.\n"
         "From Osmo Require Import Base.Obs C17.Model C19.Genesis C19.Corr.\nOpen Scope Z_scope.\n"
         "Definition ecases : list ecase := [\n  %s ].\nDefinition kcases : list kcase := [\n  %s ].\n"
         "Definition ME := Eval vm_compute in mismatches ecase_ok ecases.\nPrint ME.\n"
         "Definition MK := Eval vm_compute in mismatches kcase_ok kcases.\nPrint MK.\n" % (";\n  ".join(ecases), ";\n  ".join(kcases))
         + "From Osmo Require Import C19.LockupGenesis.\nDefinition lcases : list lcase := [\n  %s ].\n"
           "Definition ML := Eval vm_compute in mismatches lcase_ok lcases.\nPrint ML.\n" % ";\n  ".join(lcases))
    rc, o = common.coq_eval("C19_genesis_%d" % os.getpid(), v)
    me, mk, ml = common.parse_nat_list(o, "ME"), common.parse_nat_list(o, "MK"), common.parse_nat_list(o, "ML")
    if rc != 0 or me is None or mk is None or ml is None:
        out.mismatches.append({"what": "model evaluation failed: " + o[-600:], "case": None})
        return 0
    for idx in me:
        w, at = owners[idx]
        out.mismatches.append({"what": "x/epochs InitGenesis(ExportGenesis) differs from the model import_epochs (export after block index %d)" % at, "case": strip_case(w)})
    for idx in mk:
        w, at = owners[idx]
        out.mismatches.append({"what": "lockup locks / last_lock_id after the round trip differ from the keyed-records model (export after block index %d)" % at, "case": strip_case(w)})
    for idx in ml:
        w, at = owners[idx]
        out.mismatches.append({"what": "lockup InitGenesis: the accumulation values of the real re-imported chain differ from the model import_lockup evaluated on the "
                                       "exported locks / synthetic locks (export after block index %d)" % at, "case": strip_case(w)})
    out.nprobes = nprobes
    return len(ecases) + len(kcases) + len(lcases)


def site_correspondence(out):
    """the generated inventory against the hand-written table of C19/Classify.v (the Coq lemma all_sites_classified is
    the authority; this is the readable report of which site broke it)"""
    sites, err, caches = scan_sites()
    if err:
        out.mismatches.append({"what": "map-iteration scan failed: " + err[:600], "case": None})
        return sites
    shape = lockup_shape()
    want = {"locks_read_key": "KUnder", "locks_write_key": "KUnder", "locks_init_key": "KUnder", "synth_read_key": "KSynth",
            "synth_write_key": "KSynth", "synth_init_key": "KSynth", "locks_denom_ok": "true", "locks_adds_found": "true",
            "synth_denom_ok": "true", "synth_adds_found": "true"}
    got = dict(re.findall(r"Definition (\w+) : \w+ := (\w+)\.", shape))
    bad = sorted("%s = %s (model assumes %s)" % (k, got.get(k), v) for k, v in want.items() if got.get(k) != v)
    if bad:
        out.mismatches.append({"what": "x/lockup/keeper/lock.go InitializeAllLocks / InitializeAllSyntheticLocks no longer key the duration -> amount map as the "
                                       "model of C19/LockupGenesis.v assumes: " + "; ".join(bad), "case": None})
    st = scanner_selftest()
    if st:
        out.mismatches.append({"what": st, "case": None})
    txt = open(os.path.join(common.COQ, "theories", "C19", "Classify.v")).read()
    table = set(re.findall(r'mkEntry\s+"([^"]*)"\s+"([^"]*)"\s+"([^"]*)"', txt))
    have = set((x["file"], x["func"], x["hash"]) for x in sites)
    for x in sites:
        if x["class"] == "escaping" and (x["file"], x["func"], x["hash"]) not in table:
            out.mismatches.append({"what": "unclassified map-iteration site whose order can escape: %s, function %s (range over %s): %s"
                                   % (x["file"], x["func"], x["ranged"], "; ".join(x.get("why") or [])), "case": None,
                                   "site": {k: x[k] for k in ("file", "func", "hash", "ranged", "why", "class")}})
    for t in sorted(table - have):
        out.mismatches.append({"what": "classified map-iteration site no longer exists in this form: %s, function %s (hash %s) - its code changed and must be re-classified" % t,
                               "case": None, "site": {"file": t[0], "func": t[1], "hash": t[2]}})
    ctable = set(re.findall(r'mkCEntry\s+"([^"]*)"\s+"([^"]*)"\s+"([^"]*)"', txt))
    chave = set((c["file"], c["owner"], c["hash"]) for c in caches)
    known_owner = {(t[0], t[1]): t[2] for t in ctable}
    for c in caches:
        key = (c["file"], c["owner"], c["hash"])
        if key in ctable:
            continue
        if (c["file"], c["owner"]) in known_owner:
            what = ("the statements writing the in-memory state %s (%s) changed (an invalidation or update was added or removed) - it must be re-classified; writes now: %s"
                    % (c["owner"], c["file"], " | ".join(c["writes"])[:900]))
        else:
            what = ("unclassified in-memory state that outlives a transaction: %s %s declared in %s, written by: %s"
                    % (c["owner"], c["type"], c["file"], " | ".join(c["writes"])[:900]))
        out.mismatches.append({"what": what, "case": None, "site": {"file": c["file"], "owner": c["owner"], "hash": c["hash"]}})
    for t in sorted(ctable - chave):
        if (t[0], t[1]) not in set((c["file"], c["owner"]) for c in caches):
            out.mismatches.append({"what": "classified in-memory state no longer exists: %s in %s" % (t[1], t[0]), "case": None})
    out.ncaches = len(caches)
    return sites


def expected_accumulation(lockup_js):
    """-> f(probe key) = sum over the exported locks / synthetic locks of the key's denom with duration >= the key's duration"""
    by = {}
    amt_of = {}
    for l in lockup_js.get("locks", []):
        amt_of[l["ID"]] = l["coins"]
        for c in l["coins"]:
            by.setdefault(c["denom"], []).append((dur_ns(l["duration"]), int(c["amount"])))
    for sl in lockup_js.get("synthetic_locks", []):
        cs = amt_of.get(sl["underlying_lock_id"]) or []
        if len(cs) == 1:
            by.setdefault(sl["synth_denom"], []).append((dur_ns(sl["duration"]), int(cs[0]["amount"])))

    def f(key):
        parts = key.split("|")
        if parts[0] == "lockup_accumulation":
            d = int(parts[2])
        elif parts[0] == "superfluid_total_synthetic_locked":
            d = UNBONDING * 10**9
        else:
            return None
        return sum(a for du, a in by.get(parts[1], []) if du >= d)
    return f


def strip_case(w):
    return {"name": w["name"], "nacc": w["nacc"], "setup": w["setup"], "blocks": w["blocks"], "export_at": w["export_at"], "restart_at": w.get("restart_at", [])}


def run_workloads(workloads, out, binary=None):
    if not hasattr(out, "benign"):
        out.benign = set()
        out.xnotes = set()
    binary = binary or common.go_build("c19drv", test=True)
    pairs = run_pairs(binary, workloads)
    for w, (oa, ob) in zip(workloads, pairs):
        out.evaluations += 1
        vs = cmp_pair(w, oa, ob, out.benign, out.xnotes)
        for x in vs:
            x["case"] = strip_case(w)
            out.oracle_violations.append(x)
        if not oa.get("err"):
            ok = sum(1 for b in oa["blocks"] for t in b["txs"] if t.get("code") == 0 and not t.get("bad"))
            tot = sum(len(b["txs"]) for b in oa["blocks"])
            kinds = {}
            for b, bs in zip(oa["blocks"], w["blocks"]):
                for t, ts in zip(b["txs"], bs["txs"]):
                    for k in ts.get("kinds", []):
                        e = kinds.setdefault(k, [0, 0])
                        e[0] += 1
                        e[1] += 1 if t.get("code") == 0 and not t.get("bad") else 0
            out.stats.append({"name": w["name"], "txs": tot, "ok": ok, "kinds": kinds, "blocks": len(oa["blocks"]),
                              "block_events": sum(len(b["ev"]) for b in oa["blocks"]), "tx_events": sum(len(t["ev"]) for b in oa["blocks"] for t in b["txs"]),
                              "exports": [(e["at"], sorted((e.get("diff") or {}).keys()), len(e.get("tail") or [])) for e in oa.get("exports") or []],
                              "export_bytes": [sum((e.get("sizes") or {}).values()) for e in oa.get("exports") or []]})
            if ok * 3 >= tot and len(oa["blocks"]) == len(w["blocks"]):
                out.nontrivial.add(w["name"] + ":" + oa["setup_digest"])
    return pairs


def correspond(tier, seed, model_ok):
    out = Outcome()
    out.stats = []
    r = Rng(seed)
    n = 6 if tier == "quick" else 120
    workloads = [gen_workload(r.fork(i), i, tier) for i in range(n)]
    corpus = [c for c in common.load_corpus(PROP)]
    sites = site_correspondence(out)
    pairs = run_workloads(corpus + workloads, out)
    nmodel = 0
    if model_ok:
        nmodel = model_correspondence(pairs, corpus + workloads, out)
        # the comparison machinery itself: perturbed copies of this run's observations must all be flagged
        try:
            st = selftest(pairs, corpus + workloads)
            bad = sorted(k for k, ok in st.items() if not ok)
            if bad:
                out.mismatches.append({"what": "machinery self-test: perturbations not flagged: %s" % bad, "case": None})
            out.xnotes.add("machinery self-test: %d/%d perturbed observations flagged" % (sum(1 for x in st.values() if x), len(st)))
        except StopIteration:
            pass
        except Exception as ex:  # noqa
            out.xnotes.add("machinery self-test not run: %r" % (ex,))
    else:
        out.model_ran = False
    out.rule = ("case = one workload (5-8 accounts, 7 pools of three kinds, 30+ blocks of 2-7 signed transactions of bank/lockup/gamm/poolmanager/"
                "concentrated-liquidity/incentives/tokenfactory/staking messages incl. a malformed stream, day and week epoch boundaries) executed in two fresh "
                "processes (GOMAXPROCS 16 vs 1, different GC pressure, commutative harness actions permuted); non-trivial = all blocks executed and at least a "
                "third of the transactions succeeded; distinct = workload name + digest of its initial state")
    out.samples = [{"name": w["name"], "nacc": w["nacc"], "export_at": w["export_at"], "first_block": w["blocks"][0]} for w in workloads[:3]]
    kinds = {}
    for s in out.stats:
        for k, (a, b) in s["kinds"].items():
            e = kinds.setdefault(k, [0, 0])
            e[0] += a
            e[1] += b
    out.distribution = {"message_kinds (sent, in a successful tx)": kinds,
                        "per_workload": [{k: s[k] for k in ("name", "txs", "ok", "blocks", "block_events", "tx_events", "exports", "export_bytes")} for s in out.stats],
                        "corpus_cases": len(corpus)}
    out.traces = sum(s["blocks"] for s in out.stats) * 2
    cls = {}
    for x in sites:
        cls[x["class"]] = cls.get(x["class"], 0) + 1
    out.distribution["map_iteration_sites"] = cls
    out.distribution["in_memory_state_sites"] = getattr(out, "ncaches", 0)
    out.distribution["model_import_cases (epochs + keyed records + lockup accumulation)"] = nmodel
    out.distribution["lockup_accumulation_probes_checked_against_model"] = getattr(out, "nprobes", 0)
    out.notes = sorted(out.xnotes) + ["raw-state differences canonicalised away (no observable effect found, see KV_KNOWN): " + ", ".join(sorted(out.benign))]
    return out


def search(tier, seed, out):
    o2 = Outcome()
    o2.stats = []
    r = Rng(seed + 104729)
    workloads = [gen_workload(r.fork(i), 3 * i, "quick") for i in range(24)]
    run_workloads(workloads, o2)
    return o2.oracle_violations[0] if o2.oracle_violations else None


def replay(path):
    d = json.load(open(path))
    c = d["case"].get("case") if isinstance(d.get("case"), dict) else None
    if not c:
        print("replay names a proof obligation / site, not a workload:", d.get("what"))
        return 1
    out = Outcome()
    out.stats = []
    run_workloads([c], out)
    for v in out.oracle_violations:
        print("oracle:", v["what"])
    return 1 if out.oracle_violations else 0


def selftest(pairs, workloads):
    """unit check of the comparison machinery: every perturbation of a recorded observation must be flagged"""
    import copy
    w = next(x for x, (oa, ob) in zip(workloads, pairs) if (oa.get("exports") and not oa.get("err")))
    oa, ob = next((oa, ob) for x, (oa, ob) in zip(workloads, pairs) if x is w)
    assert not [v for v in cmp_pair(w, oa, ob) if v["rec"].get("id") == "unknown" or
                (v["rec"]["kind"] == "nondeterminism" and v["rec"]["what"] != "tx_log" and not v["rec"].get("cause"))]
    res = {}

    def kinds(a, b):
        return set((v["rec"]["kind"], v["rec"]["what"]) for v in cmp_pair(w, a, b))
    b = copy.deepcopy(ob)
    b["blocks"][3]["app"] = "00" + b["blocks"][3]["app"][2:]
    b["blocks"][3]["stores"]["lockup"] = "ff"
    res["app_hash"] = ("nondeterminism", "app_hash") in kinds(oa, b)
    bi, ti = next((i, j) for i, blk in enumerate(ob["blocks"]) for j, t in enumerate(blk["txs"]) if len(t["ev"]) > 3)
    b = copy.deepcopy(ob)
    ev = b["blocks"][bi]["txs"][ti]["ev"]
    ev[-1], ev[-2] = ev[-2], ev[-1]
    res["tx_event_order"] = ("nondeterminism", "tx_events") in kinds(oa, b) or ev[-1] == ev[-2]
    b = copy.deepcopy(ob)
    b["blocks"][bi]["txs"][ti]["gu"] += 1
    res["tx_gas"] = ("nondeterminism", "tx_gas_used") in kinds(oa, b)
    b = copy.deepcopy(ob)
    b["blocks"][bi]["ev"] = b["blocks"][bi]["ev"][1:]
    res["block_events"] = ("nondeterminism", "block_events") in kinds(oa, b) or not ob["blocks"][bi]["ev"]
    a = copy.deepcopy(oa)
    a["exports"][0]["diff"]["lockup"] = [".last_lock_id: \"7\" vs \"0\""]
    res["export_json"] = any(v["rec"].get("id") == "unknown" and v["rec"].get("module") == "lockup" for v in cmp_pair(w, a, ob))
    a = copy.deepcopy(oa)
    a["exports"][0]["kv"].append({"store": "lockup", "kind": "differs", "key": "0a", "text": "x", "known": False})
    res["raw_state"] = any(v["rec"].get("id") == "unknown" and v["rec"].get("store") == "lockup" for v in cmp_pair(w, a, ob))
    a = copy.deepcopy(oa)
    if a["exports"][0]["tail"]:
        a["exports"][0]["tail"][0]["txs"] and a["exports"][0]["tail"][0]["txs"][0].__setitem__("code", 77)
        res["replay_code"] = ("export_import_replay", "tx_code") in kinds(a, ob) or not a["exports"][0]["tail"][0]["txs"]
    o2 = Outcome()
    a = copy.deepcopy(oa)
    js = a["exports"][0]["raw_reimp"]["epochs"]
    js["epochs"][0]["current_epoch"] = str(int(js["epochs"][0]["current_epoch"]) + 1)
    model_correspondence([(a, ob)], [w], o2)
    res["model_epochs"] = len(o2.mismatches) == 1
    o4 = Outcome()
    a = copy.deepcopy(oa)
    pk = next((k for k in sorted(a["exports"][0].get("probe_reimp") or {}) if k.startswith("lockup_accumulation|") and "/super" in k), None)
    if pk:
        a["exports"][0]["probe_reimp"][pk] = str(int(a["exports"][0]["probe_reimp"][pk]) + 1)
        model_correspondence([(a, ob)], [w], o4)
        res["model_lockup_accumulation"] = len(o4.mismatches) == 1
    o3 = Outcome()
    a = copy.deepcopy(oa)
    a["exports"][0]["raw_reimp"]["lockup"]["last_lock_id"] = "99999"
    model_correspondence([(a, ob)], [w], o3)
    res["model_keyed"] = len(o3.mismatches) == 1
    return res


SCOPE = ("partial. PROVED (Coq, axiom-free): (a) permutation invariance of every map-iteration site of /repo/x, /repo/app, /repo/osmoutils that the "
         "scanner cannot discharge syntactically (incentives distributeSyntheticInternal and GetRewardsEst, lockup RebuildSuperfluidAccumulationStoresForDenom, "
         "protorev UpdatePools (both loops), smart-account checkForFloats, osmoutils DisjointArrays, dag hasIncomingEdge) for a small Gallina model of each site that takes "
         "the iteration order as an adversarial permutation, the generic theorems for sorted-keys and collect-then-sort sites (tokenfactory forceTransfer, pool-incentives "
         "UpdateDistrRecords, lockup writeDurationValuesToAccumTree / InitializeAllSyntheticLocks, gamm UpdateMigrationRecords, smart-account isSuperset, upgrade handlers v23-v25), "
         "and totality of the classification over the inventory regenerated from the sources on every run (two sites are node-local: registerStoreKeys, telemetry); "
         "(a') a second generated inventory of in-memory state that outlives a transaction (keeper fields / package variables of map or sync.Map type, "
         "identified by the hash of the statements writing them) with a hand classification and totality lemma; poolmanager's pool-route cache is modelled: a committed "
         "SetPoolRoute invalidates (proved), a rolled-back pool creation leaves a stale entry and a restarted node answers with different gas (REFUTED, finding F19-16); "
         "(b') x/lockup InitGenesis as written (InitializeAllLocks + InitializeAllSyntheticLocks rebuilding the accumulation store; the duration expressions keying the map read / "
         "write / literal are regenerated from lock.go on every run and checked by a shape lemma): after import(export s), for every native or synthetic denom and every "
         "duration d, accumulation(>= d) = sum over the exported (synthetic) locks with duration >= d; the running chain's incremental bookkeeping does not keep that "
         "equation (REFUTED, finding F19-17); the model import is evaluated on the real exported lockup genesis against the values the real re-imported chain answers; "
         "(b) export/import round trip and equality of all later results for TWO modelled module states: x/epochs (C17's timer state; equal apart from "
         "CurrentEpochStartHeight, which the code overwrites - the exact round trip is REFUTED, finding F19-2) and a generic keyed-records + last-id counter + rebuilt "
         "derived total module standing for lockup / incentives / twap-like stores. "
         "NOT PROVED, covered only by the dynamic correspondence on the real application: determinism under goroutine schedules, Go's randomised map iteration and "
         "wall-clock reads (no executable Gallina model can exhibit them), and export/import of every other module - gamm, poolmanager, concentrated-liquidity, lockup's "
         "real state (synthetic locks, accumulation store), incentives, pool-incentives, superfluid, tokenfactory, twap, txfees, protorev, mint, valset-pref, "
         "cosmwasmpool, smart-account, downtime-detector, ibc-hooks, ibc-rate-limit and all SDK / IBC / wasm modules - as well as ante/post handlers and the IAVL commitment")
EXPLANATION = ("Static: harness/c19scan type-checks /repo's packages (go/types over `go list -export` data) and lists every `range` over a map with a line-number-free "
               "identifier (file, function, hash of the normalised source) and a syntactic effect class; Gen/C19_sites.v is regenerated on every run and C19/Classify.v "
               "must cover every escaping site (vm_compute lemma), so a new or edited unsorted state-affecting site breaks the build and is reported with file and function. "
               "Dynamic: every generated workload (signed transactions of bank, lockup, gamm, poolmanager, concentrated-liquidity, incentives, tokenfactory, superfluid, "
               "staking, distribution incl. a malformed stream; day/week epoch boundaries; protorev back-running; fees in three denoms) runs through FinalizeBlock+Commit of the "
               "real application in two fresh processes (A: GOMAXPROCS 16, keeps running and serves read-only queries between blocks; B: GOMAXPROCS 1, different GC pressure, commutative harness "
               "actions permuted, and the node is STOPPED AND STARTED AGAIN - new application instance over the same database - after 3-5 blocks incl. right after every block that "
               "contains a rolled-back pool creation) from a constant genesis; the workload contains transactions that fail after touching keeper-level caches (create pool + swap "
               "through it + failing message; later a pool of another type gets the same id; swaps on the reused and on the unused id); the oracle is the "
               "property: equal app hash, per-store hashes, block events and per-transaction code/codespace/gas/data/ordered events after every block. At two export points per "
               "workload the whole application is exported, a fresh application is InitChain'ed from it, and compared: per-module exported genesis (proto-JSON, field by field), "
               "raw key/value content of every store, registered invariants, and - after copying the original's entries over the known differences - the results of the "
               "remaining history, which must then be identical including gas. Known differences are findings F19-1..13 (observable) or canonicalised (not observable); "
               "anything else exits 1. The Coq import functions are evaluated on the real exported epochs and lockup genesis data and compared with the real re-export.")
TRUSTED = [
    "hand-written Gallina models of the map-iteration sites (C19/Sites.v) and of the two module states (C19/Genesis.v, C17/Model.v); the site models are tied to the code by "
    "the regenerated inventory (identifier = file + function + source hash, so an edit of a classified function invalidates its entry), the module models by evaluating them on real genesis data",
    "harness/c19scan (go/parser + go/types + the syntactic effect classifier: what it calls pure / collect_sorted is trusted; the value-level package allow-list is in the source)",
    "harness/c19drv (constant genesis, transaction signing, FinalizeBlock/Commit driver, export/import, raw-store dump and patching), props/c19.py (generator, comparison, tables KV_KNOWN / JSON_KNOWN)",
    "the two runs share the Go toolchain, the machine and the build: nondeterminism that needs different hardware / compilers / OS is out of reach; Go randomises map iteration per process "
    "and per loop, so an order-dependent site is detected only with the probability that the two processes pick different orders at least once in the workload",
    "modelled not verified: Cosmos SDK, CometBFT ABCI semantics, IAVL, protobuf/amino codecs, wasmd, ibc-go",
]
ASSUMPTIONS = [
    "map keys are modelled as integers (any finite set of Go strings / addresses / ids embeds order-isomorphically); a Go map has distinct keys (NoDup premises)",
    "blocks are executed through FinalizeBlock + Commit with the transactions built against the state committed before the block; CheckTx / mempool / proposal handlers are not exercised",
    "export at a block boundary (after Commit), import with InitialHeight = exported height, same chain id and block time",
]
TECHNIQUE = ("Coq proofs of permutation invariance for Gallina models of the map-iteration sites + a generated, totality-checked site inventory; Coq proofs of export/import round trip for two "
             "modelled module states; differential execution of the real application in two fresh processes and across export/import, oracle = equality")
LEVEL_TEXT = ("Proof, PARTIAL: machine-checked (Coq 8.16.1, axiom-free) order-independence of the modelled map-iteration sites with a totality check against the inventory regenerated from the "
              "sources, and export/import round trip for the modelled epochs and keyed-records module states. Schedules, real map-iteration randomness, wall clock and all un-modelled "
              "modules are covered by executing generated multi-module workloads on the real application in two fresh processes and across export -> InitChain -> replay, with equality as the oracle.")
LEVEL_NOTE = ("Trusted: Coq kernel (vm_compute, no native_compute), no axioms; the hand-written site and module models; the scanner's syntactic effect classes; the Go driver and python comparison. "
              "Dynamic determinism evidence is probabilistic in the map orders the Go runtime happens to choose.")
