#!/bin/bash
# usage: goal.sh <file.v> <line>  : show the proof state after the first <line> lines
f=$1; n=$2
( head -n "$n" "$f"; echo; echo "Show."; ) | (cd /verif/coq && coqtop -Q theories Osmo -w -notation-overridden 2>&1) | tail -n ${3:-40}
