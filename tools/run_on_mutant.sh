#!/bin/bash
# run_on_mutant.sh <worktree with the seeded change applied> <Cxx> [tier]
# runs a check against a scratch worktree from an isolated copy of /verif (so concurrent work in /verif and /repo is undisturbed)
wt=$1; prop=$2; tier=${3:-quick}
dst=/tmp/vm_$(basename $wt)_$prop
mkdir -p $dst && rsync -a --delete --exclude .git --exclude replays --exclude .build /verif/ $dst/
cd $dst && VERIF_REPO=$wt ./check $prop --tier $tier; rc=$?
rm -rf $dst/.build; echo "rc=$rc (copy kept at $dst without build products; remove it when done - disk is limited)"
