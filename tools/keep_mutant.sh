#!/bin/bash
# keep_mutant.sh <id> "<what I ran / confirmed>" : copy a confirmed seeded change into /verif/seeded/<id>/
id=$1; note=$2
mkdir -p /verif/seeded/$id
cp /tmp/mut/$id.out/patch.diff /verif/seeded/$id/patch.diff
cp /tmp/mut/$id.out/demo_test.go.txt /verif/seeded/$id/demo_test.go.txt
python3 - "$id" "$note" <<'P'
import json,sys
id,note=sys.argv[1],sys.argv[2]
m=json.load(open('/tmp/mut/%s.out/meta.json'%id))
m['confirmed_by_lead']=note
m['id']=id
json.dump(m,open('/verif/seeded/%s/meta.json'%id,'w'),indent=1)
P
echo kept $id
