#!/bin/bash
# batch_mutants.sh "<id>:<prop> ..." : run each check against its mutant worktree (isolated copies), sequentially; results in /tmp/mut/res_<id>_<prop>.txt
for pair in $1; do
  id=${pair%%:*}; prop=${pair##*:}
  /verif/tools/run_on_mutant.sh /tmp/mut/$id $prop quick 2>&1 | grep -v "^KNOWN-FINDING\|vanished\|rsync" | cut -c1-400 > /tmp/mut/res_${id}_${prop}.txt
  rm -rf /tmp/vm_${id}_${prop}
done
