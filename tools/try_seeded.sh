#!/bin/bash
# try_seeded.sh <seeded id> <Cxx> [tier] : fresh scratch worktree at /repo HEAD + seeded/<id>/patch.diff, run the check from an
# isolated copy of /verif, clean everything up; result line(s) in /tmp/mut/seedres_<id>_<Cxx>.txt
id=$1; prop=$2; tier=${3:-quick}
wt=/tmp/sw_slot${SLOT:-0}   # fixed path per slot: the Go build cache keys on the source directory
git -C /repo worktree remove --force $wt 2>/dev/null
git -C /repo worktree add -q --detach $wt HEAD || exit 2
git -C $wt apply /verif/seeded/$id/patch.diff || { echo "patch does not apply at HEAD" > /tmp/mut/seedres_${id}_${prop}.txt; git -C /repo worktree remove --force $wt; exit 2; }
dst=/tmp/vm_sw_${id}_$prop
mkdir -p $dst && rsync -a --delete --exclude .git --exclude replays --exclude .build /verif/ $dst/ 2>/dev/null
(cd $dst && VERIF_REPO=$wt timeout 3000 ./check $prop --tier $tier 2>&1 | grep -v "^KNOWN-FINDING" | cut -c1-300 > /tmp/mut/seedres_${id}_${prop}.txt; echo "rc=${PIPESTATUS[0]}" >> /tmp/mut/seedres_${id}_${prop}.txt)
python3 - "$dst" "$id" "$prop" >> /tmp/mut/seedres_${id}_${prop}.txt <<'P'
import json,glob,sys
for f in sorted(glob.glob(sys.argv[1]+'/replays/*.json'))[:1]:
    d=json.load(open(f)); print("replay what:", " ".join(str(d.get('what','')).split())[:400])
P
rm -rf $dst; git -C /repo worktree remove --force $wt
