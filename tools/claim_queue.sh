#!/bin/bash
# claim_queue.sh "C20 C15 ...": run each quick check in /verif sequentially, log to /tmp/claim_<id>.log
for p in $1; do ./check $p --tier quick > /tmp/claim_$p.log 2>&1; echo rc=$? >> /tmp/claim_$p.log; done
