#!/bin/bash
# seed_sweep.sh "<seeds>" : run all claimed quick checks sequentially for each seed; log to /tmp/seed_<seed>_<prop>.log
for s in $1; do for p in $(cat /verif/props/CLAIMED); do VERIF_EVIDENCE_DIR=/tmp/seed_evidence VERIF_SEED=$s ./check $p --tier quick > /tmp/seed_${s}_$p.log 2>&1; echo rc=$? >> /tmp/seed_${s}_$p.log; done; done
