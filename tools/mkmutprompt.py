#!/usr/bin/env python3
import json, sys
pid, wt = sys.argv[1], sys.argv[2]
extra = sys.argv[3] if len(sys.argv) > 3 else ""
props = {json.loads(l)["id"]: json.loads(l) for l in open("/verif/properties.jsonl")}
p = props[pid]
t = open("/verif/tools/mutant_prompt.txt").read()
t = (t.replace("{WT}", wt).replace("{PID}", pid).replace("{TITLE}", p["title"]).replace("{STATEMENT}", p["statement"])
     .replace("{QUANT}", p["quantifier"]["text"]).replace("{FILES}", ", ".join(p["anchors"]["files"])))
if extra:
    t += "\nADDITIONAL CONSTRAINT: " + extra + "\n"
open(wt + ".prompt.txt", "w").write(t)
print(wt + ".prompt.txt")
