#!/usr/bin/env python3
"""Regenerate /verif/MANIFEST.json from props/*.py (claimed properties) and properties.jsonl."""
import importlib
import json
import os
import sys

ROOT = os.path.dirname(os.path.dirname(os.path.abspath(__file__)))
sys.path.insert(0, ROOT)
base = json.load(open("/root/.vp/BASELINE.json"))
props = [json.loads(l) for l in open(os.path.join(ROOT, "properties.jsonl"))]
checks, na = [], []
claimed = set(open(os.path.join(ROOT, "props", "CLAIMED")).read().split())
for p in props:
    pid = p["id"]
    mp = os.path.join(ROOT, "props", pid.lower() + ".py")
    if pid not in claimed or not os.path.exists(mp):
        na.append({"property_id": pid, "reason": "check not built yet in this round (planned in DESIGN.md section 5; the technique applies)"})
        continue
    m = importlib.import_module("props." + pid.lower())
    checks.append({
        "property_id": pid,
        "quick_cmd": "./check %s --tier quick" % pid,
        "thorough_cmd": "./check %s --tier thorough" % pid,
        "evidence_file": "/verif/evidence/%s.json" % pid,
        "replay_cmd_template": "./check %s --replay {path}" % pid,
        "engine": "coq-theories+go-harness",
        "level_claimed": {"category": "proof", "text": m.LEVEL_TEXT, "design_ref": "DESIGN.md section 5, %s" % pid},
        "level_note": m.LEVEL_NOTE,
        "technique": m.TECHNIQUE,
    })
man = {
    "version": 1,
    "setup_cmd": "./check --setup",
    "hooks": {
        "guard": "verif",
        "enable": "go build -tags verif (plus -overlay harness/overlay/overlay.json substituting the emptied client/docs/statik/statik.go when the full app is built); no hook commits in /repo so far",
        "baseline_off_cmd": base["cmd"],
        "source_commits": [],
        "add_only": True,
    },
    "engines": [
        {"name": "coq-theories", "path": "coq/", "serves_properties": [c["property_id"] for c in checks],
         "kind_free_text": "Coq 8.16.1 development: Gallina models, proofs, property theorem files with Print Assumptions"},
        {"name": "go-harness", "path": "harness/", "serves_properties": [c["property_id"] for c in checks],
         "kind_free_text": "Go drivers that run /repo's code (built from the working tree in workspace mode) on generated cases"},
        {"name": "check", "path": "check, lib/, props/", "serves_properties": [c["property_id"] for c in checks],
         "kind_free_text": "python3 driver: translators, case generators, Coq case-file evaluation (vm_compute), oracles, evidence"},
    ],
    "checks": checks,
    "notes": "All checks: theorems over a Gallina model + correspondence of the model's executable definitions with /repo's code on generated cases + independent oracle for failing-input search. See DESIGN.md.",
    "not_applicable": na,
}
json.dump(man, open(os.path.join(ROOT, "MANIFEST.json"), "w"), indent=1)
print("claimed:", [c["property_id"] for c in checks])
