#!/bin/bash
# usage: confirm_mutant.sh <id> <pkgdir relative to worktree> <module dir relative to worktree> <test regex>
# confirms in the scratch worktree /tmp/mut/<id>: patch applies; demo fails with / passes without; pinned suites pass; root builds.
id=$1; pkg=$2; mod=$3; rx=$4
wt=/tmp/mut/$id; out=/tmp/mut/$id.out
export GOFLAGS= GOPROXY=off GOSUMDB=off GOTOOLCHAIN=local
set -u
git -C $wt checkout -q -- . && git -C $wt clean -fdq
git -C $wt apply $out/patch.diff || { echo "APPLY FAILED"; exit 1; }
mkdir -p $wt/$pkg; cp $out/demo_test.go.txt $wt/$pkg/zz_seeded_demo_test.go
relpkg=./${pkg#$mod/}; [ "$pkg" = "$mod" ] && relpkg=.
ov=""; [ "$mod" = "." ] && ov="-overlay $wt.overlay.json"
(cd $wt/$mod && go test $ov -count=1 -vet=off -run "$rx" $relpkg > $out/demo_with.log 2>&1); with=$?
git -C $wt apply -R $out/patch.diff
(cd $wt/$mod && go test $ov -count=1 -vet=off -run "$rx" $relpkg > $out/demo_without.log 2>&1); without=$?
git -C $wt apply $out/patch.diff; rm $wt/$pkg/zz_seeded_demo_test.go
pinned=0
for m in osmomath osmoutils x/epochs; do (cd $wt/$m && go test -count=1 -vet=off ./... > $out/pinned_$(echo $m|tr / _).log 2>&1) || pinned=1; done
(cd $wt && go build -overlay $wt.overlay.json ./x/... ./app/... > $out/build.log 2>&1); build=$?
echo "id=$id demo_with_patch_rc=$with (want !=0) demo_without_patch_rc=$without (want 0) pinned_rc=$pinned (want 0) build_rc=$build (want 0)"
