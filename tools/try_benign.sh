#!/bin/bash
# try_benign.sh <benign id> <Cxx> [tier] : fresh scratch worktree at /repo HEAD + benign/<id>/patch.diff, run the check from an
# isolated copy of /verif, clean everything up; result line(s) in /tmp/mut/benres_<id>_<Cxx>.txt
id=$1; prop=$2; tier=${3:-quick}
wt=/tmp/bnw_${id}_$prop
git -C /repo worktree remove --force $wt 2>/dev/null
git -C /repo worktree add -q --detach $wt HEAD || exit 2
git -C $wt apply /verif/benign/$id/patch.diff || { echo "patch does not apply at HEAD" > /tmp/mut/benres_${id}_${prop}.txt; git -C /repo worktree remove --force $wt; exit 2; }
dst=/tmp/vm_bn_${id}_$prop
mkdir -p $dst && rsync -a --delete --exclude .git --exclude replays --exclude .build /verif/ $dst/ 2>/dev/null
(cd $dst && VERIF_REPO=$wt timeout 3000 ./check $prop --tier $tier 2>&1 | grep -v "^KNOWN-FINDING" | cut -c1-300 > /tmp/mut/benres_${id}_${prop}.txt; echo "rc=${PIPESTATUS[0]}" >> /tmp/mut/benres_${id}_${prop}.txt)
python3 - "$dst" "$id" "$prop" >> /tmp/mut/benres_${id}_${prop}.txt <<'P'
import json,glob,sys
for f in sorted(glob.glob(sys.argv[1]+'/replays/*.json'))[:1]:
    d=json.load(open(f)); print("replay what:", " ".join(str(d.get('what','')).split())[:1500])
P
rm -rf $dst; git -C /repo worktree remove --force $wt
