"""Shared machinery for the /verif checks (see DESIGN.md section 1).

Every check is `./check Cxx --tier quick|thorough`; a property module in props/ supplies the
case generator, the Coq case-file writer, and the oracle.  This file supplies: building the Go
harness against /repo's working tree, building the Coq development (after running the
translators), evaluating case files inside Coq, known-findings matching, replay files, evidence.
"""
import fcntl
import hashlib
import json
import os
import re
import subprocess
import sys
import time

ROOT = os.path.dirname(os.path.dirname(os.path.abspath(__file__)))
REPO = os.environ.get("VERIF_REPO", "/repo")
LOCKDIR = os.path.join(ROOT, ".build")
# build products that depend on which repository tree is being checked live in a per-tree directory, so a run
# against a scratch copy (VERIF_REPO=...) never rewrites the go.work / binaries used by runs against /repo
BUILD = LOCKDIR if REPO == "/repo" else os.path.join(LOCKDIR, "alt-" + hashlib.sha256(REPO.encode()).hexdigest()[:10])
COQ = os.path.join(ROOT, "coq")
HARNESS = os.path.join(ROOT, "harness")
EVID = os.environ.get("VERIF_EVIDENCE_DIR") or os.path.join(ROOT, "evidence")   # sweeps over other seeds write elsewhere
REPLAYS = os.path.join(ROOT, "replays")
NPROC = os.cpu_count() or 4

KERNEL_TB = [
    "Coq 8.16.1 kernel (coqc; vm_compute used for Examples and for evaluating the model on harness cases; native_compute not used)",
]


def sh(cmd, timeout=3600, cwd=None, env=None, input=None):
    """run a shell command; returns (rc, combined output)"""
    e = dict(os.environ)
    if env:
        e.update(env)
    try:
        p = subprocess.run(cmd, shell=isinstance(cmd, str), cwd=cwd, env=e, input=input,
                           stdout=subprocess.PIPE, stderr=subprocess.STDOUT, timeout=timeout, text=True)
        return p.returncode, p.stdout
    except subprocess.TimeoutExpired as ex:
        out = ex.stdout or ""
        if isinstance(out, bytes):
            out = out.decode("utf8", "replace")
        return 124, out + "\n[timeout after %ss]" % timeout


class Lock:
    def __init__(self, name):
        os.makedirs(LOCKDIR, exist_ok=True)
        self.path = os.path.join(LOCKDIR, name + ".lock")

    def __enter__(self):
        self.f = open(self.path, "w")
        fcntl.flock(self.f, fcntl.LOCK_EX)
        return self

    def __exit__(self, *a):
        fcntl.flock(self.f, fcntl.LOCK_UN)
        self.f.close()


# ---------------------------------------------------------------------------------------------
# Go side
# ---------------------------------------------------------------------------------------------
def go_env():
    return {
        "GOWORK": os.path.join(BUILD, "go.work"), "GOPROXY": "off", "GOSUMDB": "off",
        "GOTOOLCHAIN": "local", "GOFLAGS": "", "CGO_ENABLED": "1",
    }


def ensure_gowork():
    """regenerate .build/go.work from /repo/go.work (same use set made absolute, same replaces)"""
    os.makedirs(BUILD, exist_ok=True)
    src = open(os.path.join(REPO, "go.work")).read()
    out = []
    for line in src.splitlines():
        m = re.match(r"^\s*use\s+(\S+)\s*$", line)
        if m:
            out.append("use " + os.path.normpath(os.path.join(REPO, m.group(1))))
        else:
            out.append(line)
    out.append("use " + HARNESS)
    txt = "\n".join(out) + "\n"
    p = os.path.join(BUILD, "go.work")
    if not os.path.exists(p) or open(p).read() != txt:
        open(p, "w").write(txt)
    s = os.path.join(REPO, "go.work.sum")
    if os.path.exists(s):
        d = os.path.join(BUILD, "go.work.sum")
        if not os.path.exists(d) or open(d).read() != open(s).read():
            open(d, "w").write(open(s).read())


class BuildError(Exception):
    pass


def go_build(pkg, test=False):
    """build harness/<pkg> against /repo's current working tree with -tags verif; returns the binary path.
    Always invokes the go tool (its own cache makes this incremental), so edits to /repo are picked up."""
    ensure_gowork()
    os.makedirs(os.path.join(BUILD, "bin"), exist_ok=True)
    out = os.path.join(BUILD, "bin", pkg)
    overlay = os.path.join(HARNESS, "overlay", "overlay.json")
    ov = {"Replace": {os.path.join(REPO, "client/docs/statik/statik.go"): os.path.join(HARNESS, "overlay", "statik.go")}}
    statik = os.path.join(REPO, "client/docs/statik/statik.go")
    use_overlay = os.path.exists(statik) and os.path.getsize(statik) == 0
    open(overlay, "w").write(json.dumps(ov))
    ovflag = ("-overlay " + overlay) if use_overlay else ""
    with Lock("go"):
        if test:
            cmd = "go test -c -vet=off -tags verif %s -o %s ./%s" % (ovflag, out, pkg)
        else:
            cmd = "go build -tags verif %s -o %s ./%s" % (ovflag, out, pkg)
        rc, o = sh(cmd, cwd=HARNESS, env=go_env(), timeout=1800)
    if rc != 0:
        raise BuildError("go build of harness/%s failed:\n%s" % (pkg, o[-4000:]))
    return out


def run_driver(binary, cases, args="", timeout=1800, shards=1):
    """feed JSON cases (one per line) to a driver; returns the list of JSON observations (same order)."""
    if shards <= 1 or len(cases) < 2 * shards:
        inp = "".join(json.dumps(c) + "\n" for c in cases)
        p = subprocess.run([binary] + args.split(), input=inp, stdout=subprocess.PIPE, stderr=subprocess.PIPE,
                           text=True, timeout=timeout)
        if p.returncode != 0:
            raise BuildError("driver %s failed rc=%s: %s" % (binary, p.returncode, p.stderr[-3000:]))
        return [json.loads(l) for l in p.stdout.splitlines() if l.startswith('{')]
    chunks = [cases[i::shards] for i in range(shards)]
    procs = []
    for ch in chunks:
        pr = subprocess.Popen([binary] + args.split(), stdin=subprocess.PIPE, stdout=subprocess.PIPE,
                              stderr=subprocess.PIPE, text=True)
        procs.append(pr)
    import threading
    results = [None] * shards

    def work(i):
        inp = "".join(json.dumps(c) + "\n" for c in chunks[i])
        o, e = procs[i].communicate(inp, timeout=timeout)
        if procs[i].returncode != 0:
            results[i] = BuildError("driver shard failed: " + e[-2000:])
        else:
            results[i] = [json.loads(l) for l in o.splitlines() if l.startswith('{')]
    ths = [threading.Thread(target=work, args=(i,)) for i in range(shards)]
    [t.start() for t in ths]
    [t.join() for t in ths]
    for r in results:
        if isinstance(r, Exception):
            raise r
    out = [None] * len(cases)
    for i in range(shards):
        for j, r in enumerate(results[i]):
            out[i + j * shards] = r
    return out


# ---------------------------------------------------------------------------------------------
# Coq side
# ---------------------------------------------------------------------------------------------
FORBIDDEN = re.compile(r"\b(Admitted|admit|Axiom|Axioms|Parameter|Parameters|Conjecture|Conjectures|Hypothesis|Hypotheses|Variable|Variables)\b|Unset\s+Guard|bypass_check|type-in-type|impredicative-set|Admit\s+Obligations|native_compute")


def coq_gate():
    """textual gate: no Admitted/admit/Axiom/..., and Variable/Hypothesis only inside a Section"""
    bad = []
    for dp, _, fs in os.walk(os.path.join(COQ, "theories")):
        for f in fs:
            if not f.endswith(".v"):
                continue
            p = os.path.join(dp, f)
            txt = open(p).read()
            txt_nc = re.sub(r"\(\*.*?\*\)", lambda m: " " * len(m.group(0)), txt, flags=re.S)
            depth = 0
            for ln, line in enumerate(txt_nc.splitlines(), 1):
                if re.match(r"\s*Section\s", line):
                    depth += 1
                if re.match(r"\s*End\s", line) and depth > 0:
                    depth -= 1
                for m in FORBIDDEN.finditer(line):
                    w = m.group(0)
                    if w.split()[0] in ("Variable", "Variables", "Hypothesis", "Hypotheses") and depth > 0:
                        continue
                    bad.append("%s:%d: %s" % (os.path.relpath(p, ROOT), ln, w))
    return bad


def coq_files():
    fs = []
    for dp, _, files in os.walk(os.path.join(COQ, "theories")):
        for f in files:
            if f.endswith(".v"):
                fs.append(os.path.relpath(os.path.join(dp, f), COQ))
    return sorted(fs)


_translators = []


def register_translator(fn):
    _translators.append(fn)


def write_if_changed(path, txt):
    os.makedirs(os.path.dirname(path), exist_ok=True)
    if os.path.exists(path) and open(path).read() == txt:
        return False
    open(path, "w").write(txt)
    return True


def coq_make(target=None, timeout=3000):
    """(re)generate Gen/*.v from /repo via the translators, then make the .vo files (full build, no -vos).
    target: a .vo path relative to coq/ (with its dependency cone), or None for everything.
    returns (ok, log)"""
    xlog = ""
    try:
        from lib import xlate
        xlog = xlate.run_all()
    except Exception as ex:  # translator failure = the source no longer has the shape the model assumes
        return False, "translator failed: %r" % (ex,)
    # fast path without the global lock: nothing to rebuild for this target
    files0 = coq_files()
    stamp0 = os.path.join(LOCKDIR, "coqfiles.txt")
    if target and os.path.exists(os.path.join(COQ, "Makefile")) and os.path.exists(stamp0) \
            and open(stamp0).read() == "\n".join(files0):
        rc, o = sh("make -q %s" % target, cwd=COQ, timeout=600)
        if rc == 0:
            return True, xlog + "up to date\n"
    with Lock("coq"):
        files = coq_files()
        mk = os.path.join(COQ, "Makefile")
        listing = "\n".join(files)
        stamp = os.path.join(LOCKDIR, "coqfiles.txt")
        if not os.path.exists(mk) or not os.path.exists(stamp) or open(stamp).read() != listing:
            rc, o = sh("coq_makefile -f _CoqProject %s -o Makefile" % " ".join(files), cwd=COQ)
            if rc != 0:
                return False, o
            os.makedirs(LOCKDIR, exist_ok=True)
            open(stamp, "w").write(listing)
        tgt = target if target else ""
        rc, o = sh("make -j%d %s" % (NPROC, tgt), cwd=COQ, timeout=timeout)
        return rc == 0, xlog + o


def coq_cone(vfile):
    """the .v files (relative to coq/) that vfile transitively depends on, itself included"""
    rc, o = sh("coqdep -f _CoqProject %s" % " ".join(coq_files()), cwd=COQ)
    deps = {}
    for line in o.splitlines():
        if ":" not in line:
            continue
        l, r = line.split(":", 1)
        tg = [x for x in l.split() if x.endswith(".vo")]
        ds = [x[:-1] for x in r.split() if x.endswith(".vo")]
        for t in tg:
            deps[t[:-1]] = ds
    seen = set()
    st = [vfile]
    while st:
        x = st.pop()
        if x in seen:
            continue
        seen.add(x)
        st.extend(deps.get(x, []))
    return sorted(seen)


def count_obligations(files):
    n = 0
    names = []
    for f in files:
        txt = open(os.path.join(COQ, f)).read()
        txt = re.sub(r"\(\*.*?\*\)", "", txt, flags=re.S)
        for m in re.finditer(r"^\s*(Theorem|Lemma|Corollary|Example|Proposition|Fact|Remark)\s+([A-Za-z0-9_']+)", txt, flags=re.M):
            n += 1
            names.append(f + ":" + m.group(2))
    return n, names


def print_assumptions(prop):
    """recompile Properties/<prop>.v alone and parse its Print Assumptions output -> (theorems, axioms)"""
    rc, o = sh("coqc -Q theories Osmo -w -notation-overridden theories/Properties/%s.v" % prop, cwd=COQ, timeout=1200)
    axioms = set()
    closed = o.count("Closed under the global context")
    cur = False
    for line in o.splitlines():
        if line.startswith("Axioms:"):
            cur = True
            continue
        if cur:
            m = re.match(r"^([A-Za-z_][A-Za-z0-9_.']*)\s*(:|$)", line)
            if m:
                axioms.add(m.group(1))
            elif line.strip() == "" or not line.startswith(" "):
                if not re.match(r"^\s", line):
                    cur = False
    return rc == 0, closed, sorted(axioms), o


def coq_eval(name, vtext, timeout=1800):
    """compile a generated case file in .build/cases and return coqc's output"""
    d = os.path.join(BUILD, "cases")
    os.makedirs(d, exist_ok=True)
    if not name.endswith("_p%d" % os.getpid()):
        name = "%s_p%d" % (name, os.getpid())   # two runs of one property at the same time must not share case files
    p = os.path.join(d, name + ".v")
    open(p, "w").write(vtext)
    for attempt in range(3):
        rc, o = sh("coqc -Q %s Osmo -w -notation-overridden %s" % (os.path.join(COQ, "theories"), p), cwd=d, timeout=timeout)
        if rc in (0, 1):  # anything else (killed by the OOM killer, signal) is retried: not a verdict about the model
            break
        time.sleep(5 * (attempt + 1))
    for ext in ((".vo", ".vok", ".vos", ".glob") if os.environ.get("VERIF_KEEP_CASES") else (".vo", ".vok", ".vos", ".glob", ".v")):
        try:
            os.remove(os.path.join(d, name + ext))
        except OSError:
            pass
    return rc, o


def coq_eval_many(items, timeout=1800):
    """items: list of (name, vtext); evaluated in parallel -> list of (rc, out)"""
    import concurrent.futures as cf
    with cf.ThreadPoolExecutor(max_workers=NPROC) as ex:
        futs = [ex.submit(coq_eval, n, v, timeout) for n, v in items]
        return [f.result() for f in futs]


def parse_nat_list(out, ident="M"):
    """parse `M = [a; b; c]%nat : list nat` style output -> list of ints, or None if not found"""
    m = re.search(r"%s\s*=\s*(\[[^\]]*\]|nil)" % ident, out.replace("\n", " "))
    if not m:
        return None
    body = m.group(1)
    if body == "nil":
        return []
    return [int(x) for x in re.findall(r"-?\d+", body)]


def zlit(n):
    """Coq Z literal; large values in hex: Coq 8.16 elaborates decimal numerals digit by digit (quadratic)"""
    n = int(n)
    if -10**9 < n < 10**9:
        return "(%d)" % n if n < 0 else "%d" % n
    return "(-0x%x)" % (-n) if n < 0 else "0x%x" % n


def zlist(xs):
    return "[" + "; ".join(zlit(int(x)) for x in xs) + "]"


# ---------------------------------------------------------------------------------------------
# PRNG (splitmix64) - every random choice of a run derives from VERIF_SEED
# ---------------------------------------------------------------------------------------------
class Rng:
    def __init__(self, seed):
        self.s = (seed * 0x9E3779B97F4A7C15 + 0x1234567) & 0xFFFFFFFFFFFFFFFF

    def next(self):
        self.s = (self.s + 0x9E3779B97F4A7C15) & 0xFFFFFFFFFFFFFFFF
        z = self.s
        z = ((z ^ (z >> 30)) * 0xBF58476D1CE4E5B9) & 0xFFFFFFFFFFFFFFFF
        z = ((z ^ (z >> 27)) * 0x94D049BB133111EB) & 0xFFFFFFFFFFFFFFFF
        return z ^ (z >> 31)

    def below(self, n):
        if n <= 0:
            return 0
        if n < (1 << 60):
            return self.next() % n
        bits = n.bit_length() + 64
        v = 0
        while bits > 0:
            v = (v << 64) | self.next()
            bits -= 64
        return v % n

    def range(self, lo, hi):
        return lo + self.below(hi - lo + 1)

    def choice(self, xs):
        return xs[self.below(len(xs))]

    def chance(self, num, den):
        return self.below(den) < num

    def fork(self, tag):
        return Rng(self.next() ^ (hash_tag(tag)))


def hash_tag(t):
    return int(hashlib.sha256(str(t).encode()).hexdigest()[:16], 16)


# ---------------------------------------------------------------------------------------------
# known findings, replays, evidence
# ---------------------------------------------------------------------------------------------
def load_findings(prop):
    p = os.path.join(ROOT, "known_findings.json")
    if not os.path.exists(p):
        return []
    return [f for f in json.load(open(p)) if f.get("property") == prop and f.get("status") == "open"]


def match_finding(findings, rec):
    """rec: dict describing one violation; a finding matches iff every key of its `match` equals rec's"""
    for f in findings:
        if all(str(rec.get(k)) == str(v) for k, v in f.get("match", {}).items()):
            return f
    return None


def load_corpus(prop):
    """minimised past disagreements, run first"""
    d = os.path.join(ROOT, "corpus", prop)
    out = []
    if os.path.isdir(d):
        for f in sorted(os.listdir(d)):
            if f.endswith(".json"):
                out.append(json.load(open(os.path.join(d, f))))
    return out


def write_replay(prop, seed, header, body):
    os.makedirs(REPLAYS, exist_ok=True)
    n = 0
    while True:
        p = os.path.join(REPLAYS, "%s-%s-%d.json" % (prop, seed, n))
        if not os.path.exists(p):
            break
        n += 1
    json.dump({"property": prop, "seed": seed, "what": header, "case": body}, open(p, "w"), indent=1)
    return p


def write_evidence(prop, tier, seed, coverage, assumptions, wall, violations):
    os.makedirs(EVID, exist_ok=True)
    ev = {"property_id": prop, "tier": tier, "seed": seed, "level": "proof", "coverage": coverage,
          "assumptions": assumptions, "wall_s": round(wall, 2), "violations": violations}
    json.dump(ev, open(os.path.join(EVID, prop + ".json"), "w"), indent=1)


class Outcome:
    """what a property module returns from correspond()"""

    def __init__(self):
        self.evaluations = 0            # cases run through implementation (and model)
        self.nontrivial = set()         # canonical keys of distinct non-trivial cases
        self.rule = ""
        self.samples = []
        self.distribution = {}
        self.mismatches = []            # list of dict(case=..., impl=..., model=..., what=...)
        self.oracle_violations = []     # list of dict(rec=<matchable record>, case=..., what=...)
        self.model_ran = True
        self.notes = []
        self.traces = 0


def standard_check(prop, tier, seed, mod):
    """the pipeline of DESIGN.md 1.1 for one property"""
    t0 = time.time()
    from lib import xlate
    xlate.CURRENT["prop"] = prop
    findings = load_findings(prop)
    # 1+2: translate + prove
    gate = coq_gate()
    pfile = "theories/Properties/%s.v" % prop
    model_files = getattr(mod, "MODEL_VO", [])
    extra = list(getattr(mod, "EXTRA_VO", [])) if tier == "thorough" else []
    ok, log = coq_make(" ".join([pfile + "o"] + model_files + extra))
    proof_ok = ok and not gate
    theorem_fail = None
    if not ok:
        m = re.search(r'File "\./([^"]+)", line (\d+)', log)
        if m:
            theorem_fail = m.group(1) + ":" + m.group(2)
        elif log.startswith("translator failed"):
            theorem_fail = " ".join(log.split())[:400]  # the source no longer has the shape the model was written against
        else:
            theorem_fail = "coq build"
        errtxt = log[-1500:]
    elif gate:
        theorem_fail = "forbidden construct: " + "; ".join(gate[:5])
        errtxt = theorem_fail
    cone = coq_cone(pfile)
    nobl, names = count_obligations(cone)
    axioms, closed = [], 0
    if proof_ok:
        pa_ok, closed, axioms, pa_out = print_assumptions(prop)
        allowed = getattr(mod, "ALLOWED_AXIOMS", [])
        extra = [a for a in axioms if not any(a.startswith(x) or a == x for x in allowed)]
        if extra:
            proof_ok = False
            theorem_fail = "unexpected axioms: " + ", ".join(extra)
            errtxt = theorem_fail
    coqchk_note = None
    if proof_ok and tier == "thorough" and not os.environ.get("VERIF_NO_COQCHK"):
        with Lock("coqchk"):
            admit = "".join(" -admit %s" % a for a in getattr(mod, "COQCHK_ADMIT", []))
            rc, o = sh("coqchk -silent -o%s -Q theories Osmo Osmo.Properties.%s" % (admit, prop), cwd=COQ, timeout=3000)
        m = re.search(r"\* Axioms:(.*?)\* Constants/Inductives relying on type-in-type:(.*?)\* Constants/Inductives relying on unsafe \(co\)fixpoints:(.*?)\* Inductives whose positivity is assumed:(.*)", o, flags=re.S)
        if rc != 0 or not m:
            proof_ok = False
            theorem_fail = "coqchk failed on Properties/%s.vo" % prop
            errtxt = o[-1500:]
        else:
            ax = " ".join(m.group(1).split())
            bad = [" ".join(g.split()) for g in (m.group(2), m.group(3), m.group(4))]
            coqchk_note = "coqchk -o: axioms of all loaded libraries: %s; type-in-type: %s; unsafe fixpoints: %s; assumed positivity: %s" % (ax, bad[0], bad[1], bad[2])
            if admit:
                coqchk_note += "; installed library modules taken as already checked (coqchk%s): re-checking them without the VM takes hours" % admit
            if any(b != "<none>" for b in bad):
                proof_ok = False
                theorem_fail = "coqchk reports disabled kernel checks: " + coqchk_note
                errtxt = theorem_fail
    # model usable even if a proof broke?
    model_ok = True
    if not ok:
        mok, mlog = coq_make(" ".join(model_files)) if model_files else (False, "")
        model_ok = mok
    # 3-5: build impl, correspondence, oracle
    out = mod.correspond(tier, seed, model_ok)
    viol = 0
    known_seen = []
    lines = []
    real = []
    for v in out.oracle_violations:
        f = match_finding(findings, v.get("rec", {}))
        if f:
            if f["id"] not in [k["id"] for k in known_seen]:
                known_seen.append(f)
        else:
            real.append(v)
    for f in known_seen:
        lines.append("KNOWN-FINDING: property=%s %s" % (prop, f["what"]))
    if real:
        v = real[0]
        rp = write_replay(prop, seed, "oracle: " + v.get("what", ""), v)
        lines.append("VIOLATION property=%s replay=%s" % (prop, rp))
        viol = len(real)
    elif out.mismatches or not proof_ok:
        # proof obligation or correspondence broke and the oracle saw nothing: targeted search
        found = None
        if hasattr(mod, "search"):
            found = mod.search(tier, seed, out)
            if found:
                f = match_finding(findings, found.get("rec", {}))
                if f:
                    found = None
        if found:
            rp = write_replay(prop, seed, "oracle (targeted search): " + found.get("what", ""), found)
            lines.append("VIOLATION property=%s replay=%s" % (prop, rp))
            viol = 1
        else:
            if out.mismatches:
                mm = out.mismatches[0]
                rp = write_replay(prop, seed, "correspondence broken: model and implementation disagree (%s); %d disagreeing case(s); no input violating the property's own predicates was found"
                                  % (mm.get("what", ""), len(out.mismatches)), mm)
            else:
                rp = write_replay(prop, seed, "proof obligation no longer checks: %s" % theorem_fail, {"theorem": theorem_fail, "log": errtxt})
            lines.append("VIOLATION property=%s replay=%s no-failing-input-found" % (prop, rp))
            viol = max(1, len(out.mismatches))
    wall = time.time() - t0
    tb = list(KERNEL_TB)
    tb.append("axioms reported by Print Assumptions for Properties/%s.v: %s" % (prop, ", ".join(axioms) if axioms else "none (all %d theorems closed under the global context)" % closed))
    if coqchk_note:
        tb.append(coqchk_note)
    tb += getattr(mod, "TRUSTED", [])
    cov = {
        "obligations": nobl, "discharged": nobl if proof_ok else 0,
        "checker_cmd": "cd /verif/coq && make -j%d %so  (coq_makefile project, full .vo build; then coqc Properties/%s.v for Print Assumptions)" % (NPROC, pfile, prop),
        "trusted_base": tb,
        "evaluations": out.evaluations, "distinct_nontrivial": len(out.nontrivial), "rule": out.rule,
        "samples": out.samples[:5], "input_distribution": out.distribution,
        "traces_validated_against_impl": out.traces or out.evaluations,
        "disagreements": len(out.mismatches), "known_findings_seen": [f["id"] for f in known_seen],
        "theorems": [n for n in names if n.startswith("theories/Properties/")],
        "proved_scope": getattr(mod, "SCOPE", ""),
        "explanation": getattr(mod, "EXPLANATION", ""),
        "notes": out.notes,
    }
    write_evidence(prop, tier, seed, cov, getattr(mod, "ASSUMPTIONS", []), wall, viol)
    for l in lines:
        print(l)
    print("%s %s: %d obligations %s; %d cases (%d distinct non-trivial), %d disagreements, %d oracle violations, %.1fs"
          % (prop, tier, nobl, "discharged" if proof_ok else "NOT discharged (%s)" % theorem_fail, out.evaluations,
             len(out.nontrivial), len(out.mismatches), len(real), wall))
    return 1 if viol else 0
