"""Translators: regenerate coq/theories/Gen/*.v from /repo's current sources on every run.
Each property module may contribute a function in TRANSLATORS returning {relative .v path: text}."""
import importlib
import os

from lib import common

MODULES = []  # filled lazily from props/*.py that define `translate()`


def discover():
    mods = []
    pdir = os.path.join(common.ROOT, "props")
    for f in sorted(os.listdir(pdir)):
        if f.endswith(".py") and not f.startswith("_"):
            m = importlib.import_module("props." + f[:-3])
            if hasattr(m, "translate"):
                mods.append(m)
    return mods


def run_all():
    log = ""
    for m in discover():
        files = m.translate()
        for rel, txt in files.items():
            p = os.path.join(common.COQ, "theories", rel)
            if common.write_if_changed(p, txt):
                log += "xlate: regenerated %s\n" % rel
    return log
