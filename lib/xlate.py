"""Translators: regenerate coq/theories/Gen/*.v from /repo's current sources on every run.
Each property module may contribute a function in TRANSLATORS returning {relative .v path: text}."""
import importlib
import os

from lib import common

MODULES = []
CURRENT = {}  # set by standard_check: the property being checked  # filled lazily from props/*.py that define `translate()`


def discover():
    mods = []
    pdir = os.path.join(common.ROOT, "props")
    try:
        claimed = set(open(os.path.join(pdir, "CLAIMED")).read().split())
    except OSError:
        claimed = set()
    for f in sorted(os.listdir(pdir)):
        if f.endswith(".py") and not f.startswith("_"):
            try:
                m = importlib.import_module("props." + f[:-3])
            except Exception:
                # a module still under construction must not break the claimed checks
                if f[:-3].upper() in claimed:
                    raise
                continue
            if hasattr(m, "translate"):
                mods.append((f[:-3].upper(), m))
    return mods


def run_all():
    log = ""
    only = os.environ.get("VERIF_XLATE_ONLY")
    try:
        claimed = set(open(os.path.join(common.ROOT, "props", "CLAIMED")).read().split())
    except OSError:
        claimed = set()
    for pid, m in discover():
        if only and pid != only:
            continue
        try:
            files = m.translate()
        except Exception as ex:
            # a translator that no longer recognises the source only concerns its own property:
            # it fails that property's check (below) and must not disturb the others
            cur = CURRENT.get("prop")
            if pid == cur or (cur is None and pid in claimed and not os.environ.get("VERIF_XLATE_TOLERANT")):
                raise
            log += "xlate: translator of %s failed (%r) - ignored for %s\n" % (pid, ex, cur)
            continue
        for rel, txt in files.items():
            p = os.path.join(common.COQ, "theories", rel)
            if common.write_if_changed(p, txt):
                log += "xlate: regenerated %s\n" % rel
    return log
