(* C09: an epoch end can only fail through the injected value lookup (finding C09-F3 is the ONLY way):
   if no min-value quote returns an error, AfterEpochEnd succeeds in every reachable state. *)
From Coq Require Import ZArith List Bool Lia.
Import ListNotations.
From Osmo Require Import Gen.C09_consts C09.Model C09.Spec C09.ProofsCoins C09.ProofsDistr C09.ProofsLoop C09.ProofsInv C09.ProofsLife.
Open Scope Z_scope.

(* ------------------------------------------------------------------ per-key view of the reference lists *)
Lemma refs_get_set : forall r k l k', refs_sorted r ->
  refs_get (refs_set r k l) k' = if k =? k' then l else refs_get r k'.
Proof.
  induction r as [|[k0 l0] t IH]; intros k l k' H; cbn [refs_set refs_get].
  - reflexivity.
  - inversion H; subst. destruct (k <? k0) eqn:E1.
    + cbn [refs_get]. reflexivity.
    + apply Z.ltb_ge in E1. destruct (k =? k0) eqn:E2.
      * apply Z.eqb_eq in E2; subst. cbn [refs_get]. destruct (k0 =? k'); reflexivity.
      * apply Z.eqb_neq in E2. cbn [refs_get]. rewrite IH by auto.
        destruct (k0 =? k') eqn:E3; [|reflexivity]. apply Z.eqb_eq in E3; subst.
        destruct (k =? k') eqn:E4; [apply Z.eqb_eq in E4; lia|reflexivity].
Qed.

Lemma refs_get_delkey : forall r k k', refs_get (refs_delkey r k) k' = if k =? k' then [] else refs_get r k'.
Proof.
  unfold refs_delkey. induction r as [|[k0 l0] t IH]; intros k k'; cbn [filter fst refs_get].
  - destruct (k =? k'); reflexivity.
  - destruct (k0 =? k) eqn:E; cbn [negb refs_get].
    + apply Z.eqb_eq in E; subst. rewrite IH. destruct (k =? k'); reflexivity.
    + rewrite IH. destruct (k0 =? k') eqn:E2; [|reflexivity]. apply Z.eqb_eq in E2; subst.
      destruct (k =? k') eqn:E3; [apply Z.eqb_eq in E3; subst; rewrite Z.eqb_refl in E; discriminate|reflexivity].
Qed.

Lemma add_ref_get : forall r k id r', refs_sorted r -> add_ref r k id = Some r' ->
  forall k' x, cnt (refs_get r' k') x = cnt (refs_get r k') x + (if (k =? k') && (id =? x) then 1 else 0).
Proof.
  unfold add_ref. intros r k id r' Hs H k' x.
  destruct (find_index (refs_get r k) id 0); [discriminate|]. inversion H; subst.
  rewrite refs_get_set by auto. destruct (k =? k') eqn:E; cbn [andb]; [|lia].
  apply Z.eqb_eq in E; subst. rewrite cnt_app. cbn [cnt]. lia.
Qed.

Lemma del_ref_get : forall r k id r', refs_sorted r -> del_ref r k id = Some r' ->
  forall k' x, cnt (refs_get r' k') x = cnt (refs_get r k') x - (if (k =? k') && (id =? x) then 1 else 0).
Proof.
  unfold del_ref. intros r k id r' Hs H k' x.
  destruct (remove_value (refs_get r k) id) as [l|] eqn:R; [|discriminate].
  pose proof (remove_value_cnt _ _ _ R x) as C.
  destruct l as [|z l]; inversion H; subst.
  - rewrite refs_get_delkey. destruct (k =? k') eqn:E; cbn [andb cnt]; [|lia]. apply Z.eqb_eq in E; subst. cbn [cnt] in C. lia.
  - rewrite refs_get_set by auto. destruct (k =? k') eqn:E; cbn [andb]; [|lia]. apply Z.eqb_eq in E; subst. lia.
Qed.

Lemma add_ref_succeeds : forall r k id, cnt (refs_get r k) id = 0 -> exists r', add_ref r k id = Some r'.
Proof. unfold add_ref. intros r k id H. apply find_index_none with (i := 0%nat) in H. rewrite H. eauto. Qed.

Lemma del_ref_succeeds : forall r k id, 0 < cnt (refs_get r k) id -> exists r', del_ref r k id = Some r'.
Proof.
  unfold del_ref, remove_value. intros r k id H.
  destruct (find_index (refs_get r k) id 0) eqn:F.
  - destruct (firstn _ _); eauto.
  - apply find_index_none in F. lia.
Qed.

(* ------------------------------------------------------------------ second invariant: keys and receivers *)
Definition key_ok (store : list gauge) (r : refs) : Prop :=
  forall k id, 0 < cnt (refs_get r k) id -> exists g, get_gauge store id = Some g /\ g_start g = k.
Definition recv_ok (tbl : list lock) : Prop := Forall (fun l => receiver l <> MODULE) tbl.

Record Inv2 (s : state) : Prop := mkInv2 {
  J_up : key_ok (s_gauges s) (s_up s);
  J_act : key_ok (s_gauges s) (s_act s);
  J_fin : key_ok (s_gauges s) (s_fin s);
  J_recv : recv_ok (s_locks s);
  J_own : Forall (fun l => 0 <= l_owner l) (s_locks s) }.

Lemma key_ok_add : forall store r k id r' g, refs_sorted r -> key_ok store r -> add_ref r k id = Some r' ->
  get_gauge store id = Some g -> g_start g = k -> key_ok store r'.
Proof.
  intros store r k id r' g Hs Hk A G E k' x Hc. rewrite (add_ref_get _ _ _ _ Hs A k' x) in Hc.
  destruct ((k =? k') && (id =? x)) eqn:B.
  - apply andb_true_iff in B. destruct B as [B1 B2]. apply Z.eqb_eq in B1. apply Z.eqb_eq in B2. subst. eauto.
  - apply Hk. lia.
Qed.
Lemma key_ok_del : forall store r k id r', refs_sorted r -> key_ok store r -> del_ref r k id = Some r' -> key_ok store r'.
Proof.
  intros store r k id r' Hs Hk D k' x Hc. rewrite (del_ref_get _ _ _ _ Hs D k' x) in Hc. apply Hk.
  destruct ((k =? k') && (id =? x)); lia.
Qed.
Lemma key_ok_store : forall store store' r, key_ok store r ->
  (forall id g, get_gauge store id = Some g -> exists g', get_gauge store' id = Some g' /\ g_start g' = g_start g) ->
  key_ok store' r.
Proof.
  intros store store' r Hk Hst k id Hc. destruct (Hk k id Hc) as (g & G & E).
  destruct (Hst id g G) as (g' & G' & E'). exists g'. split; auto. congruence.
Qed.

Lemma refs_get_in_all : forall r k x, 0 < cnt (refs_get r k) x -> 0 < cnt_all r x.
Proof. intros r k x H. pose proof (refs_get_cnt_le r k x). lia. Qed.

Lemma refs_get_key_in : forall r k x, 0 < cnt (refs_get r k) x -> exists l, In (k, l) r.
Proof.
  induction r as [|[k0 l0] t IH]; intros k x H; cbn [refs_get] in H; [cbn in H; lia|].
  destruct (k0 =? k) eqn:E.
  - apply Z.eqb_eq in E; subst. exists l0. left; auto.
  - destruct (IH _ _ H) as (l & Hl). exists l. right; auto.
Qed.

Lemma cnt_all_key : forall r x, refs_sorted r -> 0 < cnt_all r x -> exists k, 0 < cnt (refs_get r k) x.
Proof.
  induction r as [|[k0 l0] t IH]; intros x Hs H.
  - unfold cnt_all in H; cbn in H; lia.
  - inversion Hs; subst. rewrite cnt_all_cons in H. destruct (Z_lt_le_dec 0 (cnt l0 x)).
    + exists k0. cbn [refs_get]. rewrite Z.eqb_refl. auto.
    + assert (Ht : 0 < cnt_all t x) by (pose proof (cnt_nonneg l0 x); lia).
      destruct (IH x H2 Ht) as (k & Hk). exists k. cbn [refs_get].
      destruct (k0 =? k) eqn:E; auto. apply Z.eqb_eq in E; subst.
      destruct (refs_get_key_in _ _ _ Hk) as (l' & Hl). specialize (H4 _ _ Hl). lia.
Qed.

(* ------------------------------------------------------------------ the set moves succeed *)
Lemma move_upcoming_succeeds : forall now gs up act,
  refs_sorted up -> refs_sorted act -> NoDup (map g_id gs) ->
  (forall g, In g gs -> 0 < cnt (refs_get up (g_start g)) (g_id g)) ->
  (forall g, In g gs -> cnt_all act (g_id g) = 0) ->
  exists up' act', move_upcoming now gs up act = Some (up', act').
Proof.
  induction gs as [|g r IH]; intros up act Su Sa Nd Hu Ha; cbn [move_upcoming]; [eauto|].
  inversion Nd as [|? ? Hni Nd']; subst.
  destruct (negb (now <? g_start g)).
  - destruct (del_ref_succeeds up (g_start g) (g_id g)) as (up1 & D); [apply Hu; left; auto|]. rewrite D.
    destruct (add_ref_succeeds act (g_start g) (g_id g)) as (act1 & A).
    { pose proof (refs_get_cnt_le act (g_start g) (g_id g)). pose proof (cnt_nonneg (refs_get act (g_start g)) (g_id g)).
      rewrite (Ha g) in H by (left; auto). lia. }
    rewrite A. destruct (del_ref_spec _ _ _ _ Su D) as [Su1 _]. destruct (add_ref_spec _ _ _ _ Sa A) as (Sa1 & _ & Ca).
    apply IH; auto.
    + intros g2 Hi. rewrite (del_ref_get _ _ _ _ Su D). assert (g_id g =? g_id g2 = false).
      { apply Z.eqb_neq. intros E. apply Hni. rewrite E. apply in_map; auto. }
      rewrite H, andb_false_r. specialize (Hu g2 (or_intror Hi)). lia.
    + intros g2 Hi. rewrite Ca. assert (g_id g =? g_id g2 = false).
      { apply Z.eqb_neq. intros E. apply Hni. rewrite E. apply in_map; auto. }
      rewrite H. rewrite (Ha g2) by (right; auto). lia.
  - apply IH; auto; intros; [apply Hu|apply Ha]; right; auto.
Qed.

Lemma check_finish_succeeds : forall gs act fin,
  refs_sorted act -> refs_sorted fin -> NoDup (map g_id gs) ->
  (forall g, In g gs -> 0 < cnt (refs_get act (g_start g)) (g_id g)) ->
  (forall g, In g gs -> cnt_all fin (g_id g) = 0) ->
  exists act' fin', check_finish gs act fin = Some (act', fin').
Proof.
  induction gs as [|g r IH]; intros act fin Sa Sf Nd Hu Ha; cbn [check_finish]; [eauto|].
  inversion Nd as [|? ? Hni Nd']; subst.
  destruct (negb (g_perp g) && (g_n g <=? g_filled g + finish_plus)).
  - unfold move_to_finished.
    destruct (del_ref_succeeds act (g_start g) (g_id g)) as (act1 & D); [apply Hu; left; auto|]. rewrite D.
    destruct (add_ref_succeeds fin (g_start g) (g_id g)) as (fin1 & A).
    { pose proof (refs_get_cnt_le fin (g_start g) (g_id g)). pose proof (cnt_nonneg (refs_get fin (g_start g)) (g_id g)).
      rewrite (Ha g) in H by (left; auto). lia. }
    rewrite A. destruct (del_ref_spec _ _ _ _ Sa D) as [Sa1 _]. destruct (add_ref_spec _ _ _ _ Sf A) as (Sf1 & _ & Ca).
    apply IH; auto.
    + intros g2 Hi. rewrite (del_ref_get _ _ _ _ Sa D). assert (g_id g =? g_id g2 = false).
      { apply Z.eqb_neq. intros E. apply Hni. rewrite E. apply in_map; auto. }
      rewrite H, andb_false_r. specialize (Hu g2 (or_intror Hi)). lia.
    + intros g2 Hi. rewrite Ca. assert (g_id g =? g_id g2 = false).
      { apply Z.eqb_neq. intros E. apply Hni. rewrite E. apply in_map; auto. }
      rewrite H. rewrite (Ha g2) by (right; auto). lia.
  - apply IH; auto; intros; [apply Hu|apply Ha]; right; auto.
Qed.

Lemma gauges_of_some : forall store ids, (forall id, In id ids -> get_gauge store id <> None) ->
  exists gs, gauges_of store ids = Some gs.
Proof.
  induction ids as [|id r IH]; intros H; cbn [gauges_of]; [eauto|].
  destruct (get_gauge store id) eqn:G; [|exfalso; apply (H id); [left; auto|auto]].
  destruct IH as (gs & E); [intros; apply H; right; auto|]. rewrite E. eauto.
Qed.

(* ------------------------------------------------------------------ Coins.Sub does not panic on a gauge within budget *)
Lemma sub_coin_succeeds : forall c d a, sorted_coins c -> 0 < a <= amount_of c d -> exists c', sub_coin d a c = Some c'.
Proof.
  induction c as [|[d0 a0] r IH]; intros d a Hs Ha; cbn [sub_coin amount_of] in *; [lia|].
  destruct (d0 =? d) eqn:E.
  - apply Z.eqb_eq in E; subst. rewrite (sorted_amount_tail _ _ _ Hs) in Ha.
    destruct (a0 <? a) eqn:L; [apply Z.ltb_lt in L; lia|]. destruct (a0 =? a); eauto.
  - inversion Hs; subst. destruct (IH d a H1) as (c' & Ec); [lia|]. rewrite Ec. eauto.
Qed.

Lemma coins_sub_succeeds : forall y x, sorted_coins x -> pos_coins x -> sorted_coins y -> pos_coins y ->
  (forall d, amount_of y d <= amount_of x d) -> exists r, coins_sub x y = Some r.
Proof.
  unfold coins_sub. induction y as [|[d0 a0] t IH]; intros x Sx Px Sy Py Le; cbn [fold_left fst snd]; [eauto|].
  inversion Sy as [|? ? ? Sy1 Sy2]; subst. inversion Py as [|? ? Py1 Py2]; subst. cbn in Py1.
  pose proof (sorted_amount_tail _ _ _ Sy) as T0.
  destruct (sub_coin_succeeds x d0 a0 Sx) as (c1 & E1).
  { specialize (Le d0). cbn [amount_of] in Le. rewrite Z.eqb_refl in Le. lia. }
  rewrite E1. apply IH; auto.
  - eapply sub_coin_sorted; eauto.
  - eapply pos_sub_coin; eauto.
  - intros d. rewrite (sub_coin_spec _ _ _ _ E1 d). specialize (Le d). cbn [amount_of] in Le.
    destruct (d0 =? d) eqn:E; [|lia]. apply Z.eqb_eq in E; subst. rewrite T0. lia.
Qed.

(* ------------------------------------------------------------------ the distribution loops succeed *)
Lemma lock_coins_succeeds : forall cfg thr den a remain cache acc, thr_no_error thr ->
  exists dc cache', lock_coins cfg thr den a remain cache acc = Ok (dc, cache').
Proof.
  induction remain as [|[d0 R] r IH]; intros cache acc Ne; cbn [lock_coins]; [eauto|].
  assert (M : exists pay c1, min_check cfg thr cache d0 (Z.quot (a * R) den) = Ok (pay, c1)).
  { unfold min_check. destruct (d0 =? cfg_min_denom cfg); [eauto|]. destruct (vc_get cache d0) as [v|]; [destruct (v =? 0); eauto|].
    destruct (thr d0) eqn:T; eauto. exfalso. apply (Ne d0); auto. }
  destruct M as (pay & c1 & M). rewrite M. apply IH; auto.
Qed.

Lemma locks_loop_succeeds : forall cfg thr den remain ls di cache total, thr_no_error thr ->
  exists di' cache' total', locks_loop cfg thr den remain ls di cache total = Ok (di', cache', total').
Proof.
  induction ls as [|l r IH]; intros di cache total Ne; cbn [locks_loop]; [eauto|].
  destruct (lock_coins_succeeds cfg thr den (l_amt l) remain cache [] Ne) as (dc & c1 & L). rewrite L.
  destruct (is_empty dc); apply IH; auto.
Qed.

Lemma distribute_internal_succeeds : forall cfg thr g ls di cache, thr_no_error thr -> gauge_ok g ->
  remain_epochs g <> 0 -> exists w di' cache', distribute_internal cfg thr g ls di cache = Ok (w, di', cache').
Proof.
  intros cfg thr g ls di cache Ne (Pc & Pd & Le & Sc & Sd) Re. unfold distribute_internal.
  destruct (coins_sub_succeeds _ _ Sc Pc Sd Pd Le) as (remain & E). rewrite E.
  pose proof (remain_epochs_range g) as Rr.
  apply Z.eqb_neq in Re. rewrite Re. apply Z.eqb_neq in Re.
  destruct (g_pool g =? 0) eqn:Pl; cbn [negb]; [|eauto].
  destruct (is_empty ls); [eauto|]. destruct (is_empty remain); [eauto|]. destruct (is_small_gauge cfg remain); [eauto|].
  destruct ((sum_locks ls =? 0) || (2 ^ max_int_bits <=? sum_locks ls)); [eauto|].
  destruct (locks_loop_succeeds cfg thr (sum_locks ls * to_int64 (remain_epochs g)) remain ls di cache [] Ne) as (di1 & c1 & t1 & L).
  rewrite L. eauto.
Qed.

Lemma distribute_loop_succeeds : forall cfg thr tbl gs store lc di cache, thr_no_error thr ->
  Forall (fun g => gauge_ok g /\ remain_epochs g <> 0) gs ->
  exists store' di', distribute_loop cfg thr tbl gs store lc di cache = Ok (store', di').
Proof.
  induction gs as [|g r IH]; intros store lc di cache Ne H; cbn [distribute_loop]; [eauto|].
  inversion H as [|? ? (Hg & Hr) H']; subst. destruct (base_locks tbl g lc) as [ls lc1].
  destruct (distribute_internal_succeeds cfg thr g ls di cache Ne Hg Hr) as (w & di1 & c1 & D). rewrite D. apply IH; auto.
Qed.

(* ------------------------------------------------------------------ the payout succeeds *)
Definition di_good (di : dinfo) : Prop := Forall (fun e => de_recv e <> MODULE /\ pos_coins (de_coins e)) di.

Lemma add_lock_rewards_good : forall di o r c, di_good di -> r <> MODULE -> pos_coins c -> di_good (add_lock_rewards di o r c).
Proof.
  unfold di_good. induction di as [|e t IH]; intros o r c H Hr Hc; cbn [add_lock_rewards].
  - constructor; [cbn; auto|constructor].
  - inversion H as [|? ? [H1 H2] H3]; subst. destruct (de_owner e =? o); constructor; auto.
    cbn. split; auto. apply pos_coins_add; auto. apply pos_nonneg; auto.
Qed.

Lemma locks_loop_good : forall cfg thr den remain ls di cache total di' cache' total',
  Forall (fun l => receiver l <> MODULE) ls -> di_good di ->
  locks_loop cfg thr den remain ls di cache total = Ok (di', cache', total') -> di_good di'.
Proof.
  induction ls as [|l r IH]; intros di cache total di' cache' total' Hr Hg H; cbn [locks_loop] in H.
  - inversion H; subst; auto.
  - inversion Hr; subst. destruct (lock_coins cfg thr den (l_amt l) remain cache []) as [[dc c1]|e] eqn:L; [|discriminate].
    destruct (lock_coins_bound _ _ _ _ _ _ _ _ _ L) as [Pd _]; [constructor|].
    destruct (is_empty dc); [eapply IH; eauto|].
    eapply IH; [eauto| |exact H]. apply add_lock_rewards_good; auto.
Qed.

Lemma distribute_internal_good : forall cfg thr g ls di cache w di' cache',
  Forall (fun l => receiver l <> MODULE) ls -> di_good di ->
  distribute_internal cfg thr g ls di cache = Ok (w, di', cache') -> di_good di'.
Proof.
  intros cfg thr g ls di cache w di' cache' Hr Hg H. unfold distribute_internal in H.
  destruct (coins_sub (g_coins g) (g_dist g)) as [remain|]; [|discriminate].
  destruct (remain_epochs g =? 0); [discriminate|].
  destruct (negb (g_pool g =? 0)) eqn:Pl.
  { apply negb_true_iff, Z.eqb_neq in Pl. inversion H; subst; clear H.
    destruct (is_empty (nolock_coins (remain_epochs g) remain [])); auto. apply add_lock_rewards_good; auto.
    - unfold pool_addr, MODULE. lia.
    - assert (G : forall rm acc, pos_coins acc -> pos_coins (nolock_coins (remain_epochs g) rm acc)).
      { induction rm as [|[d0 R] r IH]; intros acc Pa; cbn [nolock_coins]; auto.
        destruct (Z.quot R (remain_epochs g) <=? 0) eqn:E; [auto|]. apply Z.leb_gt in E.
        apply IH. apply pos_coins_add; auto. constructor; [cbn; lia|constructor]. }
      apply G. constructor. }
  destruct (is_empty ls); [inversion H; subst; auto|]. destruct (is_empty remain); [inversion H; subst; auto|].
  destruct (is_small_gauge cfg remain); [inversion H; subst; auto|].
  destruct ((sum_locks ls =? 0) || (2 ^ max_int_bits <=? sum_locks ls)); [inversion H; subst; auto|].
  destruct (locks_loop cfg thr (sum_locks ls * to_int64 (remain_epochs g)) remain ls di cache []) as [[[di1 c1] total]|e] eqn:LL; [|discriminate].
  inversion H; subst. eapply locks_loop_good; eauto.
Qed.

Lemma distribute_loop_good : forall cfg thr tbl gs store lc di cache store' di',
  recv_ok tbl -> lc_ok tbl lc -> Forall dur_ok gs -> di_good di ->
  distribute_loop cfg thr tbl gs store lc di cache = Ok (store', di') -> di_good di'.
Proof.
  induction gs as [|g r IH]; intros store lc di cache store' di' Hr Hlc Hd Hg H; cbn [distribute_loop] in H.
  - inversion H; subst; auto.
  - destruct (base_locks tbl g lc) as [ls lc1] eqn:B. inversion Hd as [|? ? Hd1 Hd2]; subst.
    destruct (base_locks_spec _ _ _ _ _ Hlc Hd1 B) as [-> Hlc1].
    destruct (distribute_internal cfg thr g (elig tbl g) di cache) as [[[w di1] c1]|e] eqn:D; [|discriminate].
    eapply IH; [exact Hr|exact Hlc1|exact Hd2| |exact H]. eapply distribute_internal_good; [|exact Hg|exact D].
    apply Forall_forall. intros l Hl. unfold recv_ok in Hr. rewrite Forall_forall in Hr. apply Hr.
    unfold elig, qual_locks in Hl. destruct (negb (g_pool g =? 0)); [destruct Hl|]. destruct (is_empty (g_coins g)); [destruct Hl|].
    assert (F : Forall (fun x => In x tbl) (filter (fun l0 => g_dur g <=? l_dur l0) (locks_longer tbl (g_denom g) cache_min_duration_ms))).
    { apply filter_Forall, locks_longer_Forall. apply Forall_forall; auto. }
    rewrite Forall_forall in F. auto.
Qed.

Lemma entry_le_amount : forall c d x, pos_coins c -> In (d, x) c -> x <= amount_of c d.
Proof.
  induction c as [|[d0 a0] r IH]; intros d x Hp Hi; [destruct Hi|]. inversion Hp; subst. cbn in H1. cbn [amount_of].
  pose proof (amount_of_nonneg r d (pos_nonneg _ H2)). destruct Hi as [E|Hi].
  - inversion E; subst. rewrite Z.eqb_refl. lia.
  - specialize (IH _ _ H2 Hi). destruct (d0 =? d); lia.
Qed.

Lemma has_coins_ok : forall b a c, pos_coins c -> (forall d, amount_of c d <= b a d) -> has_coins b a c = true.
Proof.
  intros b a c Hp H. unfold has_coins. apply forallb_forall. intros [d x] Hi. cbn [fst snd]. apply Z.leb_le.
  pose proof (entry_le_amount _ _ _ Hp Hi). specialize (H d). lia.
Qed.

Lemma sends_total_pos : forall di, di_good di -> pos_coins (sends_total di).
Proof.
  unfold sends_total. intros di H. assert (G : forall acc, pos_coins acc -> pos_coins (fold_left (fun a e => coins_add a (de_coins e)) di acc)).
  { induction H as [|e t [_ He] Ht IH]; intros acc Ha; cbn [fold_left]; auto. apply IH. apply pos_coins_add; auto. apply pos_nonneg; auto. }
  apply G. constructor.
Qed.

Lemma do_sends_succeeds : forall b di, di_good di -> (forall d, di_sum di d <= b MODULE d) -> exists b', do_sends b di = Some b'.
Proof.
  intros b di Hg Hb. unfold do_sends.
  assert (X : existsb (fun e => de_recv e =? MODULE) di = false).
  { clear Hb. induction Hg as [|e t [He _] Ht IH]; cbn [existsb]; auto. rewrite IH, orb_false_r. apply Z.eqb_neq; auto. }
  rewrite X. rewrite has_coins_ok; [eauto|apply sends_total_pos; auto|].
  intros d. rewrite sends_total_sum. auto.
Qed.

Lemma sum_rem_nonneg : forall st d, Forall gauge_ok st -> 0 <= sum_rem st d.
Proof.
  induction st as [|g r IH]; intros d H; cbn [sum_rem]; [lia|]. inversion H; subst. specialize (IH d H3).
  destruct H2 as (_ & _ & Le & _). specialize (Le d). unfold rem. lia.
Qed.

(* ------------------------------------------------------------------ keys stay consistent through the set moves *)
Lemma move_upcoming_key : forall store now gs up act up' act',
  refs_sorted up -> refs_sorted act -> (forall g, In g gs -> get_gauge store (g_id g) = Some g) ->
  key_ok store up -> key_ok store act -> move_upcoming now gs up act = Some (up', act') ->
  key_ok store up' /\ key_ok store act'.
Proof.
  induction gs as [|g r IH]; intros up act up' act' Su Sa Hg Ku Ka H; cbn [move_upcoming] in H.
  - inversion H; subst; auto.
  - destruct (negb (now <? g_start g)).
    + destruct (del_ref up (g_start g) (g_id g)) as [up1|] eqn:D; [|discriminate].
      destruct (add_ref act (g_start g) (g_id g)) as [act1|] eqn:A; [|discriminate].
      destruct (del_ref_spec _ _ _ _ Su D) as [Su1 _]. destruct (add_ref_spec _ _ _ _ Sa A) as (Sa1 & _ & _).
      eapply IH; [exact Su1|exact Sa1|intros; apply Hg; right; auto|exact (key_ok_del store up (g_start g) (g_id g) up1 Su Ku D)| |exact H].
      eapply (key_ok_add store act (g_start g) (g_id g) act1 g); [exact Sa|exact Ka|exact A|apply Hg; left; auto|reflexivity].
    + eapply IH; [exact Su|exact Sa|intros; apply Hg; right; auto|exact Ku|exact Ka|exact H].
Qed.

Lemma check_finish_key : forall store gs act fin act' fin',
  refs_sorted act -> refs_sorted fin -> (forall g, In g gs -> get_gauge store (g_id g) = Some g) ->
  key_ok store act -> key_ok store fin -> check_finish gs act fin = Some (act', fin') ->
  key_ok store act' /\ key_ok store fin'.
Proof.
  induction gs as [|g r IH]; intros act fin act' fin' Sa Sf Hg Ka Kf H; cbn [check_finish] in H.
  - inversion H; subst; auto.
  - destruct (negb (g_perp g) && (g_n g <=? g_filled g + finish_plus)).
    + unfold move_to_finished in H.
      destruct (del_ref act (g_start g) (g_id g)) as [act1|] eqn:D; [|discriminate].
      destruct (add_ref fin (g_start g) (g_id g)) as [fin1|] eqn:A; [|discriminate].
      destruct (del_ref_spec _ _ _ _ Sa D) as [Sa1 _]. destruct (add_ref_spec _ _ _ _ Sf A) as (Sf1 & _ & _).
      eapply IH; [exact Sa1|exact Sf1|intros; apply Hg; right; auto|exact (key_ok_del store act (g_start g) (g_id g) act1 Sa Ka D)| |exact H].
      eapply (key_ok_add store fin (g_start g) (g_id g) fin1 g); [exact Sf|exact Kf|exact A|apply Hg; left; auto|reflexivity].
    + eapply IH; [exact Sa|exact Sf|intros; apply Hg; right; auto|exact Ka|exact Kf|exact H].
Qed.

(* ------------------------------------------------------------------ the epoch end succeeds *)
Lemma remain_epochs_nonzero : forall s g, Inv s -> In g (s_gauges s) ->
  0 < cnt_all (s_act s) (g_id g) + cnt_all (s_up s) (g_id g) -> remain_epochs g <> 0.
Proof.
  intros s g I Hs Hc. pose proof (I_fill _ I) as F. rewrite Forall_forall in F. destruct (F g Hs) as (F0 & Fn & _ & Fnp).
  unfold remain_epochs. destruct (g_perp g) eqn:P; [lia|]. destruct (Fnp eq_refl) as (N1 & U0 & A0 & _).
  pose proof (cnt_all_nonneg (s_act s) (g_id g)). pose proof (cnt_all_nonneg (s_up s) (g_id g)).
  assert (Hlt : g_filled g < g_n g).
  { destruct (Z_lt_le_dec 0 (cnt_all (s_act s) (g_id g))); [auto|]. rewrite U0 by lia. lia. }
  rewrite Z.mod_small by lia. lia.
Qed.

Theorem epoch_succeeds : forall cfg thr s, Inv s -> Inv2 s -> thr_no_error thr ->
  exists s', after_epoch_end cfg thr s = Ok s'.
Proof.
  intros cfg thr s I J Ne. unfold after_epoch_end.
  pose proof I as [Ig Id Il Iu Ia If Ip Iids Ind Ilast Iacct Ifill]. destruct J as [Ju Ja Jf Jr Jo].
  assert (Rng : forall x, 0 < cnt_all (s_up s) x + cnt_all (s_act s) x + cnt_all (s_fin s) x -> get_gauge (s_gauges s) x <> None).
  { intros x Hx. apply Iids. specialize (Ip x). destruct (in_range s x); [reflexivity|lia]. }
  assert (NN : forall r x, 0 <= cnt_all r x) by (intros; apply cnt_all_nonneg).
  assert (Le1 : forall x, cnt_all (s_up s) x + cnt_all (s_act s) x + cnt_all (s_fin s) x <= 1).
  { intros x. specialize (Ip x). destruct (in_range s x); lia. }
  (* 1: the upcoming gauges *)
  destruct (gauges_of_some (s_gauges s) (refs_all (s_up s))) as (ups & GU).
  { intros id Hi. apply Rng. apply cnt_all_in in Hi. pose proof (NN (s_act s) id). pose proof (NN (s_fin s) id). lia. }
  rewrite GU. destruct (gauges_of_spec _ _ _ GU) as [Uids Uget].
  assert (NdU : NoDup (map g_id ups)).
  { rewrite Uids. apply cnt_le_one_nodup. intros x. fold (cnt_all (s_up s) x). pose proof (Le1 x). pose proof (NN (s_act s) x). pose proof (NN (s_fin s) x). lia. }
  assert (InUp : forall g, In g ups -> 0 < cnt_all (s_up s) (g_id g)).
  { intros g Hi. apply cnt_all_in. rewrite <- Uids. apply in_map; auto. }
  (* 2: moving them *)
  destruct (move_upcoming_succeeds (s_now s) ups (s_up s) (s_act s) Iu Ia NdU) as (up1 & act1 & MU).
  { intros g Hi. destruct (cnt_all_key _ _ Iu (InUp g Hi)) as (k & Hk). destruct (Ju k _ Hk) as (g0 & G0 & E0).
    rewrite (Uget g Hi) in G0. inversion G0; subst g0. rewrite E0. exact Hk. }
  { intros g Hi. pose proof (InUp g Hi). pose proof (Le1 (g_id g)). pose proof (NN (s_act s) (g_id g)). pose proof (NN (s_fin s) (g_id g)). lia. }
  rewrite MU. destruct (move_upcoming_spec _ _ _ _ _ _ MU Iu Ia) as (Su1 & Sa1 & Cm).
  destruct (move_upcoming_key (s_gauges s) _ _ _ _ _ _ Iu Ia Uget Ju Ja MU) as [Ku1 Ka1].
  assert (MvLe : forall x, moved (s_now s) ups x <= cnt_all (s_up s) x).
  { intros x. pose proof (moved_bounds (s_now s) ups x). rewrite Uids in H. unfold cnt_all. lia. }
  assert (A1pos : forall x, 0 < cnt_all act1 x -> 0 < cnt_all (s_act s) x + cnt_all (s_up s) x).
  { intros x Hx. destruct (Cm x) as [_ E]. rewrite E in Hx. pose proof (MvLe x). lia. }
  (* 3: the active gauges *)
  destruct (gauges_of_some (s_gauges s) (refs_all act1)) as (acts & GA).
  { intros id Hi. apply Rng. apply cnt_all_in in Hi. pose proof (A1pos id Hi). pose proof (NN (s_fin s) id). lia. }
  rewrite GA. destruct (gauges_of_spec _ _ _ GA) as [Aids Aget].
  assert (NdA : NoDup (map g_id acts)).
  { rewrite Aids. apply cnt_le_one_nodup. intros x. fold (cnt_all act1 x). destruct (Cm x) as [_ E]. rewrite E.
    pose proof (MvLe x). pose proof (Le1 x). pose proof (NN (s_fin s) x). lia. }
  assert (InA : forall g, In g acts -> In g (s_gauges s) /\ 0 < cnt_all act1 (g_id g)).
  { intros g Hi. split; [apply (get_gauge_some _ _ _ (Aget g Hi))|]. apply cnt_all_in. rewrite <- Aids. apply in_map; auto. }
  (* 4: the distribution *)
  unfold distribute. cbn [s_locks s_gauges s_bank s_act s_fin s_now s_last_gauge s_up s_last_lock s_routable].
  rewrite Forall_forall in Ig, Id.
  assert (FA : Forall (fun g => gauge_ok g /\ remain_epochs g <> 0) acts).
  { apply Forall_forall. intros g Hi. destruct (InA g Hi) as [Hs Hc]. split; [auto|]. apply (remain_epochs_nonzero s g I Hs). apply A1pos; auto. }
  destruct (distribute_loop_succeeds cfg thr (s_locks s) acts (s_gauges s) [] [] [] Ne FA) as (store' & di & DL). rewrite DL.
  assert (Fok : Forall gauge_ok acts) by (apply Forall_forall; intros g Hi; apply Ig; apply InA; auto).
  assert (Fd : Forall dur_ok acts) by (apply Forall_forall; intros g Hi; apply Id; apply InA; auto).
  assert (Lc0 : lc_ok (s_locks s) []) by (intros d v Hv; discriminate).
  assert (Ig' : Forall gauge_ok (s_gauges s)) by (apply Forall_forall; auto).
  destruct (distribute_loop_spec _ _ _ _ _ _ _ _ _ _ DL Il Lc0 Fok Fd NdA Aget Ig') as (L1 & L2 & _).
  assert (Dg : di_good di) by (eapply distribute_loop_good; eauto; constructor).
  destruct (do_sends_succeeds (s_bank s) di Dg) as (b' & DS).
  { intros d. specialize (L2 d). cbn [di_sum] in L2. pose proof (sum_rem_nonneg store' d L1). rewrite Iacct. lia. }
  rewrite DS.
  (* 5: finishing *)
  destruct (check_finish_succeeds acts act1 (s_fin s) Sa1 If NdA) as (act2 & fin2 & CF).
  { intros g Hi. destruct (InA g Hi) as [Hs Hc]. destruct (cnt_all_key _ _ Sa1 Hc) as (k & Hk). destruct (Ka1 k _ Hk) as (g0 & G0 & E0).
    rewrite (Aget g Hi) in G0. inversion G0; subst g0. rewrite E0. exact Hk. }
  { intros g Hi. destruct (InA g Hi) as [Hs Hc]. pose proof (A1pos _ Hc). pose proof (Le1 (g_id g)). pose proof (NN (s_fin s) (g_id g)). lia. }
  rewrite CF. eauto.
Qed.

(* ------------------------------------------------------------------ the second invariant holds in every reachable state *)
Lemma epoch_inv2 : forall cfg thr s s', Inv s -> Inv2 s -> after_epoch_end cfg thr s = Ok s' -> Inv2 s'.
Proof.
  intros cfg thr s s' I J H. unfold after_epoch_end in H.
  destruct (gauges_of (s_gauges s) (refs_all (s_up s))) as [ups|] eqn:GU; [|discriminate].
  destruct (move_upcoming (s_now s) ups (s_up s) (s_act s)) as [[up1 act1]|] eqn:MU; [|discriminate].
  destruct (gauges_of (s_gauges s) (refs_all act1)) as [acts|] eqn:GA; [|discriminate].
  unfold distribute in H. cbn [s_locks s_gauges s_bank s_act s_fin s_now s_last_gauge s_up s_last_lock s_routable] in H.
  destruct (distribute_loop cfg thr (s_locks s) acts (s_gauges s) [] [] []) as [[store' di]|e] eqn:DL; [|discriminate].
  destruct (do_sends (s_bank s) di) as [b'|]; [|discriminate].
  destruct (check_finish acts act1 (s_fin s)) as [[act2 fin2]|] eqn:CF; [|discriminate].
  inversion H; subst s'; clear H.
  pose proof I as [Ig Id Il Iu Ia If Ip Iids Ind Ilast Iacct Ifill]. destruct J as [Ju Ja Jf Jr Jo].
  destruct (gauges_of_spec _ _ _ GU) as [Uids Uget]. destruct (gauges_of_spec _ _ _ GA) as [Aids Aget].
  destruct (move_upcoming_spec _ _ _ _ _ _ MU Iu Ia) as (Su1 & Sa1 & Cm).
  destruct (move_upcoming_key (s_gauges s) _ _ _ _ _ _ Iu Ia Uget Ju Ja MU) as [Ku1 Ka1].
  destruct (check_finish_key (s_gauges s) _ _ _ _ _ Sa1 If Aget Ka1 Jf CF) as [Ka2 Kf2].
  assert (NdA : NoDup (map g_id acts)).
  { rewrite Aids. apply cnt_le_one_nodup. intros x. fold (cnt_all act1 x). destruct (Cm x) as [E1 E2]. rewrite E2.
    pose proof (cnt_all_nonneg up1 x). pose proof (Ip x). pose proof (cnt_all_nonneg (s_fin s) x). destruct (in_range s x); lia. }
  assert (InA : forall g, In g acts -> In g (s_gauges s)) by (intros g Hi; apply (get_gauge_some _ _ _ (Aget g Hi))).
  rewrite Forall_forall in Ig, Id.
  assert (Fok : Forall gauge_ok acts) by (apply Forall_forall; intros g Hi; apply Ig; auto).
  assert (Fd : Forall dur_ok acts) by (apply Forall_forall; intros g Hi; apply Id; auto).
  assert (Lc0 : lc_ok (s_locks s) []) by (intros d v Hv; discriminate).
  assert (Ig' : Forall gauge_ok (s_gauges s)) by (apply Forall_forall; auto).
  destruct (distribute_loop_spec _ _ _ _ _ _ _ _ _ _ DL Il Lc0 Fok Fd NdA Aget Ig') as (_ & _ & L3 & _ & L5).
  assert (Hst : forall id g, get_gauge (s_gauges s) id = Some g -> exists g', get_gauge store' id = Some g' /\ g_start g' = g_start g).
  { intros id g G. destruct (in_dec Z.eq_dec id (map g_id acts)) as [Hin|Hnin].
    - apply in_map_iff in Hin. destruct Hin as (g2 & E & Hi2). pose proof (Aget g2 Hi2) as G2. rewrite E, G in G2. inversion G2; subst g2.
      destruct (L5 g Hi2) as (di0 & c0 & w & di1 & c1 & D & G'). rewrite E in G'.
      pose proof (distribute_internal_ok _ _ _ _ _ _ _ _ _ (Ig g (InA g Hi2)) (elig_pos _ g Il) D) as OK.
      destruct w as [g'|]; [exists g'; split; auto; apply OK|exists g; auto].
    - exists g. rewrite (L3 id Hnin). auto. }
  constructor; cbn [s_gauges s_up s_act s_fin s_locks]; auto; eapply key_ok_store; eauto.
Qed.

Lemma key_ok_fresh : forall store r g, key_ok store r -> get_gauge store (g_id g) = None -> key_ok (set_gauge store g) r.
Proof.
  intros store r g Hk Hn. eapply key_ok_store; eauto. intros id g0 G. exists g0. split; auto.
  rewrite get_set_gauge. destruct (g_id g =? id) eqn:E; auto. apply Z.eqb_eq in E. congruence.
Qed.

Lemma set_lock_recv : forall tbl l', recv_ok tbl -> receiver l' <> MODULE -> recv_ok (set_lock tbl l').
Proof.
  unfold recv_ok. induction tbl as [|l0 r IH]; intros l' H Hl; cbn [set_lock]; [constructor|].
  inversion H; subst. destruct (l_id l0 =? l_id l'); constructor; auto.
Qed.

Lemma find_lock_recv : forall tbl id l, recv_ok tbl -> find_lock tbl id = Some l -> receiver l <> MODULE.
Proof. intros tbl id l H F. apply find_lock_in in F. unfold recv_ok in H. rewrite Forall_forall in H. auto. Qed.

Lemma with_locks_inv2 : forall s tbl last, Inv2 s -> recv_ok tbl -> Forall (fun l => 0 <= l_owner l) tbl -> Inv2 (with_locks s tbl last).
Proof. intros s tbl last [] H H0. constructor; cbn; auto. Qed.

Lemma set_lock_own : forall tbl l', Forall (fun l => 0 <= l_owner l) tbl -> 0 <= l_owner l' -> Forall (fun l => 0 <= l_owner l) (set_lock tbl l').
Proof.
  induction tbl as [|l0 r IH]; intros l' H Hl; cbn [set_lock]; [constructor|].
  inversion H; subst. destruct (l_id l0 =? l_id l'); constructor; auto.
Qed.
Lemma find_lock_own : forall tbl id l, Forall (fun l => 0 <= l_owner l) tbl -> find_lock tbl id = Some l -> 0 <= l_owner l.
Proof. intros tbl id l H F. apply find_lock_in in F. rewrite Forall_forall in H. auto. Qed.

Lemma handle_inv2 : forall cfg s o s' v, Inv s -> Inv2 s -> handle cfg s o = Ok (s', v) -> Inv2 s'.
Proof.
  intros cfg s o s' v I J H. destruct o; cbn [handle] in H.
  - destruct (negb (valid_raw raw) || (n <? 0) || (two64 <=? n) || (u <? 0)); [discriminate|].
    destruct (create_gauge cfg s u perp denom dur (mk_coins raw) start n) as [s1|] eqn:C; [|discriminate]. inversion H; subst s1 v; clear H.
    unfold create_gauge in C.
    destruct ((n =? 0) && negb perp); [discriminate|]. destruct (negb (distributable cfg s (mk_coins raw))); [discriminate|].
    destruct (negb (mem dur (cfg_lockable cfg))); [discriminate|]. destruct (negb (mem denom (cfg_supplied cfg))); [discriminate|].
    destruct (bank_send (s_bank s) u MODULE (mk_coins raw)); [|discriminate].
    destruct (add_ref (s_up s) start (s_last_gauge s + 1)) as [up|] eqn:A; [|discriminate]. inversion C; subst s'; clear C.
    destruct J as [Ju Ja Jf Jr Jo].
    set (g := mkGauge (s_last_gauge s + 1) perp denom dur (mk_coins raw) [] start n 0 0).
    assert (Or : in_range s (s_last_gauge s + 1) = false) by (unfold in_range; apply andb_false_iff; right; apply Z.leb_gt; lia).
    assert (Gn : get_gauge (s_gauges s) (g_id g) = None).
    { cbn [g_id g]. destruct (get_gauge (s_gauges s) (s_last_gauge s + 1)) eqn:G; auto.
      assert (in_range s (s_last_gauge s + 1) = true) by (apply (I_ids _ I); congruence). congruence. }
    constructor; cbn [s_gauges s_up s_act s_fin s_locks].
    + eapply (key_ok_add (set_gauge (s_gauges s) g) (s_up s) start (s_last_gauge s + 1) up g); [apply (I_up _ I)|apply key_ok_fresh; auto|exact A| |reflexivity].
      rewrite get_set_gauge. cbn [g_id g]. rewrite Z.eqb_refl. reflexivity.
    + apply key_ok_fresh; auto.
    + apply key_ok_fresh; auto.
    + auto.
    + auto.
  - destruct (negb (valid_raw raw) || (u <? 0)); [discriminate|].
    destruct (add_to_gauge cfg s u (mk_coins raw) g) as [s1|] eqn:C; [|discriminate]. inversion H; subst s1 v; clear H.
    unfold add_to_gauge in C. destruct (negb (distributable cfg s (mk_coins raw))); [discriminate|].
    destruct (get_gauge (s_gauges s) g) as [g0|] eqn:G; [|discriminate].
    destruct (is_finished_gauge g0 (s_now s)); [discriminate|].
    destruct (bank_send (s_bank s) u MODULE (mk_coins raw)); [|discriminate]. inversion C; subst s'; clear C.
    destruct J as [Ju Ja Jf Jr Jo]. destruct (get_gauge_some _ _ _ G) as [Eid _].
    assert (Hst : forall id g1, get_gauge (s_gauges s) id = Some g1 -> exists g', get_gauge (set_gauge (s_gauges s)
       (mkGauge (g_id g0) (g_perp g0) (g_denom g0) (g_dur g0) (coins_add (g_coins g0) (mk_coins raw)) (g_dist g0) (g_start g0) (g_n g0) (g_filled g0) (g_pool g0))) id = Some g' /\ g_start g' = g_start g1).
    { intros id g1 G1. rewrite get_set_gauge. cbn [g_id]. destruct (g_id g0 =? id) eqn:E; [|eauto].
      apply Z.eqb_eq in E. eexists. split; [reflexivity|]. cbn. rewrite Eid in E. subst id. congruence. }
    constructor; cbn [s_gauges s_up s_act s_fin s_locks]; auto; eapply key_ok_store; eauto.
  - unfold create_lock in H. destruct ((amt <=? 0) || (u <? 0)) eqn:A; [discriminate|]. apply orb_false_iff in A. destruct A as [_ A]. apply Z.ltb_ge in A.
    inversion H; subst. apply with_locks_inv2; auto.
    + apply Forall_app. split; [apply (J_recv _ J)|]. constructor; [|constructor]. unfold receiver, MODULE; cbn. lia.
    + apply Forall_app. split; [apply (J_own _ J)|]. constructor; [cbn; lia|constructor].
  - unfold add_to_lock in H. destruct (find_lock (s_locks s) id) as [l|] eqn:F; [|discriminate].
    destruct (amt <=? 0); [discriminate|]. inversion H; subst. apply with_locks_inv2; auto.
    + apply set_lock_recv; [apply (J_recv _ J)|]. pose proof (find_lock_recv _ _ _ (J_recv _ J) F). unfold receiver in *; cbn. exact H0.
    + apply set_lock_own; [apply (J_own _ J)|]. cbn. apply (find_lock_own _ _ _ (J_own _ J) F).
  - unfold begin_unlock in H. destruct (find_lock (s_locks s) id) as [l|] eqn:F; [|discriminate].
    pose proof (find_lock_recv _ _ _ (J_recv _ J) F) as R.
    destruct (amt <? 0); [discriminate|]. destruct (l_amt l <? amt); [discriminate|]. destruct (l_unl l); [discriminate|].
    pose proof (find_lock_own _ _ _ (J_own _ J) F) as Ow.
    destruct (negb (amt =? 0) && negb (amt =? l_amt l)); inversion H; subst; apply with_locks_inv2; auto.
    + apply Forall_app. split; [apply set_lock_recv; [apply (J_recv _ J)|unfold receiver in *; cbn; exact R]|].
      constructor; [unfold receiver in *; cbn; exact R|constructor].
    + apply Forall_app. split; [apply set_lock_own; [apply (J_own _ J)|cbn; exact Ow]|]. constructor; [cbn; exact Ow|constructor].
    + apply set_lock_recv; [apply (J_recv _ J)|unfold receiver in *; cbn; exact R].
    + apply set_lock_own; [apply (J_own _ J)|cbn; exact Ow].
  - unfold withdraw in H. destruct (find_lock (s_locks s) id) as [l|]; [|discriminate].
    destruct (negb (l_unl l)); [discriminate|]. destruct (s_now s <? l_end l); [discriminate|]. inversion H; subst.
    apply with_locks_inv2; auto; unfold del_lock, recv_ok; apply filter_Forall; [apply (J_recv _ J)|apply (J_own _ J)].
  - unfold set_receiver in H. destruct (find_lock (s_locks s) id) as [l|] eqn:F; [|discriminate].
    destruct (to <? 0) eqn:T; [discriminate|]. apply Z.ltb_ge in T.
    cbv zeta in H. match type of H with context [if ?c then Err E_LOCK else _] => destruct c end; [discriminate|]. inversion H; subst.
    apply with_locks_inv2; auto.
    + apply set_lock_recv; [apply (J_recv _ J)|]. unfold receiver, MODULE; cbn.
      destruct (to =? l_owner l) eqn:E; [apply Z.eqb_eq in E; lia|lia].
    + apply set_lock_own; [apply (J_own _ J)|]. cbn. apply (find_lock_own _ _ _ (J_own _ J) F).
  - inversion H; subst. destruct J. constructor; cbn; auto.
  - inversion H; subst. destruct J. constructor; cbn; auto.
  - destruct (after_epoch_end cfg (thr_fun thr) (advance s dt)) as [s1|] eqn:E; [|discriminate]. inversion H; subst s1 v.
    eapply epoch_inv2; [apply advance_inv; eauto| |exact E]. destruct J. constructor; cbn; auto.
  - destruct (negb (valid_raw raw) || (n <? 0) || (two64 <=? n) || (u <? 0)); [discriminate|].
    destruct (create_nolock_gauge cfg s u perp pool (mk_coins raw) start n) as [s1|] eqn:C; [|discriminate]. inversion H; subst s1 v; clear H.
    unfold create_nolock_gauge in C.
    destruct ((n =? 0) && negb perp); [discriminate|]. destruct (negb (distributable cfg s (mk_coins raw))); [discriminate|].
    destruct (pool <=? 0); [discriminate|]. destruct (negb (mem pool (cfg_clpools cfg))); [discriminate|].
    destruct (bank_send (s_bank s) u MODULE (mk_coins raw)); [|discriminate].
    destruct (add_ref (s_up s) start (s_last_gauge s + 1)) as [up|] eqn:A; [|discriminate]. inversion C; subst s'; clear C.
    destruct J as [Ju Ja Jf Jr Jo].
    set (g := mkGauge (s_last_gauge s + 1) perp (- pool) 0 (mk_coins raw) [] start n 0 pool).
    assert (Or : in_range s (s_last_gauge s + 1) = false) by (unfold in_range; apply andb_false_iff; right; apply Z.leb_gt; lia).
    assert (Gn : get_gauge (s_gauges s) (g_id g) = None).
    { cbn [g_id g]. destruct (get_gauge (s_gauges s) (s_last_gauge s + 1)) eqn:G; auto.
      assert (in_range s (s_last_gauge s + 1) = true) by (apply (I_ids _ I); congruence). congruence. }
    constructor; cbn [s_gauges s_up s_act s_fin s_locks].
    + eapply (key_ok_add (set_gauge (s_gauges s) g) (s_up s) start (s_last_gauge s + 1) up g); [apply (I_up _ I)|apply key_ok_fresh; auto|exact A| |reflexivity].
      rewrite get_set_gauge. cbn [g_id g]. rewrite Z.eqb_refl. reflexivity.
    + apply key_ok_fresh; auto.
    + apply key_ok_fresh; auto.
    + auto.
    + auto.
Qed.

Lemma run_inv2 : forall cfg ops s, cfg_ok cfg -> Inv s -> Inv2 s -> Inv2 (run cfg s ops).
Proof.
  unfold run. induction ops as [|o r IH]; intros s Hc I J; cbn [fold_left]; auto.
  apply IH; auto; [apply step_inv; auto|].
  unfold step. destruct (handle cfg s o) as [[s' v]|e] eqn:H; cbn [fst].
  - eapply handle_inv2; eauto.
  - destruct o; auto. destruct J. constructor; cbn; auto.
Qed.

Lemma init_inv2 : forall funds, Inv2 (init_state funds).
Proof. intros. constructor; cbn; try (intros k id H; cbn in H; lia); constructor. Qed.

(* finding C09-F3 is the ONLY way an epoch end can fail: without an error of the injected min-value quote,
   AfterEpochEnd succeeds in every reachable state *)
Theorem epoch_fails_only_by_quote_error : forall cfg funds ops thr, cfg_ok cfg -> thr_no_error thr ->
  exists s', after_epoch_end cfg thr (run cfg (init_state funds) ops) = Ok s'.
Proof.
  intros. apply epoch_succeeds; auto; [apply reachable_inv; auto|apply run_inv2; auto; [apply init_inv|apply init_inv2]].
Qed.
