(* C09 lemmas about the coin lists, the bank and the reference lists of the model. *)
From Coq Require Import ZArith List Bool Lia.
Import ListNotations.
From Osmo Require Import Gen.C09_consts C09.Model.
Open Scope Z_scope.

(* ------------------------------------------------------------------ coins *)
Definition pos_coins (c : coins) : Prop := Forall (fun x => 0 < snd x) c.

Lemma amount_of_add_coin : forall c d a d',
  amount_of (add_coin d a c) d' = (if d =? d' then a else 0) + amount_of c d'.
Proof.
  induction c as [|[d0 a0] r IH]; intros d a d'; cbn [add_coin amount_of].
  - lia.
  - destruct (d <? d0) eqn:H1; cbn [amount_of].
    + lia.
    + destruct (d =? d0) eqn:H2; cbn [amount_of].
      * apply Z.eqb_eq in H2; subst d0. destruct (d =? d'); lia.
      * rewrite IH. lia.
Qed.

Lemma pos_add_coin : forall c d a, 0 < a -> pos_coins c -> pos_coins (add_coin d a c).
Proof.
  induction c as [|[d0 a0] r IH]; intros d a Ha Hc; cbn [add_coin].
  - constructor; [cbn; lia|constructor].
  - inversion Hc as [|x l Hx Hl]; subst. cbn in Hx.
    destruct (d <? d0); [constructor; [cbn; lia|assumption]|].
    destruct (d =? d0); constructor; cbn; try lia; auto.
    apply IH; auto.
Qed.

Lemma amount_of_fold_add : forall y x d,
  amount_of (fold_left (fun acc c => if snd c =? 0 then acc else add_coin (fst c) (snd c) acc) y x) d
  = amount_of x d + amount_of y d.
Proof.
  induction y as [|[d0 a0] r IH]; intros x d; cbn [fold_left amount_of fst snd].
  - lia.
  - rewrite IH. destruct (a0 =? 0) eqn:H0.
    + apply Z.eqb_eq in H0; subst. destruct (d0 =? d); lia.
    + rewrite amount_of_add_coin. lia.
Qed.

Lemma amount_of_coins_add : forall x y d, amount_of (coins_add x y) d = amount_of x d + amount_of y d.
Proof. intros; unfold coins_add; apply amount_of_fold_add. Qed.

Lemma pos_coins_add : forall y x, pos_coins x -> Forall (fun c => 0 <= snd c) y -> pos_coins (coins_add x y).
Proof.
  unfold coins_add. induction y as [|[d0 a0] r IH]; intros x Hx Hy; cbn [fold_left fst snd]; auto.
  inversion Hy; subst. cbn in H1. apply IH; auto.
  destruct (a0 =? 0) eqn:H0; auto. apply Z.eqb_neq in H0. apply pos_add_coin; auto; lia.
Qed.

Lemma pos_nonneg : forall c, pos_coins c -> Forall (fun c => 0 <= snd c) c.
Proof. intros c H; eapply Forall_impl; [|exact H]; cbn; intros; lia. Qed.

Lemma amount_of_nonneg : forall c d, Forall (fun c => 0 <= snd c) c -> 0 <= amount_of c d.
Proof.
  induction c as [|[d0 a0] r IH]; intros d H; cbn [amount_of]; [lia|].
  inversion H; subst. cbn in H2. specialize (IH d H3). destruct (d0 =? d); lia.
Qed.

Lemma sub_coin_spec : forall c d a c', sub_coin d a c = Some c' ->
  forall d', amount_of c' d' = amount_of c d' - (if d =? d' then a else 0).
Proof.
  induction c as [|[d0 a0] r IH]; intros d a c' H d'; cbn [sub_coin] in H.
  - destruct (a =? 0) eqn:Ha; [|discriminate]. inversion H; subst. apply Z.eqb_eq in Ha; subst.
    cbn. destruct (d =? d'); lia.
  - destruct (d0 =? d) eqn:Hd.
    + apply Z.eqb_eq in Hd; subst d0.
      destruct (a0 <? a) eqn:H1; [discriminate|].
      destruct (a0 =? a) eqn:H2; inversion H; subst; cbn [amount_of].
      * apply Z.eqb_eq in H2; subst. destruct (d =? d'); lia.
      * destruct (d =? d'); lia.
    + destruct (sub_coin d a r) eqn:Hr; [|discriminate]. inversion H; subst. cbn [amount_of].
      rewrite (IH _ _ _ Hr). lia.
Qed.

Lemma pos_sub_coin : forall c d a c', sub_coin d a c = Some c' -> pos_coins c -> pos_coins c'.
Proof.
  induction c as [|[d0 a0] r IH]; intros d a c' H Hc; cbn [sub_coin] in H.
  - destruct (a =? 0); inversion H; constructor.
  - inversion Hc; subst. cbn in H2. destruct (d0 =? d).
    + destruct (a0 <? a) eqn:H1; [discriminate|]. apply Z.ltb_ge in H1.
      destruct (a0 =? a) eqn:H4; inversion H; subst; auto.
      apply Z.eqb_neq in H4. constructor; [cbn; lia|auto].
    + destruct (sub_coin d a r) eqn:Hr; [|discriminate]. inversion H; subst.
      constructor; [cbn; lia|eapply IH; eauto].
Qed.

Lemma coins_sub_fold_spec : forall y x r,
  fold_left (fun acc c => match acc with Some l => sub_coin (fst c) (snd c) l | None => None end) y (Some x) = Some r ->
  (forall d, amount_of r d = amount_of x d - amount_of y d) /\ (pos_coins x -> pos_coins r).
Proof.
  induction y as [|[d0 a0] t IH]; intros x r H; cbn [fold_left fst snd] in H.
  - inversion H; subst. split; [intros; cbn; lia|auto].
  - destruct (sub_coin d0 a0 x) eqn:Hs.
    + destruct (IH _ _ H) as [A B]. split.
      * intros d. rewrite A. rewrite (sub_coin_spec _ _ _ _ Hs). cbn [amount_of]. lia.
      * intros Hx. apply B. eapply pos_sub_coin; eauto.
    + exfalso. clear -H. induction t; cbn in H; [discriminate|auto].
Qed.

Lemma coins_sub_spec : forall x y r, coins_sub x y = Some r ->
  forall d, amount_of r d = amount_of x d - amount_of y d.
Proof. intros x y r H; apply (coins_sub_fold_spec y x r H). Qed.

Lemma coins_sub_pos : forall x y r, coins_sub x y = Some r -> pos_coins x -> pos_coins r.
Proof. intros x y r H; apply (coins_sub_fold_spec y x r H). Qed.

Lemma mk_coins_pos : forall raw, valid_raw raw = true -> pos_coins (mk_coins raw).
Proof.
  intros raw H. unfold mk_coins. apply pos_coins_add; [constructor|].
  unfold valid_raw in H. rewrite forallb_forall in H. apply Forall_forall. intros x Hx.
  specialize (H x Hx). lia.
Qed.

(* ------------------------------------------------------------------ bank *)
(* ------------------------------------------------------------------ counting ids in reference lists *)
Fixpoint cnt (l : list Z) (x : Z) : Z :=
  match l with [] => 0 | y :: r => (if y =? x then 1 else 0) + cnt r x end.

Lemma cnt_app : forall a b x, cnt (a ++ b) x = cnt a x + cnt b x.
Proof. induction a; intros; cbn [app cnt]; [lia|rewrite IHa; lia]. Qed.

Lemma cnt_nonneg : forall l x, 0 <= cnt l x.
Proof. induction l; intros; cbn [cnt]; [lia|specialize (IHl x); destruct (a =? x); lia]. Qed.

Lemma cnt_zero_notin : forall l x, cnt l x = 0 <-> ~ In x l.
Proof.
  induction l; intros x; cbn [cnt In]; [tauto|].
  pose proof (cnt_nonneg l x). destruct (a =? x) eqn:E.
  - apply Z.eqb_eq in E. split; [lia|intros H1; exfalso; apply H1; auto].
  - apply Z.eqb_neq in E. rewrite Z.add_0_l, IHl. tauto.
Qed.

Lemma cnt_pos_in : forall l x, 0 < cnt l x <-> In x l.
Proof.
  intros. pose proof (cnt_nonneg l x). pose proof (cnt_zero_notin l x).
  destruct (in_dec Z.eq_dec x l); split; intros; auto; try tauto.
  - destruct (Z.eq_dec (cnt l x) 0); [tauto|lia].
  - exfalso. assert (cnt l x = 0) by tauto. lia.
Qed.

Lemma find_index_none : forall l x i, find_index l x i = None <-> cnt l x = 0.
Proof.
  induction l; intros x i; cbn [find_index cnt]; [tauto|].
  pose proof (cnt_nonneg l x). destruct (a =? x); [split; [discriminate|lia]|].
  rewrite IHl. lia.
Qed.

Lemma find_index_some : forall l x i j, find_index l x i = Some j ->
  exists a b, l = a ++ x :: b /\ (j = i + length a)%nat /\ cnt a x = 0.
Proof.
  induction l; intros x i j H; cbn [find_index] in H; [discriminate|].
  destruct (a =? x) eqn:E.
  - apply Z.eqb_eq in E; subst. inversion H; subst. exists [], l. cbn. repeat split; lia.
  - destruct (IHl _ _ _ H) as (p & q & -> & Hj & Hc). exists (a :: p), q. cbn [app length cnt]. rewrite E.
    repeat split; lia.
Qed.

Lemma replace_nth_app : forall a v x b, replace_nth (length a) v (a ++ x :: b) = a ++ v :: b.
Proof. induction a; intros; cbn; [reflexivity|rewrite IHa; reflexivity]. Qed.

Lemma last_app_cons : forall (a : list Z) x b d, last (a ++ x :: b) d = last (x :: b) d.
Proof.
  induction a; intros; [reflexivity|]. cbn [app]. rewrite <- (IHa x b d).
  destruct (a0 ++ x :: b) eqn:E; [destruct a0; discriminate|reflexivity].
Qed.

Lemma firstn_all_but_last : forall (l : list Z) z, firstn (length (l ++ [z]) - 1) (l ++ [z]) = l.
Proof.
  intros. rewrite app_length. cbn. replace (length l + 1 - 1)%nat with (length l) by lia.
  rewrite firstn_app, firstn_all, Nat.sub_diag. cbn. apply app_nil_r.
Qed.

Lemma remove_value_cnt : forall l x l', remove_value l x = Some l' ->
  forall y, cnt l' y = cnt l y - (if x =? y then 1 else 0).
Proof.
  unfold remove_value. intros l x l' H y.
  destruct (find_index l x 0) eqn:F; [|discriminate]. inversion H; subst; clear H.
  destruct (find_index_some _ _ _ _ F) as (a & b & -> & Hn & Hc). cbn in Hn; subst n.
  rewrite replace_nth_app, last_app_cons.
  destruct b as [|b0 b1].
  - cbn [last]. rewrite (firstn_all_but_last a x). rewrite cnt_app. cbn [cnt]. lia.
  - destruct (@exists_last _ (b0 :: b1)) as (b' & z & E); [discriminate|]. rewrite E.
    replace (last (x :: b' ++ [z]) 0) with z.
    2:{ change (x :: b' ++ [z]) with ((x :: b') ++ [z]). rewrite last_last. reflexivity. }
    replace (length (a ++ x :: b' ++ [z])) with (length ((a ++ z :: b') ++ [z])).
    2:{ rewrite !app_length. cbn. rewrite !app_length. cbn. lia. }
    replace (a ++ z :: b' ++ [z]) with ((a ++ z :: b') ++ [z]) by (rewrite <- app_assoc; reflexivity).
    rewrite firstn_all_but_last. rewrite !cnt_app. cbn [cnt]. rewrite !cnt_app. cbn [cnt]. lia.
Qed.

(* sorted reference maps *)
Inductive refs_sorted : refs -> Prop :=
| rs_nil : refs_sorted []
| rs_cons : forall k l r, refs_sorted r -> (forall k' l', In (k', l') r -> k < k') -> refs_sorted ((k, l) :: r).

Definition cnt_all (r : refs) (x : Z) : Z := cnt (refs_all r) x.

Lemma cnt_all_cons : forall k l r x, cnt_all ((k, l) :: r) x = cnt l x + cnt_all r x.
Proof. intros. unfold cnt_all, refs_all. cbn [flat_map snd]. apply cnt_app. Qed.

Lemma refs_get_notin : forall r k, (forall k' l', In (k', l') r -> k < k') -> refs_get r k = [].
Proof.
  induction r as [|[k0 l0] t IH]; intros k H; cbn [refs_get]; auto.
  assert (k < k0) by (apply (H k0 l0); left; reflexivity).
  destruct (k0 =? k) eqn:E; [apply Z.eqb_eq in E; lia|]. apply IH. intros; eapply H; right; eauto.
Qed.

Lemma refs_set_in : forall r k l k' l', In (k', l') (refs_set r k l) -> (k' = k /\ l' = l) \/ In (k', l') r.
Proof.
  induction r as [|[k0 l0] t IH]; intros k l k' l' H; cbn [refs_set] in H.
  - destruct H as [H|[]]; inversion H; auto.
  - destruct (k <? k0); [destruct H as [H|H]; [inversion H; auto|right; exact H]|].
    destruct (k =? k0).
    + destruct H as [H|H]; [inversion H; auto|right; right; exact H].
    + destruct H as [H|H]; [right; left; exact H|]. destruct (IH _ _ _ _ H); auto. right; right; auto.
Qed.

Lemma refs_set_sorted : forall r k l, refs_sorted r -> refs_sorted (refs_set r k l).
Proof.
  induction r as [|[k0 l0] t IH]; intros k l H; cbn [refs_set].
  - constructor; [constructor|intros ? ? []].
  - inversion H; subst. destruct (k <? k0) eqn:E1.
    + apply Z.ltb_lt in E1. constructor; auto. intros k' l' [Hi|Hi]; [inversion Hi; subst; lia|].
      specialize (H4 _ _ Hi). lia.
    + apply Z.ltb_ge in E1. destruct (k =? k0) eqn:E2.
      * apply Z.eqb_eq in E2; subst. constructor; auto.
      * apply Z.eqb_neq in E2. constructor; [apply IH; auto|].
        intros k' l' Hi. destruct (refs_set_in _ _ _ _ _ Hi) as [[-> _]|Hi']; [lia|eauto].
Qed.

Lemma refs_set_cnt : forall r k l x, refs_sorted r ->
  cnt_all (refs_set r k l) x = cnt_all r x - cnt (refs_get r k) x + cnt l x.
Proof.
  induction r as [|[k0 l0] t IH]; intros k l x H; cbn [refs_set refs_get].
  - rewrite cnt_all_cons. unfold cnt_all; cbn. lia.
  - inversion H; subst. destruct (k <? k0) eqn:E1.
    + apply Z.ltb_lt in E1. destruct (k0 =? k) eqn:E2; [apply Z.eqb_eq in E2; lia|].
      rewrite refs_get_notin; [|intros k' l' Hi; specialize (H4 _ _ Hi); lia].
      rewrite !cnt_all_cons. cbn [cnt]. lia.
    + apply Z.ltb_ge in E1. destruct (k =? k0) eqn:E2.
      * apply Z.eqb_eq in E2; subst. rewrite Z.eqb_refl. rewrite !cnt_all_cons. lia.
      * apply Z.eqb_neq in E2. destruct (k0 =? k) eqn:E3; [apply Z.eqb_eq in E3; lia|].
        rewrite !cnt_all_cons, IH; auto. lia.
Qed.

Lemma refs_delkey_sorted : forall r k, refs_sorted r -> refs_sorted (refs_delkey r k).
Proof.
  unfold refs_delkey. induction r as [|[k0 l0] t IH]; intros k H; cbn [filter fst]; [constructor|].
  inversion H; subst. destruct (negb (k0 =? k)); [|apply IH; auto].
  constructor; [apply IH; auto|]. intros k' l' Hi. apply filter_In in Hi. destruct Hi. eauto.
Qed.

Lemma refs_delkey_cnt : forall r k x, refs_sorted r ->
  cnt_all (refs_delkey r k) x = cnt_all r x - cnt (refs_get r k) x.
Proof.
  unfold refs_delkey. induction r as [|[k0 l0] t IH]; intros k x H; cbn [filter fst refs_get].
  - unfold cnt_all; cbn; lia.
  - inversion H; subst. destruct (k0 =? k) eqn:E; cbn [negb].
    + apply Z.eqb_eq in E; subst. rewrite cnt_all_cons.
      assert (G : filter (fun x0 : Z * list Z => negb (fst x0 =? k)) t = t).
      { clear -H4. induction t as [|[k1 l1] t IH]; cbn [filter fst]; auto.
        assert (k < k1) by (eapply H4; left; reflexivity).
        destruct (k1 =? k) eqn:E; [apply Z.eqb_eq in E; lia|]. cbn [negb]. f_equal. apply IH. intros; eapply H4; right; eauto. }
      rewrite G. lia.
    + rewrite !cnt_all_cons, IH; auto. lia.
Qed.

Lemma add_ref_spec : forall r k id r', refs_sorted r -> add_ref r k id = Some r' ->
  refs_sorted r' /\ cnt (refs_get r k) id = 0 /\ forall x, cnt_all r' x = cnt_all r x + (if id =? x then 1 else 0).
Proof.
  unfold add_ref. intros r k id r' Hs H.
  destruct (find_index (refs_get r k) id 0) eqn:F; [discriminate|]. inversion H; subst; clear H.
  apply find_index_none in F. split; [apply refs_set_sorted; auto|]. split; auto.
  intros x. rewrite refs_set_cnt; auto. rewrite cnt_app. cbn [cnt]. lia.
Qed.

Lemma del_ref_spec : forall r k id r', refs_sorted r -> del_ref r k id = Some r' ->
  refs_sorted r' /\ forall x, cnt_all r' x = cnt_all r x - (if id =? x then 1 else 0).
Proof.
  unfold del_ref. intros r k id r' Hs H.
  destruct (remove_value (refs_get r k) id) as [l|] eqn:R; [|discriminate].
  pose proof (remove_value_cnt _ _ _ R) as C.
  destruct l as [|z l].
  - inversion H; subst. split; [apply refs_delkey_sorted; auto|].
    intros x. rewrite refs_delkey_cnt; auto. specialize (C x). cbn [cnt] in C. lia.
  - inversion H; subst. split; [apply refs_set_sorted; auto|].
    intros x. rewrite refs_set_cnt; auto. specialize (C x). lia.
Qed.

Lemma del_ref_some_in : forall r k id r', del_ref r k id = Some r' -> 0 < cnt (refs_get r k) id.
Proof.
  unfold del_ref, remove_value. intros r k id r' H.
  destruct (find_index (refs_get r k) id 0) eqn:F; [|discriminate].
  destruct (find_index_some _ _ _ _ F) as (a & b & E & _ & _). rewrite E, cnt_app. cbn [cnt]. rewrite Z.eqb_refl.
  pose proof (cnt_nonneg a id). pose proof (cnt_nonneg b id). lia.
Qed.

Lemma refs_get_cnt_le : forall r k x, cnt (refs_get r k) x <= cnt_all r x.
Proof.
  induction r as [|[k0 l0] t IH]; intros k x; cbn [refs_get].
  - unfold cnt_all; cbn; lia.
  - rewrite cnt_all_cons. destruct (k0 =? k).
    + pose proof (cnt_nonneg (refs_all t) x). unfold cnt_all. lia.
    + specialize (IH k x). pose proof (cnt_nonneg l0 x). lia.
Qed.

(* ------------------------------------------------------------------ canonical form: strictly increasing denoms *)
Inductive sorted_coins : coins -> Prop :=
| sc_nil : sorted_coins []
| sc_cons : forall d a r, sorted_coins r -> (forall x, In x r -> d < fst x) -> sorted_coins ((d, a) :: r).

Lemma add_coin_in : forall c d a x, In x (add_coin d a c) -> fst x = d \/ In x c.
Proof.
  induction c as [|[d0 a0] r IH]; intros d a x H; cbn [add_coin] in H.
  - destruct H as [<-|[]]; auto.
  - destruct (d <? d0); [destruct H as [<-|H]; auto|].
    destruct (d =? d0) eqn:E.
    + apply Z.eqb_eq in E; subst. destruct H as [<-|H]; [left; reflexivity|right; right; auto].
    + destruct H as [<-|H]; [right; left; auto|]. destruct (IH _ _ _ H); auto. right; right; auto.
Qed.

Lemma add_coin_sorted : forall c d a, sorted_coins c -> sorted_coins (add_coin d a c).
Proof.
  induction c as [|[d0 a0] r IH]; intros d a H; cbn [add_coin].
  - constructor; [constructor|intros ? []].
  - inversion H; subst. destruct (d <? d0) eqn:E1.
    + apply Z.ltb_lt in E1. constructor; auto. intros x [<-|Hx]; [cbn; lia|]. specialize (H4 _ Hx). lia.
    + apply Z.ltb_ge in E1. destruct (d =? d0) eqn:E2.
      * constructor; auto.
      * apply Z.eqb_neq in E2. constructor; [apply IH; auto|]. intros x Hx.
        destruct (add_coin_in _ _ _ _ Hx) as [->|Hx']; [lia|auto].
Qed.

Lemma coins_add_sorted : forall y x, sorted_coins x -> sorted_coins (coins_add x y).
Proof.
  unfold coins_add. induction y as [|[d0 a0] r IH]; intros x H; cbn [fold_left fst snd]; auto.
  apply IH. destruct (a0 =? 0); auto. apply add_coin_sorted; auto.
Qed.

Lemma sub_coin_in : forall c d a c' x, sub_coin d a c = Some c' -> In x c' -> exists y, In y c /\ fst y = fst x.
Proof.
  induction c as [|[d0 a0] r IH]; intros d a c' x H Hx; cbn [sub_coin] in H.
  - destruct (a =? 0); inversion H; subst. destruct Hx.
  - destruct (d0 =? d).
    + destruct (a0 <? a); [discriminate|]. destruct (a0 =? a); inversion H; subst.
      * exists x. split; [right; auto|auto].
      * destruct Hx as [<-|Hx]; [exists (d0, a0); split; [left; auto|auto]|exists x; split; [right; auto|auto]].
    + destruct (sub_coin d a r) eqn:Hr; [|discriminate]. inversion H; subst.
      destruct Hx as [<-|Hx]; [exists (d0, a0); split; [left; auto|auto]|].
      destruct (IH _ _ _ _ Hr Hx) as (y & Hy & E). exists y. split; [right; auto|auto].
Qed.

Lemma sub_coin_sorted : forall c d a c', sub_coin d a c = Some c' -> sorted_coins c -> sorted_coins c'.
Proof.
  induction c as [|[d0 a0] r IH]; intros d a c' H Hs; cbn [sub_coin] in H.
  - destruct (a =? 0); inversion H; constructor.
  - inversion Hs; subst. destruct (d0 =? d).
    + destruct (a0 <? a); [discriminate|]. destruct (a0 =? a); inversion H; subst; auto. constructor; auto.
    + destruct (sub_coin d a r) eqn:Hr; [|discriminate]. inversion H; subst. constructor; [eapply IH; eauto|].
      intros x Hx. destruct (sub_coin_in _ _ _ _ _ Hr Hx) as (y & Hy & E). rewrite <- E. auto.
Qed.

Lemma coins_sub_sorted : forall x y r, coins_sub x y = Some r -> sorted_coins x -> sorted_coins r.
Proof.
  unfold coins_sub. intros x y. revert x. induction y as [|[d0 a0] t IH]; intros x r H Hs; cbn [fold_left fst snd] in H.
  - inversion H; subst; auto.
  - destruct (sub_coin d0 a0 x) eqn:Hc.
    + eapply IH; eauto. eapply sub_coin_sorted; eauto.
    + exfalso. clear -H. induction t; cbn in H; [discriminate|auto].
Qed.

Lemma mk_coins_sorted : forall raw, sorted_coins (mk_coins raw).
Proof. intros. unfold mk_coins. apply coins_add_sorted. constructor. Qed.

Lemma sorted_amount_tail : forall d a r, sorted_coins ((d, a) :: r) -> amount_of r d = 0.
Proof.
  intros d a r H. inversion H; subst. clear -H4. induction r as [|[d1 a1] t IH]; cbn [amount_of]; auto.
  assert (d < d1) by (apply (H4 (d1, a1)); left; auto).
  destruct (d1 =? d) eqn:E; [apply Z.eqb_eq in E; lia|]. rewrite IH; [lia|]. intros; apply H4; right; auto.
Qed.
