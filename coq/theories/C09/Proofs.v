(* C09: concrete witnesses (the findings replayed on the faithful model). *)
From Coq Require Import ZArith List Bool Lia.
Import ListNotations.
From Osmo Require Import Gen.C09_consts C09.Model C09.Spec C09.ProofsCoins C09.ProofsDistr C09.ProofsLoop C09.ProofsInv C09.ProofsLife.
Open Scope Z_scope.

Definition w_cfg : config := mkCfg 0 1 0 3 [1000; 3600000; 10800000; 25200000] [0; 1; 2].
Definition w_funds : Z -> Z -> Z := fun _ _ => 10 ^ 30.
Definition w_thr : Z -> tval := thr_fun [TVal 1; TNoRoute; TNoRoute; TNoRoute; TNoRoute].

Lemma w_cfg_ok : cfg_ok w_cfg.
Proof. unfold cfg_ok, w_cfg, cache_min_duration_ms; cbn. repeat constructor; lia. Qed.
Lemma w_thr_positive : thr_positive w_thr.
Proof.
  intros d m H. unfold w_thr, thr_fun in H.
  destruct (Z.to_nat d) as [|[|[|[|[|[|n]]]]]]; cbn in H; try discriminate; inversion H; lia.
Qed.

(* F6: gauge of 10^10 uosmo over 2 epochs for 1h locks of denom 0; one lock at epoch 1, withdrawn before epoch 2 *)
Definition w_ops : list op :=
  [ OGauge 0 false 0 3600000 [(0, 10 ^ 10)] 0 2;
    OLock 1 0 1000 3600000;
    OEpoch 86400000 [TVal 1; TNoRoute; TNoRoute; TNoRoute; TNoRoute];
    OUnlock 1 0; OTime 3600000; OWithdraw 1;
    OEpoch 86400000 [TVal 1; TNoRoute; TNoRoute; TNoRoute; TNoRoute] ].
Definition w_final : state := run w_cfg (init_state w_funds) w_ops.

Lemma witness_F6 :
  refs_all (s_fin w_final) = [1] /\ refs_all (s_act w_final) = [] /\
  map g_filled (s_gauges w_final) = [1] /\ map g_n (s_gauges w_final) = [2] /\
  map (fun g => amount_of (g_dist g) 0) (s_gauges w_final) = [5 * 10 ^ 9] /\
  s_bank w_final MODULE 0 = 5 * 10 ^ 9.
Proof. vm_compute. repeat split; reflexivity. Qed.

Lemma finexact_refuted : ~ FinExact w_final.
Proof.
  intros H.
  assert (X : exists g, In g (s_gauges w_final) /\ g_perp g = false /\ In (g_id g) (refs_all (s_fin w_final)) /\ g_filled g <> g_n g).
  { vm_compute. eexists. split; [left; reflexivity|]. split; [reflexivity|]. split; [left; reflexivity|discriminate]. }
  destruct X as (g & A & B & C & D). exact (D (H g A B C)).
Qed.

(* a 1-epoch gauge for a denomination nobody has locked finishes with 0 of 1 epochs paid *)
Definition w6b_final : state :=
  run w_cfg (init_state w_funds)
    [ OGauge 0 false 1 3600000 [(0, 5 * 10 ^ 9)] 0 1; OEpoch 86400000 [TVal 1; TNoRoute; TNoRoute; TNoRoute; TNoRoute] ].
Lemma witness_F6b :
  refs_all (s_fin w6b_final) = [1] /\ map g_filled (s_gauges w6b_final) = [0] /\ s_bank w6b_final MODULE 0 = 5 * 10 ^ 9.
Proof. vm_compute. repeat split; reflexivity. Qed.

(* the epoch-end step as a total function, for the witnesses *)
Definition epoch_of (cfg : config) (thr : Z -> tval) (s : state) : state :=
  match after_epoch_end cfg thr s with Ok s' => s' | Err _ => s end.

(* C09-F2: gauge of 100 uosmo over 1 epoch, minimum 1 uosmo, one qualifying lock of user 1 *)
Definition w2_ops : list op := [ OGauge 0 false 0 3600000 [(0, 100)] 0 1; OLock 1 0 1000 3600000; OTime 86400000 ].
Definition w2_pre : state := run w_cfg (init_state w_funds) w2_ops.
Lemma witness_F2 :
  after_epoch_end w_cfg w_thr w2_pre = Ok (epoch_of w_cfg w_thr w2_pre) /\
  s_bank (epoch_of w_cfg w_thr w2_pre) 1 0 - s_bank w2_pre 1 0 = 0 /\
  ideal_credit w_cfg w_thr w2_pre 1 0 = 100 /\
  map g_filled (s_gauges (epoch_of w_cfg w_thr w2_pre)) = [1] /\ refs_all (s_fin (epoch_of w_cfg w_thr w2_pre)) = [1].
Proof. vm_compute. repeat split; reflexivity. Qed.

(* C09-F4: user 1 owns lock 1 (1000, rewards to user 2) and lock 2 (3000, rewards to user 3); gauge of 1000 uosmo *)
Definition w4_ops : list op :=
  [ OGauge 0 false 0 3600000 [(0, 1000)] 0 1; OLock 1 0 1000 3600000; OLock 1 0 3000 10800000; ORecv 1 2; ORecv 2 3; OTime 86400000 ].
Definition w4_pre : state := run w_cfg (init_state w_funds) w4_ops.
Lemma witness_F4 :
  after_epoch_end w_cfg w_thr w4_pre = Ok (epoch_of w_cfg w_thr w4_pre) /\
  s_bank (epoch_of w_cfg w_thr w4_pre) 2 0 - s_bank w4_pre 2 0 = 1000 /\
  s_bank (epoch_of w_cfg w_thr w4_pre) 3 0 - s_bank w4_pre 3 0 = 0 /\
  ideal_credit w_cfg w_thr w4_pre 2 0 = 250 /\ ideal_credit w_cfg w_thr w4_pre 3 0 = 750.
Proof. vm_compute. repeat split; reflexivity. Qed.

(* C09-F3: the quote of the minimum into reward denom 1 fails; a second, unrelated gauge is not paid either *)
Definition w3_thr : Z -> tval := thr_fun [TVal 1; TErr; TNoRoute; TNoRoute; TNoRoute].
Definition w3_ops : list op :=
  [ ORoute 1 true;
    OGauge 0 false 0 3600000 [(0, 10 ^ 9)] 0 1;
    OGauge 0 false 1 3600000 [(1, 10 ^ 9)] 0 1;
    OLock 1 0 1000 3600000; OLock 2 1 1000 3600000; OTime 86400000 ].
Definition w3_pre : state := run w_cfg (init_state w_funds) w3_ops.
Lemma witness_F3 :
  after_epoch_end w_cfg w3_thr w3_pre = Err E_EPOCH /\ 0 < ideal_credit w_cfg w3_thr w3_pre 1 0.
Proof. vm_compute. split; reflexivity. Qed.

Lemma w3_thr_positive : thr_positive w3_thr.
Proof.
  intros d m H. unfold w3_thr, thr_fun in H.
  destruct (Z.to_nat d) as [|[|[|[|[|[|n]]]]]]; cbn in H; try discriminate; inversion H; lia.
Qed.
