(* C09: concrete witnesses (the findings replayed on the faithful model). *)
From Coq Require Import ZArith List Bool Lia.
Import ListNotations.
From Osmo Require Import Gen.C09_consts C09.Model C09.Spec C09.ProofsCoins C09.ProofsDistr C09.ProofsLoop C09.ProofsInv C09.ProofsLife C09.ProofsShare C09.ProofsShare2 C09.ProofsLive.
Open Scope Z_scope.

Definition w_cfg : config := mkCfg 0 1 0 3 [1000; 3600000; 10800000; 25200000] [0; 1; 2] [1].
Definition w_funds : Z -> Z -> Z := fun _ _ => 10 ^ 30.
Definition w_thr : Z -> tval := thr_fun [TVal 1; TNoRoute; TNoRoute; TNoRoute; TNoRoute].

Lemma w_cfg_ok : cfg_ok w_cfg.
Proof. unfold cfg_ok, w_cfg, cache_min_duration_ms; cbn. repeat constructor; lia. Qed.
Lemma w_thr_positive : thr_positive w_thr.
Proof.
  intros d m H. unfold w_thr, thr_fun in H.
  destruct (Z.to_nat d) as [|[|[|[|[|[|n]]]]]]; cbn in H; try discriminate; inversion H; lia.
Qed.

(* F6: gauge of 10^10 uosmo over 2 epochs for 1h locks of denom 0; one lock at epoch 1, withdrawn before epoch 2 *)
Definition w_ops : list op :=
  [ OGauge 0 false 0 3600000 [(0, 10 ^ 10)] 0 2;
    OLock 1 0 1000 3600000;
    OEpoch 86400000 [TVal 1; TNoRoute; TNoRoute; TNoRoute; TNoRoute];
    OUnlock 1 0; OTime 3600000; OWithdraw 1;
    OEpoch 86400000 [TVal 1; TNoRoute; TNoRoute; TNoRoute; TNoRoute] ].
Definition w_final : state := run w_cfg (init_state w_funds) w_ops.

Lemma witness_F6 :
  refs_all (s_fin w_final) = [1] /\ refs_all (s_act w_final) = [] /\
  map g_filled (s_gauges w_final) = [1] /\ map g_n (s_gauges w_final) = [2] /\
  map (fun g => amount_of (g_dist g) 0) (s_gauges w_final) = [5 * 10 ^ 9] /\
  s_bank w_final MODULE 0 = 5 * 10 ^ 9.
Proof. vm_compute. repeat split; reflexivity. Qed.

Lemma finexact_refuted : ~ FinExact w_final.
Proof.
  intros H.
  assert (X : exists g, In g (s_gauges w_final) /\ g_perp g = false /\ In (g_id g) (refs_all (s_fin w_final)) /\ g_filled g <> g_n g).
  { vm_compute. eexists. split; [left; reflexivity|]. split; [reflexivity|]. split; [left; reflexivity|discriminate]. }
  destruct X as (g & A & B & C & D). exact (D (H g A B C)).
Qed.

(* a 1-epoch gauge for a denomination nobody has locked finishes with 0 of 1 epochs paid *)
Definition w6b_final : state :=
  run w_cfg (init_state w_funds)
    [ OGauge 0 false 1 3600000 [(0, 5 * 10 ^ 9)] 0 1; OEpoch 86400000 [TVal 1; TNoRoute; TNoRoute; TNoRoute; TNoRoute] ].
Lemma witness_F6b :
  refs_all (s_fin w6b_final) = [1] /\ map g_filled (s_gauges w6b_final) = [0] /\ s_bank w6b_final MODULE 0 = 5 * 10 ^ 9.
Proof. vm_compute. repeat split; reflexivity. Qed.

(* the epoch-end step as a total function, for the witnesses *)
Definition epoch_of (cfg : config) (thr : Z -> tval) (s : state) : state :=
  match after_epoch_end cfg thr s with Ok s' => s' | Err _ => s end.

(* C09-F2: gauge of 100 uosmo over 1 epoch, minimum 1 uosmo, one qualifying lock of user 1 *)
Definition w2_ops : list op := [ OGauge 0 false 0 3600000 [(0, 100)] 0 1; OLock 1 0 1000 3600000; OTime 86400000 ].
Definition w2_pre : state := run w_cfg (init_state w_funds) w2_ops.
Lemma witness_F2 :
  after_epoch_end w_cfg w_thr w2_pre = Ok (epoch_of w_cfg w_thr w2_pre) /\
  s_bank (epoch_of w_cfg w_thr w2_pre) 1 0 - s_bank w2_pre 1 0 = 0 /\
  ideal_credit w_cfg w_thr w2_pre 1 0 = 100 /\
  map g_filled (s_gauges (epoch_of w_cfg w_thr w2_pre)) = [1] /\ refs_all (s_fin (epoch_of w_cfg w_thr w2_pre)) = [1].
Proof. vm_compute. repeat split; reflexivity. Qed.

(* C09-F4: user 1 owns lock 1 (1000, rewards to user 2) and lock 2 (3000, rewards to user 3); gauge of 1000 uosmo *)
Definition w4_ops : list op :=
  [ OGauge 0 false 0 3600000 [(0, 1000)] 0 1; OLock 1 0 1000 3600000; OLock 1 0 3000 10800000; ORecv 1 2; ORecv 2 3; OTime 86400000 ].
Definition w4_pre : state := run w_cfg (init_state w_funds) w4_ops.
Lemma witness_F4 :
  after_epoch_end w_cfg w_thr w4_pre = Ok (epoch_of w_cfg w_thr w4_pre) /\
  s_bank (epoch_of w_cfg w_thr w4_pre) 2 0 - s_bank w4_pre 2 0 = 1000 /\
  s_bank (epoch_of w_cfg w_thr w4_pre) 3 0 - s_bank w4_pre 3 0 = 0 /\
  ideal_credit w_cfg w_thr w4_pre 2 0 = 250 /\ ideal_credit w_cfg w_thr w4_pre 3 0 = 750.
Proof. vm_compute. repeat split; reflexivity. Qed.

(* C09-F3: the quote of the minimum into reward denom 1 fails; a second, unrelated gauge is not paid either *)
Definition w3_thr : Z -> tval := thr_fun [TVal 1; TErr; TNoRoute; TNoRoute; TNoRoute].
Definition w3_ops : list op :=
  [ ORoute 1 true;
    OGauge 0 false 0 3600000 [(0, 10 ^ 9)] 0 1;
    OGauge 0 false 1 3600000 [(1, 10 ^ 9)] 0 1;
    OLock 1 0 1000 3600000; OLock 2 1 1000 3600000; OTime 86400000 ].
Definition w3_pre : state := run w_cfg (init_state w_funds) w3_ops.
Lemma witness_F3 :
  after_epoch_end w_cfg w3_thr w3_pre = Err E_EPOCH /\ 0 < ideal_credit w_cfg w3_thr w3_pre 1 0.
Proof. vm_compute. split; reflexivity. Qed.

(* C09-F5 (fixed in /repo by 5be8fedaa6), kept as a regression witness: a lock gauge paying user 1, then user 2 creates a
   NoLock gauge of 2 uosmo over 3 epochs on pool 1. The per-epoch amount 2/3 = 0 is skipped: the epoch end succeeds,
   user 1 receives the second half of the lock gauge, the NoLock gauge counts the epoch (1 of 3) and has handed out nothing;
   it pays 1 uosmo at each of the two following epoch ends *)
Definition w5_ops : list op :=
  [ OGauge 0 false 0 3600000 [(0, 10 ^ 9)] 0 2; OLock 1 0 1000 3600000;
    OEpoch 86400000 [TVal 1; TNoRoute; TNoRoute; TNoRoute; TNoRoute];
    ONGauge 2 false 1 [(0, 2)] 0 3; OTime 86400000 ].
Definition w5_pre : state := run w_cfg (init_state w_funds) w5_ops.
Definition w5_thr_list : list tval := [TVal 1; TNoRoute; TNoRoute; TNoRoute; TNoRoute].
Definition w5_end : state := run w_cfg (epoch_of w_cfg w_thr w5_pre) [OEpoch 86400000 w5_thr_list; OEpoch 86400000 w5_thr_list].
(* (stated with [is_ok]: an equation between states would make the kernel normalise the nested bank closures) *)
Definition is_ok {A : Type} (r : res A) : bool := match r with Ok _ => true | Err _ => false end.
Lemma regression_F5 :
  is_ok (after_epoch_end w_cfg w_thr w5_pre) = true /\
  s_bank (epoch_of w_cfg w_thr w5_pre) 1 0 - s_bank w5_pre 1 0 = 500000000 /\
  ideal_credit w_cfg w_thr w5_pre 1 0 = 500000000 /\
  map (fun g => (amount_of (g_dist g) 0, g_filled g)) (s_gauges (epoch_of w_cfg w_thr w5_pre)) = [(10 ^ 9, 2); (0, 1)] /\
  refs_all (s_fin (epoch_of w_cfg w_thr w5_pre)) = [1] /\ refs_all (s_act (epoch_of w_cfg w_thr w5_pre)) = [2] /\
  map (fun g => (amount_of (g_dist g) 0, g_filled g)) (s_gauges w5_end) = [(10 ^ 9, 2); (2, 3)] /\
  refs_all (s_fin w5_end) = [1; 2] /\ s_bank w5_end MODULE 0 = 0 /\ s_bank w5_end (pool_addr 1) 0 - w_funds (pool_addr 1) 0 = 2.
Proof. vm_compute. repeat split; reflexivity. Qed.

Lemma w_thr_no_error : thr_no_error w_thr.
Proof. intros d. unfold w_thr, thr_fun. destruct (Z.to_nat d) as [|[|[|[|[|[|n]]]]]]; cbn; discriminate. Qed.

Lemma w3_thr_positive : thr_positive w3_thr.
Proof.
  intros d m H. unfold w3_thr, thr_fun in H.
  destruct (Z.to_nat d) as [|[|[|[|[|[|n]]]]]]; cbn in H; try discriminate; inversion H; lia.
Qed.

(* ------------------------------------------------------------------ statements refuted by the witnesses
   (the same texts as the Definitions C09_*_full of Properties/C09.v) *)
Lemma finish_full_refuted :
  ~ (forall cfg funds ops, cfg_ok cfg -> FinExact (run cfg (init_state funds) ops)).
Proof. intros H; exact (finexact_refuted (H w_cfg w_funds w_ops w_cfg_ok)). Qed.

Lemma share_full_refuted :
  ~ (forall cfg funds ops thr s', cfg_ok cfg -> thr_positive thr ->
     let s := run cfg (init_state funds) ops in
     after_epoch_end cfg thr s = Ok s' ->
     forall a d, 0 <= a -> s_bank s' a d - s_bank s a d = ideal_credit cfg thr s a d).
Proof.
  intros H. destruct witness_F2 as (E & D & I & _).
  specialize (H w_cfg w_funds w2_ops w_thr (epoch_of w_cfg w_thr w2_pre) w_cfg_ok w_thr_positive E 1 0 ltac:(lia)).
  fold w2_pre in H.
  rewrite D, I in H. clear - H. discriminate H.
Qed.

Lemma epoch_succeeds_full_refuted :
  ~ (forall cfg funds ops thr, cfg_ok cfg -> thr_positive thr ->
     exists s', after_epoch_end cfg thr (run cfg (init_state funds) ops) = Ok s').
Proof.
  intros H. destruct (H w_cfg w_funds w3_ops w3_thr w_cfg_ok w3_thr_positive) as (s' & E).
  fold w3_pre in E. destruct witness_F3 as [W _]. rewrite W in E. clear - E. discriminate E.
Qed.

Lemma share_credit_reachable : forall cfg funds ops thr s', cfg_ok cfg -> thr_positive thr ->
  let s := run cfg (init_state funds) ops in
  consistent_receivers (s_locks s) ->
  (forall g, takes_part s g -> share_hyp cfg (s_locks s) g) ->
  after_epoch_end cfg thr s = Ok s' ->
  forall a d, 0 <= a -> s_bank s' a d - s_bank s a d = ideal_credit cfg thr s a d.
Proof.
  intros cfg funds ops thr s' Hc Tp s Cs Hh H a d Ha.
  eapply share_credit; eauto; [apply reachable_inv; auto|].
  apply (J_own _ (run_inv2 cfg ops _ Hc (init_inv funds) (init_inv2 funds))).
Qed.

Lemma filled_bounds : forall cfg funds ops g, cfg_ok cfg ->
  let s := run cfg (init_state funds) ops in In g (s_gauges s) -> fill_ok s g.
Proof.
  intros cfg funds ops g Hc s Hi. pose proof (I_fill _ (reachable_inv cfg funds ops Hc)) as F.
  rewrite Forall_forall in F. exact (F g Hi).
Qed.

(* ------------------------------------------------------------------ non-vacuity *)
(* a history that meets the hypothesis of the conditional finishing theorem, on which the gauge really pays twice
   and finishes with 2 of 2 epochs *)
Definition nv_ops : list op :=
  [ OGauge 0 false 0 3600000 [(0, 10 ^ 10)] 0 2;
    OLock 1 0 1000 3600000; OLock 2 0 3000 10800000;
    OEpoch 86400000 [TVal 1; TNoRoute; TNoRoute; TNoRoute; TNoRoute];
    OUnlock 1 0;
    OEpoch 86400000 [TVal 1; TNoRoute; TNoRoute; TNoRoute; TNoRoute] ].
Lemma nonvacuous_finish :
  cfg_ok w_cfg /\ all_qualified w_cfg (init_state w_funds) nv_ops /\
  let s := run w_cfg (init_state w_funds) nv_ops in
  refs_all (s_fin s) = [1] /\ map g_filled (s_gauges s) = [2] /\
  map (fun g => amount_of (g_dist g) 0) (s_gauges s) = [10 ^ 10] /\
  s_bank s 1 0 - w_funds 1 0 = 2500000000 /\ s_bank s 2 0 - w_funds 2 0 = 7500000000.
Proof.
  split; [exact w_cfg_ok|]. split; [apply all_qualified_b_spec; vm_compute; reflexivity|].
  vm_compute. repeat split; reflexivity.
Qed.

(* two owners, two locks, one 2-epoch gauge: the hypotheses of the share theorem hold, the gauge takes part with
   qualifying locks, the epoch end succeeds, and the credits are the floors 10^10/2 * 1000/4000 and 10^10/2 * 3000/4000 *)
Definition nv2_ops : list op :=
  [ OGauge 0 false 0 3600000 [(0, 10 ^ 10)] 0 2; OLock 1 0 1000 3600000; OLock 2 0 3000 10800000; OTime 86400000 ].
Definition nv2_pre : state := run w_cfg (init_state w_funds) nv2_ops.
Lemma nonvacuous_share :
  cfg_ok w_cfg /\ thr_positive w_thr /\ thr_no_error w_thr /\ consistent_receivers (s_locks nv2_pre) /\
  (forall g, takes_part nv2_pre g -> share_hyp w_cfg (s_locks nv2_pre) g) /\
  (exists g, takes_part nv2_pre g /\ g_perp g = false /\ elig (s_locks nv2_pre) g <> [] /\
             In (g_id g) (refs_all (s_up nv2_pre)) /\ g_start g <= s_now nv2_pre) /\
  after_epoch_end w_cfg w_thr nv2_pre = Ok (epoch_of w_cfg w_thr nv2_pre) /\
  ideal_credit w_cfg w_thr nv2_pre 1 0 = 1250000000 /\ ideal_credit w_cfg w_thr nv2_pre 2 0 = 3750000000.
Proof.
  split; [exact w_cfg_ok|]. split; [exact w_thr_positive|]. split.
  { intros d. unfold w_thr, thr_fun. destruct (Z.to_nat d) as [|[|[|[|[|[|n]]]]]]; cbn; discriminate. }
  split.
  { intros l1 l2 H1 H2. vm_compute in H1, H2.
    destruct H1 as [<-|[<-|[]]]; destruct H2 as [<-|[<-|[]]]; vm_compute; intros; congruence. }
  split.
  { intros g [Hi _]. vm_compute in Hi. destruct Hi as [<-|[]]. unfold share_hyp. split; [|split; vm_compute; reflexivity].
    intros remain Hr _. vm_compute in Hr. inversion Hr; subst. vm_compute. reflexivity. }
  split.
  { eexists. split; [split; [vm_compute; left; reflexivity|right; vm_compute; split; [reflexivity|discriminate]]|].
    split; [reflexivity|]. split; [vm_compute; discriminate|]. split; [vm_compute; left; reflexivity|vm_compute; discriminate]. }
  vm_compute. repeat split; reflexivity.
Qed.

(* a NoLock gauge of 10 uosmo over 3 epochs on pool 1: the epoch end succeeds, floor(10/3) = 3 uosmo move from the
   module account to the pool's incentives address *)
Definition nv3_ops : list op := [ ONGauge 0 false 1 [(0, 10)] 0 3; OTime 86400000 ].
Definition nv3_pre : state := run w_cfg (init_state w_funds) nv3_ops.
Lemma nonvacuous_nolock :
  (exists g, takes_part nv3_pre g /\ g_pool g = 1) /\
  after_epoch_end w_cfg w_thr nv3_pre = Ok (epoch_of w_cfg w_thr nv3_pre) /\
  s_bank nv3_pre MODULE 0 = 10 /\ s_bank (epoch_of w_cfg w_thr nv3_pre) MODULE 0 = 7 /\
  s_bank (epoch_of w_cfg w_thr nv3_pre) (pool_addr 1) 0 - s_bank nv3_pre (pool_addr 1) 0 = 3 /\
  map (fun g => (amount_of (g_dist g) 0, g_filled g)) (s_gauges (epoch_of w_cfg w_thr nv3_pre)) = [(3, 1)].
Proof.
  split.
  { eexists. split; [split; [vm_compute; left; reflexivity|right; vm_compute; split; [reflexivity|discriminate]]|reflexivity]. }
  vm_compute. repeat split; reflexivity.
Qed.
