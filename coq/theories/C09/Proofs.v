(* C09 lemmas (grown incrementally). *)
From Coq Require Import ZArith List Bool Lia.
Import ListNotations.
From Osmo Require Import Gen.C09_consts C09.Model.
Open Scope Z_scope.

(* the F6 witness: gauge of 10^10 uosmo over 2 epochs for 1h locks of denom 0; one lock at epoch 1,
   withdrawn before epoch 2 *)
Definition w_cfg : config := mkCfg 0 1 0 3 [3600000; 10800000; 25200000] [0; 1; 2].
Definition w_funds : Z -> Z -> Z := fun _ _ => 10 ^ 30.
Definition w_ops : list op :=
  [ OGauge 0 false 0 3600000 [(0, 10 ^ 10)] 0 2;
    OLock 1 0 1000 3600000;
    OEpoch 86400000 [TVal 1; TNoRoute; TNoRoute; TNoRoute; TNoRoute];
    OUnlock 1 0; OTime 3600000; OWithdraw 1;
    OEpoch 86400000 [TVal 1; TNoRoute; TNoRoute; TNoRoute; TNoRoute] ].
Definition w_final : state := run w_cfg (init_state w_funds) w_ops.

Lemma witness_F6 :
  refs_all (s_fin w_final) = [1] /\ refs_all (s_act w_final) = [] /\
  map g_filled (s_gauges w_final) = [1] /\ map g_n (s_gauges w_final) = [2] /\
  map (fun g => amount_of (g_dist g) 0) (s_gauges w_final) = [5 * 10 ^ 9] /\
  s_bank w_final MODULE 0 = 5 * 10 ^ 9.
Proof. vm_compute. repeat split; reflexivity. Qed.
