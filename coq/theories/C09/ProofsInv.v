(* C09: the state invariant and what one epoch end does to the state. *)
From Coq Require Import ZArith List Bool Lia.
Import ListNotations.
From Osmo Require Import Gen.C09_consts C09.Model C09.ProofsCoins C09.ProofsDistr C09.ProofsLoop.
Open Scope Z_scope.

Definition cfg_ok (cfg : config) : Prop := Forall (fun x => cache_min_duration_ms < x) (cfg_lockable cfg).

Definition in_range (s : state) (id : Z) : bool := (1 <=? id) && (id <=? s_last_gauge s).

Definition fill_ok (s : state) (g : gauge) : Prop :=
  0 <= g_filled g /\ 0 <= g_n g < two64 /\
  (g_perp g = true -> cnt_all (s_fin s) (g_id g) = 0) /\
  (g_perp g = false ->
     1 <= g_n g /\
     (0 < cnt_all (s_up s) (g_id g) -> g_filled g = 0) /\
     (0 < cnt_all (s_act s) (g_id g) -> g_filled g < g_n g) /\
     (0 < cnt_all (s_fin s) (g_id g) -> g_filled g <= g_n g)).

Record Inv (s : state) : Prop := mkInv {
  I_gauges : Forall gauge_ok (s_gauges s);
  I_durs : Forall dur_ok (s_gauges s);
  I_locks : locks_pos (s_locks s);
  I_up : refs_sorted (s_up s);
  I_act : refs_sorted (s_act s);
  I_fin : refs_sorted (s_fin s);
  I_part : forall id, cnt_all (s_up s) id + cnt_all (s_act s) id + cnt_all (s_fin s) id = if in_range s id then 1 else 0;
  I_ids : forall id, get_gauge (s_gauges s) id <> None <-> in_range s id = true;
  I_nodup : NoDup (map g_id (s_gauges s));
  I_last : 0 <= s_last_gauge s;
  I_acct : forall d, s_bank s MODULE d = sum_rem (s_gauges s) d;
  I_fill : Forall (fill_ok s) (s_gauges s) }.

Lemma cnt_all_nonneg : forall r x, 0 <= cnt_all r x.
Proof. intros; apply cnt_nonneg. Qed.

Lemma In_get : forall st g, NoDup (map g_id st) -> In g st -> get_gauge st (g_id g) = Some g.
Proof.
  induction st as [|g0 r IH]; intros g Hn Hi; [destruct Hi|]. cbn [get_gauge map] in *.
  inversion Hn; subst. destruct Hi as [->|Hi]; [rewrite Z.eqb_refl; reflexivity|].
  destruct (g_id g0 =? g_id g) eqn:E; [|apply IH; auto].
  apply Z.eqb_eq in E. exfalso. apply H1. rewrite E. apply in_map; auto.
Qed.

Lemma get_none_notin : forall st id, get_gauge st id = None -> ~ In id (map g_id st).
Proof.
  induction st as [|g0 r IH]; intros id H; cbn [get_gauge map In] in *; [tauto|].
  destruct (g_id g0 =? id) eqn:E; [discriminate|]. apply Z.eqb_neq in E. intros [?|?]; [congruence|]. eapply IH; eauto.
Qed.

Lemma set_gauge_fresh_ids : forall st g, get_gauge st (g_id g) = None -> map g_id (set_gauge st g) = map g_id st ++ [g_id g].
Proof.
  induction st as [|g0 r IH]; intros g H; cbn [set_gauge get_gauge map app] in *; [reflexivity|].
  destruct (g_id g0 =? g_id g); [discriminate|]. cbn [map]. f_equal. apply IH; auto.
Qed.

Lemma set_gauge_in : forall st g' g, In g (set_gauge st g') -> g = g' \/ In g st.
Proof.
  induction st as [|g0 r IH]; intros g' g H; cbn [set_gauge] in H.
  - destruct H as [<-|[]]; auto.
  - destruct (g_id g0 =? g_id g'); destruct H as [<-|H]; auto; [right; right; auto|right; left; auto|].
    destruct (IH _ _ H); auto. right; right; auto.
Qed.

(* ------------------------------------------------------------------ lock operations keep amounts positive *)
Lemma find_lock_in : forall tbl id l, find_lock tbl id = Some l -> In l tbl.
Proof.
  induction tbl as [|l0 r IH]; intros id l H; cbn [find_lock] in H; [discriminate|].
  destruct (l_id l0 =? id); [inversion H; subst; left; auto|right; eauto].
Qed.
Lemma set_lock_pos : forall tbl l', locks_pos tbl -> 0 < l_amt l' -> locks_pos (set_lock tbl l').
Proof.
  unfold locks_pos. induction tbl as [|l0 r IH]; intros l' H Hl; cbn [set_lock]; [constructor|].
  inversion H; subst. destruct (l_id l0 =? l_id l'); constructor; auto.
Qed.

Lemma with_locks_inv : forall s tbl last, Inv s -> locks_pos tbl -> Inv (with_locks s tbl last).
Proof. intros s tbl last [] H. constructor; cbn; auto. Qed.

Lemma find_lock_pos : forall tbl id l, locks_pos tbl -> find_lock tbl id = Some l -> 0 < l_amt l.
Proof. intros tbl id l H F. apply find_lock_in in F. unfold locks_pos in H. rewrite Forall_forall in H. auto. Qed.

(* ------------------------------------------------------------------ moving gauges between the reference sets *)
Fixpoint moved (now : Z) (gs : list gauge) (x : Z) : Z :=
  match gs with
  | [] => 0
  | g :: r => (if negb (now <? g_start g) && (g_id g =? x) then 1 else 0) + moved now r x
  end.

Lemma move_upcoming_spec : forall now gs up act up' act',
  move_upcoming now gs up act = Some (up', act') -> refs_sorted up -> refs_sorted act ->
  refs_sorted up' /\ refs_sorted act' /\
  forall x, cnt_all up' x = cnt_all up x - moved now gs x /\ cnt_all act' x = cnt_all act x + moved now gs x.
Proof.
  induction gs as [|g r IH]; intros up act up' act' H Su Sa; cbn [move_upcoming] in H.
  - inversion H; subst. repeat split; auto; cbn; lia.
  - destruct (negb (now <? g_start g)) eqn:C.
    + destruct (del_ref up (g_start g) (g_id g)) as [up1|] eqn:D; [|discriminate].
      destruct (add_ref act (g_start g) (g_id g)) as [act1|] eqn:A; [|discriminate].
      destruct (del_ref_spec _ _ _ _ Su D) as [Su1 Cu]. destruct (add_ref_spec _ _ _ _ Sa A) as (Sa1 & _ & Ca).
      destruct (IH _ _ _ _ H Su1 Sa1) as (R1 & R2 & R3). repeat split; auto;
        destruct (R3 x) as [E1 E2]; cbn [moved]; rewrite C; cbn [andb]; rewrite ?E1, ?E2, ?Cu, ?Ca; lia.
    + destruct (IH _ _ _ _ H Su Sa) as (R1 & R2 & R3). repeat split; auto;
        destruct (R3 x) as [E1 E2]; cbn [moved]; rewrite C; cbn [andb]; lia.
Qed.

Definition finishes (g : gauge) : bool := negb (g_perp g) && (g_n g <=? g_filled g + finish_plus).

Fixpoint finm (gs : list gauge) (x : Z) : Z :=
  match gs with
  | [] => 0
  | g :: r => (if finishes g && (g_id g =? x) then 1 else 0) + finm r x
  end.

Lemma check_finish_spec : forall gs act fin act' fin',
  check_finish gs act fin = Some (act', fin') -> refs_sorted act -> refs_sorted fin ->
  refs_sorted act' /\ refs_sorted fin' /\
  forall x, cnt_all act' x = cnt_all act x - finm gs x /\ cnt_all fin' x = cnt_all fin x + finm gs x.
Proof.
  induction gs as [|g r IH]; intros act fin act' fin' H Sa Sf; cbn [check_finish] in H.
  - inversion H; subst. repeat split; auto; cbn; lia.
  - fold (finishes g) in H. destruct (finishes g) eqn:C.
    + unfold move_to_finished in H.
      destruct (del_ref act (g_start g) (g_id g)) as [act1|] eqn:D; [|discriminate].
      destruct (add_ref fin (g_start g) (g_id g)) as [fin1|] eqn:A; [|discriminate].
      destruct (del_ref_spec _ _ _ _ Sa D) as [Sa1 Cu]. destruct (add_ref_spec _ _ _ _ Sf A) as (Sf1 & _ & Ca).
      destruct (IH _ _ _ _ H Sa1 Sf1) as (R1 & R2 & R3). repeat split; auto;
        destruct (R3 x) as [E1 E2]; cbn [finm]; rewrite C; cbn [andb]; rewrite ?E1, ?E2, ?Cu, ?Ca; lia.
    + destruct (IH _ _ _ _ H Sa Sf) as (R1 & R2 & R3). repeat split; auto;
        destruct (R3 x) as [E1 E2]; cbn [finm]; rewrite C; cbn [andb]; lia.
Qed.

(* counting a property over a duplicate-free list of gauges *)
Lemma moved_bounds : forall now gs x, 0 <= moved now gs x <= cnt (map g_id gs) x.
Proof.
  induction gs as [|g r IH]; intros x; cbn [moved map cnt]; [lia|]. specialize (IH x).
  destruct (negb (now <? g_start g)); cbn [andb]; destruct (g_id g =? x); lia.
Qed.
Lemma finm_bounds : forall gs x, 0 <= finm gs x <= cnt (map g_id gs) x.
Proof.
  induction gs as [|g r IH]; intros x; cbn [finm map cnt]; [lia|]. specialize (IH x).
  destruct (finishes g); cbn [andb]; destruct (g_id g =? x); lia.
Qed.
Lemma moved_one : forall now gs g, In g gs -> g_start g <= now -> 1 <= moved now gs (g_id g).
Proof.
  induction gs as [|g0 r IH]; intros g Hi Hs; [destruct Hi|]; destruct Hi as [->|Hi]; cbn [moved].
  - assert ((now <? g_start g) = false) by (apply Z.ltb_ge; lia). rewrite H, Z.eqb_refl. cbn [negb andb].
    pose proof (moved_bounds now r (g_id g)). lia.
  - specialize (IH _ Hi Hs). destruct (negb (now <? g_start g0) && (g_id g0 =? g_id g)); lia.
Qed.
Lemma moved_zero : forall now gs x, (forall g, In g gs -> g_id g = x -> now < g_start g) -> moved now gs x = 0.
Proof.
  induction gs as [|g0 r IH]; intros x H; cbn [moved]; [lia|].
  rewrite IH by (intros; apply H; auto; right; auto).
  destruct (g_id g0 =? x) eqn:E; [|rewrite andb_false_r; lia].
  apply Z.eqb_eq in E. assert (now < g_start g0) by (apply H; auto; left; auto).
  assert ((now <? g_start g0) = true) by (apply Z.ltb_lt; lia). rewrite H1. cbn [negb andb]. lia.
Qed.
Lemma finm_one : forall gs g, In g gs -> finishes g = true -> 1 <= finm gs (g_id g).
Proof.
  induction gs as [|g0 r IH]; intros g Hi Hs; [destruct Hi|]; destruct Hi as [->|Hi]; cbn [finm].
  - rewrite Hs, Z.eqb_refl. cbn [andb]. pose proof (finm_bounds r (g_id g)). lia.
  - specialize (IH _ Hi Hs). destruct (finishes g0 && (g_id g0 =? g_id g)); lia.
Qed.
Lemma finm_zero : forall gs x, (forall g, In g gs -> g_id g = x -> finishes g = false) -> finm gs x = 0.
Proof.
  induction gs as [|g0 r IH]; intros x H; cbn [finm]; [lia|].
  rewrite IH by (intros; apply H; auto; right; auto).
  destruct (g_id g0 =? x) eqn:E; [|rewrite andb_false_r; lia].
  apply Z.eqb_eq in E. rewrite (H g0) by (auto; left; auto). cbn [andb]. lia.
Qed.

Lemma cnt_le_one_nodup : forall l, (forall x, cnt l x <= 1) -> NoDup l.
Proof.
  induction l as [|a r IH]; intros H; constructor.
  - intros Hi. apply cnt_pos_in in Hi. specialize (H a). cbn [cnt] in H. rewrite Z.eqb_refl in H. lia.
  - apply IH. intros x. specialize (H x). cbn [cnt] in H. destruct (a =? x); lia.
Qed.
Lemma nodup_cnt_le_one : forall l x, NoDup l -> cnt l x <= 1.
Proof.
  induction l as [|a r IH]; intros x H; cbn [cnt]; [lia|]. inversion H; subst. specialize (IH x H3).
  destruct (a =? x) eqn:E; [|lia]. apply Z.eqb_eq in E; subst.
  assert (cnt r x = 0) by (apply cnt_zero_notin; auto). lia.
Qed.

Lemma moved_pos_ex : forall now gs x, 0 < moved now gs x -> exists g, In g gs /\ g_id g = x /\ g_start g <= now.
Proof.
  induction gs as [|g0 r IH]; intros x H; cbn [moved] in H; [lia|].
  destruct (negb (now <? g_start g0) && (g_id g0 =? x)) eqn:C.
  - apply andb_true_iff in C. destruct C as [C1 C2]. apply negb_true_iff, Z.ltb_ge in C1. apply Z.eqb_eq in C2.
    exists g0. split; [left; auto|split; auto].
  - destruct (IH x) as (g & Hi & E & S); [lia|]. exists g. split; [right; auto|auto].
Qed.
Lemma finm_pos_ex : forall gs x, 0 < finm gs x -> exists g, In g gs /\ g_id g = x /\ finishes g = true.
Proof.
  induction gs as [|g0 r IH]; intros x H; cbn [finm] in H; [lia|].
  destruct (finishes g0 && (g_id g0 =? x)) eqn:C.
  - apply andb_true_iff in C. destruct C as [C1 C2]. apply Z.eqb_eq in C2.
    exists g0. split; [left; auto|split; auto].
  - destruct (IH x) as (g & Hi & E & S); [lia|]. exists g. split; [right; auto|auto].
Qed.

Definition takes_part (s : state) (g : gauge) : Prop :=
  In g (s_gauges s) /\
  (0 < cnt_all (s_act s) (g_id g) \/ (0 < cnt_all (s_up s) (g_id g) /\ g_start g <= s_now s)).

Lemma epoch_spec_plus : forall cfg thr s s', Inv s -> after_epoch_end cfg thr s = Ok s' ->
  exists ups acts,
    s_now s' = s_now s /\ s_locks s' = s_locks s /\ s_last_gauge s' = s_last_gauge s /\
    s_last_lock s' = s_last_lock s /\ s_routable s' = s_routable s /\
    refs_sorted (s_up s') /\ refs_sorted (s_act s') /\ refs_sorted (s_fin s') /\
    NoDup (map g_id acts) /\
    (forall g, In g ups <-> In g (s_gauges s) /\ 0 < cnt_all (s_up s) (g_id g)) /\
    (forall g, In g acts <-> takes_part s g) /\
    (forall x, cnt_all (s_up s') x = cnt_all (s_up s) x - moved (s_now s) ups x /\
               cnt_all (s_act s') x = cnt_all (s_act s) x + moved (s_now s) ups x - finm acts x /\
               cnt_all (s_fin s') x = cnt_all (s_fin s) x + finm acts x) /\
    Forall gauge_ok (s_gauges s') /\
    map g_id (s_gauges s') = map g_id (s_gauges s) /\
    (forall id, ~ In id (map g_id acts) -> get_gauge (s_gauges s') id = get_gauge (s_gauges s) id) /\
    (forall g, In g acts -> exists di0 cache0 w di1 cache1,
        distribute_internal cfg thr g (elig (s_locks s) g) di0 cache0 = Ok (w, di1, cache1) /\
        get_gauge (s_gauges s') (g_id g) = Some (match w with Some g' => g' | None => g end)) /\
    (forall d, s_bank s' MODULE d - sum_rem (s_gauges s') d = s_bank s MODULE d - sum_rem (s_gauges s) d) /\
    exists di, distribute_loop cfg thr (s_locks s) acts (s_gauges s) [] [] [] = Ok (s_gauges s', di) /\
               do_sends (s_bank s) di = Some (s_bank s').
Proof.
  intros cfg thr s s' I H. unfold after_epoch_end in H.
  destruct (gauges_of (s_gauges s) (refs_all (s_up s))) as [ups|] eqn:GU; [|discriminate].
  destruct (move_upcoming (s_now s) ups (s_up s) (s_act s)) as [[up1 act1]|] eqn:MU; [|discriminate].
  destruct (gauges_of (s_gauges s) (refs_all act1)) as [acts|] eqn:GA; [|discriminate].
  unfold distribute in H. cbn [s_locks s_gauges s_bank s_act s_fin s_now s_last_gauge s_up s_last_lock s_routable] in H.
  destruct (distribute_loop cfg thr (s_locks s) acts (s_gauges s) [] [] []) as [[store' di]|e] eqn:DL; [|discriminate].
  destruct (do_sends (s_bank s) di) as [b'|] eqn:DS; [|discriminate].
  destruct (check_finish acts act1 (s_fin s)) as [[act2 fin2]|] eqn:CF; [|discriminate].
  inversion H; subst s'; clear H. cbn [s_locks s_gauges s_bank s_act s_fin s_now s_last_gauge s_up s_last_lock s_routable].
  destruct I as [Ig Id Il Iu Ia If Ip Iids Ind Ilast Iacct Ifill].
  destruct (gauges_of_spec _ _ _ GU) as [Uids Uget]. destruct (gauges_of_spec _ _ _ GA) as [Aids Aget].
  destruct (move_upcoming_spec _ _ _ _ _ _ MU Iu Ia) as (Su1 & Sa1 & Cm).
  destruct (check_finish_spec _ _ _ _ _ CF Sa1 If) as (Sa2 & Sf2 & Cf).
  (* the active snapshot has no duplicate ids *)
  assert (Hle : forall x, cnt (map g_id acts) x <= 1).
  { intros x. rewrite Aids. destruct (Cm x) as [E1 E2]. fold (cnt_all act1 x). rewrite E2.
    pose proof (cnt_all_nonneg up1 x). pose proof (Ip x). pose proof (cnt_all_nonneg (s_fin s) x).
    destruct (in_range s x); lia. }
  assert (Nd : NoDup (map g_id acts)) by (apply cnt_le_one_nodup; auto).
  assert (InA : forall g, In g acts -> In g (s_gauges s)) by (intros g Hi; apply (get_gauge_some _ _ _ (Aget g Hi))).
  assert (InU : forall g, In g ups -> In g (s_gauges s)) by (intros g Hi; apply (get_gauge_some _ _ _ (Uget g Hi))).
  assert (Hups : forall g, In g ups <-> In g (s_gauges s) /\ 0 < cnt_all (s_up s) (g_id g)).
  { intros g. split.
    - intros Hi. split; auto. unfold cnt_all. rewrite <- Uids. apply cnt_pos_in. apply in_map; auto.
    - intros [Hi Hc]. unfold cnt_all in Hc. rewrite <- Uids in Hc. apply cnt_pos_in in Hc.
      apply in_map_iff in Hc. destruct Hc as (g2 & E & Hi2).
      pose proof (Uget _ Hi2) as G2. rewrite E in G2. rewrite (In_get _ _ Ind Hi) in G2. inversion G2; subst; auto. }
  assert (Hacts : forall g, In g acts <-> takes_part s g).
  { intros g. unfold takes_part. split.
    - intros Hi. split; auto.
      assert (C : 0 < cnt_all act1 (g_id g)) by (unfold cnt_all; rewrite <- Aids; apply cnt_pos_in, in_map; auto).
      destruct (Cm (g_id g)) as [_ E2]. rewrite E2 in C.
      destruct (Z_lt_le_dec 0 (cnt_all (s_act s) (g_id g))); [left; auto|right].
      destruct (moved_pos_ex (s_now s) ups (g_id g)) as (g2 & Hi2 & E & St); [lia|].
      pose proof (Uget _ Hi2) as G2. rewrite E in G2. rewrite (In_get _ _ Ind (InA _ Hi)) in G2. inversion G2; subst g2.
      split; auto. apply Hups; auto.
    - intros [Hi Hc].
      assert (C : 0 < cnt_all act1 (g_id g)).
      { destruct (Cm (g_id g)) as [_ E2]. rewrite E2. pose proof (moved_bounds (s_now s) ups (g_id g)).
        destruct Hc as [Hc|[Hc St]]; [lia|].
        assert (In g ups) by (apply Hups; auto). pose proof (moved_one (s_now s) ups g H0 St).
        pose proof (cnt_all_nonneg (s_act s) (g_id g)). lia. }
      unfold cnt_all in C. rewrite <- Aids in C. apply cnt_pos_in, in_map_iff in C. destruct C as (g2 & E & Hi2).
      pose proof (Aget _ Hi2) as G2. rewrite E in G2. rewrite (In_get _ _ Ind Hi) in G2. inversion G2; subst; auto. }
  (* the loop *)
  assert (Fok : Forall gauge_ok acts) by (apply Forall_forall; intros g Hi; rewrite Forall_forall in Ig; auto).
  assert (Fd : Forall dur_ok acts) by (apply Forall_forall; intros g Hi; rewrite Forall_forall in Id; apply Id; auto).
  assert (Lc0 : lc_ok (s_locks s) []) by (intros d v Hv; discriminate).
  destruct (distribute_loop_spec _ _ _ _ _ _ _ _ _ _ DL Il Lc0 Fok Fd Nd Aget Ig) as (L1 & L2 & L3 & L4 & L5).
  exists ups, acts.
  do 5 (split; [reflexivity|]).
  split; [exact Su1|]. split; [exact Sa2|]. split; [exact Sf2|]. split; [exact Nd|].
  split; [exact Hups|]. split; [exact Hacts|].
  split. { intros x. destruct (Cm x), (Cf x). repeat split; lia. }
  split; [exact L1|]. split; [exact L4|]. split; [exact L3|]. split; [exact L5|].
  split; [intros d; rewrite (do_sends_module _ _ _ DS d); specialize (L2 d); cbn [di_sum] in L2; lia|].
  exists di. split; [exact DL|exact DS].
Qed.

Lemma epoch_spec : forall cfg thr s s', Inv s -> after_epoch_end cfg thr s = Ok s' ->
  exists ups acts,
    s_now s' = s_now s /\ s_locks s' = s_locks s /\ s_last_gauge s' = s_last_gauge s /\
    s_last_lock s' = s_last_lock s /\ s_routable s' = s_routable s /\
    refs_sorted (s_up s') /\ refs_sorted (s_act s') /\ refs_sorted (s_fin s') /\
    NoDup (map g_id acts) /\
    (forall g, In g ups <-> In g (s_gauges s) /\ 0 < cnt_all (s_up s) (g_id g)) /\
    (forall g, In g acts <-> takes_part s g) /\
    (forall x, cnt_all (s_up s') x = cnt_all (s_up s) x - moved (s_now s) ups x /\
               cnt_all (s_act s') x = cnt_all (s_act s) x + moved (s_now s) ups x - finm acts x /\
               cnt_all (s_fin s') x = cnt_all (s_fin s) x + finm acts x) /\
    Forall gauge_ok (s_gauges s') /\
    map g_id (s_gauges s') = map g_id (s_gauges s) /\
    (forall id, ~ In id (map g_id acts) -> get_gauge (s_gauges s') id = get_gauge (s_gauges s) id) /\
    (forall g, In g acts -> exists di0 cache0 w di1 cache1,
        distribute_internal cfg thr g (elig (s_locks s) g) di0 cache0 = Ok (w, di1, cache1) /\
        get_gauge (s_gauges s') (g_id g) = Some (match w with Some g' => g' | None => g end)) /\
    (forall d, s_bank s' MODULE d - sum_rem (s_gauges s') d = s_bank s MODULE d - sum_rem (s_gauges s) d).
Proof.
  intros cfg thr s s' I H.
  destruct (epoch_spec_plus _ _ _ _ I H) as (ups & acts & A1 & A2 & A3 & A4 & A5 & A6 & A7 & A8 & A9 & A10 & A11 & A12 & A13 & A14 & A15 & A16 & A17 & _).
  exists ups, acts. repeat (split; [assumption|]). assumption.
Qed.

Lemma same_id_same_gauge : forall st g1 g2, NoDup (map g_id st) -> In g1 st -> In g2 st -> g_id g1 = g_id g2 -> g1 = g2.
Proof.
  intros st g1 g2 Hn H1 H2 E. pose proof (In_get _ _ Hn H1) as A. pose proof (In_get _ _ Hn H2) as B.
  rewrite E in A. congruence.
Qed.

Lemma get_notnone_in : forall st id, get_gauge st id <> None <-> In id (map g_id st).
Proof.
  induction st as [|g0 r IH]; intros id; cbn [get_gauge map In]; [tauto|].
  destruct (g_id g0 =? id) eqn:E.
  - apply Z.eqb_eq in E. split; [auto|discriminate].
  - apply Z.eqb_neq in E. rewrite IH. tauto.
Qed.

(* how each gauge evolves across one successful epoch end *)
Lemma epoch_gauge_evolution : forall cfg thr s s', Inv s -> after_epoch_end cfg thr s = Ok s' ->
  forall g', In g' (s_gauges s') ->
  exists g, In g (s_gauges s) /\ g_id g' = g_id g /\ g_coins g' = g_coins g /\ g_perp g' = g_perp g /\
            g_n g' = g_n g /\ g_start g' = g_start g /\ g_denom g' = g_denom g /\ g_dur g' = g_dur g /\
            g_pool g' = g_pool g /\
            (g' = g \/ (takes_part s g /\ g_filled g' = g_filled g + 1)).
Proof.
  intros cfg thr s s' I H g' Hi.
  destruct (epoch_spec _ _ _ _ I H) as (ups & acts & _ & _ & _ & _ & _ & _ & _ & _ & Nd & _ & Hacts & _ & _ & Hids & Hother & Hact & _).
  pose proof (I_nodup _ I) as Ind.
  assert (Nd' : NoDup (map g_id (s_gauges s'))) by (rewrite Hids; auto).
  pose proof (In_get _ _ Nd' Hi) as G'.
  destruct (in_dec Z.eq_dec (g_id g') (map g_id acts)) as [Hin|Hnin].
  - apply in_map_iff in Hin. destruct Hin as (g & E & Hg).
    destruct (Hact g Hg) as (di0 & c0 & w & di1 & c1 & D & G). rewrite E in G. rewrite G' in G. inversion G; subst g'; clear G.
    assert (Tp : takes_part s g) by (apply Hacts; auto). pose proof (proj1 Tp) as Hs.
    pose proof (distribute_internal_ok _ _ _ _ _ _ _ _ _ (proj1 (Forall_forall _ _) (I_gauges _ I) g Hs) (elig_pos _ g (I_locks _ I)) D) as OK.
    exists g. destruct w as [g'|].
    + destruct OK as (_ & E1 & E2 & E3 & E4 & E5 & E6 & E7 & E8). destruct (distribute_internal_post _ _ _ _ _ _ _ _ _ D) as (t & Et).
      repeat split; auto. rewrite Et. reflexivity.
    + repeat split; auto.
  - rewrite (Hother _ Hnin) in G'. destruct (get_gauge_some _ _ _ G') as [_ Hs].
    exists g'. repeat split; auto.
Qed.

Lemma classic_tp : forall s g, In g (s_gauges s) -> takes_part s g \/ ~ takes_part s g.
Proof.
  intros s g Hs. unfold takes_part.
  destruct (Z_lt_le_dec 0 (cnt_all (s_act s) (g_id g))); [left; auto|].
  destruct (Z_lt_le_dec 0 (cnt_all (s_up s) (g_id g))); [|right; intros [_ [?|[? _]]]; lia].
  destruct (Z_le_gt_dec (g_start g) (s_now s)); [left; auto|right; intros [_ [?|[_ ?]]]; lia].
Qed.

Lemma epoch_inv : forall cfg thr s s', Inv s -> after_epoch_end cfg thr s = Ok s' -> Inv s'.
Proof.
  intros cfg thr s s' I H.
  pose proof (epoch_gauge_evolution _ _ _ _ I H) as Ev.
  destruct (epoch_spec _ _ _ _ I H) as (ups & acts & En & El & Elg & Ell & Er & Su & Sa & Sf & Nd & Hups & Hacts & Cn & Gok & Hids & Hother & Hact & Acct).
  pose proof I as [Ig Id Il Iu Ia If Ip Iids Ind Ilast Iacct Ifill].
  assert (Rng : forall id, in_range s' id = in_range s id) by (intros; unfold in_range; rewrite Elg; reflexivity).
  constructor; auto.
  - apply Forall_forall. intros g' Hi. destruct (Ev g' Hi) as (g & Hs & _ & _ & _ & _ & _ & _ & Ed & Epl & _).
    unfold dur_ok. rewrite Ed, Epl. rewrite Forall_forall in Id. apply (Id g Hs).
  - rewrite El; auto.
  - intros id. destruct (Cn id) as (E1 & E2 & E3). rewrite Rng, <- Ip. lia.
  - intros id. rewrite Rng, <- Iids, !get_notnone_in, Hids. tauto.
  - rewrite Hids; auto.
  - rewrite Elg; auto.
  - intros d. specialize (Acct d). specialize (Iacct d). lia.
  - apply Forall_forall. intros g' Hi. destruct (Ev g' Hi) as (g & Hs & Eid & _ & Ep & En' & _ & _ & _ & _ & Hev).
    rewrite Forall_forall in Ifill. destruct (Ifill g Hs) as (F0 & Fn & Fp & Fnp).
    destruct (Cn (g_id g)) as (C1 & C2 & C3).
    pose proof (moved_bounds (s_now s) ups (g_id g)) as Mb. pose proof (finm_bounds acts (g_id g)) as Fb.
    pose proof (cnt_all_nonneg (s_up s) (g_id g)). pose proof (cnt_all_nonneg (s_act s) (g_id g)).
    pose proof (cnt_all_nonneg (s_fin s) (g_id g)). pose proof (cnt_all_nonneg (s_up s') (g_id g)).
    pose proof (cnt_all_nonneg (s_act s') (g_id g)). pose proof (cnt_all_nonneg (s_fin s') (g_id g)).
    pose proof (Ip (g_id g)) as Pg.
    assert (Ps : cnt_all (s_up s) (g_id g) + cnt_all (s_act s) (g_id g) + cnt_all (s_fin s) (g_id g) <= 1) by (destruct (in_range s (g_id g)); lia).
    (* facts about the counters of g *)
    assert (Fz : g_perp g = true -> finm acts (g_id g) = 0).
    { intros P. apply finm_zero. intros g2 Hi2 E2. assert (Hg2 : In g2 (s_gauges s)) by (apply Hacts; auto).
      rewrite (same_id_same_gauge _ _ _ Ind Hg2 Hs E2). unfold finishes. rewrite P. reflexivity. }
    assert (Tp_not : ~ takes_part s g -> moved (s_now s) ups (g_id g) = 0 /\ finm acts (g_id g) = 0 /\ cnt_all (s_act s) (g_id g) = 0).
    { intros NT. assert (cnt_all (s_act s) (g_id g) = 0).
      { destruct (Z_lt_le_dec 0 (cnt_all (s_act s) (g_id g))); [exfalso; apply NT; split; auto|lia]. }
      repeat split; auto.
      - destruct (Z_lt_le_dec 0 (moved (s_now s) ups (g_id g))); [|lia].
        destruct (moved_pos_ex _ _ _ l) as (g2 & Hi2 & E2 & St). assert (Hg2 : In g2 (s_gauges s)) by (apply Hups; auto).
        assert (Eg : g2 = g) by (apply (same_id_same_gauge _ _ _ Ind Hg2 Hs E2)). subst g2. exfalso. apply NT. split; auto. right. split; auto. apply Hups; auto.
      - destruct (Z_lt_le_dec 0 (finm acts (g_id g))); [|lia].
        destruct (finm_pos_ex _ _ l) as (g2 & Hi2 & E2 & St). assert (Tp2 : takes_part s g2) by (apply Hacts; auto).
        assert (Eg : g2 = g) by (apply (same_id_same_gauge _ _ _ Ind (proj1 Tp2) Hs E2)). subst g2. tauto. }
    assert (Tp_mv : takes_part s g -> cnt_all (s_act s) (g_id g) + moved (s_now s) ups (g_id g) = 1 /\ cnt_all (s_fin s) (g_id g) = 0 /\
                                        (finishes g = true -> finm acts (g_id g) = 1) /\ (finishes g = false -> finm acts (g_id g) = 0)).
    { intros Tp. assert (Ha : In g acts) by (apply Hacts; auto).
      assert (A1 : cnt_all (s_act s) (g_id g) + moved (s_now s) ups (g_id g) = 1).
      { destruct Tp as [_ [Hc|[Hc St]]]; [lia|]. assert (Hgu : In g ups) by (apply Hups; auto). pose proof (moved_one _ _ _ Hgu St). lia. }
      pose proof (nodup_cnt_le_one _ (g_id g) Nd).
      repeat split; auto; try lia.
      - intros Fi. pose proof (finm_one _ _ Ha Fi). lia.
      - intros Fi. apply finm_zero. intros g2 Hi2 E2. assert (Hg2 : In g2 (s_gauges s)) by (apply Hacts; auto).
        rewrite (same_id_same_gauge _ _ _ Ind Hg2 Hs E2). auto. }
    unfold fill_ok. rewrite Eid, Ep, En'.
    assert (Fl : g_filled g <= g_filled g' <= g_filled g + 1) by (destruct Hev as [->|[_ E]]; lia).
    split; [lia|]. split; [lia|]. split.
    + intros P. rewrite C3, (Fz P). rewrite (Fp P). lia.
    + intros P. destruct (Fnp P) as (N1 & U0 & A0 & F1). split; auto.
      destruct Hev as [->|[Tp Ef]].
      * (* unchanged gauge *)
        destruct (classic_tp s g Hs) as [Tp|NT].
        -- destruct (Tp_mv Tp) as (M1 & M2 & M3 & M4). repeat split; intros Hc.
           ++ apply U0. lia.
           ++ assert (Hlt : g_filled g < g_n g).
              { destruct Tp as [_ [Hc2|[Hc2 _]]]; [auto|]. rewrite (U0 Hc2). lia. }
              exact Hlt.
           ++ destruct (finishes g) eqn:Fi; [|rewrite (M4 eq_refl) in C3; lia].
              assert (Hlt : g_filled g < g_n g).
              { destruct Tp as [_ [Hc2|[Hc2 _]]]; [auto|]. rewrite (U0 Hc2). lia. }
              lia.
        -- destruct (Tp_not NT) as (M1 & M2 & M3). repeat split; intros Hc.
           ++ apply U0. lia.
           ++ lia.
           ++ apply F1. lia.
      * destruct (Tp_mv Tp) as (M1 & M2 & M3 & M4).
        assert (Hlt : g_filled g < g_n g).
        { destruct Tp as [_ [Hc2|[Hc2 _]]]; [auto|]. rewrite (U0 Hc2). lia. }
        repeat split; intros Hc.
        -- lia.
        -- destruct (finishes g) eqn:Fi; [rewrite (M3 eq_refl) in C2; lia|].
           unfold finishes in Fi. rewrite P in Fi. cbn [negb andb] in Fi. apply Z.leb_gt in Fi. unfold finish_plus in Fi. lia.
        -- lia.
Qed.

(* ------------------------------------------------------------------ the other operations *)
Lemma init_inv : forall funds, Inv (init_state funds).
Proof.
  intros. constructor; cbn; try constructor; auto.
  - intros x. unfold in_range; cbn. destruct (1 <=? x) eqn:A; destruct (x <=? 0) eqn:B; cbn; lia.
  - unfold in_range; cbn. intros H. apply andb_true_iff in H. lia.
  - lia.
Qed.

Lemma bank_send_module : forall b from c b', from <> MODULE -> bank_send b from MODULE c = Some b' ->
  forall d, b' MODULE d = b MODULE d + amount_of c d.
Proof.
  unfold bank_send. intros b from c b' Hn H d. destruct (has_coins b from c); [|discriminate]. inversion H; subst.
  unfold bank_add, bank_sub. rewrite Z.eqb_refl. destruct (MODULE =? from) eqn:E; [apply Z.eqb_eq in E; congruence|]. reflexivity.
Qed.

Lemma in_store_range : forall s g, Inv s -> In g (s_gauges s) -> in_range s (g_id g) = true.
Proof.
  intros s g I Hi. apply (I_ids _ I). rewrite (In_get _ _ (I_nodup _ I) Hi). discriminate.
Qed.

Lemma out_of_range_zero : forall s id, Inv s -> in_range s id = false ->
  cnt_all (s_up s) id = 0 /\ cnt_all (s_act s) id = 0 /\ cnt_all (s_fin s) id = 0.
Proof.
  intros s id I H. pose proof (I_part _ I id) as P. rewrite H in P.
  pose proof (cnt_all_nonneg (s_up s) id). pose proof (cnt_all_nonneg (s_act s) id). pose proof (cnt_all_nonneg (s_fin s) id). lia.
Qed.

Lemma mem_in : forall x l, mem x l = true -> In x l.
Proof. unfold mem. intros x l H. apply existsb_exists in H. destruct H as (y & Hi & E). apply Z.eqb_eq in E; subst; auto. Qed.

Lemma NoDup_app_end : forall (l : list Z) x, NoDup l -> ~ In x l -> NoDup (l ++ [x]).
Proof.
  induction l as [|a r IH]; intros x H Hn; cbn [app]; [constructor; [intros []|constructor]|].
  inversion H; subst. constructor.
  - intros Hi. apply in_app_or in Hi. destruct Hi as [Hi|[->|[]]]; [auto|]. apply Hn. left; auto.
  - apply IH; auto. intros Hi. apply Hn. right; auto.
Qed.

Lemma create_gauge_inv : forall cfg s owner perp denom dur c start n s',
  cfg_ok cfg -> Inv s -> owner <> MODULE -> pos_coins c -> sorted_coins c -> 0 <= n < two64 ->
  create_gauge cfg s owner perp denom dur c start n = Ok s' -> Inv s'.
Proof.
  intros cfg s owner perp denom dur c start n s' Hc I Ho Pc Sc Hn H. unfold create_gauge in H.
  destruct ((n =? 0) && negb perp) eqn:Z0; [discriminate|].
  destruct (negb (distributable cfg s c)); [discriminate|].
  destruct (negb (mem dur (cfg_lockable cfg))) eqn:Md; [discriminate|]. apply negb_false_iff, mem_in in Md.
  destruct (negb (mem denom (cfg_supplied cfg))); [discriminate|].
  destruct (bank_send (s_bank s) owner MODULE c) as [b|] eqn:B; [|discriminate].
  destruct (add_ref (s_up s) start (s_last_gauge s + 1)) as [up|] eqn:A; [|discriminate].
  inversion H; subst s'; clear H.
  pose proof I as [Ig Id Il Iu Ia If Ip Iids Ind Ilast Iacct Ifill].
  set (id := s_last_gauge s + 1) in *. set (g := mkGauge id perp denom dur c [] start n 0 0).
  destruct (add_ref_spec _ _ _ _ Iu A) as (Su & _ & Cu).
  assert (Or : in_range s id = false) by (unfold in_range, id; apply andb_false_iff; right; apply Z.leb_gt; lia).
  assert (Gn : get_gauge (s_gauges s) id = None).
  { destruct (get_gauge (s_gauges s) id) eqn:G; auto. assert (in_range s id = true) by (apply Iids; congruence). congruence. }
  destruct (out_of_range_zero _ _ I Or) as (Z1 & Z2 & Z3).
  assert (Gok : gauge_ok g).
  { unfold gauge_ok, g; cbn. repeat split; auto; try constructor. intros d. apply amount_of_nonneg, pos_nonneg; auto. }
  constructor; cbn [s_gauges s_locks s_up s_act s_fin s_last_gauge s_bank]; auto.
  - apply set_gauge_Forall; auto.
  - apply set_gauge_Forall; auto. unfold g, dur_ok; cbn. split; [intros _|lia]. unfold cfg_ok in Hc. rewrite Forall_forall in Hc. auto.
  - intros x. rewrite Cu. unfold in_range; cbn [s_last_gauge]. fold id. specialize (Ip x). unfold in_range in Ip.
    destruct (id =? x) eqn:E.
    + apply Z.eqb_eq in E; subst x. rewrite Z1, Z2, Z3. assert ((1 <=? id) = true) by (apply Z.leb_le; unfold id; lia).
      rewrite H, Z.leb_refl. reflexivity.
    + apply Z.eqb_neq in E. rewrite Z.add_0_r, Ip. destruct (1 <=? x); cbn [andb]; auto.
      destruct (x <=? s_last_gauge s) eqn:L1; destruct (x <=? id) eqn:L2; auto; unfold id in *; lia.
  - intros x. rewrite get_set_gauge. cbn [g_id g]. unfold in_range; cbn [s_last_gauge]. fold id.
    specialize (Iids x). unfold in_range in Iids. destruct (id =? x) eqn:E.
    + apply Z.eqb_eq in E; subst x. split; [intros _|discriminate]. apply andb_true_iff. split; apply Z.leb_le; unfold id; lia.
    + apply Z.eqb_neq in E. rewrite Iids. rewrite !andb_true_iff, !Z.leb_le. unfold id in *. lia.
  - rewrite set_gauge_fresh_ids by exact Gn. apply NoDup_app_end; auto. cbn [g_id g]. apply get_none_notin; auto.
  - lia.
  - intros d. rewrite (bank_send_module _ _ _ _ Ho B d), set_gauge_sum. cbn [g_id g]. rewrite Gn, Iacct. unfold rem, g; cbn. lia.
  - apply set_gauge_Forall.
    + apply Forall_forall. intros g0 Hi. rewrite Forall_forall in Ifill. specialize (Ifill g0 Hi).
      unfold fill_ok in *. cbn [s_up s_act s_fin]. rewrite Cu.
      assert (id =? g_id g0 = false).
      { apply Z.eqb_neq. intros E. pose proof (in_store_range _ _ I Hi). rewrite <- E in H. congruence. }
      rewrite H, Z.add_0_r. exact Ifill.
    + unfold fill_ok; cbn [s_up s_act s_fin]. change (g_id g) with id. change (g_filled g) with 0.
      change (g_n g) with n. change (g_perp g) with perp. rewrite Cu, Z1, Z2, Z3, Z.eqb_refl. repeat split; try lia.
      apply andb_false_iff in Z0. destruct Z0 as [Z0|Z0]; [apply Z.eqb_neq in Z0; lia|]. rewrite H in Z0. discriminate.
Qed.

Lemma create_nolock_gauge_inv : forall cfg s owner perp pool c start n s',
  Inv s -> owner <> MODULE -> pos_coins c -> sorted_coins c -> 0 <= n < two64 ->
  create_nolock_gauge cfg s owner perp pool c start n = Ok s' -> Inv s'.
Proof.
  intros cfg s owner perp pool c start n s' I Ho Pc Sc Hn H. unfold create_nolock_gauge in H.
  destruct ((n =? 0) && negb perp) eqn:Z0; [discriminate|].
  destruct (negb (distributable cfg s c)); [discriminate|].
  destruct (pool <=? 0) eqn:Pp; [discriminate|]. apply Z.leb_gt in Pp.
  destruct (negb (mem pool (cfg_clpools cfg))); [discriminate|].
  destruct (bank_send (s_bank s) owner MODULE c) as [b|] eqn:B; [|discriminate].
  destruct (add_ref (s_up s) start (s_last_gauge s + 1)) as [up|] eqn:A; [|discriminate].
  inversion H; subst s'; clear H.
  pose proof I as [Ig Id Il Iu Ia If Ip Iids Ind Ilast Iacct Ifill].
  set (id := s_last_gauge s + 1) in *. set (g := mkGauge id perp (- pool) 0 c [] start n 0 pool).
  destruct (add_ref_spec _ _ _ _ Iu A) as (Su & _ & Cu).
  assert (Or : in_range s id = false) by (unfold in_range, id; apply andb_false_iff; right; apply Z.leb_gt; lia).
  assert (Gn : get_gauge (s_gauges s) id = None).
  { destruct (get_gauge (s_gauges s) id) eqn:G; auto. assert (in_range s id = true) by (apply Iids; congruence). congruence. }
  destruct (out_of_range_zero _ _ I Or) as (Z1 & Z2 & Z3).
  assert (Gok : gauge_ok g).
  { unfold gauge_ok, g; cbn. repeat split; auto; try constructor. intros d. apply amount_of_nonneg, pos_nonneg; auto. }
  constructor; cbn [s_gauges s_locks s_up s_act s_fin s_last_gauge s_bank]; auto.
  - apply set_gauge_Forall; auto.
  - apply set_gauge_Forall; auto. unfold g, dur_ok; cbn. split; [intros E0|]; lia.
  - intros x. rewrite Cu. unfold in_range; cbn [s_last_gauge]. fold id. specialize (Ip x). unfold in_range in Ip.
    destruct (id =? x) eqn:E.
    + apply Z.eqb_eq in E; subst x. rewrite Z1, Z2, Z3. assert ((1 <=? id) = true) by (apply Z.leb_le; unfold id; lia).
      rewrite H, Z.leb_refl. reflexivity.
    + apply Z.eqb_neq in E. rewrite Z.add_0_r, Ip. destruct (1 <=? x); cbn [andb]; auto.
      destruct (x <=? s_last_gauge s) eqn:L1; destruct (x <=? id) eqn:L2; auto; unfold id in *; lia.
  - intros x. rewrite get_set_gauge. cbn [g_id g]. unfold in_range; cbn [s_last_gauge]. fold id.
    specialize (Iids x). unfold in_range in Iids. destruct (id =? x) eqn:E.
    + apply Z.eqb_eq in E; subst x. split; [intros _|discriminate]. apply andb_true_iff. split; apply Z.leb_le; unfold id; lia.
    + apply Z.eqb_neq in E. rewrite Iids. rewrite !andb_true_iff, !Z.leb_le. unfold id in *. lia.
  - rewrite set_gauge_fresh_ids by exact Gn. apply NoDup_app_end; auto. cbn [g_id g]. apply get_none_notin; auto.
  - lia.
  - intros d. rewrite (bank_send_module _ _ _ _ Ho B d), set_gauge_sum. cbn [g_id g]. rewrite Gn, Iacct. unfold rem, g; cbn. lia.
  - apply set_gauge_Forall.
    + apply Forall_forall. intros g0 Hi. rewrite Forall_forall in Ifill. specialize (Ifill g0 Hi).
      unfold fill_ok in *. cbn [s_up s_act s_fin]. rewrite Cu.
      assert (id =? g_id g0 = false).
      { apply Z.eqb_neq. intros E. pose proof (in_store_range _ _ I Hi). rewrite <- E in H. congruence. }
      rewrite H, Z.add_0_r. exact Ifill.
    + unfold fill_ok; cbn [s_up s_act s_fin]. change (g_id g) with id. change (g_filled g) with 0.
      change (g_n g) with n. change (g_perp g) with perp. rewrite Cu, Z1, Z2, Z3, Z.eqb_refl. repeat split; try lia.
      apply andb_false_iff in Z0. destruct Z0 as [Z0|Z0]; [apply Z.eqb_neq in Z0; lia|]. rewrite H in Z0. discriminate.
Qed.

Lemma add_to_gauge_inv : forall cfg s owner c id s',
  Inv s -> owner <> MODULE -> pos_coins c -> sorted_coins c -> add_to_gauge cfg s owner c id = Ok s' -> Inv s'.
Proof.
  intros cfg s owner c id s' I Ho Pc Sc H. unfold add_to_gauge in H.
  destruct (negb (distributable cfg s c)); [discriminate|].
  destruct (get_gauge (s_gauges s) id) as [g|] eqn:G; [|discriminate].
  destruct (is_finished_gauge g (s_now s)); [discriminate|].
  destruct (bank_send (s_bank s) owner MODULE c) as [b|] eqn:B; [|discriminate].
  inversion H; subst s'; clear H.
  pose proof I as [Ig Id Il Iu Ia If Ip Iids Ind Ilast Iacct Ifill].
  destruct (get_gauge_some _ _ _ G) as [Eid Hi].
  set (g' := mkGauge (g_id g) (g_perp g) (g_denom g) (g_dur g) (coins_add (g_coins g) c) (g_dist g) (g_start g) (g_n g) (g_filled g) (g_pool g)).
  rewrite Forall_forall in Ig, Id, Ifill.
  assert (Gn : get_gauge (s_gauges s) (g_id g') <> None) by (cbn [g_id g']; rewrite Eid, G; discriminate).
  constructor; cbn [s_gauges s_locks s_up s_act s_fin s_last_gauge s_bank]; auto.
  - apply set_gauge_Forall; [apply Forall_forall; auto|]. destruct (Ig g Hi) as (P1 & P2 & P3 & P4 & P5).
    unfold gauge_ok, g'; cbn. repeat split; auto.
    + apply pos_coins_add; auto. apply pos_nonneg; auto.
    + intros d. rewrite amount_of_coins_add. specialize (P3 d). pose proof (amount_of_nonneg c d (pos_nonneg _ Pc)). lia.
    + apply coins_add_sorted; auto.
  - apply set_gauge_Forall; [apply Forall_forall; auto|]. unfold g', dur_ok; cbn. apply (Id g Hi).
  - intros x. rewrite get_set_gauge. cbn [g_id g']. unfold in_range in *; cbn [s_last_gauge]. destruct (g_id g =? x) eqn:E; [|apply Iids].
    apply Z.eqb_eq in E. subst x. rewrite <- Iids. rewrite Eid, G. split; discriminate.
  - rewrite set_gauge_ids; auto.
  - intros d. rewrite (bank_send_module _ _ _ _ Ho B d), set_gauge_sum. cbn [g_id g']. rewrite Eid, G, Iacct.
    unfold rem, g'; cbn. rewrite amount_of_coins_add. lia.
  - apply set_gauge_Forall; [apply Forall_forall; intros g0 H0; exact (Ifill g0 H0)|].
    exact (Ifill g Hi).
Qed.

Lemma advance_inv : forall s dt, Inv s -> Inv (advance s dt).
Proof. intros s dt []. constructor; cbn; auto. Qed.

Lemma handle_inv : forall cfg s o s' v, cfg_ok cfg -> Inv s -> handle cfg s o = Ok (s', v) -> Inv s'.
Proof.
  intros cfg s o s' v Hc I H. destruct o; cbn [handle] in H.
  - destruct (negb (valid_raw raw) || (n <? 0) || (two64 <=? n) || (u <? 0)) eqn:V; [discriminate|].
    repeat (apply orb_false_iff in V; destruct V as [V ?]). apply negb_false_iff in V.
    destruct (create_gauge cfg s u perp denom dur (mk_coins raw) start n) eqn:C; [|discriminate]. inversion H; subst.
    eapply create_gauge_inv; eauto; [unfold MODULE; lia|apply mk_coins_pos; auto|apply mk_coins_sorted|lia].
  - destruct (negb (valid_raw raw) || (u <? 0)) eqn:V; [discriminate|].
    apply orb_false_iff in V; destruct V as [V ?]. apply negb_false_iff in V.
    destruct (add_to_gauge cfg s u (mk_coins raw) g) eqn:C; [|discriminate]. inversion H; subst.
    eapply add_to_gauge_inv; eauto; [unfold MODULE; lia|apply mk_coins_pos; auto|apply mk_coins_sorted].
  - unfold create_lock in H. destruct ((amt <=? 0) || (u <? 0)) eqn:A; [discriminate|]. apply orb_false_iff in A. destruct A as [A _]. inversion H; subst.
    apply with_locks_inv; auto. apply Forall_app. split; [apply (I_locks _ I)|]. constructor; [cbn; lia|constructor].
  - unfold add_to_lock in H. destruct (find_lock (s_locks s) id) as [l|] eqn:F; [|discriminate].
    destruct (amt <=? 0) eqn:A; [discriminate|]. inversion H; subst.
    apply with_locks_inv; auto. apply set_lock_pos; [apply (I_locks _ I)|]. cbn.
    pose proof (find_lock_pos _ _ _ (I_locks _ I) F). lia.
  - unfold begin_unlock in H. destruct (find_lock (s_locks s) id) as [l|] eqn:F; [|discriminate].
    pose proof (find_lock_pos _ _ _ (I_locks _ I) F) as Lp.
    destruct (amt <? 0) eqn:A0; [discriminate|]. destruct (l_amt l <? amt) eqn:A1; [discriminate|].
    destruct (l_unl l); [discriminate|].
    destruct (negb (amt =? 0) && negb (amt =? l_amt l)) eqn:A2; inversion H; subst; apply with_locks_inv; auto.
    + apply andb_true_iff in A2. destruct A2 as [B1 B2]. apply negb_true_iff, Z.eqb_neq in B1. apply negb_true_iff, Z.eqb_neq in B2.
      apply Forall_app. split; [apply set_lock_pos; [apply (I_locks _ I)|cbn; lia]|]. constructor; [cbn; lia|constructor].
    + apply set_lock_pos; [apply (I_locks _ I)|cbn; lia].
  - unfold withdraw in H. destruct (find_lock (s_locks s) id) as [l|] eqn:F; [|discriminate].
    destruct (negb (l_unl l)); [discriminate|]. destruct (s_now s <? l_end l); [discriminate|]. inversion H; subst.
    apply with_locks_inv; auto. unfold del_lock. apply filter_Forall. apply (I_locks _ I).
  - unfold set_receiver in H. destruct (find_lock (s_locks s) id) as [l|] eqn:F; [|discriminate].
    pose proof (find_lock_pos _ _ _ (I_locks _ I) F) as Lp.
    destruct (to <? 0); [discriminate|].
    cbv zeta in H. match type of H with context [if ?c then Err E_LOCK else _] => destruct c end; [discriminate|]. inversion H; subst.
    apply with_locks_inv; auto. apply set_lock_pos; [apply (I_locks _ I)|cbn; lia].
  - inversion H; subst. destruct I. constructor; cbn; auto.
  - inversion H; subst. apply advance_inv; auto.
  - destruct (after_epoch_end cfg (thr_fun thr) (advance s dt)) eqn:E; [|discriminate]. inversion H; subst.
    eapply epoch_inv; [apply advance_inv; eauto|eauto].
  - destruct (negb (valid_raw raw) || (n <? 0) || (two64 <=? n) || (u <? 0)) eqn:V; [discriminate|].
    repeat (apply orb_false_iff in V; destruct V as [V ?]). apply negb_false_iff in V.
    destruct (create_nolock_gauge cfg s u perp pool (mk_coins raw) start n) eqn:C; [|discriminate]. inversion H; subst.
    eapply create_nolock_gauge_inv; eauto; [unfold MODULE; lia|apply mk_coins_pos; auto|apply mk_coins_sorted|lia].
Qed.

Lemma step_inv : forall cfg s o, cfg_ok cfg -> Inv s -> Inv (fst (fst (step cfg s o))).
Proof.
  intros cfg s o Hc I. unfold step. destruct (handle cfg s o) as [[s' v]|e] eqn:H; cbn [fst].
  - eapply handle_inv; eauto.
  - destruct o; auto. apply advance_inv; auto.
Qed.

Lemma run_inv : forall cfg ops s, cfg_ok cfg -> Inv s -> Inv (run cfg s ops).
Proof.
  unfold run. induction ops as [|o r IH]; intros s Hc I; cbn [fold_left]; auto.
  apply IH; auto. apply step_inv; auto.
Qed.

Theorem reachable_inv : forall cfg funds ops, cfg_ok cfg -> Inv (run cfg (init_state funds) ops).
Proof. intros. apply run_inv; auto. apply init_inv. Qed.
