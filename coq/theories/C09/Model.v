(* C09 model: lock-based incentive gauges.
   Mirrors /repo/x/incentives/keeper/{gauge.go,distribute.go,hooks.go,store.go,utils.go,iterator.go},
   the gauge predicates of x/incentives/types/gauge.go, and the part of x/lockup/keeper/{lock.go,store.go,
   lock_refs.go,iterator.go} that decides which locks a ByDuration gauge pays.
   Function by function, as written (including the stale values used by checkFinishDistribution,
   the owner-keyed distributionInfo, the hard-coded small-gauge filter and the per-epoch min-value cache).
   External NoLock gauges on concentrated-liquidity pools are modelled minimally (creation, the per-epoch amount
   floor(remaining / remaining epochs) handed to the pool through CreateIncentive; a coin whose per-epoch amount
   is zero is skipped for this epoch - /repo commit 5be8fedaa6, before which the zero coin failed the whole epoch).
   Not modelled: group gauges, internal NoLock gauges, synthetic-lock gauges, the concentrated-liquidity side of
   CreateIncentive (incentive records, emission rate, uptime), the gauge-id-by-denom index, events, gas, telemetry.
   The value lookup (protorev route + pool CalcOutAmtGivenIn) is injected per epoch as a table [tval].
   Units: times and durations are integer milliseconds; denominations, users and ids are integers.
   No proofs in this file. *)
From Coq Require Import ZArith List Bool.
Import ListNotations.
From Osmo Require Import Gen.C09_consts.
Open Scope Z_scope.

Inductive res (A : Type) : Type := Ok (a : A) | Err (e : Z).
Arguments Ok {A} a.
Arguments Err {A} e.

(* error enum (what the harness projects Go errors to) *)
Definition E_ZERO_EPOCHS := 1.   (* types.ErrZeroNumEpochsPaidOver *)
Definition E_NO_ROUTE := 2.      (* types.NoRouteForDenomError *)
Definition E_DURATION := 3.      (* "invalid duration" *)
Definition E_NO_DENOM := 4.      (* "denom does not exist" *)
Definition E_FUNDS := 5.         (* bank: insufficient funds *)
Definition E_NOT_FOUND := 6.     (* types.GaugeNotFoundError *)
Definition E_FINISHED := 7.      (* types.UnexpectedFinishedGaugeError *)
Definition E_LOCK := 8.          (* any lockup error *)
Definition E_EPOCH := 9.         (* AfterEpochEnd returned an error or panicked *)
Definition E_OTHER := 11.        (* anything else, e.g. sdk.NewCoin panics on a negative amount *)

(* ------------------------------------------------------------------------------------------ *)
(* sdk.Coins: sorted by denom, positive amounts (canonical form kept by construction)          *)
Definition coins := list (Z * Z).

Fixpoint amount_of (c : coins) (d : Z) : Z :=
  match c with
  | [] => 0
  | (d', a) :: r => (if d' =? d then a else 0) + amount_of r d
  end.

Fixpoint add_coin (d a : Z) (c : coins) : coins :=
  match c with
  | [] => [(d, a)]
  | (d', a') :: r =>
      if d <? d' then (d, a) :: c
      else if d =? d' then (d', a' + a) :: r
      else (d', a') :: add_coin d a r
  end.

(* Coins.Add(y...): zero coins are dropped *)
Definition coins_add (x y : coins) : coins :=
  fold_left (fun acc c => if snd c =? 0 then acc else add_coin (fst c) (snd c) acc) y x.

(* one coin of Coins.Sub; None = negative amount = panic *)
Fixpoint sub_coin (d a : Z) (c : coins) : option coins :=
  match c with
  | [] => if a =? 0 then Some [] else None
  | (d', a') :: r =>
      if d' =? d then
        if a' <? a then None else if a' =? a then Some r else Some ((d', a' - a) :: r)
      else match sub_coin d a r with Some r' => Some ((d', a') :: r') | None => None end
  end.

Definition coins_sub (x y : coins) : option coins :=
  fold_left (fun acc c => match acc with Some l => sub_coin (fst c) (snd c) l | None => None end) y (Some x).

Definition is_empty {A} (l : list A) : bool := match l with [] => true | _ => false end.

(* coins built one by one with Coins.Add(NewCoin) from a raw list (case input) *)
Definition mk_coins (raw : list (Z * Z)) : coins := coins_add [] raw.

(* ------------------------------------------------------------------------------------------ *)
(* bank: balances as a function of (address, denom); module account = -1                        *)
Definition MODULE : Z := -1.
Definition bank := Z -> Z -> Z.

Definition has_coins (b : bank) (a : Z) (c : coins) : bool :=
  forallb (fun x => snd x <=? b a (fst x)) c.
Definition bank_add (b : bank) (a : Z) (c : coins) : bank :=
  fun a' d => if a' =? a then b a' d + amount_of c d else b a' d.
Definition bank_sub (b : bank) (a : Z) (c : coins) : bank :=
  fun a' d => if a' =? a then b a' d - amount_of c d else b a' d.
(* SendCoins: error (nothing moved) when the sender lacks funds *)
Definition bank_send (b : bank) (from to : Z) (c : coins) : option bank :=
  if has_coins b from c then Some (bank_add (bank_sub b from c) to c) else None.

(* ------------------------------------------------------------------------------------------ *)
(* locks (single-denomination period locks)                                                    *)
Record lock := mkLock {
  l_id : Z; l_owner : Z; l_denom : Z; l_amt : Z; l_dur : Z;
  l_unl : bool; l_end : Z;
  l_recv : option Z }.          (* None = "" = the owner receives *)

Definition receiver (l : lock) : Z := match l_recv l with Some r => r | None => l_owner l end.

(* store iteration order of the duration index: by duration key, then lock id; the table is kept in id order *)
Fixpoint ins_dur (x : lock) (s : list lock) : list lock :=
  match s with
  | [] => [x]
  | y :: r => if l_dur x <=? l_dur y then x :: s else y :: ins_dur x r
  end.
Definition sort_dur (l : list lock) : list lock := fold_right ins_dur [] l.

(* lockup GetLocksLongerThanDurationDenom: not-unlocking locks first, then unlocking ones *)
Definition locks_longer (tbl : list lock) (denom dur : Z) : list lock :=
  let sel u := sort_dur (filter (fun l => (l_denom l =? denom) && Bool.eqb (l_unl l) u && (dur <=? l_dur l)) tbl) in
  sel false ++ sel true.

Fixpoint find_lock (tbl : list lock) (id : Z) : option lock :=
  match tbl with [] => None | l :: r => if l_id l =? id then Some l else find_lock r id end.
Fixpoint set_lock (tbl : list lock) (l' : lock) : list lock :=
  match tbl with [] => [] | l :: r => if l_id l =? l_id l' then l' :: r else l :: set_lock r l' end.
Definition del_lock (tbl : list lock) (id : Z) : list lock := filter (fun l => negb (l_id l =? id)) tbl.

(* ------------------------------------------------------------------------------------------ *)
(* gauges                                                                                      *)
Record gauge := mkGauge {
  g_id : Z; g_perp : bool; g_denom : Z; g_dur : Z;
  g_coins : coins; g_dist : coins;
  g_start : Z; g_n : Z; g_filled : Z;
  g_pool : Z }.                 (* 0: ByDuration lock gauge; p > 0: external NoLock gauge on concentrated pool p *)

(* the incentives address of concentrated pool p (never the module account, never a user) *)
Definition pool_addr (p : Z) : Z := - (p + 1).

(* types/gauge.go *)
Definition is_upcoming_gauge (g : gauge) (t : Z) : bool := t <? g_start g.
Definition is_active_gauge (g : gauge) (t : Z) : bool :=
  (g_start g <=? t) && (g_perp g || (g_filled g <? g_n g)).
Definition is_finished_gauge (g : gauge) (t : Z) : bool :=
  negb (is_upcoming_gauge g t) && negb (is_active_gauge g t).

Fixpoint get_gauge (st : list gauge) (id : Z) : option gauge :=
  match st with [] => None | g :: r => if g_id g =? id then Some g else get_gauge r id end.
Fixpoint set_gauge (st : list gauge) (g' : gauge) : list gauge :=
  match st with
  | [] => [g']
  | g :: r => if g_id g =? g_id g' then g' :: r else g :: set_gauge r g'
  end.

(* store.go: reference lists (JSON arrays of ids) keyed by prefix|start time *)
Definition refs := list (Z * list Z).

Fixpoint refs_get (r : refs) (k : Z) : list Z :=
  match r with [] => [] | (k', l) :: t => if k' =? k then l else refs_get t k end.
Fixpoint refs_set (r : refs) (k : Z) (l : list Z) : refs :=
  match r with
  | [] => [(k, l)]
  | (k', l') :: t =>
      if k <? k' then (k, l) :: r
      else if k =? k' then (k, l) :: t
      else (k', l') :: refs_set t k l
  end.
Definition refs_delkey (r : refs) (k : Z) : refs := filter (fun x => negb (fst x =? k)) r.
Definition refs_all (r : refs) : list Z := flat_map snd r.

(* utils.go findIndex / removeValue (the last element is moved into the hole) *)
Fixpoint find_index (l : list Z) (x : Z) (i : nat) : option nat :=
  match l with [] => None | y :: r => if y =? x then Some i else find_index r x (S i) end.
Fixpoint replace_nth (n : nat) (v : Z) (l : list Z) : list Z :=
  match l, n with
  | [], _ => []
  | _ :: r, O => v :: r
  | y :: r, S n' => y :: replace_nth n' v r
  end.
Definition remove_value (l : list Z) (x : Z) : option (list Z) :=
  match find_index l x 0 with
  | None => None
  | Some i => Some (firstn (length l - 1) (replace_nth i (last l 0) l))
  end.

Definition add_ref (r : refs) (k id : Z) : option refs :=
  let ids := refs_get r k in
  match find_index ids id 0 with
  | Some _ => None                                   (* "gauge with same ID exist" *)
  | None => Some (refs_set r k (ids ++ [id]))
  end.
Definition del_ref (r : refs) (k id : Z) : option refs :=
  match remove_value (refs_get r k) id with
  | None => None                                     (* "specific gauge with ID ... not found" *)
  | Some [] => Some (refs_delkey r k)
  | Some l => Some (refs_set r k l)
  end.

(* ------------------------------------------------------------------------------------------ *)
(* configuration of the chain (constants of a case) and state                                  *)
Record config := mkCfg {
  cfg_min_denom : Z;            (* params.MinValueForDistribution *)
  cfg_min_amt : Z;
  cfg_base_denom : Z;           (* appparams.BaseCoinUnit: routes are checked against it at creation *)
  cfg_stake_denom : Z;          (* the denom exempted from the small-gauge filter *)
  cfg_lockable : list Z;        (* pool-incentives lockable durations *)
  cfg_supplied : list Z;        (* lockable denominations that have supply on chain *)
  cfg_clpools : list Z }.       (* the concentrated-liquidity pools that exist *)

Record state := mkState {
  s_now : Z;
  s_gauges : list gauge;        (* gauge store, by id *)
  s_last_gauge : Z;
  s_up : refs; s_act : refs; s_fin : refs;
  s_locks : list lock;          (* lock store, by id *)
  s_last_lock : Z;
  s_bank : bank;
  s_routable : list Z }.        (* reward denoms with a protorev route to the base denom *)

Definition mem (x : Z) (l : list Z) : bool := existsb (Z.eqb x) l.

(* gauge.go checkIfDenomsAreDistributable *)
Definition distributable (cfg : config) (s : state) (c : coins) : bool :=
  forallb (fun x => (fst x =? cfg_base_denom cfg) || mem (fst x) (s_routable s)) c.

(* gauge.go CreateGauge, ByDuration gauges with pool id 0 *)
Definition create_gauge (cfg : config) (s : state) (owner : Z) (perp : bool) (denom dur : Z)
    (c : coins) (start n : Z) : res state :=
  if (n =? 0) && negb perp then Err E_ZERO_EPOCHS else
  if negb (distributable cfg s c) then Err E_NO_ROUTE else
  if negb (mem dur (cfg_lockable cfg)) then Err E_DURATION else
  if negb (mem denom (cfg_supplied cfg)) then Err E_NO_DENOM else
  let id := s_last_gauge s + 1 in
  let g := mkGauge id perp denom dur c [] start n 0 0 in
  match bank_send (s_bank s) owner MODULE c with
  | None => Err E_FUNDS
  | Some b =>
      match add_ref (s_up s) start id with
      | None => Err E_EPOCH
      | Some up =>
          Ok (mkState (s_now s) (set_gauge (s_gauges s) g) id up (s_act s) (s_fin s)
                      (s_locks s) (s_last_lock s) b (s_routable s))
      end
  end.

(* gauge.go CreateGauge, external NoLock gauge (empty denom, uptime = the authorized 1 ns) on pool [pool];
   its distribute-to denom "no-lock/e/<pool>" is represented by the negative number -pool *)
Definition create_nolock_gauge (cfg : config) (s : state) (owner : Z) (perp : bool) (pool : Z)
    (c : coins) (start n : Z) : res state :=
  if (n =? 0) && negb perp then Err E_ZERO_EPOCHS else
  if negb (distributable cfg s c) then Err E_NO_ROUTE else
  if pool <=? 0 then Err E_OTHER else                            (* "'no lock' type gauges must have a pool id" *)
  if negb (mem pool (cfg_clpools cfg)) then Err E_OTHER else     (* pool not found / not concentrated *)
  let id := s_last_gauge s + 1 in
  let g := mkGauge id perp (- pool) 0 c [] start n 0 pool in
  match bank_send (s_bank s) owner MODULE c with
  | None => Err E_FUNDS
  | Some b =>
      match add_ref (s_up s) start id with
      | None => Err E_EPOCH
      | Some up =>
          Ok (mkState (s_now s) (set_gauge (s_gauges s) g) id up (s_act s) (s_fin s)
                      (s_locks s) (s_last_lock s) b (s_routable s))
      end
  end.

(* gauge.go AddToGaugeRewards / addToGaugeRewards *)
Definition add_to_gauge (cfg : config) (s : state) (owner : Z) (c : coins) (id : Z) : res state :=
  if negb (distributable cfg s c) then Err E_NO_ROUTE else
  match get_gauge (s_gauges s) id with
  | None => Err E_NOT_FOUND
  | Some g =>
      if is_finished_gauge g (s_now s) then Err E_FINISHED else
      let g' := mkGauge (g_id g) (g_perp g) (g_denom g) (g_dur g) (coins_add (g_coins g) c) (g_dist g)
                        (g_start g) (g_n g) (g_filled g) (g_pool g) in
      match bank_send (s_bank s) owner MODULE c with
      | None => Err E_FUNDS
      | Some b =>
          Ok (mkState (s_now s) (set_gauge (s_gauges s) g') (s_last_gauge s) (s_up s) (s_act s) (s_fin s)
                      (s_locks s) (s_last_lock s) b (s_routable s))
      end
  end.

(* ------------------------------------------------------------------------------------------ *)
(* distribution                                                                                *)
Inductive tval := TNoRoute | TErr | TVal (m : Z).

Record dentry := mkD { de_owner : Z; de_recv : Z; de_coins : coins }.
Definition dinfo := list dentry.          (* distributionInfo, in id order *)

(* distribute.go addLockRewards: keyed by the lock OWNER; the receiver of the first lock of an owner is kept *)
Fixpoint add_lock_rewards (di : dinfo) (owner recv : Z) (rewards : coins) : dinfo :=
  match di with
  | [] => [mkD owner recv rewards]
  | e :: r =>
      if de_owner e =? owner then mkD (de_owner e) (de_recv e) (coins_add rewards (de_coins e)) :: r
      else e :: add_lock_rewards r owner recv rewards
  end.

Definition vcache := list (Z * Z).        (* DistributionValueCache.denomToMinValueMap *)
Fixpoint vc_get (c : vcache) (d : Z) : option Z :=
  match c with [] => None | (d', v) :: r => if d' =? d then Some v else vc_get r d end.

(* the min-value test of distributeInternal for one amount: (pay?, cache') *)
Definition min_check (cfg : config) (thr : Z -> tval) (cache : vcache) (d amt : Z) : res (bool * vcache) :=
  if d =? cfg_min_denom cfg then Ok (negb (amt <? cfg_min_amt cfg), cache)
  else match vc_get cache d with
       | Some v => if v =? 0 then Ok (false, cache) else Ok (negb (amt <? v), cache)
       | None =>
           match thr d with
           | TNoRoute => Ok (false, (d, 0) :: cache)
           | TErr => Err E_EPOCH
           | TVal m => Ok (negb (amt <? m), (d, m) :: cache)
           end
       end.

(* inner loop over remainCoins for one lock *)
Fixpoint lock_coins (cfg : config) (thr : Z -> tval) (den lock_amt : Z) (remain : coins)
    (cache : vcache) (acc : coins) : res (coins * vcache) :=
  match remain with
  | [] => Ok (acc, cache)
  | (d, R) :: r =>
      let amt := Z.quot (lock_amt * R) den in
      match min_check cfg thr cache d amt with
      | Err e => Err e
      | Ok (pay, cache') =>
          let acc' := if pay && (0 <? amt) then coins_add acc [(d, amt)] else acc in
          lock_coins cfg thr den lock_amt r cache' acc'
      end
  end.

(* outer loop over locks *)
Fixpoint locks_loop (cfg : config) (thr : Z -> tval) (den : Z) (remain : coins) (ls : list lock)
    (di : dinfo) (cache : vcache) (total : coins) : res (dinfo * vcache * coins) :=
  match ls with
  | [] => Ok (di, cache, total)
  | l :: r =>
      match lock_coins cfg thr den (l_amt l) remain cache [] with
      | Err e => Err e
      | Ok (dc, cache') =>
          if is_empty dc then locks_loop cfg thr den remain r di cache' total
          else locks_loop cfg thr den remain r (add_lock_rewards di (l_owner l) (receiver l) dc) cache'
                          (coins_add total dc)
      end
  end.

(* updateGaugePostDistribute *)
Definition post_update (g : gauge) (newly : coins) : gauge :=
  mkGauge (g_id g) (g_perp g) (g_denom g) (g_dur g) (g_coins g) (coins_add (g_dist g) newly)
          (g_start g) (g_n g) (g_filled g + 1) (g_pool g).

Definition two64 : Z := 18446744073709551616.
Definition to_int64 (x : Z) : Z := if x <? 9223372036854775808 then x else x - two64.
(* remainEpochs (uint64 arithmetic) *)
Definition remain_epochs (g : gauge) : Z := if g_perp g then 1 else (g_n g - g_filled g) mod two64.

(* skipSpamGaugeDistribute's third test *)
Definition is_small_gauge (cfg : config) (remain : coins) : bool :=
  match remain with
  | [(d, a)] => (a <=? spam_limit) && negb (d =? cfg_stake_denom cfg)
  | _ => false
  end.

Definition sum_locks (ls : list lock) : Z := fold_left (fun a l => a + l_amt l) ls 0.
Definition max_int_bits : Z := 256.

(* the NoLock branch of distributeInternal: for every remaining coin the per-epoch amount
   remainCoin.Amount.Quo(remainEpochs) goes to clk.CreateIncentive; a zero amount is skipped ([continue]) *)
Fixpoint nolock_coins (re : Z) (remain : coins) (acc : coins) : coins :=
  match remain with
  | [] => acc
  | (d, R) :: r =>
      let amt := Z.quot R re in
      if amt <=? 0 then nolock_coins re r acc else nolock_coins re r (coins_add acc [(d, amt)])
  end.

(* distributeInternal; result: the gauge to write (None = no write), dinfo, cache.
   CreateIncentive moves the coins from the module account to the pool's incentives address at once; the model books
   that transfer in the distribution info under the pool's address and applies it with the other sends (the epoch end
   is atomic, so the two are indistinguishable; the module balance always covers it, see C09_module_covers_remainder) *)
Definition distribute_internal (cfg : config) (thr : Z -> tval) (g : gauge) (ls : list lock)
    (di : dinfo) (cache : vcache) : res (option gauge * dinfo * vcache) :=
  match coins_sub (g_coins g) (g_dist g) with
  | None => Err E_EPOCH
  | Some remain =>
      let re := remain_epochs g in
      if re =? 0 then Err E_EPOCH else
      if negb (g_pool g =? 0) then
        let total := nolock_coins re remain [] in
        Ok (Some (post_update g total),
            (if is_empty total then di else add_lock_rewards di (pool_addr (g_pool g)) (pool_addr (g_pool g)) total),
            cache)
      else
      if is_empty ls then Ok (None, di, cache) else
      if is_empty remain then Ok (Some (post_update g []), di, cache) else
      if is_small_gauge cfg remain then Ok (Some (post_update g []), di, cache) else
      let lock_sum := sum_locks ls in
      if (lock_sum =? 0) || (2 ^ max_int_bits <=? lock_sum) then Ok (None, di, cache) else
      let den := lock_sum * to_int64 re in
      match locks_loop cfg thr den remain ls di cache [] with
      | Err e => Err e
      | Ok (di', cache', total) => Ok (Some (post_update g total), di', cache')
      end
  end.

Definition lcache := list (Z * list lock).    (* locksByDenomCache *)
Fixpoint lc_get (c : lcache) (d : Z) : option (list lock) :=
  match c with [] => None | (d', v) :: r => if d' =? d then Some v else lc_get r d end.

(* getDistributeToBaseLocks + getLocksToDistributionWithMaxDuration + FilterLocksByMinDuration *)
Definition base_locks (tbl : list lock) (g : gauge) (lc : lcache) : list lock * lcache :=
  if negb (g_pool g =? 0) then ([], lc) else      (* a NoLock query condition selects no locks *)
  if is_empty (g_coins g) then ([], lc) else
  let '(all, lc') :=
    match lc_get lc (g_denom g) with
    | Some v => (v, lc)
    | None =>
        let v := if cache_min_duration_ms <? g_dur g then locks_longer tbl (g_denom g) cache_min_duration_ms
                 else locks_longer tbl (g_denom g) (g_dur g) in
        (v, (g_denom g, v) :: lc)
    end in
  (filter (fun l => g_dur g <=? l_dur l) all, lc').

(* the loop of Distribute over the (snapshot of the) gauges *)
Fixpoint distribute_loop (cfg : config) (thr : Z -> tval) (tbl : list lock) (gs : list gauge)
    (store : list gauge) (lc : lcache) (di : dinfo) (cache : vcache) : res (list gauge * dinfo) :=
  match gs with
  | [] => Ok (store, di)
  | g :: r =>
      let '(ls, lc') := base_locks tbl g lc in
      match distribute_internal cfg thr g ls di cache with
      | Err e => Err e
      | Ok (w, di', cache') =>
          let store' := match w with Some g' => set_gauge store g' | None => store end in
          distribute_loop cfg thr tbl r store' lc' di' cache'
      end
  end.

(* bank SendManyCoins (doDistributionSends) *)
Definition sends_total (di : dinfo) : coins := fold_left (fun a e => coins_add a (de_coins e)) di [].
Definition do_sends (b : bank) (di : dinfo) : option bank :=
  let total := sends_total di in
  if existsb (fun e => de_recv e =? MODULE) di then None else      (* module accounts are blocked recipients *)
  if has_coins b MODULE total then
    Some (fold_left (fun b' e => bank_add b' (de_recv e) (de_coins e)) di (bank_sub b MODULE total))
  else None.

(* moveActiveGaugeToFinishedGauge (the by-denom index is not modelled) *)
Definition move_to_finished (act fin : refs) (g : gauge) : option (refs * refs) :=
  match del_ref act (g_start g) (g_id g) with
  | None => None
  | Some act' => match add_ref fin (g_start g) (g_id g) with
                 | None => None
                 | Some fin' => Some (act', fin')
                 end
  end.

(* checkFinishDistribution over the gauges AS PASSED TO Distribute (pre-distribution values) *)
Fixpoint check_finish (gs : list gauge) (act fin : refs) : option (refs * refs) :=
  match gs with
  | [] => Some (act, fin)
  | g :: r =>
      if negb (g_perp g) && (g_n g <=? g_filled g + finish_plus) then
        match move_to_finished act fin g with
        | None => None
        | Some (act', fin') => check_finish r act' fin'
        end
      else check_finish r act fin
  end.

Fixpoint gauges_of (store : list gauge) (ids : list Z) : option (list gauge) :=
  match ids with
  | [] => Some []
  | id :: r => match get_gauge store id, gauges_of store r with
               | Some g, Some l => Some (g :: l)
               | _, _ => None
               end
  end.

(* Distribute *)
Definition distribute (cfg : config) (thr : Z -> tval) (s : state) (gs : list gauge) : res state :=
  match distribute_loop cfg thr (s_locks s) gs (s_gauges s) [] [] [] with
  | Err e => Err e
  | Ok (store, di) =>
      match do_sends (s_bank s) di with
      | None => Err E_EPOCH
      | Some b =>
          match check_finish gs (s_act s) (s_fin s) with
          | None => Err E_EPOCH
          | Some (act, fin) =>
              Ok (mkState (s_now s) store (s_last_gauge s) (s_up s) act fin
                          (s_locks s) (s_last_lock s) b (s_routable s))
          end
      end
  end.

(* hooks.go AfterEpochEnd: the loop that moves upcoming gauges whose start time has come *)
Fixpoint move_upcoming (now : Z) (gs : list gauge) (up act : refs) : option (refs * refs) :=
  match gs with
  | [] => Some (up, act)
  | g :: r =>
      if negb (now <? g_start g) then
        match del_ref up (g_start g) (g_id g) with
        | None => None
        | Some up' => match add_ref act (g_start g) (g_id g) with
                      | None => None
                      | Some act' => move_upcoming now r up' act'
                      end
        end
      else move_upcoming now r up act
  end.

Definition after_epoch_end (cfg : config) (thr : Z -> tval) (s : state) : res state :=
  match gauges_of (s_gauges s) (refs_all (s_up s)) with
  | None => Err E_EPOCH
  | Some ups =>
      match move_upcoming (s_now s) ups (s_up s) (s_act s) with
      | None => Err E_EPOCH
      | Some (up, act) =>
          match gauges_of (s_gauges s) (refs_all act) with
          | None => Err E_EPOCH
          | Some acts =>
              distribute cfg thr
                (mkState (s_now s) (s_gauges s) (s_last_gauge s) up act (s_fin s)
                         (s_locks s) (s_last_lock s) (s_bank s) (s_routable s)) acts
          end
      end
  end.

(* ------------------------------------------------------------------------------------------ *)
(* lockup operations that change which locks qualify (lock.go), single-coin locks               *)
Definition with_locks (s : state) (tbl : list lock) (last : Z) : state :=
  mkState (s_now s) (s_gauges s) (s_last_gauge s) (s_up s) (s_act s) (s_fin s) tbl last (s_bank s) (s_routable s).

(* CreateLock; the owner (a user, i.e. a non-negative address) is assumed to hold the coins; a non-positive amount
   is not a valid coin *)
Definition create_lock (s : state) (owner denom amt dur : Z) : res (state * Z) :=
  if (amt <=? 0) || (owner <? 0) then Err E_LOCK else
  let id := s_last_lock s + 1 in
  Ok (with_locks s (s_locks s ++ [mkLock id owner denom amt dur false 0 None]) id, id).

(* AddTokensToLockByID (called by the owner, who holds the coins) *)
Definition add_to_lock (s : state) (id amt : Z) : res state :=
  match find_lock (s_locks s) id with
  | None => Err E_LOCK
  | Some l =>
      if amt <=? 0 then Err E_LOCK else
      Ok (with_locks s (set_lock (s_locks s)
            (mkLock (l_id l) (l_owner l) (l_denom l) (l_amt l + amt) (l_dur l) (l_unl l) (l_end l) (l_recv l)))
            (s_last_lock s))
  end.

(* BeginUnlock / beginUnlock / SplitLock; amt = 0 stands for the empty coins argument (whole lock) *)
Definition begin_unlock (s : state) (id amt : Z) : res (state * Z) :=
  match find_lock (s_locks s) id with
  | None => Err E_LOCK
  | Some l =>
      if amt <? 0 then Err E_LOCK else
      if l_amt l <? amt then Err E_LOCK else
      if l_unl l then Err E_LOCK else
      if negb (amt =? 0) && negb (amt =? l_amt l) then
        let rest := mkLock (l_id l) (l_owner l) (l_denom l) (l_amt l - amt) (l_dur l) false (l_end l) (l_recv l) in
        let nid := s_last_lock s + 1 in
        let split := mkLock nid (l_owner l) (l_denom l) amt (l_dur l) true (s_now s + l_dur l) (l_recv l) in
        Ok (with_locks s (set_lock (s_locks s) rest ++ [split]) nid, nid)
      else
        let l' := mkLock (l_id l) (l_owner l) (l_denom l) (l_amt l) (l_dur l) true (s_now s + l_dur l) (l_recv l) in
        Ok (with_locks s (set_lock (s_locks s) l') (s_last_lock s), l_id l)
  end.

(* UnlockMaturedLock *)
Definition withdraw (s : state) (id : Z) : res state :=
  match find_lock (s_locks s) id with
  | None => Err E_LOCK
  | Some l =>
      if negb (l_unl l) then Err E_LOCK else
      if s_now s <? l_end l then Err E_LOCK else
      Ok (with_locks s (del_lock (s_locks s) id) (s_last_lock s))
  end.

(* SetLockRewardReceiverAddress, called by the owner *)
Definition set_receiver (s : state) (id to : Z) : res state :=
  match find_lock (s_locks s) id with
  | None => Err E_LOCK
  | Some l =>
      if to <? 0 then Err E_LOCK else               (* not an account address *)
      let nw := if to =? l_owner l then None else Some to in
      let same := match l_recv l, nw with
                  | None, None => true
                  | Some a, Some b => a =? b
                  | _, _ => false
                  end in
      if same then Err E_LOCK else
      Ok (with_locks s (set_lock (s_locks s)
            (mkLock (l_id l) (l_owner l) (l_denom l) (l_amt l) (l_dur l) (l_unl l) (l_end l) nw)) (s_last_lock s))
  end.

(* ------------------------------------------------------------------------------------------ *)
(* histories                                                                                   *)
Inductive op :=
| OGauge (u : Z) (perp : bool) (denom dur : Z) (raw : list (Z * Z)) (start n : Z)
| OAdd (u g : Z) (raw : list (Z * Z))
| OLock (u denom amt dur : Z)
| OAddLock (id amt : Z)
| OUnlock (id amt : Z)
| OWithdraw (id : Z)
| ORecv (id to : Z)
| ORoute (r : Z) (on : bool)       (* protorev: register a route for r / delete all routes of the base denom *)
| OTime (dt : Z)
| OEpoch (dt : Z) (thr : list tval)
| ONGauge (u : Z) (perp : bool) (pool : Z) (raw : list (Z * Z)) (start n : Z).   (* external NoLock gauge *)

(* sdk.NewCoin panics on a negative amount; the epoch count is a uint64; users are the non-negative
   addresses (the module account signs nothing) *)
Definition valid_raw (raw : list (Z * Z)) : bool := forallb (fun x => 0 <=? snd x) raw.

Definition thr_fun (l : list tval) : Z -> tval := fun d => nth (Z.to_nat d) l TNoRoute.

Definition advance (s : state) (dt : Z) : state :=
  mkState (s_now s + dt) (s_gauges s) (s_last_gauge s) (s_up s) (s_act s) (s_fin s)
          (s_locks s) (s_last_lock s) (s_bank s) (s_routable s).

(* the handler of one operation: new state and a small result value (new id) *)
Definition handle (cfg : config) (s : state) (o : op) : res (state * Z) :=
  match o with
  | OGauge u perp denom dur raw start n =>
      if negb (valid_raw raw) || (n <? 0) || (two64 <=? n) || (u <? 0) then Err E_OTHER else
      match create_gauge cfg s u perp denom dur (mk_coins raw) start n with
      | Ok s' => Ok (s', s_last_gauge s') | Err e => Err e end
  | OAdd u g raw =>
      if negb (valid_raw raw) || (u <? 0) then Err E_OTHER else
      match add_to_gauge cfg s u (mk_coins raw) g with Ok s' => Ok (s', 0) | Err e => Err e end
  | OLock u denom amt dur => create_lock s u denom amt dur
  | OAddLock id amt => match add_to_lock s id amt with Ok s' => Ok (s', 0) | Err e => Err e end
  | OUnlock id amt => begin_unlock s id amt
  | OWithdraw id => match withdraw s id with Ok s' => Ok (s', 0) | Err e => Err e end
  | ORecv id to => match set_receiver s id to with Ok s' => Ok (s', 0) | Err e => Err e end
  | ORoute r on =>
      Ok (mkState (s_now s) (s_gauges s) (s_last_gauge s) (s_up s) (s_act s) (s_fin s) (s_locks s) (s_last_lock s)
                  (s_bank s) (if on then r :: s_routable s else []), 0)
  | OTime dt => Ok (advance s dt, 0)
  | OEpoch dt thr =>
      match after_epoch_end cfg (thr_fun thr) (advance s dt) with
      | Ok s' => Ok (s', 0)
      | Err e => Err e
      end
  | ONGauge u perp pool raw start n =>
      if negb (valid_raw raw) || (n <? 0) || (two64 <=? n) || (u <? 0) then Err E_OTHER else
      match create_nolock_gauge cfg s u perp pool (mk_coins raw) start n with
      | Ok s' => Ok (s', s_last_gauge s') | Err e => Err e end
  end.

(* baseapp atomicity (DESIGN 1.5): a failing handler leaves the state unchanged - except that the block
   time of an epoch operation has advanced (the harness advances its clock before the call) *)
Definition step (cfg : config) (s : state) (o : op) : state * Z * Z :=
  match handle cfg s o with
  | Ok (s', v) => (s', 0, v)
  | Err e => (match o with OEpoch dt _ => advance s dt | _ => s end, e, 0)
  end.

Definition run (cfg : config) (s : state) (ops : list op) : state :=
  fold_left (fun s o => fst (fst (step cfg s o))) ops s.

Definition init_state (funds : Z -> Z -> Z) : state :=
  mkState 0 [] 0 [] [] [] [] 0 (fun a d => if a =? MODULE then 0 else funds a d) [].
