(* C09 lemmas about one gauge's distribution: what is paid never exceeds the remainder. *)
From Coq Require Import ZArith List Bool Lia.
Import ListNotations.
From Osmo Require Import Gen.C09_consts C09.Model C09.ProofsCoins.
Open Scope Z_scope.

Definition gauge_ok (g : gauge) : Prop :=
  pos_coins (g_coins g) /\ pos_coins (g_dist g) /\ (forall d, amount_of (g_dist g) d <= amount_of (g_coins g) d) /\
  sorted_coins (g_coins g) /\ sorted_coins (g_dist g).

Definition locks_pos (ls : list lock) : Prop := Forall (fun l => 0 < l_amt l) ls.

(* upper bound of what one lock (amount a) can get of denom d *)
Fixpoint row (den a : Z) (remain : coins) (d : Z) : Z :=
  match remain with
  | [] => 0
  | (d', R) :: r => (if d' =? d then Z.max 0 (Z.quot (a * R) den) else 0) + row den a r d
  end.
Fixpoint rows (den : Z) (ls : list lock) (remain : coins) (d : Z) : Z :=
  match ls with [] => 0 | l :: r => row den (l_amt l) remain d + rows den r remain d end.

Lemma row_nonneg : forall den a remain d, 0 <= row den a remain d.
Proof. induction remain as [|[d0 R] r IH]; intros; cbn [row]; [lia|]. specialize (IH d). destruct (d0 =? d); lia. Qed.

Lemma lock_coins_bound : forall cfg thr den a remain cache acc dc cache',
  lock_coins cfg thr den a remain cache acc = Ok (dc, cache') -> pos_coins acc ->
  pos_coins dc /\ forall d, amount_of acc d <= amount_of dc d <= amount_of acc d + row den a remain d.
Proof.
  induction remain as [|[d0 R] r IH]; intros cache acc dc cache' H Hp; cbn [lock_coins] in H.
  - inversion H; subst. split; auto. intros; cbn; lia.
  - destruct (min_check cfg thr cache d0 (Z.quot (a * R) den)) as [[pay c1]|e] eqn:M; [|discriminate].
    set (amt := Z.quot (a * R) den) in *.
    destruct (pay && (0 <? amt)) eqn:P.
    + apply andb_true_iff in P. destruct P as [_ P]. apply Z.ltb_lt in P.
      apply IH in H.
      2:{ apply pos_coins_add; auto. constructor; [cbn; lia|constructor]. }
      destruct H as [A B]. split; auto. intros d. specialize (B d).
      rewrite amount_of_coins_add in B. cbn [amount_of row] in *. pose proof (row_nonneg den a r d).
      destruct (d0 =? d); lia.
    + apply IH in H; auto. destruct H as [A B]. split; auto. intros d. specialize (B d).
      cbn [row]. pose proof (row_nonneg den a r d). destruct (d0 =? d); lia.
Qed.

Lemma locks_loop_bound : forall cfg thr den remain ls di cache total di' cache' total',
  locks_loop cfg thr den remain ls di cache total = Ok (di', cache', total') -> pos_coins total ->
  pos_coins total' /\ forall d, amount_of total d <= amount_of total' d <= amount_of total d + rows den ls remain d.
Proof.
  induction ls as [|l r IH]; intros di cache total di' cache' total' H Hp; cbn [locks_loop] in H.
  - inversion H; subst. split; auto. intros; cbn; lia.
  - destruct (lock_coins cfg thr den (l_amt l) remain cache []) as [[dc c1]|e] eqn:L; [|discriminate].
    destruct (lock_coins_bound _ _ _ _ _ _ _ _ _ L) as [Pd Bd]; [constructor|].
    destruct (is_empty dc) eqn:E.
    + apply IH in H; auto. destruct H as [A B]. split; auto. intros d. specialize (B d).
      cbn [rows]. pose proof (row_nonneg den (l_amt l) remain d). lia.
    + apply IH in H.
      2:{ apply pos_coins_add; auto. apply pos_nonneg; auto. }
      destruct H as [A B]. split; auto. intros d. specialize (B d). specialize (Bd d).
      rewrite amount_of_coins_add in B. cbn [amount_of rows] in *. lia.
Qed.

(* the arithmetic core: sum of floors of pro-rata shares never exceeds the amount shared *)
Fixpoint sum_amt (ls : list lock) : Z := match ls with [] => 0 | l :: r => l_amt l + sum_amt r end.
Fixpoint sum_q (den R : Z) (ls : list lock) : Z :=
  match ls with [] => 0 | l :: r => Z.max 0 (Z.quot (l_amt l * R) den) + sum_q den R r end.

Lemma sum_locks_fold : forall ls a, fold_left (fun a l => a + l_amt l) ls a = a + sum_amt ls.
Proof. induction ls; intros; cbn [fold_left sum_amt]; [lia|rewrite IHls; lia]. Qed.
Lemma sum_locks_eq : forall ls, sum_locks ls = sum_amt ls.
Proof. intros; unfold sum_locks; rewrite sum_locks_fold; lia. Qed.

Lemma sum_q_nonneg : forall den R ls, 0 <= sum_q den R ls.
Proof. induction ls; cbn [sum_q]; lia. Qed.

Lemma sum_q_mul_le : forall den R ls, 0 < den -> 0 <= R -> locks_pos ls ->
  sum_q den R ls * den <= sum_amt ls * R.
Proof.
  induction ls as [|l r IH]; intros Hd HR Hp; cbn [sum_q sum_amt]; [lia|].
  inversion Hp; subst. specialize (IH Hd HR H2).
  assert (0 <= l_amt l * R) by nia.
  rewrite Z.quot_div_nonneg by lia.
  pose proof (Z.mul_div_le (l_amt l * R) den Hd).
  pose proof (Z.div_pos (l_amt l * R) den H Hd). nia.
Qed.

Lemma sum_q_neg_den : forall den R ls, den <= 0 -> 0 <= R -> locks_pos ls -> sum_q den R ls = 0.
Proof.
  induction ls as [|l r IH]; intros Hd HR Hp; cbn [sum_q]; [lia|].
  inversion Hp; subst. rewrite IH; auto.
  assert (0 <= l_amt l * R) by nia.
  destruct (Z.eq_dec den 0) as [->|Hn]; [rewrite Z.quot_0_r_ext by reflexivity; lia|].
  assert (Z.quot (l_amt l * R) den <= 0).
  { rewrite <- (Z.opp_involutive den). rewrite Z.quot_opp_r by lia.
    assert (0 <= Z.quot (l_amt l * R) (- den)) by (apply Z.quot_pos; lia). lia. }
  lia.
Qed.

Lemma sum_q_le : forall Sm E R ls, Sm = sum_amt ls -> 0 < Sm -> E <> 0 -> 0 <= R -> locks_pos ls ->
  sum_q (Sm * E) R ls <= R.
Proof.
  intros Sm E R ls HS Hpos HE HR Hp.
  destruct (Z_lt_le_dec 0 E) as [He|He].
  - assert (Hd : 0 < Sm * E) by nia.
    pose proof (sum_q_mul_le (Sm * E) R ls Hd HR Hp). pose proof (sum_q_nonneg (Sm * E) R ls).
    rewrite <- HS in H. nia.
  - rewrite sum_q_neg_den; auto. nia.
Qed.

Lemma rows_cons : forall den ls d0 R r d,
  rows den ls ((d0, R) :: r) d = (if d0 =? d then sum_q den R ls else 0) + rows den ls r d.
Proof.
  induction ls as [|l t IH]; intros; cbn [rows sum_q row]; [destruct (d0 =? d); lia|].
  rewrite IH. destruct (d0 =? d); lia.
Qed.

Lemma rows_le : forall Sm E ls remain d, Sm = sum_amt ls -> 0 < Sm -> E <> 0 -> locks_pos ls ->
  Forall (fun c => 0 <= snd c) remain -> rows (Sm * E) ls remain d <= amount_of remain d.
Proof.
  intros Sm E ls remain d HS Hpos HE Hp. induction remain as [|[d0 R] r IH]; intros Hr.
  - clear. induction ls; cbn [rows row amount_of] in *; lia.
  - inversion Hr as [|x l H1 H2]; subst x l. cbn in H1. rewrite rows_cons. cbn [amount_of]. specialize (IH H2).
    pose proof (sum_q_le Sm E R ls HS Hpos HE H1 Hp). destruct (d0 =? d); lia.
Qed.

Lemma to_int64_nonzero : forall x, 0 < x < two64 -> to_int64 x <> 0.
Proof. unfold to_int64, two64. intros x H. destruct (x <? 9223372036854775808) eqn:E; lia. Qed.

Lemma remain_epochs_range : forall g, 0 <= remain_epochs g < two64.
Proof.
  unfold remain_epochs. intros g. destruct (g_perp g); [unfold two64; lia|].
  apply Z.mod_pos_bound. unfold two64; lia.
Qed.

(* the NoLock branch: per coin floor(R / re) <= R *)
Lemma nolock_coins_bound : forall re remain acc, 1 <= re -> Forall (fun c => 0 <= snd c) remain -> pos_coins acc ->
  let total := nolock_coins re remain acc in
  pos_coins total /\ forall d, amount_of acc d <= amount_of total d <= amount_of acc d + amount_of remain d.
Proof.
  induction remain as [|[d0 R] r IH]; intros acc Hre Hr Hp; cbn [nolock_coins].
  - split; auto. intros; cbn; lia.
  - inversion Hr as [|? ? HR Hr']; subst. cbn in HR.
    destruct (Z.quot R re <=? 0) eqn:E.
    { destruct (IH acc Hre Hr' Hp) as [A B]. split; auto. intros d. specialize (B d). cbn [amount_of]. destruct (d0 =? d); lia. }
    apply Z.leb_gt in E.
    assert (Q : Z.quot R re <= R).
    { rewrite Z.quot_div_nonneg by lia. apply Z.div_le_upper_bound; [lia|]. assert (0 <= (re - 1) * R) by (apply Z.mul_nonneg_nonneg; lia). lia. }
    assert (Pa : pos_coins (coins_add acc [(d0, Z.quot R re)])).
    { apply pos_coins_add; auto. constructor; [cbn; lia|constructor]. }
    destruct (IH _ Hre Hr' Pa) as [A B]. split; auto. intros d. specialize (B d). rewrite amount_of_coins_add in B. cbn [amount_of] in *.
    pose proof (amount_of_nonneg r d Hr'). destruct (d0 =? d); lia.
Qed.

(* what distributeInternal writes back keeps the gauge within its budget *)
Lemma distribute_internal_ok : forall cfg thr g ls di cache w di' cache',
  gauge_ok g -> locks_pos ls ->
  distribute_internal cfg thr g ls di cache = Ok (w, di', cache') ->
  match w with
  | None => di' = di
  | Some g' =>
      gauge_ok g' /\ g_id g' = g_id g /\ g_coins g' = g_coins g /\ g_perp g' = g_perp g /\ g_n g' = g_n g /\
      g_start g' = g_start g /\ g_denom g' = g_denom g /\ g_dur g' = g_dur g /\ g_filled g' = g_filled g + 1
  end.
Proof.
  intros cfg thr g ls di cache w di' cache' (Pc & Pd & Le & Sc & Sd) Hl H. unfold distribute_internal in H.
  destruct (coins_sub (g_coins g) (g_dist g)) as [remain|] eqn:Sb; [|discriminate].
  pose proof (coins_sub_spec _ _ _ Sb) as Rs. pose proof (coins_sub_pos _ _ _ Sb Pc) as Rp.
  destruct (remain_epochs g =? 0) eqn:Re; [discriminate|]. apply Z.eqb_neq in Re.
  assert (OK0 : gauge_ok (post_update g []) ).
  { unfold gauge_ok, post_update; cbn. repeat split; auto. }
  destruct (negb (g_pool g =? 0)).
  { inversion H; subst; clear H.
    pose proof (remain_epochs_range g) as Rr. assert (R1 : 1 <= remain_epochs g) by lia.
    assert (P0 : pos_coins []) by constructor.
    destruct (nolock_coins_bound _ _ _ R1 (pos_nonneg _ Rp) P0) as [Pt Bt].
    unfold gauge_ok, post_update; cbn. repeat split; auto.
    - apply pos_coins_add; auto. apply pos_nonneg; auto.
    - intros d. rewrite amount_of_coins_add. specialize (Bt d). cbn [amount_of] in Bt. rewrite Rs in Bt. lia.
    - apply coins_add_sorted; auto. }
  destruct (is_empty ls); [inversion H; subst; reflexivity|].
  destruct (is_empty remain); [inversion H; subst; cbn; repeat split; try apply OK0|].
  destruct (is_small_gauge cfg remain); [inversion H; subst; cbn; repeat split; try apply OK0|].
  destruct ((sum_locks ls =? 0) || (2 ^ max_int_bits <=? sum_locks ls)) eqn:Z0; [inversion H; subst; reflexivity|].
  apply orb_false_iff in Z0. destruct Z0 as [Z0 _]. apply Z.eqb_neq in Z0.
  destruct (locks_loop cfg thr (sum_locks ls * to_int64 (remain_epochs g)) remain ls di cache [])
    as [[[di1 c1] total]|e] eqn:LL; [|discriminate].
  inversion H; subst; clear H.
  destruct (locks_loop_bound _ _ _ _ _ _ _ _ _ _ _ LL) as [Pt Bt]; [constructor|].
  assert (Sp : 0 < sum_amt ls).
  { assert (G : forall l0, locks_pos l0 -> 0 <= sum_amt l0) by (intros l0 Hq; induction Hq; cbn [sum_amt]; lia).
    rewrite sum_locks_eq in Z0. pose proof (G ls Hl). lia. }
  assert (Ne : to_int64 (remain_epochs g) <> 0).
  { apply to_int64_nonzero. pose proof (remain_epochs_range g). lia. }
  unfold gauge_ok, post_update; cbn. repeat split; auto.
  - apply pos_coins_add; auto. apply pos_nonneg; auto.
  - intros d. rewrite amount_of_coins_add. specialize (Bt d). cbn [amount_of] in Bt.
    rewrite sum_locks_eq in Bt.
    pose proof (rows_le (sum_amt ls) (to_int64 (remain_epochs g)) ls remain d eq_refl Sp Ne Hl (pos_nonneg _ Rp)).
    rewrite Rs in H. lia.
  - apply coins_add_sorted; auto.
Qed.

Lemma distribute_internal_post : forall cfg thr g ls di cache g' di' cache',
  distribute_internal cfg thr g ls di cache = Ok (Some g', di', cache') -> exists t, g' = post_update g t.
Proof.
  intros cfg thr g ls di cache g' di' cache' H. unfold distribute_internal in H.
  destruct (coins_sub (g_coins g) (g_dist g)) as [remain|]; [|discriminate].
  destruct (remain_epochs g =? 0); [discriminate|].
  destruct (negb (g_pool g =? 0)).
  { inversion H; eauto. }
  destruct (is_empty ls); [discriminate|]. destruct (is_empty remain); [inversion H; eauto|].
  destruct (is_small_gauge cfg remain); [inversion H; eauto|].
  destruct ((sum_locks ls =? 0) || (2 ^ max_int_bits <=? sum_locks ls)); [discriminate|].
  destruct (locks_loop cfg thr (sum_locks ls * to_int64 (remain_epochs g)) remain ls di cache []) as [[[di1 c1] total]|e]; [|discriminate].
  inversion H; eauto.
Qed.
