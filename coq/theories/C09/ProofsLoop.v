(* C09 lemmas about the loops of Distribute: accounting and the per-gauge effect. *)
From Coq Require Import ZArith List Bool Lia.
Import ListNotations.
From Osmo Require Import Gen.C09_consts C09.Model C09.ProofsCoins C09.ProofsDistr.
Open Scope Z_scope.

(* ------------------------------------------------------------------ gauge store *)
Definition rem (g : gauge) (d : Z) : Z := amount_of (g_coins g) d - amount_of (g_dist g) d.
Fixpoint sum_rem (st : list gauge) (d : Z) : Z :=
  match st with [] => 0 | g :: r => rem g d + sum_rem r d end.

Lemma get_gauge_some : forall st id g, get_gauge st id = Some g -> g_id g = id /\ In g st.
Proof.
  induction st as [|g0 r IH]; intros id g H; cbn [get_gauge] in H; [discriminate|].
  destruct (g_id g0 =? id) eqn:E.
  - inversion H; subst. apply Z.eqb_eq in E. split; [auto|left; auto].
  - destruct (IH _ _ H). split; [auto|right; auto].
Qed.

Lemma get_set_gauge : forall st g' id,
  get_gauge (set_gauge st g') id = if g_id g' =? id then Some g' else get_gauge st id.
Proof.
  induction st as [|g0 r IH]; intros g' id; cbn [set_gauge get_gauge].
  - destruct (g_id g' =? id); reflexivity.
  - destruct (g_id g0 =? g_id g') eqn:E; cbn [get_gauge].
    + apply Z.eqb_eq in E. rewrite E. destruct (g_id g' =? id); reflexivity.
    + rewrite IH. destruct (g_id g' =? id) eqn:E2; [|reflexivity].
      apply Z.eqb_eq in E2. subst id. rewrite E. reflexivity.
Qed.

Lemma set_gauge_sum : forall st g' d,
  sum_rem (set_gauge st g') d
  = sum_rem st d + rem g' d - match get_gauge st (g_id g') with Some o => rem o d | None => 0 end.
Proof.
  induction st as [|g0 r IH]; intros g' d; cbn [set_gauge get_gauge sum_rem]; [lia|].
  destruct (g_id g0 =? g_id g'); cbn [sum_rem]; [lia|rewrite IH; lia].
Qed.

Lemma set_gauge_Forall : forall (P : gauge -> Prop) st g', Forall P st -> P g' -> Forall P (set_gauge st g').
Proof.
  induction st as [|g0 r IH]; intros g' H Hg; cbn [set_gauge]; [constructor; auto|].
  inversion H; subst. destruct (g_id g0 =? g_id g'); constructor; auto.
Qed.

Lemma set_gauge_ids : forall st g', get_gauge st (g_id g') <> None -> map g_id (set_gauge st g') = map g_id st.
Proof.
  induction st as [|g0 r IH]; intros g' H; cbn [set_gauge get_gauge map] in *; [congruence|].
  destruct (g_id g0 =? g_id g') eqn:E; cbn [map]; [apply Z.eqb_eq in E; congruence|]. f_equal. apply IH; auto.
Qed.

Lemma gauges_of_spec : forall st ids gs, gauges_of st ids = Some gs ->
  map g_id gs = ids /\ forall g, In g gs -> get_gauge st (g_id g) = Some g.
Proof.
  induction ids as [|id r IH]; intros gs H; cbn [gauges_of] in H.
  - inversion H; subst. split; [reflexivity|intros ? []].
  - destruct (get_gauge st id) eqn:G; [|discriminate]. destruct (gauges_of st r) eqn:R; [|discriminate].
    inversion H; subst. destruct (IH _ eq_refl) as [A B]. destruct (get_gauge_some _ _ _ G) as [E _].
    split; [cbn; congruence|]. intros g' [<-|Hi]; [rewrite E; auto|auto].
Qed.

(* ------------------------------------------------------------------ distribution info totals *)
Fixpoint di_sum (di : dinfo) (d : Z) : Z :=
  match di with [] => 0 | e :: r => amount_of (de_coins e) d + di_sum r d end.

Lemma sends_total_fold : forall di acc d,
  amount_of (fold_left (fun a e => coins_add a (de_coins e)) di acc) d = amount_of acc d + di_sum di d.
Proof.
  induction di as [|e r IH]; intros acc d; cbn [fold_left di_sum]; [lia|].
  rewrite IH, amount_of_coins_add. lia.
Qed.
Lemma sends_total_sum : forall di d, amount_of (sends_total di) d = di_sum di d.
Proof. intros. unfold sends_total. rewrite sends_total_fold. cbn. lia. Qed.

Lemma add_lock_rewards_sum : forall di o r c d,
  di_sum (add_lock_rewards di o r c) d = di_sum di d + amount_of c d.
Proof.
  induction di as [|e t IH]; intros o r c d; cbn [add_lock_rewards di_sum de_coins]; [lia|].
  destruct (de_owner e =? o); cbn [di_sum de_coins]; [rewrite amount_of_coins_add; lia|rewrite IH; lia].
Qed.

Lemma locks_loop_sum : forall cfg thr den remain ls di cache total di' cache' total',
  locks_loop cfg thr den remain ls di cache total = Ok (di', cache', total') ->
  forall d, di_sum di' d - di_sum di d = amount_of total' d - amount_of total d.
Proof.
  induction ls as [|l r IH]; intros di cache total di' cache' total' H d; cbn [locks_loop] in H.
  - inversion H; subst. lia.
  - destruct (lock_coins cfg thr den (l_amt l) remain cache []) as [[dc c1]|e]; [|discriminate].
    destruct (is_empty dc).
    + eapply IH; eauto.
    + pose proof (IH _ _ _ _ _ _ H d) as E. rewrite add_lock_rewards_sum, amount_of_coins_add in E. lia.
Qed.

Lemma distribute_internal_sum : forall cfg thr g ls di cache w di' cache',
  distribute_internal cfg thr g ls di cache = Ok (w, di', cache') ->
  forall d, di_sum di' d = di_sum di d + match w with Some g' => rem g d - rem g' d | None => 0 end.
Proof.
  intros cfg thr g ls di cache w di' cache' H d. unfold distribute_internal in H.
  destruct (coins_sub (g_coins g) (g_dist g)) as [remain|]; [|discriminate].
  destruct (remain_epochs g =? 0); [discriminate|].
  assert (Z0 : rem g d - rem (post_update g []) d = 0).
  { unfold rem, post_update; cbn. lia. }
  destruct (negb (g_pool g =? 0)).
  { inversion H; subst; clear H. set (total := nolock_coins (remain_epochs g) remain []).
    unfold rem, post_update; cbn [g_coins g_dist]. rewrite amount_of_coins_add.
    destruct (is_empty total) eqn:E; [destruct total; [cbn; lia|discriminate]|].
    rewrite add_lock_rewards_sum. lia. }
  destruct (is_empty ls); [inversion H; subst; lia|].
  destruct (is_empty remain); [inversion H; subst; lia|].
  destruct (is_small_gauge cfg remain); [inversion H; subst; lia|].
  destruct ((sum_locks ls =? 0) || (2 ^ max_int_bits <=? sum_locks ls)); [inversion H; subst; lia|].
  destruct (locks_loop cfg thr (sum_locks ls * to_int64 (remain_epochs g)) remain ls di cache [])
    as [[[di1 c1] total]|e] eqn:LL; [|discriminate].
  inversion H; subst; clear H. pose proof (locks_loop_sum _ _ _ _ _ _ _ _ _ _ _ LL d) as S.
  unfold rem, post_update; cbn [g_coins g_dist]. rewrite amount_of_coins_add. cbn [amount_of] in S. lia.
Qed.

(* ------------------------------------------------------------------ which locks a gauge pays *)
Definition qual_locks (tbl : list lock) (g : gauge) : list lock :=
  filter (fun l => g_dur g <=? l_dur l) (locks_longer tbl (g_denom g) cache_min_duration_ms).
Definition elig (tbl : list lock) (g : gauge) : list lock :=
  if negb (g_pool g =? 0) then [] else if is_empty (g_coins g) then [] else qual_locks tbl g.

(* lock gauges have a duration above the cache query duration (NoLock gauges carry the 1 ns uptime) *)
Definition dur_ok (g : gauge) : Prop := (g_pool g = 0 -> cache_min_duration_ms < g_dur g) /\ 0 <= g_pool g.

Definition lc_ok (tbl : list lock) (lc : lcache) : Prop :=
  forall d v, lc_get lc d = Some v -> v = locks_longer tbl d cache_min_duration_ms.

Lemma base_locks_spec : forall tbl g lc ls lc', lc_ok tbl lc -> dur_ok g ->
  base_locks tbl g lc = (ls, lc') -> ls = elig tbl g /\ lc_ok tbl lc'.
Proof.
  unfold base_locks, elig, qual_locks, dur_ok. intros tbl g lc ls lc' Hlc [Hd _] H.
  destruct (g_pool g =? 0) eqn:P; cbn [negb] in *; [|inversion H; subst; auto].
  apply Z.eqb_eq in P. specialize (Hd P).
  destruct (is_empty (g_coins g)); [inversion H; subst; auto|].
  destruct (lc_get lc (g_denom g)) as [v|] eqn:G.
  - inversion H; subst. rewrite (Hlc _ _ G). auto.
  - apply Z.ltb_lt in Hd. rewrite Hd in H. inversion H; subst. split; auto.
    intros d v Hv. cbn [lc_get] in Hv. destruct (g_denom g =? d) eqn:E; [|eauto].
    apply Z.eqb_eq in E. inversion Hv; subst. reflexivity.
Qed.

Lemma ins_dur_Forall : forall (P : lock -> Prop) x s, P x -> Forall P s -> Forall P (ins_dur x s).
Proof.
  induction s as [|y r IH]; intros Hx Hs; cbn [ins_dur]; [constructor; auto|].
  inversion Hs; subst. destruct (l_dur x <=? l_dur y); constructor; auto.
Qed.
Lemma sort_dur_Forall : forall (P : lock -> Prop) l, Forall P l -> Forall P (sort_dur l).
Proof.
  unfold sort_dur. induction l; intros H; cbn [fold_right]; [constructor|].
  inversion H; subst. apply ins_dur_Forall; auto.
Qed.
Lemma filter_Forall : forall (P : lock -> Prop) f l, Forall P l -> Forall P (filter f l).
Proof.
  induction l; intros H; cbn [filter]; [constructor|]. inversion H; subst.
  destruct (f a); [constructor|]; auto.
Qed.
Lemma locks_longer_Forall : forall (P : lock -> Prop) tbl d x, Forall P tbl -> Forall P (locks_longer tbl d x).
Proof.
  intros. unfold locks_longer. apply Forall_app. split; apply sort_dur_Forall, filter_Forall; auto.
Qed.
Lemma elig_pos : forall tbl g, locks_pos tbl -> locks_pos (elig tbl g).
Proof.
  intros. unfold elig, qual_locks, locks_pos. destruct (negb (g_pool g =? 0)); [constructor|].
  destruct (is_empty (g_coins g)); [constructor|].
  apply filter_Forall, locks_longer_Forall; auto.
Qed.

(* ------------------------------------------------------------------ the loop over the gauges *)
Lemma distribute_loop_spec : forall cfg thr tbl gs store lc di cache store' di',
  distribute_loop cfg thr tbl gs store lc di cache = Ok (store', di') ->
  locks_pos tbl -> lc_ok tbl lc ->
  Forall gauge_ok gs -> Forall dur_ok gs ->
  NoDup (map g_id gs) ->
  (forall g, In g gs -> get_gauge store (g_id g) = Some g) ->
  Forall gauge_ok store ->
  Forall gauge_ok store' /\
  (forall d, sum_rem store' d + di_sum di' d = sum_rem store d + di_sum di d) /\
  (forall id, ~ In id (map g_id gs) -> get_gauge store' id = get_gauge store id) /\
  map g_id store' = map g_id store /\
  (forall g, In g gs -> exists di0 cache0 w di1 cache1,
       distribute_internal cfg thr g (elig tbl g) di0 cache0 = Ok (w, di1, cache1) /\
       get_gauge store' (g_id g) = Some (match w with Some g' => g' | None => g end)).
Proof.
  induction gs as [|g r IH]; intros store lc di cache store' di' H Hl Hlc Hok Hdur Hnd Hget Hst; cbn [distribute_loop] in H.
  - inversion H; subst. repeat split; auto. intros ? [].
  - destruct (base_locks tbl g lc) as [ls lc1] eqn:B.
    inversion Hok as [|? ? Hg Hok']; subst. inversion Hdur as [|? ? Hd Hdur']; subst.
    inversion Hnd as [|? ? Hni Hnd']; subst.
    destruct (base_locks_spec _ _ _ _ _ Hlc Hd B) as [-> Hlc1].
    destruct (distribute_internal cfg thr g (elig tbl g) di cache) as [[[w di1] c1]|e] eqn:D; [|discriminate].
    pose proof (distribute_internal_ok _ _ _ _ _ _ _ _ _ Hg (elig_pos _ g Hl) D) as OKw.
    pose proof (distribute_internal_sum _ _ _ _ _ _ _ _ _ D) as Sw.
    assert (Gg : get_gauge store (g_id g) = Some g) by (apply Hget; left; auto).
    set (store1 := match w with Some g' => set_gauge store g' | None => store end) in *.
    assert (Hst1 : Forall gauge_ok store1).
    { unfold store1. destruct w as [g'|]; auto. apply set_gauge_Forall; auto. apply OKw. }
    assert (Hget1 : forall g2, In g2 r -> get_gauge store1 (g_id g2) = Some g2).
    { intros g2 Hi. unfold store1. destruct w as [g'|]; [|apply Hget; right; auto].
      rewrite get_set_gauge. destruct OKw as (_ & Eid & _). rewrite Eid.
      destruct (g_id g =? g_id g2) eqn:E; [|apply Hget; right; auto].
      apply Z.eqb_eq in E. exfalso. apply Hni. rewrite E. apply in_map; auto. }
    destruct (IH _ _ _ _ _ _ H Hl Hlc1 Hok' Hdur' Hnd' Hget1 Hst1) as (A1 & A2 & A3 & A5 & A4).
    assert (Ids1 : map g_id store1 = map g_id store).
    { unfold store1. destruct w as [g'|]; auto. apply set_gauge_ids. destruct OKw as (_ & Eid & _). rewrite Eid, Gg. discriminate. }
    assert (G1 : forall id, id <> g_id g -> get_gauge store1 id = get_gauge store id).
    { intros id Hne. unfold store1. destruct w as [g'|]; auto. rewrite get_set_gauge.
      destruct OKw as (_ & Eid & _). rewrite Eid. destruct (g_id g =? id) eqn:E; [apply Z.eqb_eq in E; congruence|auto]. }
    repeat split; auto.
    + intros d. rewrite A2. rewrite (Sw d). unfold store1. destruct w as [g'|]; [|lia].
      rewrite set_gauge_sum. destruct OKw as (_ & Eid & _). rewrite Eid, Gg. lia.
    + intros id Hn. cbn [map In] in Hn. rewrite A3 by tauto. apply G1. intros ->. tauto.
    + congruence.
    + intros g2 [<-|Hi].
      * exists di, cache, w, di1, c1. split; auto. rewrite A3 by auto.
        unfold store1. destruct w as [g'|]; auto. rewrite get_set_gauge.
        destruct OKw as (_ & Eid & _). rewrite Eid, Z.eqb_refl. reflexivity.
      * apply A4; auto.
Qed.

(* ------------------------------------------------------------------ payout *)
Lemma do_sends_module : forall b di b', do_sends b di = Some b' ->
  forall d, b' MODULE d = b MODULE d - di_sum di d.
Proof.
  unfold do_sends. intros b di b' H d.
  destruct (existsb (fun e => de_recv e =? MODULE) di) eqn:X; [discriminate|].
  destruct (has_coins b MODULE (sends_total di)); [|discriminate]. inversion H; subst; clear H.
  rewrite <- sends_total_sum.
  assert (G : forall l b0, existsb (fun e => de_recv e =? MODULE) l = false ->
            fold_left (fun b' e => bank_add b' (de_recv e) (de_coins e)) l b0 MODULE d = b0 MODULE d).
  { induction l as [|e r IH]; intros b0 Hx; cbn [fold_left]; auto.
    cbn [existsb] in Hx. apply orb_false_iff in Hx. destruct Hx as [E Hx]. rewrite IH; auto.
    unfold bank_add. rewrite Z.eqb_sym, E. reflexivity. }
  rewrite G by auto. unfold bank_sub. rewrite Z.eqb_refl. reflexivity.
Qed.
