(* C09: the model's per-gauge credit equals the property's pro-rata floors (Spec.v), hence the theorem on balances. *)
From Coq Require Import ZArith List Bool Lia Permutation.
Import ListNotations.
From Osmo Require Import Gen.C09_consts C09.Model C09.Spec C09.ProofsCoins C09.ProofsDistr C09.ProofsLoop C09.ProofsInv
  C09.ProofsLife C09.ProofsShare.
Open Scope Z_scope.

(* ------------------------------------------------------------------ permutations *)
Lemma perm_filter : forall (A : Type) (f : A -> bool) l l', Permutation l l' -> Permutation (filter f l) (filter f l').
Proof.
  intros A f l l' P. induction P; cbn [filter].
  - constructor.
  - destruct (f x); [constructor|]; auto.
  - destruct (f x), (f y); try apply Permutation_refl. apply perm_swap.
  - eapply Permutation_trans; eauto.
Qed.

Lemma perm_ins_dur : forall x s, Permutation (ins_dur x s) (x :: s).
Proof.
  induction s as [|y r IH]; cbn [ins_dur]; [apply Permutation_refl|].
  destruct (l_dur x <=? l_dur y); [apply Permutation_refl|].
  eapply Permutation_trans; [apply perm_skip; apply IH|apply perm_swap].
Qed.
Lemma perm_sort_dur : forall l, Permutation (sort_dur l) l.
Proof.
  unfold sort_dur. induction l; cbn [fold_right]; [constructor|].
  eapply Permutation_trans; [apply perm_ins_dur|apply perm_skip; auto].
Qed.

Lemma perm_split_filter : forall (A : Type) (p1 p2 q : A -> bool) l,
  (forall x, q x = p1 x || p2 x) -> (forall x, p1 x && p2 x = false) ->
  Permutation (filter p1 l ++ filter p2 l) (filter q l).
Proof.
  intros A p1 p2 q l Hq Hx. induction l as [|x r IH]; cbn [filter app]; [constructor|].
  specialize (Hq x). specialize (Hx x). rewrite Hq.
  destruct (p1 x), (p2 x); cbn [orb andb] in *; try discriminate.
  - cbn [app]. apply perm_skip; auto.
  - eapply Permutation_trans; [apply Permutation_sym, Permutation_middle|]. apply perm_skip; auto.
  - auto.
Qed.

Lemma qual_locks_perm : forall tbl g, g_pool g = 0 -> cache_min_duration_ms < g_dur g ->
  Permutation (qual_locks tbl g) (qualifying tbl g).
Proof.
  intros tbl g Hp0 Hd. unfold qual_locks, locks_longer, qualifying.
  rewrite filter_app.
  eapply Permutation_trans.
  { apply Permutation_app; apply perm_filter, perm_sort_dur. }
  set (f := fun l : lock => g_dur g <=? l_dur l).
  set (pu := fun u (l : lock) => (l_denom l =? g_denom g) && Bool.eqb (l_unl l) u && (cache_min_duration_ms <=? l_dur l)).
  change (Permutation (filter f (filter (pu false) tbl) ++ filter f (filter (pu true) tbl)) (filter (qualifies g) tbl)).
  assert (FF : forall u, filter f (filter (pu u) tbl) = filter (fun l => pu u l && f l) tbl).
  { intros u. clear. induction tbl as [|x r IH]; cbn [filter]; auto. destruct (pu u x); cbn [filter andb]; [destruct (f x); rewrite IH; auto|auto]. }
  rewrite !FF. apply perm_split_filter.
  - intros x. unfold qualifies, pu, f. rewrite Hp0. cbn [Z.eqb andb]. destruct (l_denom x =? g_denom g); cbn [andb orb]; auto.
    destruct (g_dur g <=? l_dur x) eqn:E; [|rewrite !andb_false_r; auto].
    apply Z.leb_le in E. assert ((cache_min_duration_ms <=? l_dur x) = true) by (apply Z.leb_le; lia).
    rewrite H. destruct (l_unl x); reflexivity.
  - intros x. unfold pu. destruct (l_unl x); cbn [Bool.eqb]; rewrite ?andb_false_r; cbn [andb]; auto.
Qed.

Lemma perm_fold_sum : forall (A : Type) (f : A -> Z) l l', Permutation l l' ->
  fold_right (fun x acc => f x + acc) 0 l = fold_right (fun x acc => f x + acc) 0 l'.
Proof. intros A f l l' P. induction P; cbn [fold_right]; lia. Qed.

(* ------------------------------------------------------------------ one gauge *)
Lemma row_exact_sorted : forall cfg thr den a remain d, sorted_coins remain -> pos_coins remain ->
  row_exact cfg thr den a remain d = pay_amt cfg thr d (Z.quot (a * amount_of remain d) den).
Proof.
  intros cfg thr den a remain d Hs Hp.
  assert (P0 : pay_amt cfg thr d (Z.quot (a * 0) den) = 0).
  { rewrite Z.mul_0_r. change (Z.quot 0 den) with 0. unfold pay_amt. reflexivity. }
  induction remain as [|[d0 R] r IH]; cbn [row_exact amount_of]; [symmetry; exact P0|].
  inversion Hs as [|? ? ? Hs1 Hs2]; subst. inversion Hp as [|? ? Hp1 Hp2]; subst. specialize (IH Hs1 Hp2).
  destruct (d0 =? d) eqn:E.
  - apply Z.eqb_eq in E; subst d0. rewrite IH, (sorted_amount_tail _ _ _ Hs), P0. rewrite !Z.add_0_r. reflexivity.
  - rewrite IH, !Z.add_0_l. reflexivity.
Qed.

Lemma lsum_fold : forall cfg thr den remain ls a d,
  lsum cfg thr den remain ls a d
  = fold_right (fun l acc => (if receiver l =? a then row_exact cfg thr den (l_amt l) remain d else 0) + acc) 0 ls.
Proof. induction ls; intros; cbn [lsum fold_right]; [reflexivity|rewrite IHls; reflexivity]. Qed.

Lemma total_locked_sum : forall ls, total_locked ls = sum_amt ls.
Proof. unfold total_locked. induction ls; cbn [fold_right sum_amt]; [reflexivity|rewrite IHls; reflexivity]. Qed.

Lemma sum_amt_perm : forall l l', Permutation l l' -> sum_amt l = sum_amt l'.
Proof. intros l l' P. induction P; cbn [sum_amt]; lia. Qed.

(* hypotheses that exclude finding C09-F2 and the 64/256-bit corner cases *)
Definition share_hyp (cfg : config) (tbl : list lock) (g : gauge) : Prop :=
  (forall remain, coins_sub (g_coins g) (g_dist g) = Some remain -> elig tbl g <> [] -> is_small_gauge cfg remain = false) /\
  sum_locks (elig tbl g) < 2 ^ max_int_bits /\ g_n g < 2 ^ 63.

Lemma gauge_credit_ideal : forall cfg thr tbl g a d,
  gauge_ok g -> locks_pos tbl -> dur_ok g -> 0 <= a ->
  (g_perp g = false -> 0 <= g_filled g < g_n g) ->
  coins_sub (g_coins g) (g_dist g) <> None ->
  share_hyp cfg tbl g ->
  gauge_credit cfg thr g (elig tbl g) a d = credit_of_gauge cfg thr tbl a d g.
Proof.
  intros cfg thr tbl g a d (Pc & Pd & Le & Sc & Sd) Lp [Hd0 Hpl] Ha Hf Hsub (Hsm & Hsum & Hn).
  unfold gauge_credit, credit_of_gauge.
  destruct (coins_sub (g_coins g) (g_dist g)) as [remain|] eqn:Sb; [|congruence].
  destruct (g_pool g =? 0) eqn:Pz; cbn [negb].
  2:{ (* a NoLock gauge credits its pool only, and no lock qualifies for it *)
      apply Z.eqb_neq in Pz.
      assert (Q0 : qualifying tbl g = []).
      { unfold qualifying. assert (F : forall l, qualifies g l = false) by (intros l; unfold qualifies; apply Z.eqb_neq in Pz; rewrite Pz; reflexivity).
        clear -F. induction tbl as [|l r IH]; cbn [filter]; auto. rewrite F. auto. }
      rewrite Q0. cbn [fold_right].
      assert (pool_addr (g_pool g) =? a = false) by (apply Z.eqb_neq; unfold pool_addr; lia). rewrite H. reflexivity. }
  apply Z.eqb_eq in Pz. pose proof (Hd0 Pz) as Hd.
  pose proof (coins_sub_spec _ _ _ Sb) as Rs. pose proof (coins_sub_pos _ _ _ Sb Pc) as Rp.
  pose proof (coins_sub_sorted _ _ _ Sb Sc) as Rsd.
  assert (Rem : forall d0, remaining g d0 = amount_of remain d0) by (intros; unfold remaining; rewrite Rs; reflexivity).
  (* every share is zero when nothing remains of denom d *)
  assert (Zero : amount_of remain d = 0 ->
     fold_right (fun l acc => (if receiver l =? a then share cfg thr tbl g l d else 0) + acc) 0 (qualifying tbl g) = 0).
  { intros Z0. induction (qualifying tbl g) as [|l r IH]; cbn [fold_right]; auto. rewrite IH.
    unfold share. rewrite Rem, Z0, Z.mul_0_l. change (0 / (total_locked (qualifying tbl g) * epochs_left g)) with 0. cbn. destruct (receiver l =? a); reflexivity. }
  destruct (is_empty (elig tbl g)) eqn:Ee; cbn [orb].
  { (* no lock is eligible: either the gauge has no coins at all, or nobody qualifies *)
    unfold elig in Ee. rewrite Pz in Ee. cbn [Z.eqb negb] in Ee. destruct (is_empty (g_coins g)) eqn:Ec.
    - destruct (g_coins g) eqn:Gc; [|discriminate]. symmetry. apply Zero. rewrite Rs. cbn.
      specialize (Le d). cbn in Le. pose proof (amount_of_nonneg _ d (pos_nonneg _ Pd)). lia.
    - destruct (qual_locks tbl g) eqn:Q; [|discriminate].
      pose proof (qual_locks_perm tbl g Pz Hd) as P. rewrite Q in P. apply Permutation_nil in P. rewrite P. reflexivity. }
  assert (Ene : elig tbl g <> []) by (intros X; rewrite X in Ee; discriminate).
  assert (Eq : elig tbl g = qual_locks tbl g).
  { unfold elig in *. rewrite Pz in *. cbn [Z.eqb negb] in *. destruct (is_empty (g_coins g)); [exfalso; apply Ene; reflexivity|reflexivity]. }
  destruct (is_empty remain) eqn:Er; cbn [orb].
  { destruct remain; [|discriminate]. symmetry. apply Zero. reflexivity. }
  rewrite (Hsm remain eq_refl Ene). cbn [orb].
  pose proof (elig_pos tbl g Lp) as Ep.
  assert (Sp : 0 < sum_amt (elig tbl g)).
  { assert (G : forall l0, locks_pos l0 -> 0 <= sum_amt l0) by (intros l0 Hq; induction Hq; cbn [sum_amt]; lia).
    destruct (elig tbl g) as [|l0 lr]; [congruence|]. inversion Ep; subst. cbn [sum_amt]. pose proof (G lr H2). lia. }
  rewrite sum_locks_eq in *.
  assert (Z1 : (sum_amt (elig tbl g) =? 0) = false) by (apply Z.eqb_neq; lia).
  assert (Z2 : (2 ^ max_int_bits <=? sum_amt (elig tbl g)) = false) by (apply Z.leb_gt; lia).
  rewrite Z1, Z2. cbn [orb].
  (* the divisor *)
  assert (El : to_int64 (remain_epochs g) = epochs_left g /\ 0 < epochs_left g).
  { unfold remain_epochs, epochs_left. destruct (g_perp g); [split; [reflexivity|lia]|].
    specialize (Hf eq_refl). assert (E : (g_n g - g_filled g) mod two64 = g_n g - g_filled g).
    { apply Z.mod_small. unfold two64. assert (2 ^ 63 = 9223372036854775808) by reflexivity. lia. }
    rewrite E. unfold to_int64. assert (2 ^ 63 = 9223372036854775808) by reflexivity.
    destruct (g_n g - g_filled g <? 9223372036854775808) eqn:X; [split; [reflexivity|lia]|apply Z.ltb_ge in X; lia]. }
  destruct El as [El Epos]. rewrite El.
  pose proof (qual_locks_perm tbl g Pz Hd) as P. rewrite <- Eq in P.
  rewrite lsum_fold.
  rewrite (perm_fold_sum _ (fun l => if receiver l =? a then row_exact cfg thr (sum_amt (elig tbl g) * epochs_left g) (l_amt l) remain d else 0) _ _ P).
  assert (Tl : total_locked (qualifying tbl g) = sum_amt (elig tbl g)) by (rewrite total_locked_sum; symmetry; apply sum_amt_perm; auto).
  assert (Lq : Forall (fun l => 0 < l_amt l) (qualifying tbl g)).
  { unfold qualifying. apply filter_Forall. exact Lp. }
  clear P.
  assert (Gen : forall qs, Forall (fun l => 0 < l_amt l) qs ->
    fold_right (fun l acc => (if receiver l =? a then row_exact cfg thr (sum_amt (elig tbl g) * epochs_left g) (l_amt l) remain d else 0) + acc) 0 qs
    = fold_right (fun l acc => (if receiver l =? a then share cfg thr tbl g l d else 0) + acc) 0 qs).
  { induction qs as [|l r IH]; intros Fq; cbn [fold_right]; auto.
    inversion Fq as [|? ? Fq1 Fq2]; subst. rewrite (IH Fq2). f_equal. destruct (receiver l =? a); auto.
    rewrite (row_exact_sorted _ _ _ _ _ _ Rsd Rp). unfold share, pay_amt. rewrite Rem, Tl.
    assert (Nn : 0 <= l_amt l * amount_of remain d) by (pose proof (amount_of_nonneg _ d (pos_nonneg _ Rp)); nia).
    rewrite Z.quot_div_nonneg by nia. rewrite (Z.mul_comm (amount_of remain d) (l_amt l)). reflexivity. }
  apply Gen. exact Lq.
Qed.

(* ------------------------------------------------------------------ all gauges *)
Lemma gsum_fold : forall cfg thr tbl gs a d,
  gsum cfg thr tbl gs a d = fold_right (fun g acc => gauge_credit cfg thr g (elig tbl g) a d + acc) 0 gs.
Proof. induction gs; intros; cbn [gsum fold_right]; [reflexivity|rewrite IHgs; reflexivity]. Qed.

Lemma NoDup_map_inv' : forall (l : list gauge), NoDup (map g_id l) -> NoDup l.
Proof.
  induction l as [|g r IH]; intros H; constructor; inversion H; subst.
  - intros Hi. apply H2. apply in_map; auto.
  - apply IH; auto.
Qed.

Lemma participates_spec : forall s g, In g (s_gauges s) -> (participates s g = true <-> takes_part s g).
Proof.
  intros s g Hs. unfold participates, takes_part. rewrite orb_true_iff, andb_true_iff, !mem_cnt, Z.leb_le.
  unfold cnt_all. tauto.
Qed.

Theorem share_credit : forall cfg thr s s', Inv s -> thr_positive thr -> consistent_receivers (s_locks s) ->
  owners_nonneg (s_locks s) ->
  (forall g, takes_part s g -> share_hyp cfg (s_locks s) g) ->
  after_epoch_end cfg thr s = Ok s' ->
  forall a d, 0 <= a -> s_bank s' a d - s_bank s a d = ideal_credit cfg thr s a d.
Proof.
  intros cfg thr s s' I Tp Cs On Hh H a d Ha.
  destruct (epoch_credit_model _ _ _ _ I Tp Cs On H) as (acts & Nd & Hacts & Cr).
  rewrite (Cr a d ltac:(unfold MODULE; lia)). rewrite gsum_fold. unfold ideal_credit.
  assert (P : Permutation acts (participants s)).
  { apply NoDup_Permutation.
    - apply NoDup_map_inv'; auto.
    - unfold participants. apply NoDup_filter. apply NoDup_map_inv'. apply (I_nodup _ I).
    - intros g. rewrite Hacts. unfold participants. rewrite filter_In. split.
      + intros T. split; [apply T|apply participates_spec; [apply T|auto]].
      + intros [Hs T]. apply participates_spec; auto. }
  rewrite (perm_fold_sum _ (fun g => gauge_credit cfg thr g (elig (s_locks s) g) a d) _ _ P).
  assert (All : forall g, In g (participants s) -> gauge_credit cfg thr g (elig (s_locks s) g) a d = credit_of_gauge cfg thr (s_locks s) a d g).
  { intros g Hi. unfold participants in Hi. apply filter_In in Hi. destruct Hi as [Hs Hp].
    assert (T : takes_part s g) by (apply participates_spec; auto).
    pose proof (I_gauges _ I) as Ig. rewrite Forall_forall in Ig. pose proof (I_durs _ I) as Id. rewrite Forall_forall in Id.
    pose proof (I_fill _ I) as Ifl. rewrite Forall_forall in Ifl. destruct (Ifl g Hs) as (F0 & Fn & _ & Fnp).
    apply gauge_credit_ideal; auto.
    - apply (I_locks _ I).
    - intros P0. destruct (Fnp P0) as (N1 & U0 & A0 & _). split; auto.
      destruct T as [_ [Hc|[Hc _]]]; [auto|]. rewrite (U0 Hc). lia.
    - destruct (proj2 (epoch_gauge_result _ _ _ _ g I H Hs) T) as (di0 & c0 & w & di1 & c1 & D & _).
      unfold distribute_internal in D. destruct (coins_sub (g_coins g) (g_dist g)); [discriminate|discriminate]. }
  clear P. revert All. generalize (participants s). induction l as [|g r IH]; intros All; cbn [fold_right]; auto.
  rewrite All by (left; auto). rewrite IH; auto. intros; apply All; right; auto.
Qed.

(* ------------------------------------------------------------------ "everything" for perpetual gauges, up to dust *)
Fixpoint sum_div (R Sm : Z) (ls : list lock) : Z :=
  match ls with [] => 0 | l :: r => (R * l_amt l) / Sm + sum_div R Sm r end.

Lemma sum_div_dust : forall R Sm ls, 0 < Sm -> 0 <= R -> locks_pos ls ->
  R * sum_amt ls - Sm * sum_div R Sm ls < Z.of_nat (length ls) * Sm \/ ls = [].
Proof.
  intros R Sm ls Hs HR Hp. destruct ls as [|l0 r0]; [right; reflexivity|left].
  assert (G : forall ls, locks_pos ls -> R * sum_amt ls - Sm * sum_div R Sm ls <= Z.of_nat (length ls) * (Sm - 1)).
  { induction ls as [|l r IH]; intros Hq; cbn [sum_amt sum_div length]; [lia|].
    inversion Hq; subst. specialize (IH H2).
    pose proof (Z.mod_pos_bound (R * l_amt l) Sm Hs). pose proof (Z.div_mod (R * l_amt l) Sm ltac:(lia)).
    rewrite Nat2Z.inj_succ. nia. }
  specialize (G _ Hp). cbn [length] in *. rewrite Nat2Z.inj_succ in *. nia.
Qed.

(* with Sm = the total locked: all but fewer than #locks units of the per-epoch amount are handed out *)
Lemma perpetual_dust : forall R ls, 0 <= R -> locks_pos ls -> ls <> [] ->
  R - sum_div R (sum_amt ls) ls < Z.of_nat (length ls) /\ sum_div R (sum_amt ls) ls <= R.
Proof.
  intros R ls HR Hp Hne.
  assert (Sp : 0 < sum_amt ls).
  { assert (G : forall l0, locks_pos l0 -> 0 <= sum_amt l0) by (intros l0 Hq; induction Hq; cbn [sum_amt]; lia).
    destruct ls as [|l0 lr]; [congruence|]. inversion Hp; subst. cbn [sum_amt]. pose proof (G lr H2). lia. }
  destruct (sum_div_dust R (sum_amt ls) ls Sp HR Hp) as [D|E]; [|congruence].
  split; [nia|].
  assert (G : forall ls0, locks_pos ls0 -> (sum_amt ls) * sum_div R (sum_amt ls) ls0 <= R * sum_amt ls0).
  { induction ls0 as [|l r IH]; intros Hq; cbn [sum_amt sum_div]; [lia|]. inversion Hq; subst. specialize (IH H2).
    pose proof (Z.mul_div_le (R * l_amt l) (sum_amt ls) Sp). nia. }
  specialize (G ls Hp). nia.
Qed.
