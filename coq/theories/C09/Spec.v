(* C09: the property's own notions, stated over the model's state (definitions only).
   These do NOT mirror the code: they say what the property text demands. *)
From Coq Require Import ZArith List Bool.
Import ListNotations.
From Osmo Require Import Gen.C09_consts C09.Model.
Open Scope Z_scope.

(* a lock qualifies for a ByDuration gauge: same denomination, duration at least the gauge's (unlocking locks
   keep qualifying until they are withdrawn) *)
Definition qualifies (g : gauge) (l : lock) : bool :=
  (g_pool g =? 0) && (l_denom l =? g_denom g) && (g_dur g <=? l_dur l).     (* NoLock gauges pay no lock *)
Definition qualifying (tbl : list lock) (g : gauge) : list lock := filter (qualifies g) tbl.

(* gauges that distribute at an epoch end at time [s_now s]: the active ones and the upcoming ones whose start time has come *)
Definition participates (s : state) (g : gauge) : bool :=
  mem (g_id g) (refs_all (s_act s)) || (mem (g_id g) (refs_all (s_up s)) && (g_start g <=? s_now s)).
Definition participants (s : state) : list gauge := filter (participates s) (s_gauges s).

(* is an amount of denom d worth at least the configured minimum *)
Definition valuable (cfg : config) (thr : Z -> tval) (d amt : Z) : bool :=
  if d =? cfg_min_denom cfg then cfg_min_amt cfg <=? amt
  else match thr d with TVal m => m <=? amt | _ => false end.

Definition remaining (g : gauge) (d : Z) : Z := amount_of (g_coins g) d - amount_of (g_dist g) d.
Definition epochs_left (g : gauge) : Z := if g_perp g then 1 else g_n g - g_filled g.
Definition total_locked (ls : list lock) : Z := fold_right (fun l a => l_amt l + a) 0 ls.

(* the floor of the pro-rata share of the per-epoch amount, or nothing when it is not worth the minimum *)
Definition share (cfg : config) (thr : Z -> tval) (tbl : list lock) (g : gauge) (l : lock) (d : Z) : Z :=
  let q := (remaining g d * l_amt l) / (total_locked (qualifying tbl g) * epochs_left g) in
  if (0 <? q) && valuable cfg thr d q then q else 0.

(* what address a should receive of denom d at this epoch end *)
Definition credit_of_gauge (cfg : config) (thr : Z -> tval) (tbl : list lock) (a d : Z) (g : gauge) : Z :=
  fold_right (fun l acc => (if receiver l =? a then share cfg thr tbl g l d else 0) + acc) 0 (qualifying tbl g).
Definition ideal_credit (cfg : config) (thr : Z -> tval) (s : state) (a d : Z) : Z :=
  fold_right (fun g acc => credit_of_gauge cfg thr (s_locks s) a d g + acc) 0 (participants s).

Definition thr_positive (thr : Z -> tval) : Prop := forall d m, thr d = TVal m -> 0 < m.
Definition thr_no_error (thr : Z -> tval) : Prop := forall d, thr d <> TErr.
