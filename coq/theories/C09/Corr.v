(* C09 correspondence glue: run the model on a harness case and flatten its observables exactly as
   harness/c09drv/drv_test.go does. *)
From Coq Require Import ZArith List Bool.
Import ListNotations.
From Osmo Require Import Base.Obs Gen.C09_consts C09.Model.
Open Scope Z_scope.

Record case := mkCase {
  c_nu : nat;                  (* users 0 .. nu-1 *)
  c_funds : list Z;            (* initial balance of every reward denom, per user *)
  c_min : Z;                   (* MinValueForDistribution amount (denom = reward denom 0 = uosmo) *)
  c_lockable : list Z;         (* the chain's lockable durations as reported by the harness *)
  c_ncl : nat;                 (* concentrated-liquidity pools 1 .. ncl created at set-up *)
  c_pre : list op;             (* set-up operations of the harness (routes registered with the pools), not observed *)
  c_ops : list op;
  c_expect : list Z }.

Definition NR : nat := 5.      (* reward denoms 0..4: uosmo usdc uatom stake ufoo *)
Definition NL : nat := 3.      (* lockable denoms 0..2 with supply; 3 has none *)

Definition cfg_of (c : case) : config :=
  mkCfg 0 (c_min c) 0 3 (c_lockable c) [0; 1; 2] (map Z.of_nat (seq 1 (c_ncl c))).

Definition zseq (n : nat) : list Z := map Z.of_nat (seq 0 n).

Definition flat_gauge (g : gauge) : list Z :=
  map (amount_of (g_coins g)) (zseq NR) ++ map (amount_of (g_dist g)) (zseq NR) ++ [g_filled g].
(* canonical form: the status sets are compared as sets (sorted ids), not in store iteration order *)
Fixpoint ins_z (x : Z) (s : list Z) : list Z :=
  match s with [] => [x] | y :: r => if x <=? y then x :: s else y :: ins_z x r end.
Definition sort_z (l : list Z) : list Z := fold_right ins_z [] l.
Definition flat_set (r : refs) : list Z := let l := sort_z (refs_all r) in Z.of_nat (length l) :: l.
Definition snapshot (s : state) : list Z :=
  flat_map flat_gauge (s_gauges s) ++ flat_set (s_up s) ++ flat_set (s_act s) ++ flat_set (s_fin s)
  ++ map (s_bank s MODULE) (zseq NR).

Definition flat_lock (l : lock) : list Z :=
  [l_id l; l_owner l; l_amt l; l_dur l; b2z (l_unl l); receiver l].
(* canonical form: the locks of a denomination by lock id (the lock table is kept in id order) *)
Definition lock_listing (s : state) : list Z :=
  flat_map (fun d => let ls := filter (fun l => (l_denom l =? d) && (0 <=? l_dur l)) (s_locks s) in
                     Z.of_nat (length ls) :: flat_map flat_lock ls) (zseq NL).

Definition tval_z (t : tval) : Z := match t with TNoRoute => -1 | TErr => -2 | TVal m => m end.

Definition deltas (nu : nat) (b b' : bank) : list Z :=
  flat_map (fun u => map (fun d => b' u d - b u d) (zseq NR)) (zseq nu).

Definition op_flat (nu : nat) (s : state) (o : op) (s' : state) (rc v : Z) : list Z :=
  [rc] ++
  match o with
  | OLock _ _ _ _ => [v]
  | OUnlock _ _ => [v]
  | OEpoch dt thr => map tval_z thr ++ lock_listing s ++ deltas nu (s_bank s) (s_bank s')
  | _ => []
  end ++ snapshot s'.

Fixpoint scan (cfg : config) (nu : nat) (s : state) (ops : list op) : list Z :=
  match ops with
  | [] => []
  | o :: r => let '(s', rc, v) := step cfg s o in op_flat nu s o s' rc v ++ scan cfg nu s' r
  end.

Definition funds_of (c : case) : Z -> Z -> Z := fun a _ => nth (Z.to_nat a) (c_funds c) 0.

Definition model_obs (c : case) : list Z :=
  scan (cfg_of c) (c_nu c) (run (cfg_of c) (init_state (funds_of c)) (c_pre c)) (c_ops c).

Definition case_ok (c : case) : bool := zlist_eqb (model_obs c) (c_expect c).
