(* C09: what every address receives at an epoch end (the pro-rata floors), first in the model's own terms. *)
From Coq Require Import ZArith List Bool Lia.
Import ListNotations.
From Osmo Require Import Gen.C09_consts C09.Model C09.Spec C09.ProofsCoins C09.ProofsDistr C09.ProofsLoop C09.ProofsInv.
Open Scope Z_scope.

(* the amount added for one lock and one remaining coin *)
Definition pay_amt (cfg : config) (thr : Z -> tval) (d q : Z) : Z :=
  if (0 <? q) && valuable cfg thr d q then q else 0.

Definition cache_ok (thr : Z -> tval) (cache : vcache) : Prop :=
  forall d v, vc_get cache d = Some v -> (thr d = TNoRoute /\ v = 0) \/ (thr d = TVal v /\ 0 < v).

Lemma min_check_spec : forall cfg thr cache d amt pay cache', thr_positive thr -> cache_ok thr cache ->
  min_check cfg thr cache d amt = Ok (pay, cache') -> cache_ok thr cache' /\ pay = valuable cfg thr d amt.
Proof.
  unfold min_check, valuable. intros cfg thr cache d amt pay cache' Tp Co H.
  destruct (d =? cfg_min_denom cfg).
  - inversion H; subst. split; auto. symmetry. apply Z.leb_antisym.
  - destruct (vc_get cache d) as [v|] eqn:G.
    + destruct (Co _ _ G) as [[T ->]|[T Pv]]; rewrite T.
      * rewrite Z.eqb_refl in H. inversion H; subst. auto.
      * destruct (v =? 0) eqn:E; [apply Z.eqb_eq in E; lia|]. inversion H; subst. split; auto. symmetry. apply Z.leb_antisym.
    + destruct (thr d) as [| |m] eqn:T; [| discriminate |]; inversion H; subst.
      * split; auto. intros d' v' Hv. cbn [vc_get] in Hv. destruct (d =? d') eqn:E; [|auto].
        apply Z.eqb_eq in E; subst d'. inversion Hv; subst. left; auto.
      * split; [|symmetry; apply Z.leb_antisym]. intros d' v' Hv. cbn [vc_get] in Hv. destruct (d =? d') eqn:E; [|auto].
        apply Z.eqb_eq in E; subst d'. inversion Hv; subst. right. split; auto. eapply Tp; eauto.
Qed.

Fixpoint row_exact (cfg : config) (thr : Z -> tval) (den a : Z) (remain : coins) (d : Z) : Z :=
  match remain with
  | [] => 0
  | (d', R) :: r => (if d' =? d then pay_amt cfg thr d' (Z.quot (a * R) den) else 0) + row_exact cfg thr den a r d
  end.

Lemma lock_coins_exact : forall cfg thr den a remain cache acc dc cache', thr_positive thr -> cache_ok thr cache ->
  lock_coins cfg thr den a remain cache acc = Ok (dc, cache') ->
  cache_ok thr cache' /\ forall d, amount_of dc d = amount_of acc d + row_exact cfg thr den a remain d.
Proof.
  induction remain as [|[d0 R] r IH]; intros cache acc dc cache' Tp Co H; cbn [lock_coins] in H.
  - inversion H; subst. split; auto. intros; cbn; lia.
  - destruct (min_check cfg thr cache d0 (Z.quot (a * R) den)) as [[pay c1]|e] eqn:M; [|discriminate].
    destruct (min_check_spec _ _ _ _ _ _ _ Tp Co M) as [Co1 Ep].
    destruct (IH _ _ _ _ Tp Co1 H) as [Co2 E]. split; auto. intros d. rewrite E. cbn [row_exact]. unfold pay_amt.
    rewrite Ep, andb_comm. destruct ((0 <? Z.quot (a * R) den) && valuable cfg thr d0 (Z.quot (a * R) den)).
    + rewrite amount_of_coins_add. cbn [amount_of]. destruct (d0 =? d); lia.
    + destruct (d0 =? d); lia.
Qed.

(* what the distribution info holds for an address *)
Fixpoint di_recv_sum (di : dinfo) (a d : Z) : Z :=
  match di with [] => 0 | e :: r => (if de_recv e =? a then amount_of (de_coins e) d else 0) + di_recv_sum r a d end.

Lemma add_lock_rewards_recv : forall di o r c a d,
  (forall e, In e di -> de_owner e = o -> de_recv e = r) ->
  di_recv_sum (add_lock_rewards di o r c) a d = di_recv_sum di a d + (if r =? a then amount_of c d else 0).
Proof.
  induction di as [|e t IH]; intros o r c a d H; cbn [add_lock_rewards di_recv_sum de_recv de_coins]; [lia|].
  destruct (de_owner e =? o) eqn:E; cbn [di_recv_sum de_recv de_coins].
  - apply Z.eqb_eq in E. rewrite (H e (or_introl eq_refl) E). rewrite amount_of_coins_add. destruct (r =? a); lia.
  - rewrite IH; [lia|]. intros; apply H; auto; right; auto.
Qed.

(* entries of pools (negative owner key = the pool's incentives address) and entries of lock owners *)
Definition di_ok (tbl : list lock) (di : dinfo) : Prop :=
  forall e, In e di ->
    (de_owner e < 0 /\ de_recv e = de_owner e) \/
    (0 <= de_owner e /\ forall l, In l tbl -> l_owner l = de_owner e -> receiver l = de_recv e).
Definition owners_nonneg (tbl : list lock) : Prop := Forall (fun l => 0 <= l_owner l) tbl.
(* the hypothesis that excludes finding C09-F4 *)
Definition consistent_receivers (tbl : list lock) : Prop :=
  forall l1 l2, In l1 tbl -> In l2 tbl -> l_owner l1 = l_owner l2 -> receiver l1 = receiver l2.

Lemma add_lock_rewards_in : forall di o r c e, In e (add_lock_rewards di o r c) ->
  (de_owner e = o /\ de_recv e = r /\ ~ (exists e0, In e0 di /\ de_owner e0 = o)) \/
  (exists e0, In e0 di /\ de_owner e = de_owner e0 /\ de_recv e = de_recv e0).
Proof.
  induction di as [|e0 t IH]; intros o r c e H; cbn [add_lock_rewards] in H.
  - destruct H as [<-|[]]. left. cbn. repeat split; auto. intros (x & [] & _).
  - destruct (de_owner e0 =? o) eqn:E.
    + destruct H as [<-|H]; right; [exists e0; cbn; auto|exists e; split; [right; auto|auto]].
    + destruct H as [<-|H]; [right; exists e0; split; [left; auto|auto]|].
      destruct (IH _ _ _ _ H) as [(A & B & C)|(x & Hx & A & B)].
      * left. repeat split; auto. intros (x & [<-|Hx] & Ex); [apply Z.eqb_neq in E; auto|apply C; eauto].
      * right. exists x. split; [right; auto|auto].
Qed.

Lemma add_lock_rewards_ok : forall tbl di l c, consistent_receivers tbl -> owners_nonneg tbl -> In l tbl -> di_ok tbl di ->
  di_ok tbl (add_lock_rewards di (l_owner l) (receiver l) c).
Proof.
  intros tbl di l c Cs On Hl Ok e He. unfold owners_nonneg in On. rewrite Forall_forall in On.
  destruct (add_lock_rewards_in _ _ _ _ _ He) as [(A & B & _)|(e0 & H0 & A & B)].
  - right. rewrite A. split; [apply On; auto|]. intros l2 Hl2 Eo. rewrite B. apply Cs; auto.
  - rewrite A, B. apply (Ok e0 H0).
Qed.

Lemma add_pool_rewards_ok : forall tbl di p c, p < 0 -> di_ok tbl di -> di_ok tbl (add_lock_rewards di p p c).
Proof.
  intros tbl di p c Hp Ok e He.
  destruct (add_lock_rewards_in _ _ _ _ _ He) as [(A & B & _)|(e0 & H0 & A & B)].
  - left. rewrite A, B. auto.
  - rewrite A, B. apply (Ok e0 H0).
Qed.

Fixpoint lsum (cfg : config) (thr : Z -> tval) (den : Z) (remain : coins) (ls : list lock) (a d : Z) : Z :=
  match ls with
  | [] => 0
  | l :: r => (if receiver l =? a then row_exact cfg thr den (l_amt l) remain d else 0) + lsum cfg thr den remain r a d
  end.

Lemma locks_loop_recv : forall cfg thr tbl den remain ls di cache total di' cache' total',
  thr_positive thr -> consistent_receivers tbl -> owners_nonneg tbl -> (forall l, In l ls -> In l tbl) ->
  di_ok tbl di -> cache_ok thr cache ->
  locks_loop cfg thr den remain ls di cache total = Ok (di', cache', total') ->
  di_ok tbl di' /\ cache_ok thr cache' /\
  forall a d, di_recv_sum di' a d = di_recv_sum di a d + lsum cfg thr den remain ls a d.
Proof.
  induction ls as [|l r IH]; intros di cache total di' cache' total' Tp Cs On Hin Ok Co H; cbn [locks_loop] in H.
  - inversion H; subst. repeat split; auto. intros; cbn; lia.
  - destruct (lock_coins cfg thr den (l_amt l) remain cache []) as [[dc c1]|e] eqn:L; [|discriminate].
    destruct (lock_coins_exact _ _ _ _ _ _ _ _ _ Tp Co L) as [Co1 Ex].
    assert (Hin' : forall l0, In l0 r -> In l0 tbl) by (intros; apply Hin; right; auto).
    destruct (is_empty dc) eqn:E.
    + destruct (IH _ _ _ _ _ _ Tp Cs On Hin' Ok Co1 H) as (A & B & C). repeat split; auto.
      intros a d. rewrite C. cbn [lsum]. specialize (Ex d). destruct dc; [|discriminate]. cbn [amount_of] in Ex.
      destruct (receiver l =? a); lia.
    + assert (Ok1 : di_ok tbl (add_lock_rewards di (l_owner l) (receiver l) dc)).
      { apply add_lock_rewards_ok; auto. apply Hin; left; auto. }
      destruct (IH _ _ _ _ _ _ Tp Cs On Hin' Ok1 Co1 H) as (A & B & C). repeat split; auto.
      intros a d. rewrite C. cbn [lsum]. rewrite add_lock_rewards_recv.
      * specialize (Ex d). cbn [amount_of] in Ex. destruct (receiver l =? a); lia.
      * intros e0 He0 Eo. assert (Hl : In l tbl) by (apply Hin; left; auto).
        unfold owners_nonneg in On. rewrite Forall_forall in On. specialize (On l Hl).
        destruct (Ok e0 He0) as [[Neg _]|[_ R]]; [lia|]. symmetry. apply (R l Hl). congruence.
Qed.

(* what distributeInternal credits to an address, in the model's terms *)
Definition gauge_credit (cfg : config) (thr : Z -> tval) (g : gauge) (ls : list lock) (a d : Z) : Z :=
  match coins_sub (g_coins g) (g_dist g) with
  | None => 0
  | Some remain =>
      if negb (g_pool g =? 0) then
        (if pool_addr (g_pool g) =? a then amount_of (nolock_coins (remain_epochs g) remain []) d else 0)
      else
      if is_empty ls || is_empty remain || is_small_gauge cfg remain ||
         (sum_locks ls =? 0) || (2 ^ max_int_bits <=? sum_locks ls) then 0
      else lsum cfg thr (sum_locks ls * to_int64 (remain_epochs g)) remain ls a d
  end.

Lemma distribute_internal_recv : forall cfg thr tbl g ls di cache w di' cache',
  thr_positive thr -> consistent_receivers tbl -> owners_nonneg tbl -> 0 <= g_pool g -> (forall l, In l ls -> In l tbl) ->
  di_ok tbl di -> cache_ok thr cache ->
  distribute_internal cfg thr g ls di cache = Ok (w, di', cache') ->
  di_ok tbl di' /\ cache_ok thr cache' /\
  forall a d, di_recv_sum di' a d = di_recv_sum di a d + gauge_credit cfg thr g ls a d.
Proof.
  intros cfg thr tbl g ls di cache w di' cache' Tp Cs On Hpl Hin Ok Co H. unfold distribute_internal in H. unfold gauge_credit.
  destruct (coins_sub (g_coins g) (g_dist g)) as [remain|]; [|discriminate].
  destruct (remain_epochs g =? 0); [discriminate|].
  destruct (negb (g_pool g =? 0)) eqn:Pl.
  { apply negb_true_iff, Z.eqb_neq in Pl. assert (Pa : pool_addr (g_pool g) < 0) by (unfold pool_addr; lia).
    inversion H; subst; clear H. set (total := nolock_coins (remain_epochs g) remain []).
    destruct (is_empty total) eqn:E.
    - destruct total; [|discriminate]. repeat split; auto. intros a d. cbn [amount_of]. destruct (pool_addr (g_pool g) =? a); lia.
    - split; [apply add_pool_rewards_ok; auto|]. split; auto. intros a d. rewrite add_lock_rewards_recv; [reflexivity|].
      intros e0 He0 Eo. destruct (Ok e0 He0) as [[_ R]|[Nn _]]; [congruence|lia]. }
  destruct (is_empty ls); cbn [orb]; [inversion H; subst; repeat split; auto; intros; lia|].
  destruct (is_empty remain); cbn [orb]; [inversion H; subst; repeat split; auto; intros; lia|].
  destruct (is_small_gauge cfg remain); cbn [orb]; [inversion H; subst; repeat split; auto; intros; lia|].
  destruct ((sum_locks ls =? 0) || (2 ^ max_int_bits <=? sum_locks ls)) eqn:Z0.
  - inversion H; subst. repeat split; auto. intros. lia.
  - destruct (locks_loop cfg thr (sum_locks ls * to_int64 (remain_epochs g)) remain ls di cache [])
      as [[[di1 c1] total]|e] eqn:LL; [|discriminate].
    inversion H; subst; clear H.
    destruct (locks_loop_recv _ _ _ _ _ _ _ _ _ _ _ _ Tp Cs On Hin Ok Co LL) as (A & B & C). repeat split; auto.
Qed.

Lemma elig_incl : forall tbl g l, In l (elig tbl g) -> In l tbl.
Proof.
  intros tbl g l H. assert (F : Forall (fun x => In x tbl) (elig tbl g)).
  { unfold elig, qual_locks. destruct (negb (g_pool g =? 0)); [constructor|]. destruct (is_empty (g_coins g)); [constructor|].
    apply filter_Forall, locks_longer_Forall. apply Forall_forall; auto. }
  rewrite Forall_forall in F. auto.
Qed.

Fixpoint gsum (cfg : config) (thr : Z -> tval) (tbl : list lock) (gs : list gauge) (a d : Z) : Z :=
  match gs with [] => 0 | g :: r => gauge_credit cfg thr g (elig tbl g) a d + gsum cfg thr tbl r a d end.

Lemma distribute_loop_recv : forall cfg thr tbl gs store lc di cache store' di',
  thr_positive thr -> consistent_receivers tbl -> owners_nonneg tbl -> lc_ok tbl lc ->
  Forall dur_ok gs ->
  di_ok tbl di -> cache_ok thr cache ->
  distribute_loop cfg thr tbl gs store lc di cache = Ok (store', di') ->
  forall a d, di_recv_sum di' a d = di_recv_sum di a d + gsum cfg thr tbl gs a d.
Proof.
  induction gs as [|g r IH]; intros store lc di cache store' di' Tp Cs On Hlc Hd Ok Co H a d; cbn [distribute_loop] in H.
  - inversion H; subst. cbn; lia.
  - destruct (base_locks tbl g lc) as [ls lc1] eqn:B. inversion Hd as [|? ? Hd1 Hd2]; subst.
    destruct (base_locks_spec _ _ _ _ _ Hlc Hd1 B) as [-> Hlc1].
    destruct (distribute_internal cfg thr g (elig tbl g) di cache) as [[[w di1] c1]|e] eqn:D; [|discriminate].
    destruct (distribute_internal_recv _ _ _ _ _ _ _ _ _ _ Tp Cs On (proj2 Hd1) (elig_incl tbl g) Ok Co D) as (A & B2 & C).
    rewrite (IH _ _ _ _ _ _ Tp Cs On Hlc1 Hd2 A B2 H a d). rewrite C. cbn [gsum]. lia.
Qed.

Lemma do_sends_recv : forall b di b' a d, a <> MODULE -> do_sends b di = Some b' ->
  b' a d = b a d + di_recv_sum di a d.
Proof.
  unfold do_sends. intros b di b' a d Ha H.
  destruct (existsb (fun e => de_recv e =? MODULE) di); [discriminate|].
  destruct (has_coins b MODULE (sends_total di)); [|discriminate]. inversion H; subst; clear H.
  assert (G : forall l b0, fold_left (fun b' e => bank_add b' (de_recv e) (de_coins e)) l b0 a d = b0 a d + di_recv_sum l a d).
  { induction l as [|e r IH]; intros b0; cbn [fold_left di_recv_sum]; [lia|].
    rewrite IH. unfold bank_add. rewrite (Z.eqb_sym a). destruct (de_recv e =? a); lia. }
  rewrite G. unfold bank_sub. destruct (a =? MODULE) eqn:E; [apply Z.eqb_eq in E; congruence|]. reflexivity.
Qed.

(* one epoch end: every address other than the module account is credited the sum, over the gauges that take part,
   of the model's per-gauge credit *)
Lemma epoch_credit_model : forall cfg thr s s', Inv s -> thr_positive thr -> consistent_receivers (s_locks s) ->
  owners_nonneg (s_locks s) ->
  after_epoch_end cfg thr s = Ok s' ->
  exists acts, NoDup (map g_id acts) /\ (forall g, In g acts <-> takes_part s g) /\
    forall a d, a <> MODULE -> s_bank s' a d - s_bank s a d = gsum cfg thr (s_locks s) acts a d.
Proof.
  intros cfg thr s s' I Tp Cs On H.
  destruct (epoch_spec_plus _ _ _ _ I H) as (ups & acts & _ & _ & _ & _ & _ & _ & _ & _ & Nd & _ & Hacts & _ & _ & _ & _ & _ & _ & di & DL & DS).
  exists acts. split; auto. split; auto. intros a d Ha.
  rewrite (do_sends_recv _ _ _ a d Ha DS).
  assert (Fd : Forall dur_ok acts).
  { apply Forall_forall. intros g Hi. pose proof (I_durs _ I) as Id. rewrite Forall_forall in Id. apply Id. apply Hacts; auto. }
  assert (Lc0 : lc_ok (s_locks s) []) by (intros x v Hv; discriminate).
  assert (Ok0 : di_ok (s_locks s) []) by (intros e []).
  assert (Co0 : cache_ok thr []) by (intros x v Hv; discriminate).
  rewrite (distribute_loop_recv _ _ _ _ _ _ _ _ _ _ Tp Cs On Lc0 Fd Ok0 Co0 DL a d). cbn [di_recv_sum]. lia.
Qed.
