(* C09: lifecycle, finishing rule, module balance - derived from the invariant and the epoch lemma. *)
From Coq Require Import ZArith List Bool Lia.
Import ListNotations.
From Osmo Require Import Gen.C09_consts C09.Model C09.ProofsCoins C09.ProofsDistr C09.ProofsLoop C09.ProofsInv.
Open Scope Z_scope.

(* ------------------------------------------------------------------ module balance *)
Definition unfinished (s : state) (id : Z) : bool := mem id (refs_all (s_up s) ++ refs_all (s_act s)).
Fixpoint sum_unfinished (s : state) (st : list gauge) (d : Z) : Z :=
  match st with [] => 0 | g :: r => (if unfinished s (g_id g) then rem g d else 0) + sum_unfinished s r d end.
Definition unfinished_remainder (s : state) (d : Z) : Z := sum_unfinished s (s_gauges s) d.

Lemma sum_unfinished_le : forall s st d, Forall gauge_ok st -> sum_unfinished s st d <= sum_rem st d.
Proof.
  induction st as [|g r IH]; intros d H; cbn [sum_unfinished sum_rem]; [lia|]. inversion H; subst.
  specialize (IH d H3). destruct H2 as (_ & _ & L & _). specialize (L d). unfold rem.
  destruct (unfinished s (g_id g)); lia.
Qed.

Lemma module_covers : forall s d, Inv s ->
  s_bank s MODULE d = sum_rem (s_gauges s) d /\ unfinished_remainder s d <= s_bank s MODULE d.
Proof.
  intros s d I. split; [apply (I_acct _ I)|]. rewrite (I_acct _ I). apply sum_unfinished_le. apply (I_gauges _ I).
Qed.

(* ------------------------------------------------------------------ set membership across an epoch end *)
Lemma epoch_sets : forall cfg thr s s' g, Inv s -> after_epoch_end cfg thr s = Ok s' -> In g (s_gauges s) ->
  let id := g_id g in
  (~ takes_part s g -> cnt_all (s_up s') id = cnt_all (s_up s) id /\ cnt_all (s_act s') id = cnt_all (s_act s) id /\
                       cnt_all (s_fin s') id = cnt_all (s_fin s) id) /\
  (takes_part s g -> cnt_all (s_fin s) id = 0 /\ cnt_all (s_up s') id = 0 /\
       (finishes g = true -> cnt_all (s_fin s') id = 1 /\ cnt_all (s_act s') id = 0) /\
       (finishes g = false -> cnt_all (s_act s') id = 1 /\ cnt_all (s_fin s') id = 0)).
Proof.
  intros cfg thr s s' g I H Hs id.
  destruct (epoch_spec _ _ _ _ I H) as (ups & acts & En & El & Elg & Ell & Er & Su & Sa & Sf & Nd & Hups & Hacts & Cn & Gok & Hids & Hother & Hact & Acct).
  pose proof I as [Ig Id Il Iu Ia If Ip Iids Ind Ilast Iacct Ifill].
  destruct (Cn id) as (C1 & C2 & C3).
  pose proof (moved_bounds (s_now s) ups id) as Mb. pose proof (finm_bounds acts id) as Fb.
  pose proof (cnt_all_nonneg (s_up s) id). pose proof (cnt_all_nonneg (s_act s) id).
  pose proof (cnt_all_nonneg (s_fin s) id). pose proof (cnt_all_nonneg (s_up s') id).
  pose proof (cnt_all_nonneg (s_act s') id). pose proof (cnt_all_nonneg (s_fin s') id).
  pose proof (Ip id) as Pg.
  assert (Ps : cnt_all (s_up s) id + cnt_all (s_act s) id + cnt_all (s_fin s) id <= 1) by (destruct (in_range s id); lia).
  split.
  - intros NT. assert (A0 : cnt_all (s_act s) id = 0).
    { destruct (Z_lt_le_dec 0 (cnt_all (s_act s) id)); [exfalso; apply NT; split; auto|lia]. }
    assert (M0 : moved (s_now s) ups id = 0).
    { destruct (Z_lt_le_dec 0 (moved (s_now s) ups id)); [|lia].
      destruct (moved_pos_ex _ _ _ l) as (g2 & Hi2 & E2 & St). assert (Hg2 : In g2 (s_gauges s)) by (apply Hups; auto).
      assert (Eg : g2 = g) by (apply (same_id_same_gauge _ _ _ Ind Hg2 Hs E2)). subst g2. exfalso. apply NT. split; auto.
      right. split; auto. apply Hups; auto. }
    assert (F0 : finm acts id = 0).
    { destruct (Z_lt_le_dec 0 (finm acts id)); [|lia].
      destruct (finm_pos_ex _ _ l) as (g2 & Hi2 & E2 & St). assert (Tp2 : takes_part s g2) by (apply Hacts; auto).
      assert (Eg : g2 = g) by (apply (same_id_same_gauge _ _ _ Ind (proj1 Tp2) Hs E2)). subst g2. tauto. }
    lia.
  - intros Tp. assert (Ha : In g acts) by (apply Hacts; auto).
    assert (A1 : cnt_all (s_act s) id + moved (s_now s) ups id = 1).
    { destruct Tp as [_ [Hc|[Hc St]]]; [fold id in Hc; lia|]. fold id in Hc. assert (Hgu : In g ups) by (apply Hups; auto).
      pose proof (moved_one _ _ _ Hgu St). fold id in H6. lia. }
    pose proof (nodup_cnt_le_one _ id Nd).
    split; [lia|]. split; [lia|]. split.
    + intros Fi. pose proof (finm_one _ _ Ha Fi). fold id in H7. lia.
    + intros Fi. assert (finm acts id = 0).
      { apply finm_zero. intros g2 Hi2 E2. assert (Hg2 : In g2 (s_gauges s)) by (apply Hacts; auto).
        rewrite (same_id_same_gauge _ _ _ Ind Hg2 Hs E2). auto. }
      lia.
Qed.

Lemma cnt_all_in : forall r x, 0 < cnt_all r x <-> In x (refs_all r).
Proof. intros. unfold cnt_all. apply cnt_pos_in. Qed.

(* activation: an upcoming gauge whose start time has come leaves the upcoming set at this very epoch end and is
   paid from (it is active or already finished afterwards); one whose start time has not come stays as it is *)
Lemma activation : forall cfg thr s s' g, Inv s -> after_epoch_end cfg thr s = Ok s' ->
  In g (s_gauges s) -> In (g_id g) (refs_all (s_up s)) ->
  (g_start g <= s_now s -> takes_part s g /\ ~ In (g_id g) (refs_all (s_up s')) /\
                           (In (g_id g) (refs_all (s_act s')) \/ In (g_id g) (refs_all (s_fin s')))) /\
  (s_now s < g_start g -> In (g_id g) (refs_all (s_up s')) /\ get_gauge (s_gauges s') (g_id g) = Some g).
Proof.
  intros cfg thr s s' g I H Hs Hu. apply cnt_all_in in Hu.
  destruct (epoch_sets _ _ _ _ g I H Hs) as [NT TP]. split.
  - intros St. assert (Tp : takes_part s g) by (split; auto).
    destruct (TP Tp) as (_ & U0 & F1 & F2). split; auto. split.
    + rewrite <- cnt_all_in. lia.
    + destruct (finishes g); [right; apply cnt_all_in; destruct (F1 eq_refl); lia|left; apply cnt_all_in; destruct (F2 eq_refl); lia].
  - intros St. assert (Np : ~ takes_part s g).
    { intros [_ [Hc|[_ Hc]]]; [|lia]. pose proof (I_part _ I (g_id g)). pose proof (cnt_all_nonneg (s_fin s) (g_id g)).
      destruct (in_range s (g_id g)); lia. }
    destruct (NT Np) as (E1 & _ & _). split; [apply cnt_all_in; lia|].
    destruct (epoch_spec _ _ _ _ I H) as (ups & acts & _ & _ & _ & _ & _ & _ & _ & _ & _ & _ & Hacts & _ & _ & _ & Hother & _).
    rewrite Hother; [apply In_get; auto; apply (I_nodup _ I)|].
    intros Hin. apply in_map_iff in Hin. destruct Hin as (g2 & E & Hi2). assert (Tp2 : takes_part s g2) by (apply Hacts; auto).
    assert (g2 = g) by (apply (same_id_same_gauge _ _ _ (I_nodup _ I) (proj1 Tp2) Hs E)). subst g2. tauto.
Qed.

(* finished gauges pay nothing and stay finished *)
Lemma finished_pays_nothing : forall cfg thr s s' g, Inv s -> after_epoch_end cfg thr s = Ok s' ->
  In g (s_gauges s) -> In (g_id g) (refs_all (s_fin s)) ->
  get_gauge (s_gauges s') (g_id g) = Some g /\ In (g_id g) (refs_all (s_fin s')).
Proof.
  intros cfg thr s s' g I H Hs Hf. apply cnt_all_in in Hf.
  destruct (epoch_sets _ _ _ _ g I H Hs) as [NT TP].
  assert (Np : ~ takes_part s g) by (intros Tp; destruct (TP Tp) as (F0 & _); lia).
  destruct (NT Np) as (_ & _ & E3). split; [|apply cnt_all_in; lia].
  destruct (epoch_spec _ _ _ _ I H) as (ups & acts & _ & _ & _ & _ & _ & _ & _ & _ & _ & _ & Hacts & _ & _ & _ & Hother & _).
  rewrite Hother; [apply In_get; auto; apply (I_nodup _ I)|].
  intros Hin. apply in_map_iff in Hin. destruct Hin as (g2 & E & Hi2). assert (Tp2 : takes_part s g2) by (apply Hacts; auto).
  assert (g2 = g) by (apply (same_id_same_gauge _ _ _ (I_nodup _ I) (proj1 Tp2) Hs E)). subst g2. tauto.
Qed.

(* gauges that do not take part are not touched; gauges that take part are processed by distributeInternal on
   their pre-epoch value with exactly the qualifying locks *)
Lemma epoch_gauge_result : forall cfg thr s s' g, Inv s -> after_epoch_end cfg thr s = Ok s' -> In g (s_gauges s) ->
  (~ takes_part s g -> get_gauge (s_gauges s') (g_id g) = Some g) /\
  (takes_part s g -> exists di0 cache0 w di1 cache1,
        distribute_internal cfg thr g (elig (s_locks s) g) di0 cache0 = Ok (w, di1, cache1) /\
        get_gauge (s_gauges s') (g_id g) = Some (match w with Some g' => g' | None => g end)).
Proof.
  intros cfg thr s s' g I H Hs.
  destruct (epoch_spec _ _ _ _ I H) as (ups & acts & _ & _ & _ & _ & _ & _ & _ & _ & _ & _ & Hacts & _ & _ & _ & Hother & Hact & _).
  split.
  - intros Np. rewrite Hother; [apply In_get; auto; apply (I_nodup _ I)|].
    intros Hin. apply in_map_iff in Hin. destruct Hin as (g2 & E & Hi2). assert (Tp2 : takes_part s g2) by (apply Hacts; auto).
    assert (g2 = g) by (apply (same_id_same_gauge _ _ _ (I_nodup _ I) (proj1 Tp2) Hs E)). subst g2. tauto.
  - intros Tp. apply Hact. apply Hacts; auto.
Qed.

(* ------------------------------------------------------------------ when does distributeInternal count an epoch *)
Lemma distribute_internal_counts : forall cfg thr g ls di cache w di' cache',
  distribute_internal cfg thr g ls di cache = Ok (w, di', cache') ->
  sum_locks ls < 2 ^ max_int_bits -> locks_pos ls ->
  (g_pool g = 0 -> ls = [] -> w = None) /\ (g_pool g <> 0 \/ ls <> [] -> exists g', w = Some g').
Proof.
  intros cfg thr g ls di cache w di' cache' H Hb Hp. unfold distribute_internal in H.
  destruct (coins_sub (g_coins g) (g_dist g)) as [remain|]; [|discriminate].
  destruct (remain_epochs g =? 0); [discriminate|].
  destruct (g_pool g =? 0) eqn:Pl; cbn [negb] in H.
  2:{ apply Z.eqb_neq in Pl. inversion H; subst. split; [intros; congruence|eauto]. }
  apply Z.eqb_eq in Pl.
  destruct ls as [|l0 lr]; cbn [is_empty] in H.
  - inversion H; subst. split; auto. intros [X|X]; congruence.
  - split; [discriminate|intros _].
    destruct (is_empty remain); [inversion H; eauto|].
    destruct (is_small_gauge cfg remain); [inversion H; eauto|].
    assert (Sp : 0 < sum_locks (l0 :: lr)).
    { rewrite sum_locks_eq. inversion Hp; subst. cbn [sum_amt].
      assert (G : forall l1, locks_pos l1 -> 0 <= sum_amt l1) by (intros l1 Hq; induction Hq; cbn [sum_amt]; lia).
      pose proof (G lr H3). lia. }
    assert (Z0 : (sum_locks (l0 :: lr) =? 0) || (2 ^ max_int_bits <=? sum_locks (l0 :: lr)) = false).
    { apply orb_false_iff. split; [apply Z.eqb_neq; lia|apply Z.leb_gt; lia]. }
    rewrite Z0 in H.
    destruct (locks_loop cfg thr (sum_locks (l0 :: lr) * to_int64 (remain_epochs g)) remain (l0 :: lr) di cache [])
      as [[[di1 c1] total]|e]; [|discriminate].
    inversion H; eauto.
Qed.

(* ------------------------------------------------------------------ the finishing rule *)
(* what one epoch end does to a non-perpetual gauge that takes part *)
Lemma finish_step : forall cfg thr s s' g, Inv s -> after_epoch_end cfg thr s = Ok s' ->
  takes_part s g -> g_perp g = false -> sum_locks (elig (s_locks s) g) < 2 ^ max_int_bits ->
  exists g', get_gauge (s_gauges s') (g_id g) = Some g' /\ g_n g' = g_n g /\ g_perp g' = false /\
    g_filled g < g_n g /\
    (g_pool g <> 0 \/ elig (s_locks s) g <> [] -> g_filled g' = g_filled g + 1) /\
    (g_pool g = 0 -> elig (s_locks s) g = [] -> g' = g) /\
    (In (g_id g) (refs_all (s_fin s')) <-> g_n g <= g_filled g + 1) /\
    (In (g_id g) (refs_all (s_act s')) <-> g_filled g + 1 < g_n g).
Proof.
  intros cfg thr s s' g I H Tp P Hb. pose proof (proj1 Tp) as Hs.
  destruct (proj2 (epoch_gauge_result _ _ _ _ g I H Hs) Tp) as (di0 & c0 & w & di1 & c1 & D & G).
  pose proof (elig_pos _ g (I_locks _ I)) as Lp.
  destruct (distribute_internal_counts _ _ _ _ _ _ _ _ _ D Hb Lp) as [Cn Cs].
  pose proof (I_gauges _ I) as Ig. rewrite Forall_forall in Ig.
  pose proof (distribute_internal_ok _ _ _ _ _ _ _ _ _ (Ig g Hs) Lp D) as OK.
  pose proof (I_fill _ I) as Ifill. rewrite Forall_forall in Ifill. destruct (Ifill g Hs) as (F0 & Fn & _ & Fnp).
  destruct (Fnp P) as (N1 & U0 & A0 & _).
  assert (Hlt : g_filled g < g_n g).
  { destruct Tp as [_ [Hc|[Hc _]]]; [auto|]. rewrite (U0 Hc). lia. }
  destruct (epoch_sets _ _ _ _ g I H Hs) as [_ TP]. destruct (TP Tp) as (_ & _ & F1 & F2).
  assert (Fin : finishes g = (g_n g <=? g_filled g + 1)) by (unfold finishes, finish_plus; rewrite P; reflexivity).
  exists (match w with Some g' => g' | None => g end). split; auto.
  assert (Sets : (In (g_id g) (refs_all (s_fin s')) <-> g_n g <= g_filled g + 1) /\
                 (In (g_id g) (refs_all (s_act s')) <-> g_filled g + 1 < g_n g)).
  { rewrite <- !cnt_all_in. destruct (finishes g) eqn:Fi; symmetry in Fin.
    - apply Z.leb_le in Fin. destruct (F1 eq_refl). lia.
    - apply Z.leb_gt in Fin. destruct (F2 eq_refl). lia. }
  destruct w as [g'|].
  - destruct OK as (_ & _ & _ & E3 & E4 & _ & _ & _ & E8). rewrite E3, E4. repeat split; auto; try apply Sets.
    intros P0 E. specialize (Cn P0 E). discriminate.
  - repeat split; auto; try apply Sets. intros Ne. destruct (Cs Ne) as (g2 & X). discriminate.
Qed.

(* exact characterisation of finding F6 at one epoch end *)
Lemma finish_characterisation : forall cfg thr s s' g, Inv s -> after_epoch_end cfg thr s = Ok s' ->
  takes_part s g -> g_perp g = false -> sum_locks (elig (s_locks s) g) < 2 ^ max_int_bits ->
  exists g', get_gauge (s_gauges s') (g_id g) = Some g' /\
    ((In (g_id g) (refs_all (s_fin s')) /\ g_filled g' < g_n g')
     <-> (g_pool g = 0 /\ elig (s_locks s) g = [] /\ g_filled g = g_n g - 1)).
Proof.
  intros cfg thr s s' g I H Tp P Hb.
  destruct (finish_step _ _ _ _ g I H Tp P Hb) as (g' & G & En & Ep & Hlt & Q1 & Q0 & Sf & Sa).
  exists g'. split; auto. rewrite En. split.
  - intros [Hf Hl]. apply Sf in Hf. destruct (Z.eq_dec (g_pool g) 0) as [Pz|Pn].
    + destruct (elig (s_locks s) g) eqn:E.
      * repeat split; auto. lia.
      * rewrite Q1 in Hl by (right; discriminate). lia.
    + rewrite Q1 in Hl by (left; auto). lia.
  - intros (Pz & E & Ef). rewrite (Q0 Pz E). split; [apply Sf; lia|lia].
Qed.

(* the clause of the property: a finished non-perpetual gauge has paid exactly its number of epochs *)
Definition FinExact (s : state) : Prop :=
  forall g, In g (s_gauges s) -> g_perp g = false -> In (g_id g) (refs_all (s_fin s)) -> g_filled g = g_n g.

(* hypothesis under which it holds: at every epoch end every non-perpetual gauge that takes part has a qualifying lock
   (and lock sums fit the SDK's 256-bit integers) *)
Definition epoch_qualified (s0 : state) : Prop :=
  forall g, takes_part s0 g -> g_perp g = false ->
    (g_pool g <> 0 \/ elig (s_locks s0) g <> []) /\ sum_locks (elig (s_locks s0) g) < 2 ^ max_int_bits.

Fixpoint all_qualified (cfg : config) (s : state) (ops : list op) : Prop :=
  match ops with
  | [] => True
  | o :: r =>
      match o with OEpoch dt _ => epoch_qualified (advance s dt) | _ => True end /\
      all_qualified cfg (fst (fst (step cfg s o))) r
  end.

Lemma epoch_finexact : forall cfg thr s s', Inv s -> FinExact s -> epoch_qualified s ->
  after_epoch_end cfg thr s = Ok s' -> FinExact s'.
Proof.
  intros cfg thr s s' I Fe Q H g' Hi' P' Hf'.
  destruct (epoch_gauge_evolution _ _ _ _ I H g' Hi') as (g & Hs & Eid & _ & Ep & En & _ & _ & _ & _ & Hev).
  rewrite Ep in P'. rewrite Eid in Hf'.
  destruct (classic_tp s g Hs) as [Tp|Np].
  - destruct (Q g Tp P') as [Ne Hb].
    destruct (finish_step _ _ _ _ g I H Tp P' Hb) as (g2 & G & _ & _ & Hlt & Q1 & _ & Sf & _).
    assert (Nd' : NoDup (map g_id (s_gauges s'))) by (apply (I_nodup _ (epoch_inv _ _ _ _ I H))).
    pose proof (In_get _ _ Nd' Hi') as G'. rewrite Eid, G in G'. inversion G'; subst g2.
    rewrite (Q1 Ne), En. apply Sf in Hf'. lia.
  - destruct (epoch_sets _ _ _ _ g I H Hs) as [NT _]. destruct (NT Np) as (_ & _ & E3).
    destruct Hev as [->|[Tp _]]; [|tauto]. apply Fe; auto. apply cnt_all_in. apply cnt_all_in in Hf'. lia.
Qed.

Lemma handle_finexact : forall cfg s o s' v, Inv s -> FinExact s ->
  match o with OEpoch dt _ => epoch_qualified (advance s dt) | _ => True end ->
  handle cfg s o = Ok (s', v) -> FinExact s'.
Proof.
  intros cfg s o s' v I Fe Q H.
  assert (Same : s_gauges s' = s_gauges s -> s_fin s' = s_fin s -> FinExact s').
  { intros E1 E2 g. rewrite E1, E2. apply Fe. }
  destruct o; cbn [handle] in H.
  - destruct (negb (valid_raw raw) || (n <? 0) || (two64 <=? n) || (u <? 0)); [discriminate|].
    destruct (create_gauge cfg s u perp denom dur (mk_coins raw) start n) as [s1|] eqn:C; [|discriminate]. inversion H; subst s1 v; clear H.
    unfold create_gauge in C.
    destruct ((n =? 0) && negb perp); [discriminate|]. destruct (negb (distributable cfg s (mk_coins raw))); [discriminate|].
    destruct (negb (mem dur (cfg_lockable cfg))); [discriminate|]. destruct (negb (mem denom (cfg_supplied cfg))); [discriminate|].
    destruct (bank_send (s_bank s) u MODULE (mk_coins raw)); [|discriminate].
    destruct (add_ref (s_up s) start (s_last_gauge s + 1)); [|discriminate]. inversion C; subst s'; clear C.
    intros g Hi P Hf. cbn [s_gauges s_fin] in *. apply set_gauge_in in Hi. destruct Hi as [->|Hi]; [|apply Fe; auto].
    cbn [g_id] in Hf. exfalso. apply cnt_all_in in Hf.
    assert (Or : in_range s (s_last_gauge s + 1) = false) by (unfold in_range; apply andb_false_iff; right; apply Z.leb_gt; lia).
    destruct (out_of_range_zero _ _ I Or) as (_ & _ & Z3). lia.
  - destruct (negb (valid_raw raw) || (u <? 0)); [discriminate|].
    destruct (add_to_gauge cfg s u (mk_coins raw) g) as [s1|] eqn:C; [|discriminate]. inversion H; subst s1 v; clear H.
    unfold add_to_gauge in C. destruct (negb (distributable cfg s (mk_coins raw))); [discriminate|].
    destruct (get_gauge (s_gauges s) g) as [g0|] eqn:G; [|discriminate].
    destruct (is_finished_gauge g0 (s_now s)); [discriminate|].
    destruct (bank_send (s_bank s) u MODULE (mk_coins raw)); [|discriminate]. inversion C; subst s'; clear C.
    intros g1 Hi P Hf. cbn [s_gauges s_fin] in *. apply set_gauge_in in Hi. destruct Hi as [->|Hi]; [|apply Fe; auto].
    cbn [g_id g_perp g_filled g_n] in *. destruct (get_gauge_some _ _ _ G) as [_ Hi0]. apply (Fe g0 Hi0 P Hf).
  - unfold create_lock in H. destruct ((amt <=? 0) || (u <? 0)); [discriminate|]. inversion H; subst. apply Same; reflexivity.
  - unfold add_to_lock in H. destruct (find_lock (s_locks s) id); [|discriminate]. destruct (amt <=? 0); [discriminate|].
    inversion H; subst. apply Same; reflexivity.
  - unfold begin_unlock in H. destruct (find_lock (s_locks s) id) as [l|]; [|discriminate].
    destruct (amt <? 0); [discriminate|]. destruct (l_amt l <? amt); [discriminate|]. destruct (l_unl l); [discriminate|].
    destruct (negb (amt =? 0) && negb (amt =? l_amt l)); inversion H; subst; apply Same; reflexivity.
  - unfold withdraw in H. destruct (find_lock (s_locks s) id) as [l|]; [|discriminate].
    destruct (negb (l_unl l)); [discriminate|]. destruct (s_now s <? l_end l); [discriminate|]. inversion H; subst. apply Same; reflexivity.
  - unfold set_receiver in H. destruct (find_lock (s_locks s) id) as [l|]; [|discriminate].
    destruct (to <? 0); [discriminate|].
    cbv zeta in H. match type of H with context [if ?c then Err E_LOCK else _] => destruct c end; [discriminate|].
    inversion H; subst. apply Same; reflexivity.
  - inversion H; subst. apply Same; reflexivity.
  - inversion H; subst. apply Same; reflexivity.
  - destruct (after_epoch_end cfg (thr_fun thr) (advance s dt)) as [s1|] eqn:E; [|discriminate]. inversion H; subst s1 v.
    eapply epoch_finexact; [apply advance_inv; eauto| |exact Q|exact E].
    intros g. cbn. apply Fe.
  - destruct (negb (valid_raw raw) || (n <? 0) || (two64 <=? n) || (u <? 0)); [discriminate|].
    destruct (create_nolock_gauge cfg s u perp pool (mk_coins raw) start n) as [s1|] eqn:C; [|discriminate]. inversion H; subst s1 v; clear H.
    unfold create_nolock_gauge in C.
    destruct ((n =? 0) && negb perp); [discriminate|]. destruct (negb (distributable cfg s (mk_coins raw))); [discriminate|].
    destruct (pool <=? 0); [discriminate|]. destruct (negb (mem pool (cfg_clpools cfg))); [discriminate|].
    destruct (bank_send (s_bank s) u MODULE (mk_coins raw)); [|discriminate].
    destruct (add_ref (s_up s) start (s_last_gauge s + 1)); [|discriminate]. inversion C; subst s'; clear C.
    intros g Hi P Hf. cbn [s_gauges s_fin] in *. apply set_gauge_in in Hi. destruct Hi as [->|Hi]; [|apply Fe; auto].
    cbn [g_id] in Hf. exfalso. apply cnt_all_in in Hf.
    assert (Or : in_range s (s_last_gauge s + 1) = false) by (unfold in_range; apply andb_false_iff; right; apply Z.leb_gt; lia).
    destruct (out_of_range_zero _ _ I Or) as (_ & _ & Z3). lia.
Qed.

Lemma run_finexact : forall cfg ops s, cfg_ok cfg -> Inv s -> FinExact s -> all_qualified cfg s ops ->
  FinExact (run cfg s ops).
Proof.
  unfold run. induction ops as [|o r IH]; intros s Hc I Fe Q; cbn [fold_left]; auto.
  destruct Q as [Q1 Q2]. apply IH; auto; [apply step_inv; auto|].
  unfold step. destruct (handle cfg s o) as [[s' v]|e] eqn:H; cbn [fst].
  - eapply handle_finexact; eauto.
  - destruct o; auto.
Qed.

Theorem finishes_after_exactly_N : forall cfg funds ops, cfg_ok cfg ->
  all_qualified cfg (init_state funds) ops -> FinExact (run cfg (init_state funds) ops).
Proof. intros. apply run_finexact; auto; [apply init_inv|]. intros g []. Qed.

(* ------------------------------------------------------------------ statements over reachable states *)
Lemma never_overpays : forall cfg funds ops g d, cfg_ok cfg ->
  In g (s_gauges (run cfg (init_state funds) ops)) -> amount_of (g_dist g) d <= amount_of (g_coins g) d.
Proof.
  intros cfg funds ops g d Hc Hi. pose proof (I_gauges _ (reachable_inv cfg funds ops Hc)) as Ig.
  rewrite Forall_forall in Ig. apply (Ig g Hi).
Qed.

(* a checkable form of the hypothesis of the finishing theorem (for the non-vacuity example) *)
Lemma mem_cnt : forall x l, mem x l = true <-> 0 < cnt l x.
Proof.
  unfold mem. induction l as [|y r IH]; cbn [existsb cnt]; [split; [discriminate|lia]|].
  pose proof (cnt_nonneg r x). rewrite orb_true_iff, IH, Z.eqb_sym. destruct (y =? x).
  - split; intros; [lia|left; reflexivity].
  - split; [intros [X|X]; [discriminate|lia]|intros; right; lia].
Qed.

Definition takes_part_b (s : state) (g : gauge) : bool :=
  mem (g_id g) (refs_all (s_act s)) || (mem (g_id g) (refs_all (s_up s)) && (g_start g <=? s_now s)).

Lemma takes_part_b_spec : forall s g, takes_part s g -> takes_part_b s g = true.
Proof.
  intros s g [_ [H|[H St]]]; unfold takes_part_b; apply orb_true_iff.
  - left. apply mem_cnt. exact H.
  - right. apply andb_true_iff. split; [apply mem_cnt; exact H|apply Z.leb_le; auto].
Qed.

Definition epoch_qualified_b (s0 : state) : bool :=
  forallb (fun g => negb (takes_part_b s0 g && negb (g_perp g)) ||
                    ((negb (g_pool g =? 0) || negb (is_empty (elig (s_locks s0) g))) && (sum_locks (elig (s_locks s0) g) <? 2 ^ max_int_bits)))
          (s_gauges s0).

Lemma epoch_qualified_b_spec : forall s0, epoch_qualified_b s0 = true -> epoch_qualified s0.
Proof.
  unfold epoch_qualified_b, epoch_qualified. intros s0 H g Tp P. rewrite forallb_forall in H.
  specialize (H g (proj1 Tp)). rewrite (takes_part_b_spec _ _ Tp), P in H. cbn [negb andb orb] in H.
  apply andb_true_iff in H. destruct H as [H1 H2]. apply Z.ltb_lt in H2. split; auto.
  apply orb_true_iff in H1. destruct H1 as [H1|H1].
  - left. apply negb_true_iff, Z.eqb_neq in H1. auto.
  - right. intros E. rewrite E in H1. discriminate.
Qed.

Fixpoint all_qualified_b (cfg : config) (s : state) (ops : list op) : bool :=
  match ops with
  | [] => true
  | o :: r =>
      match o with OEpoch dt _ => epoch_qualified_b (advance s dt) | _ => true end &&
      all_qualified_b cfg (fst (fst (step cfg s o))) r
  end.

Lemma all_qualified_b_spec : forall cfg ops s, all_qualified_b cfg s ops = true -> all_qualified cfg s ops.
Proof.
  induction ops as [|o r IH]; intros s H; cbn [all_qualified_b all_qualified] in *; auto.
  apply andb_true_iff in H. destruct H as [H1 H2]. split; [|apply IH; auto].
  destruct o; auto. apply epoch_qualified_b_spec; auto.
Qed.
