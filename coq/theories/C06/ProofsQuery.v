(* C06 proofs, part 4: every iterator of iterator.go returns exactly the live locks that match its arguments. *)
From Coq Require Import ZArith List Bool Lia Permutation.
Import ListNotations.
From Osmo Require Import C06.Model C06.Proofs C06.ProofsAcc C06.ProofsRefs.
Open Scope Z_scope.

(* ------------------------------------------------------------------ the sort used by [iterate] is a permutation *)
Lemma vi_insert_perm : forall x l, Permutation (vi_insert x l) (x :: l).
Proof.
  induction l as [|y r IH]; cbn [vi_insert]; [apply Permutation_refl|].
  destruct (vi_leb x y); [apply Permutation_refl|].
  eapply Permutation_trans; [apply perm_skip, IH|apply perm_swap].
Qed.
Lemma vi_sort_perm : forall l, Permutation (vi_sort l) l.
Proof.
  induction l as [|x r IH]; cbn; [apply perm_nil|].
  eapply Permutation_trans; [apply vi_insert_perm|apply perm_skip, IH].
Qed.

Lemma NoDup_map_inj : forall (A B : Type) (f : A -> B) (l : list A),
  NoDup l -> (forall x y, In x l -> In y l -> f x = f y -> x = y) -> NoDup (map f l).
Proof.
  induction l as [|a r IH]; cbn; intros ND Hinj; [constructor|].
  inversion ND as [|? ? Hn ND']; subst. constructor.
  - intros Hi. apply in_map_iff in Hi. destruct Hi as [y [E Hy]].
    assert (y = a) by (apply Hinj; auto). subst. contradiction.
  - apply IH; [assumption|]. intros x y Hx Hy. apply Hinj; auto.
Qed.

(* ------------------------------------------------------------------ the keys of one lock *)
Definition kind_is_ts (kd : kind) : bool :=
  match kd with KLockTs | KAccTs | KDenomTs | KAccDenomTs => true | _ => false end.
Definition kind_acc (kd : kind) (l : lock) : Z :=
  match kd with KAccDur | KAccDenomDur | KAccTs | KAccDenomTs => l_owner l | _ => 0 end.
Definition kind_denom (kd : kind) (l : lock) : Z :=
  match kd with KDenomDur | KAccDenomDur | KDenomTs | KAccDenomTs => l_denom l | _ => 0 end.
Definition kind_val (kd : kind) (l : lock) : Z := if kind_is_ts kd then l_end l else dur_key (l_dur l).

(* the key of lock l in the family kd, if it has one: duration families always, end-time families when unlocking *)
Lemma ref_keys_In : forall l k, In k (ref_keys l) <->
  k = mkKey (is_unlocking l) (k_kind k) (kind_acc (k_kind k) l) (kind_denom (k_kind k) l) (kind_val (k_kind k) l)
  /\ (kind_is_ts (k_kind k) = true -> is_unlocking l = true).
Proof.
  intros l k. unfold ref_keys, lock_ref_keys, duration_ref_keys. destruct (is_unlocking l) eqn:U; cbn [app In]; split.
  - intros H. repeat (destruct H as [<-|H]; [split; [reflexivity|auto]|]). destruct H.
  - intros [E _]. destruct k as [u kd a d v]. cbn [k_kind] in E. injection E as -> -> -> ->.
    destruct kd; cbn; tauto.
  - intros H. repeat (destruct H as [<-|H]; [split; [reflexivity|cbn; discriminate]|]). destruct H.
  - intros [E T]. destruct k as [u kd a d v]. cbn [k_kind] in *. injection E as -> -> -> ->.
    destruct kd; cbn in *; try tauto; specialize (T eq_refl); discriminate.
Qed.

(* ------------------------------------------------------------------ iterate = definitional filter *)
(* the locks selected by an iterator over the family (unl, kd, acc, dn) with value predicate p *)
Definition matches (unl : bool) (kd : kind) (acc dn : Z) (p : Z -> bool) (l : lock) : bool :=
  Bool.eqb (is_unlocking l) unl && (negb (kind_is_ts kd) || unl) &&
  (kind_acc kd l =? acc) && (kind_denom kd l =? dn) && p (kind_val kd l).

Lemma in_group_iff : forall unl kd acc dn k, in_group unl kd acc dn k = true <->
  k_kind k = kd /\ k_unl k = unl /\ k_acc k = acc /\ k_denom k = dn.
Proof.
  intros. unfold in_group. split.
  - intros H. destruct (kind_eqb (k_kind k) kd) eqn:E1; [|discriminate]. apply kind_eqb_eq in E1.
    destruct (Bool.eqb (k_unl k) unl) eqn:E2; [|discriminate]. apply Bool.eqb_prop in E2.
    destruct (k_acc k =? acc) eqn:E3; [|discriminate]. zb. auto.
  - intros [<- [<- [<- <-]]]. rewrite (proj2 (kind_eqb_eq _ _) eq_refl), Bool.eqb_reflx, !Z.eqb_refl. reflexivity.
Qed.

Lemma iterate_In : forall refs unl kd acc dn p id,
  In id (iterate refs unl kd acc dn p) <-> exists v, In (mkKey unl kd acc dn v, id) refs /\ p v = true.
Proof.
  intros. unfold iterate. rewrite in_map_iff. split.
  - intros [[v i] [E H]]. cbn in E. subst i. apply (Permutation_in _ (vi_sort_perm _)) in H.
    apply in_map_iff in H. destruct H as [[k i] [E H]]. cbn in E. injection E as <- <-.
    apply filter_In in H. destruct H as [H1 H2]. cbn [fst] in H2.
    destruct (in_group unl kd acc dn k) eqn:G; [|discriminate]. apply in_group_iff in G. destruct G as [<- [<- [<- <-]]].
    exists (k_val k). destruct k; auto.
  - intros [v [H1 H2]]. exists (v, id). split; [reflexivity|].
    apply (Permutation_in _ (Permutation_sym (vi_sort_perm _))). apply in_map_iff.
    exists (mkKey unl kd acc dn v, id). split; [reflexivity|]. apply filter_In. split; [assumption|]. cbn [fst].
    rewrite (proj2 (in_group_iff unl kd acc dn _)) by (cbn; auto). assumption.
Qed.

Lemma matches_iff : forall unl kd acc dn p l, matches unl kd acc dn p l = true <->
  is_unlocking l = unl /\ (kind_is_ts kd = true -> unl = true) /\ kind_acc kd l = acc /\ kind_denom kd l = dn /\ p (kind_val kd l) = true.
Proof.
  intros. unfold matches. rewrite !andb_true_iff, orb_true_iff, negb_true_iff, !Z.eqb_eq. split.
  - intros [[[[H1 H2] H3] H4] H5]. apply Bool.eqb_prop in H1. repeat split; auto. intros T. destruct H2; congruence.
  - intros [H1 [H2 [H3 [H4 H5]]]]. repeat split; auto; [subst; apply Bool.eqb_reflx|].
    destruct (kind_is_ts kd); [right; auto|left; reflexivity].
Qed.

Theorem iterate_exact : forall s unl kd acc dn p, Inv s ->
  (forall id, In id (iterate (s_refs s) unl kd acc dn p) <-> In id (map l_id (filter (matches unl kd acc dn p) (s_locks s))))
  /\ NoDup (iterate (s_refs s) unl kd acc dn p).
Proof.
  intros s unl kd acc dn p [I0 _ _ [ND R]]. split.
  - intros id. rewrite iterate_In, in_map_iff. split.
    + intros [v [H1 H2]]. apply R in H1. unfold keys_of, excluded in H1.
      destruct (get_lock (s_locks s) id) as [l|] eqn:G; [|destruct H1].
      destruct (get_lock_In _ _ _ G) as [Hin Hid]. exists l. split; [assumption|]. apply filter_In. split; [assumption|].
      apply ref_keys_In in H1. cbn [k_kind] in H1. destruct H1 as [E T]. injection E as E1 E2 E3 E4.
      apply matches_iff. repeat split; auto; try congruence. intros Hts. rewrite E1. auto.
    + intros [l [Hid Hf]]. apply filter_In in Hf. destruct Hf as [Hin M]. apply matches_iff in M.
      destruct M as [M1 [M2 [M3 [M4 M5]]]]. exists (kind_val kd l). split; [|assumption].
      apply R. unfold keys_of, excluded. subst id. rewrite (In_get_lock _ _ (i_nodup _ _ I0) Hin).
      apply ref_keys_In. cbn [k_kind]. split; [congruence|]. intros T. rewrite M1. auto.
  - unfold iterate. apply NoDup_map_inj.
    + apply (Permutation_NoDup (Permutation_sym (vi_sort_perm _))).
      apply NoDup_map_inj; [apply NoDup_filter; assumption|].
      intros [k1 i1] [k2 i2] H1 H2 E. cbn in E. injection E as E1 E2. subst i2.
      apply filter_In in H1, H2. destruct H1 as [H1 G1], H2 as [H2 G2]. cbn [fst] in *.
      destruct (in_group unl kd acc dn k1) eqn:Q1; [|discriminate]. destruct (in_group unl kd acc dn k2) eqn:Q2; [|discriminate].
      apply in_group_iff in Q1, Q2. destruct k1, k2. cbn in *. destruct Q1 as [? [? [? ?]]], Q2 as [? [? [? ?]]]. subst. reflexivity.
    + intros [v1 i1] [v2 i2] H1 H2 E. cbn in E. subst i2.
      apply (Permutation_in _ (vi_sort_perm _)) in H1, H2. apply in_map_iff in H1, H2.
      destruct H1 as [[k1 j1] [E1 H1]], H2 as [[k2 j2] [E2 H2]]. cbn in E1, E2. injection E1 as <- <-. injection E2 as <- <-.
      apply filter_In in H1, H2. destruct H1 as [H1 G1], H2 as [H2 G2]. cbn [fst] in *.
      destruct (in_group unl kd acc dn k1) eqn:Q1; [|discriminate]. destruct (in_group unl kd acc dn k2) eqn:Q2; [|discriminate].
      apply in_group_iff in Q1, Q2. apply R in H1, H2. unfold keys_of, excluded in H1, H2.
      destruct (get_lock (s_locks s) j2) as [l|]; [|destruct H1].
      apply ref_keys_In in H1, H2. destruct H1 as [H1 _], H2 as [H2 _].
      destruct Q1 as [K1 _], Q2 as [K2 _]. rewrite K1 in H1. rewrite K2 in H2. rewrite H1, H2. reflexivity.
Qed.

(* getLocksFromIterator never panics: every referenced id has a lock record *)
Lemma locks_of_ids_ok : forall s ids, (forall id, In id ids -> get_lock (s_locks s) id <> None) ->
  exists ls, locks_of_ids s ids = Ok ls /\ map l_id ls = ids.
Proof.
  induction ids as [|id r IH]; intros H; [exists []; split; reflexivity|].
  cbn [locks_of_ids]. destruct (get_lock (s_locks s) id) as [l|] eqn:G; [|exfalso; apply (H id); [left; reflexivity|assumption]].
  destruct IH as [ls [E1 E2]]; [intros; apply H; right; assumption|].
  exists (l :: ls). unfold bind. rewrite E1. split; [reflexivity|]. cbn. rewrite E2. apply get_lock_In in G. destruct G as [_ ->]. reflexivity.
Qed.

Theorem iterate_locks_ok : forall s unl kd acc dn p, Inv s ->
  exists ls, locks_of_ids s (iterate (s_refs s) unl kd acc dn p) = Ok ls /\ map l_id ls = iterate (s_refs s) unl kd acc dn p.
Proof.
  intros s unl kd acc dn p I. apply locks_of_ids_ok. intros id Hi.
  apply (proj1 (iterate_exact s unl kd acc dn p I)) in Hi. apply in_map_iff in Hi. destruct Hi as [l [E Hf]].
  apply filter_In in Hf. destruct Hf as [Hin _]. subst id. rewrite (In_get_lock _ _ (i_nodup _ _ (inv0 _ I)) Hin). discriminate.
Qed.

(* ------------------------------------------------------------------ statements over histories *)
(* every reference entry belongs to a live lock and one of its keys, and vice versa; no entry is duplicated *)
Lemma refs_exact : forall t0 fund allowed ops, 0 < t0 -> Forall op_sender_ok ops ->
  let s := reachable t0 fund allowed ops in
  NoDup (s_refs s) /\
  forall k id, In (k, id) (s_refs s) <-> exists l, In l (s_locks s) /\ l_id l = id /\ In k (ref_keys l).
Proof.
  intros t0 fund allowed ops Ht W s. pose proof (reachable_Inv t0 fund allowed ops Ht W) as I. fold s in I.
  destruct (inv_refs _ I) as [ND R]. split; [assumption|]. intros k id. rewrite R. unfold keys_of, excluded. split.
  - destruct (get_lock (s_locks s) id) as [l|] eqn:G; [|intros []]. intros H. destruct (get_lock_In _ _ _ G). exists l. auto.
  - intros [l [Hin [Hid Hk]]]. subst id. rewrite (In_get_lock _ _ (i_nodup _ _ (inv0 _ I)) Hin). assumption.
Qed.

(* hence every iterator returns exactly (and once each) the live locks matching its arguments *)
Lemma queries_exact : forall t0 fund allowed ops unl kd acc dn p, 0 < t0 -> Forall op_sender_ok ops ->
  let s := reachable t0 fund allowed ops in
  (forall id, In id (iterate (s_refs s) unl kd acc dn p) <-> In id (map l_id (filter (matches unl kd acc dn p) (s_locks s))))
  /\ NoDup (iterate (s_refs s) unl kd acc dn p)
  /\ exists ls, locks_of_ids s (iterate (s_refs s) unl kd acc dn p) = Ok ls /\ map l_id ls = iterate (s_refs s) unl kd acc dn p.
Proof.
  intros t0 fund allowed ops unl kd acc dn p Ht W s. pose proof (reachable_Inv t0 fund allowed ops Ht W) as I. fold s in I.
  destruct (iterate_exact s unl kd acc dn p I). split; [assumption|split; [assumption|apply iterate_locks_ok; assumption]].
Qed.

(* two instances spelled out *)
Lemma account_longer_duration_denom_exact : forall t0 fund allowed ops unl a dn d id, 0 < t0 -> Forall op_sender_ok ops ->
  let s := reachable t0 fund allowed ops in
  In id (it_acc_longer_duration_denom s unl a dn d) <->
  exists l, In l (s_locks s) /\ l_id l = id /\ is_unlocking l = unl /\ l_owner l = a /\ l_denom l = dn /\ dur_key d <= dur_key (l_dur l).
Proof.
  intros t0 fund allowed ops unl a dn d id Ht W s. subst s. unfold it_acc_longer_duration_denom.
  rewrite (proj1 (queries_exact t0 fund allowed ops unl KAccDenomDur a dn (p_longer d) Ht W)).
  rewrite in_map_iff. split.
  - intros [l [E H]]. apply filter_In in H. destruct H as [Hin M]. apply matches_iff in M. cbn in M.
    destruct M as [M1 [_ [M2 [M3 M4]]]]. exists l. repeat split; auto. apply Z.leb_le; exact M4.
  - intros [l [Hin [E [M1 [M2 [M3 M4]]]]]]. exists l. split; [assumption|]. apply filter_In. split; [assumption|].
    apply matches_iff. cbn. repeat split; auto; [discriminate|apply Z.leb_le; exact M4].
Qed.

Lemma lock_iterator_before_time_exact : forall t0 fund allowed ops t id, 0 < t0 -> Forall op_sender_ok ops ->
  let s := reachable t0 fund allowed ops in
  In id (it_lock_before_time s t) <->
  exists l, In l (s_locks s) /\ l_id l = id /\ is_unlocking l = true /\ l_end l <= t.
Proof.
  intros t0 fund allowed ops t id Ht W s. subst s. unfold it_lock_before_time.
  rewrite (proj1 (queries_exact t0 fund allowed ops true KLockTs 0 0 (p_before t) Ht W)).
  rewrite in_map_iff. split.
  - intros [l [E H]]. apply filter_In in H. destruct H as [Hin M]. apply matches_iff in M. cbn in M.
    destruct M as [M1 [_ [_ [_ M4]]]]. exists l. repeat split; auto. apply Z.leb_le; exact M4.
  - intros [l [Hin [E [M1 M4]]]]. exists l. split; [assumption|]. apply filter_In. split; [assumption|].
    apply matches_iff. cbn. repeat split; auto. apply Z.leb_le; exact M4.
Qed.

(* ------------------------------------------------------------------ store.go: the composite queries *)
(* each query function of store.go concatenates the locks of one or two iterators; under the invariant it never fails and
   returns exactly the locks of those iterators (which [iterate_exact] characterises) *)
Ltac q_ok I :=
  repeat match goal with
  | |- context [locks_of_ids ?s (iterate (s_refs ?s) ?u ?k ?a ?d ?p)] =>
      let ls := fresh "ls" in let E1 := fresh "E" in let E2 := fresh "E" in
      destruct (iterate_locks_ok s u k a d p I) as [ls [E1 E2]]; rewrite E1; cbn [bind]
  end.

Lemma store_queries_ok : forall s a dn d t, Inv s ->
  (exists ls, q_account_locked_past_time s a t = Ok ls /\
     map l_id ls = it_acc_longer_duration s false a (past_duration s t) ++ it_acc_after_time s a t) /\
  (exists ls, q_account_locked_past_time_denom s a dn t = Ok ls /\
     map l_id ls = it_acc_longer_duration_denom s false a dn (past_duration s t) ++ it_acc_after_time_denom s a dn t) /\
  (exists ls, q_account_unlocked_before_time s a t = Ok ls /\
     map l_id ls = if t <? s_now s then it_acc_before_time s a t
                   else it_acc_shorter_duration s false a (t - s_now s) ++ it_acc_before_time s a t) /\
  (exists ls, q_account_locked_longer_duration s a d = Ok ls /\
     map l_id ls = it_acc_longer_duration s false a d ++ it_acc_longer_duration s true a d) /\
  (exists ls, q_account_locked_duration s a d = Ok ls /\
     map l_id ls = it_acc_duration s true a d ++ it_acc_duration s false a d) /\
  (exists ls, q_account_locked_longer_duration_denom s a dn d = Ok ls /\
     map l_id ls = it_acc_longer_duration_denom s false a dn d ++ it_acc_longer_duration_denom s true a dn d) /\
  (exists ls, q_account_locked_duration_not_unlocking_only s a dn d = Ok ls /\
     map l_id ls = it_acc_duration_denom s false a dn d) /\
  (exists ls, q_locks_past_time_denom s dn t = Ok ls /\
     map l_id ls = it_lock_longer_duration_denom s false dn (past_duration s t) ++ it_lock_after_time_denom s dn t) /\
  (exists ls, q_locks_longer_than_duration_denom s dn d = Ok ls /\
     map l_id ls = it_lock_longer_duration_denom s false dn d ++ it_lock_longer_duration_denom s true dn d) /\
  (exists ls, q_period_locks s = Ok ls /\ map l_id ls = it_lock s false ++ it_lock s true) /\
  (exists ls, q_account_period_locks s a = Ok ls /\ map l_id ls = it_acc s false a ++ it_acc s true a) /\
  (exists ls, q_account_locked_coins s a = Ok ls /\ map l_id ls = it_acc s false a ++ it_acc_after_time s a (s_now s)) /\
  (exists ls, q_account_unlockable_coins s a = Ok ls /\ map l_id ls = it_acc_before_time s a (s_now s)) /\
  (exists ls, q_account_unlocking_coins s a = Ok ls /\ map l_id ls = it_acc_after_time s a (s_now s)) /\
  (exists ls, q_module_locked_coins s = Ok ls /\ map l_id ls = it_lock s false ++ it_lock_after_time s (s_now s)).
Proof.
  intros s a dn d t I.
  repeat split;
    unfold q_account_locked_past_time, q_account_locked_past_time_denom, q_account_unlocked_before_time,
      q_account_locked_longer_duration, q_account_locked_duration, q_account_locked_longer_duration_denom,
      q_account_locked_duration_not_unlocking_only, q_locks_past_time_denom, q_locks_longer_than_duration_denom,
      q_period_locks, q_account_period_locks, q_account_locked_coins, q_account_unlockable_coins, q_account_unlocking_coins,
      q_module_locked_coins,
      it_acc_longer_duration, it_acc_after_time, it_acc_longer_duration_denom, it_acc_after_time_denom, it_acc_before_time,
      it_acc_shorter_duration, it_acc_duration, it_acc_duration_denom, it_lock_longer_duration_denom, it_lock_after_time_denom,
      it_lock, it_acc, it_lock_after_time;
    try (destruct (t <? s_now s)); q_ok I; eexists; (split; [reflexivity|]); rewrite ?map_app; congruence.
Qed.

(* ------------------------------------------------------------------ composite queries as filters of the lock table *)
Lemma NoDup_app_disjoint : forall (a b : list Z), NoDup a -> NoDup b -> (forall x, In x a -> In x b -> False) -> NoDup (a ++ b).
Proof.
  induction a as [|x r IH]; cbn; intros b Ha Hb Hd; [assumption|].
  inversion Ha; subst. constructor.
  - rewrite in_app_iff. intros [H|H]; [contradiction|]. apply (Hd x); [left; reflexivity|assumption].
  - apply IH; [assumption|assumption|]. intros y Hy. apply Hd. right; assumption.
Qed.

(* the concatenation of a not-unlocking and an unlocking iterator (in either order): each matching lock exactly once *)
Lemma concat_exact : forall s u1 k1 a1 d1 p1 k2 a2 d2 p2, Inv s ->
  let ids := iterate (s_refs s) u1 k1 a1 d1 p1 ++ iterate (s_refs s) (negb u1) k2 a2 d2 p2 in
  NoDup ids /\
  forall id, In id ids <-> In id (map l_id (filter (fun l => matches u1 k1 a1 d1 p1 l || matches (negb u1) k2 a2 d2 p2 l) (s_locks s))).
Proof.
  intros s u1 k1 a1 d1 p1 k2 a2 d2 p2 I ids. subst ids.
  destruct (iterate_exact s u1 k1 a1 d1 p1 I) as [X1 N1]. destruct (iterate_exact s (negb u1) k2 a2 d2 p2 I) as [X2 N2]. split.
  - apply NoDup_app_disjoint; [assumption|assumption|]. intros x H1 H2. apply X1 in H1. apply X2 in H2.
    apply in_map_iff in H1, H2. destruct H1 as [l1 [E1 F1]], H2 as [l2 [E2 F2]]. apply filter_In in F1, F2.
    destruct F1 as [In1 M1], F2 as [In2 M2].
    assert (l1 = l2).
    { pose proof (In_get_lock _ _ (i_nodup _ _ (inv0 _ I)) In1) as G1. pose proof (In_get_lock _ _ (i_nodup _ _ (inv0 _ I)) In2) as G2.
      rewrite E1 in G1. rewrite E2 in G2. congruence. }
    subst l2. apply matches_iff in M1, M2. destruct M1 as [U1 _], M2 as [U2 _]. rewrite U1 in U2. destruct u1; discriminate.
  - intros id. rewrite in_app_iff, X1, X2, !in_map_iff. split.
    + intros [[l [E F]]|[l [E F]]]; apply filter_In in F; destruct F as [Hin M]; exists l; (split; [assumption|]); apply filter_In;
        (split; [assumption|]); rewrite M; [reflexivity|apply orb_true_r].
    + intros [l [E F]]. apply filter_In in F. destruct F as [Hin M]. apply orb_true_iff in M.
      destruct M as [M|M]; [left|right]; exists l; (split; [assumption|]); apply filter_In; auto.
Qed.

(* GetLocksLongerThanDurationDenom (the query the module's own accumulation invariant uses): exactly the live locks of the denomination
   with duration >= d, each once *)
Lemma locks_longer_than_duration_denom_exact : forall s dn d, Inv s ->
  exists ls, q_locks_longer_than_duration_denom s dn d = Ok ls /\ NoDup (map l_id ls) /\
  forall l, In l ls <-> In l (s_locks s) /\ l_denom l = dn /\ dur_key d <= dur_key (l_dur l).
Proof.
  intros s dn d I. destruct (store_queries_ok s 0 dn d 0 I) as [_ [_ [_ [_ [_ [_ [_ [_ [[ls [E M]] _]]]]]]]]].
  exists ls. split; [assumption|]. unfold it_lock_longer_duration_denom in M.
  destruct (concat_exact s false KDenomDur 0 dn (p_longer d) KDenomDur 0 dn (p_longer d) I) as [ND X]. cbn [negb] in ND, X.
  rewrite <- M in ND, X. split; [assumption|].
  assert (Hls : forall l, In l ls -> In l (s_locks s)).
  { unfold q_locks_longer_than_duration_denom, bind in E. mon E. injection E as <-.
    assert (K : forall ids out, locks_of_ids s ids = Ok out -> forall l, In l out -> In l (s_locks s)).
    { induction ids as [|i r IH]; cbn [locks_of_ids]; intros out H l Hl; [injection H as <-; destruct Hl|].
      unfold bind in H. mon H. injection H as <-. destruct Hl as [<-|Hl]; [apply get_lock_In in E; tauto|eapply IH; [reflexivity|assumption]]. }
    intros l Hl. apply in_app_iff in Hl. destruct Hl as [Hl|Hl]; [apply (K _ _ E1)|apply (K _ _ E0)]; assumption. }
  intros l. split.
  - intros Hl. split; [auto|]. assert (Hid : In (l_id l) (map l_id ls)) by (apply in_map; assumption).
    apply X in Hid. apply in_map_iff in Hid. destruct Hid as [l' [E' F]]. apply filter_In in F. destruct F as [Hin' Mt].
    assert (l' = l).
    { pose proof (In_get_lock _ _ (i_nodup _ _ (inv0 _ I)) Hin') as G1. pose proof (In_get_lock _ _ (i_nodup _ _ (inv0 _ I)) (Hls _ Hl)) as G2.
      rewrite E' in G1. congruence. }
    subst l'. apply orb_true_iff in Mt. destruct Mt as [Mt|Mt]; apply matches_iff in Mt; cbn in Mt; destruct Mt as [_ [_ [_ [Md Mp]]]];
      (split; [assumption|apply Z.leb_le; assumption]).
  - intros [Hin [Hd Hp]].
    assert (Hid : In (l_id l) (map l_id ls)).
    { apply X. apply in_map. apply filter_In. split; [assumption|]. apply orb_true_iff.
      destruct (is_unlocking l) eqn:U; [right|left]; apply matches_iff; cbn; (repeat split; auto; try discriminate); apply Z.leb_le; assumption. }
    apply in_map_iff in Hid. destruct Hid as [l' [E' Hl']].
    assert (l' = l).
    { pose proof (In_get_lock _ _ (i_nodup _ _ (inv0 _ I)) (Hls _ Hl')) as G1. pose proof (In_get_lock _ _ (i_nodup _ _ (inv0 _ I)) Hin) as G2.
      rewrite E' in G1. congruence. }
    subst l'. assumption.
Qed.
